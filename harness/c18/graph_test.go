// Package c18 binds spec/modules (C18) to the real modules.Manager.
//
// Graph part (this file).  TestGraph replays every DAG that Modules.tla enumerates: the real manager
// is built edge by edge (every edge of a DAG must be accepted), DependenciesForModule is compared
// with the closure TLC computed, every cycle-closing edge TLC lists is tried (self-edges first) and
// must be rejected without changing the graph.  A manager that accepted a cycle-closing edge is
// thrown away at once and never queried again (its dependency walk would not terminate).  Then
// InitModuleServices runs for every target subset; the order of init-function calls and the
// service map are written to $VERIF_OBS and validated by TLC (ModulesTrace.tla).
// TestGraphRandom does the same for random DAGs on up to 12 modules, everything through $VERIF_OBS.
package c18

import (
	"encoding/json"
	"errors"
	"fmt"
	"math/rand"
	"os"
	"sort"
	"testing"

	"github.com/go-kit/log"

	"verifharness/internal/abs"

	"github.com/grafana/dskit/modules"
	"github.com/grafana/dskit/services"
)

type gcase struct {
	N       int      `json:"n"`
	Edges   [][2]int `json:"edges"`
	Closing [][2]int `json:"closing"`
	Trans   [][]int  `json:"trans"`
}

type initObs struct {
	K       string    `json:"k"`
	Case    int       `json:"case"`
	N       int       `json:"n"`
	Edges   [][2]int  `json:"edges"`
	HasInit []int     `json:"hasinit"`
	HasSvc  []int     `json:"hassvc"`
	Runs    []initRun `json:"runs"`
	Deps    [][]int   `json:"deps"`
	Adds    []addTry  `json:"adds"`
}

// initRun is written as the tuple [targets, order, keys, err_at, err(0/1)] (TLC parses JSON slowly: keep it short).
type initRun struct {
	Targets []int    `json:"targets"`
	Order   []int    `json:"order"`
	Keys    []int    `json:"keys"`
	ErrAt   int      `json:"err_at"`
	Err     bool     `json:"err"`
}

func (r initRun) MarshalJSON() ([]byte, error) {
	e := 0
	if r.Err {
		e = 1
	}
	return json.Marshal([]any{r.Targets, r.Order, r.Keys, r.ErrAt, e})
}

type addTry struct {
	A        int   `json:"a"`
	B        []int `json:"B"`
	Accepted bool  `json:"accepted"`
}

// built is a real manager plus what the driver knows about how it was set up.
type built struct {
	mm      *modules.Manager
	n       int
	kind    []int // 0 svc, 1 init function returning no service, 2 no init function
	order   *[]int
	errAt   *int
	hasInit []int
	hasSvc  []int
}

func parseMod(name string) int {
	var m int
	fmt.Sscanf(name, "m%02d", &m)
	return m
}

func numbers(names []string) []int {
	out := make([]int, 0, len(names))
	for _, n := range names {
		out = append(out, parseMod(n))
	}
	return out
}

// build registers n modules of the given kinds and adds the edges in the given order, several
// dependencies per AddDependency call when group[i] says so.  It returns the first rejected edge.
func build(n int, kind []int, edges [][2]int, rng *rand.Rand) (*built, *[2]int) {
	b := &built{mm: modules.NewManager(log.NewNopLogger()), n: n, kind: kind, order: new([]int), errAt: new(int), hasInit: []int{}, hasSvc: []int{}}
	for m := 1; m <= n; m++ {
		m := m
		switch kind[m-1] {
		case 2:
			b.mm.RegisterModule(modName(m), nil)
		case 1:
			b.hasInit = append(b.hasInit, m)
			b.mm.RegisterModule(modName(m), func() (services.Service, error) {
				*b.order = append(*b.order, m)
				if *b.errAt == m {
					return nil, errors.New("scripted init failure")
				}
				return nil, nil
			}, modules.UserInvisibleModule)
		default:
			b.hasInit = append(b.hasInit, m)
			b.hasSvc = append(b.hasSvc, m)
			fn := func() (services.Service, error) {
				*b.order = append(*b.order, m)
				if *b.errAt == m {
					return nil, errors.New("scripted init failure")
				}
				return services.NewIdleService(nil, nil), nil
			}
			switch m % 3 { // user-visible, invisible, invisible but targetable: irrelevant for initialisation
			case 0:
				b.mm.RegisterModule(modName(m), fn)
			case 1:
				b.mm.RegisterModule(modName(m), fn, modules.UserInvisibleTargetableModule)
			default:
				b.mm.RegisterModule(modName(m), fn, modules.UserInvisibleModule)
			}
		}
	}
	// group consecutive edges with the same source into one call now and then
	for i := 0; i < len(edges); {
		j := i + 1
		for j < len(edges) && edges[j][0] == edges[i][0] && rng.Intn(2) == 0 {
			j++
		}
		to := make([]string, 0, j-i)
		for _, e := range edges[i:j] {
			to = append(to, modName(e[1]))
		}
		if err := b.mm.AddDependency(modName(edges[i][0]), to...); err != nil {
			return b, &edges[i]
		}
		i = j
	}
	return b, nil
}

func equalInts(a, b []int) bool {
	if len(a) != len(b) {
		return false
	}
	for i := range a {
		if a[i] != b[i] {
			return false
		}
	}
	return true
}

func shuffledEdges(edges [][2]int, rng *rand.Rand) [][2]int {
	es := append([][2]int{}, edges...)
	rng.Shuffle(len(es), func(i, j int) { es[i], es[j] = es[j], es[i] })
	if rng.Intn(2) == 0 { // keep edges of one source together so that multi-dependency calls happen
		sort.SliceStable(es, func(i, j int) bool { return es[i][0] < es[j][0] })
	}
	return es
}

func randomKinds(n int, rng *rand.Rand, plain bool) []int {
	k := make([]int, n)
	if plain {
		return k
	}
	for i := range k {
		switch rng.Intn(5) {
		case 0:
			k[i] = 1
		case 1:
			k[i] = 2
		}
	}
	return k
}

// safeDeps calls DependenciesForModule, turning a panic into an error.
func safeDeps(mm *modules.Manager, m int) (deps []int, err error) {
	defer func() {
		if p := recover(); p != nil {
			err = fmt.Errorf("panic: %v", p)
		}
	}()
	return numbers(mm.DependenciesForModule(modName(m))), nil
}

func runInit(b *built, targets []int, errAt int) (o initRun, perr error) {
	defer func() {
		if p := recover(); p != nil {
			perr = fmt.Errorf("panic: %v", p)
		}
	}()
	*b.order = (*b.order)[:0]
	*b.errAt = errAt
	names := make([]string, len(targets))
	for i, m := range targets {
		names[i] = modName(m)
	}
	sm, err := b.mm.InitModuleServices(names...)
	keys := []int{}
	for k, s := range sm {
		if s != nil {
			keys = append(keys, parseMod(k))
		}
	}
	sort.Ints(keys)
	return initRun{Targets: append([]int{}, targets...),
		Order: append([]int{}, *b.order...), Keys: keys, ErrAt: errAt, Err: err != nil}, nil
}

func subsetsOf(n int) [][]int {
	var out [][]int
	for mask := 0; mask < 1<<n; mask++ {
		var s []int
		for m := 1; m <= n; m++ {
			if mask&(1<<(m-1)) != 0 {
				s = append(s, m)
			}
		}
		out = append(out, s)
	}
	return out
}

func cycleSig(e [2]int) string {
	if e[0] == e[1] {
		return "AddDependency:self-edge-accepted"
	}
	return "AddDependency:cycle-accepted"
}

func TestGraph(t *testing.T) {
	in, obsPath := os.Getenv("VERIF_IN"), os.Getenv("VERIF_OBS")
	if in == "" || obsPath == "" {
		t.Skip("VERIF_IN / VERIF_OBS not set")
	}
	reps := abs.EnvInt("VERIF_REPS", 3)
	initEvery := abs.EnvInt("VERIF_INIT_EVERY", 1) // InitModuleServices on every k-th DAG (all DAGs get the cycle and closure checks)
	res := &abs.Result{}
	obs, err := abs.NewNDJSONWriter(obsPath)
	if err != nil {
		t.Fatal(err)
	}
	seed := abs.Seed()
	idx := 0
	nInit, nClosing, nRejected := 0, 0, 0
	err = abs.ReadNDJSON(in, func(line []byte) error {
		var c gcase
		if err := json.Unmarshal(line, &c); err != nil {
			return err
		}
		idx++
		res.Cases++
		rng := rand.New(rand.NewSource(seed*1000003 + int64(idx)))
		if len(c.Edges) > 0 {
			res.Nontrivial++
		}
		for rep := 0; rep < reps; rep++ {
			kinds := randomKinds(c.N, rng, rep == 0)
			edges := shuffledEdges(c.Edges, rng)
			fresh := func() *built {
				b, rej := build(c.N, kinds, edges, rng)
				if rej != nil {
					res.Mismatch(abs.Mismatch{Sig: "AddDependency:acyclic-edge-rejected", Case: c, Got: fmt.Sprintf("edge %v rejected", *rej), Want: "accepted (the graph stays acyclic)"})
					return nil
				}
				return b
			}
			b := fresh()
			if b == nil {
				return nil
			}
			// the closure
			for m := 1; m <= c.N; m++ {
				got, err := safeDeps(b.mm, m)
				want := append([]int{}, c.Trans[m-1]...)
				sort.Ints(want)
				if err != nil || !equalInts(got, want) {
					res.Mismatch(abs.Mismatch{Sig: "DependenciesForModule:not-the-transitive-closure", Case: c, Got: map[string]any{"m": m, "deps": got, "err": fmt.Sprint(err)}, Want: want})
				}
			}
			// every cycle-closing edge must be rejected and leave the graph alone (only the first repetition tries all of them)
			closing := append([][2]int{}, c.Closing...)
			sort.SliceStable(closing, func(i, j int) bool { return (closing[i][0] == closing[i][1]) && !(closing[j][0] == closing[j][1]) })
			if rep > 0 && len(closing) > 2 {
				rng.Shuffle(len(closing), func(i, j int) { closing[i], closing[j] = closing[j], closing[i] })
				closing = closing[:2]
			}
			closes := map[[2]int]bool{}
			for _, e := range c.Closing {
				closes[e] = true
			}
			for _, e := range closing {
				nClosing++
				to := []string{modName(e[1])}
				with := 0
				if rng.Intn(3) == 0 { // together with a harmless dependency: the whole call must be rejected
					for x := 1; x <= c.N; x++ {
						if !closes[[2]int{e[0], x}] {
							with = x
							to = []string{modName(x), modName(e[1])}
							break
						}
					}
				}
				err := b.mm.AddDependency(modName(e[0]), to...)
				if err == nil {
					res.Mismatch(abs.Mismatch{Sig: cycleSig(e), Case: c, Got: fmt.Sprintf("AddDependency(%s, %v) = nil", modName(e[0]), to), Want: "error: the edge closes a cycle"})
					if b = fresh(); b == nil { // never touch the poisoned manager again
						return nil
					}
					continue
				}
				nRejected++
				got, derr := safeDeps(b.mm, e[0])
				want := append([]int{}, c.Trans[e[0]-1]...)
				sort.Ints(want)
				if derr != nil || !equalInts(got, want) {
					res.Mismatch(abs.Mismatch{Sig: "AddDependency:rejected-call-changed-the-graph", Case: c, Got: map[string]any{"edge": e, "with": with, "deps": got}, Want: want})
					if b = fresh(); b == nil {
						return nil
					}
				}
			}
			if (int64(idx)+seed)%int64(initEvery) != 0 {
				continue
			}
			// InitModuleServices for every target subset, targets in a seeded order
			io := initObs{K: "mgr", Case: idx, N: c.N, Edges: c.Edges, HasInit: b.hasInit, HasSvc: b.hasSvc, Runs: []initRun{}, Deps: [][]int{}, Adds: []addTry{}}
			subsets := subsetsOf(c.N)
			if rep > 0 { // all subsets in the first repetition, a seeded third of them afterwards
				rng.Shuffle(len(subsets), func(i, j int) { subsets[i], subsets[j] = subsets[j], subsets[i] })
				subsets = subsets[:(len(subsets)+2)/3]
			}
			for _, T := range subsets {
				targets := append([]int{}, T...)
				rng.Shuffle(len(targets), func(i, j int) { targets[i], targets[j] = targets[j], targets[i] })
				errAt := 0
				if rep == 2 && rng.Intn(3) == 0 {
					errAt = 1 + rng.Intn(c.N)
				}
				o, perr := runInit(b, targets, errAt)
				if perr != nil {
					res.Mismatch(abs.Mismatch{Sig: "InitModuleServices:panic", Case: c, Got: perr.Error(), Want: "no panic", Note: fmt.Sprint(targets)})
					continue
				}
				nInit++
				io.Runs = append(io.Runs, o)
			}
			if err := obs.Write(io); err != nil {
				return err
			}
		}
		if idx%4999 == 1 {
			res.Sample(c)
		}
		return nil
	})
	if err != nil {
		res.Fatal = err.Error()
	}
	if err := obs.Close(); err != nil {
		res.Fatal = err.Error()
	}
	res.AddExtra("init_runs", nInit)
	res.AddExtra("observations", obs.N)
	res.AddExtra("closing_edges_tried", nClosing)
	res.AddExtra("closing_edges_rejected", nRejected)
	res.Write(t)
}

func TestGraphRandom(t *testing.T) {
	obsPath := os.Getenv("VERIF_OBS")
	if obsPath == "" {
		t.Skip("VERIF_OBS not set")
	}
	count := abs.EnvInt("VERIF_COUNT", 300)
	res := &abs.Result{}
	obs, err := abs.NewNDJSONWriter(obsPath)
	if err != nil {
		t.Fatal(err)
	}
	rng := rand.New(rand.NewSource(abs.Seed()*104729 + 7))
	for i := 0; i < count; i++ {
		n := 5 + rng.Intn(8)
		sh := randomDAG(rng, n, 0.1+0.4*rng.Float64())
		kinds := randomKinds(n, rng, i%3 == 0)
		b, rej := build(n, kinds, sh.edges, rng)
		if rej != nil {
			// the driver only adds edges of a DAG: report through the validator as an "add" observation
			_ = obs.Write(initObs{K: "mgr", Case: i + 1, N: n, Edges: sh.edges, HasInit: []int{}, HasSvc: []int{}, Runs: []initRun{}, Deps: [][]int{},
				Adds: []addTry{{A: rej[0], B: []int{rej[1]}, Accepted: false}}})
			res.Mismatch(abs.Mismatch{Sig: "AddDependency:acyclic-edge-rejected", Case: sh.edges, Got: fmt.Sprintf("edge %v rejected", *rej), Want: "accepted"})
			continue
		}
		res.Cases++
		if len(sh.edges) > 0 {
			res.Nontrivial++
		}
		io := initObs{K: "mgr", Case: i + 1, N: n, Edges: sh.edges, HasInit: b.hasInit, HasSvc: b.hasSvc, Runs: []initRun{}, Deps: [][]int{}, Adds: []addTry{}}
		for m := 1; m <= n; m++ {
			got, derr := safeDeps(b.mm, m)
			if derr != nil {
				res.Mismatch(abs.Mismatch{Sig: "DependenciesForModule:panic", Case: sh.edges, Got: derr.Error(), Want: "no panic"})
				got = []int{}
			}
			io.Deps = append(io.Deps, got)
		}
		
		for k := 0; k < 6; k++ {
			targets := rng.Perm(n)[:1+rng.Intn(n)]
			for j := range targets {
				targets[j]++
			}
			errAt := 0
			if rng.Intn(6) == 0 {
				errAt = 1 + rng.Intn(n)
			}
			o, perr := runInit(b, targets, errAt)
			if perr != nil {
				res.Mismatch(abs.Mismatch{Sig: "InitModuleServices:panic", Case: sh.edges, Got: perr.Error(), Want: "no panic"})
				continue
			}
			io.Runs = append(io.Runs, o)
		}
		// AddDependency attempts with arbitrary edges; whatever the answer, the manager is not used afterwards
		// (self-edges first: they are the shortest cycles)
		for k := 0; k < 8; k++ {
			a, bb := 1+rng.Intn(n), 1+rng.Intn(n)
			if k == 0 {
				bb = a
			}
			fb, rej := build(n, kinds, sh.edges, rng)
			if rej != nil {
				continue
			}
			B := []int{bb}
			to := []string{modName(bb)}
			if rng.Intn(3) == 0 {
				c := 1 + rng.Intn(n)
				B = append(B, c)
				to = append(to, modName(c))
			}
			err := fb.mm.AddDependency(modName(a), to...)
			io.Adds = append(io.Adds, addTry{A: a, B: B, Accepted: err == nil})
		}
		_ = obs.Write(io)
		if i%97 == 0 {
			res.Sample(map[string]any{"n": n, "edges": sh.edges})
		}
	}
	if err := obs.Close(); err != nil {
		res.Fatal = err.Error()
	}
	res.AddExtra("observations", obs.N)
	res.Write(t)
}
