CONSTANTS
  N = 2
  MaxB = 2
  WithInit = FALSE
  CanonInit = FALSE
  SelfEdgeChecked = FALSE
  EmitCases = FALSE
INIT Init
NEXT Next
VIEW view
INVARIANTS TypeOK
PROPERTIES CycleRejected
CHECK_DEADLOCK FALSE
