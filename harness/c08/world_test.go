// Package c08 records what real ring.Lifecycler / ring.BasicLifecycler instances sharing one
// in-memory store do (C08, C09): every kv.Client.CAS is attributed to its writer and logged at the
// store's commit; the driver's own actions, getter samples and the virtual time are logged too.
// spec/lifecycler/LifecyclerTrace.tla decides whether the recorded behaviour is one of the
// specification's.  Everything runs inside a testing/synctest bubble (virtual clock).
package c08

import (
	"context"
	"errors"
	"fmt"
	"io"
	"os"
	"path/filepath"
	"sort"
	"sync"
	"time"

	"github.com/go-kit/log"
	"github.com/grafana/dskit/kv"
	"github.com/grafana/dskit/kv/consul"
	"github.com/grafana/dskit/ring"

	"verifharness/internal/abs"
)

const ringKey = "ring"

type ev = map[string]any

// world is one trace: a shared store, up to n lifecycler identities, an event log.
type world struct {
	n         int
	numTokens int
	hbTimeout int
	t0        time.Time
	inner     *consul.Client
	closer    io.Closer
	mu        sync.Mutex // serialises every store operation: one CAS = one atomic step, no retries
	events    []ev
	dir       string
	univ      []uint32       // token universe (boundary embedding): rank -> uint32
	rank      map[uint32]int // inverse
	unknown   int            // tokens outside the universe seen (ranked 1000+k)
	inc       []*incarnation // current incarnation per identity (1-based)
	steps     int            // driver actions so far (each costs 1 ms of virtual time)
	rejNext   [2]int         // reject window (first call, length) of the next incarnation started
	blockFile bool           // while a dead incarnation is torn down no tokens file may change
	// CAS retries (conflict_test.go): a recorder whose planned call lost its first attempt is parked here until
	// the driver has run the interloper (the writer that overtook it) and resumes it
	parked       *recorder
	interloper   func(w *world)
	inInterloper bool
	lowestGen    bool // the scripted generators pick the LOWEST free tokens (deterministic generators propose the same candidates)
	stalls       int
	confNext     int // confAt of the next incarnation started
	fatal     string
}

var errDead = errors.New("verif: process is dead")
var errRejected = errors.New("verif: store rejects this client")

func newWorld(n, numTokens, hbTimeout int, dir string) *world {
	w := &world{n: n, numTokens: numTokens, hbTimeout: hbTimeout, dir: dir, t0: time.Now()}
	w.inner, w.closer = consul.NewInMemoryClient(ring.GetCodec(), log.NewNopLogger(), nil)
	e := abs.BoundaryEmbedding(16)
	w.univ = e.Pos
	w.rank = map[uint32]int{}
	for i, v := range w.univ {
		w.rank[v] = i
	}
	w.inc = make([]*incarnation, n+1)
	w.log(ev{"k": "reset", "n": n, "numTokens": numTokens, "hbTimeout": hbTimeout})
	return w
}

func (w *world) close() { _ = w.closer.Close() }

func (w *world) now() int { return int(time.Since(w.t0) / time.Second) }

func (w *world) log(e ev) { w.events = append(w.events, e) }

func (w *world) rankOf(v uint32) int {
	if r, ok := w.rank[v]; ok {
		return r
	}
	w.unknown++
	r := 1000 + w.unknown
	w.rank[v] = r
	return r
}

func (w *world) ranks(ts []uint32) []int {
	out := make([]int, 0, len(ts))
	for _, v := range ts {
		out = append(out, w.rankOf(v))
	}
	return out
}

func instID(i int) string { return fmt.Sprintf("i-%d", i) }

// maxN is the number of identities of the trace specification (unused ones stay absent).
const maxN = 5

var absentEntry = ev{"st": "ABSENT", "toks": []int{}, "ts": 0, "reg": 0, "ro": false}

// project turns a ring descriptor into the abstract ring: {"nil": key missing, "e": one entry per
// identity}.  Tokens are rank-compressed and kept in the ORDER the code stored them (sortedness is
// checked by TLC); anything the abstraction cannot express is flagged "bad" (TLC rejects it).
func (w *world) project(v any) any {
	out := make([]any, maxN)
	for i := range out {
		out[i] = absentEntry
	}
	d, ok := v.(*ring.Desc)
	if !ok || d == nil {
		return ev{"nil": true, "e": out}
	}
	known := 0
	for i := 1; i <= maxN; i++ {
		ing, ok := d.Ingesters[instID(i)]
		if !ok {
			continue
		}
		known++
		out[i-1] = w.entry(&ing, i)
	}
	res := ev{"nil": false, "e": out}
	if known != len(d.Ingesters) {
		var ids []string
		for id := range d.Ingesters {
			ids = append(ids, id)
		}
		sort.Strings(ids)
		res["bad"] = fmt.Sprintf("foreign entries %v", ids)
	}
	return res
}

func (w *world) entry(ing *ring.InstanceDesc, i int) ev {
	st := ing.State.String()
	e := ev{"st": st, "toks": w.ranks(ing.Tokens), "ts": w.sec(ing.Timestamp),
		"reg": w.sec(ing.RegisteredTimestamp), "ro": ing.ReadOnly}
	switch st {
	case "PENDING", "JOINING", "ACTIVE", "LEAVING":
	default:
		e["bad"] = "state " + st
	}
	if ing.Addr != addrOf(i) || ing.Zone != "z" || (ing.Id != "" && ing.Id != instID(i)) {
		e["bad"] = "identity " + ing.Addr + "/" + ing.Zone + "/" + ing.Id
	}
	return e
}

// sec maps a unix timestamp of the bubble to seconds since the start of the trace (0 stays 0: "unknown").
func (w *world) sec(unix int64) int {
	if unix == 0 {
		return 0
	}
	return int(unix - w.t0.Unix())
}

func addrOf(i int) string { return fmt.Sprintf("10.0.0.%d:1", i) }

func (w *world) filePath(i int) string { return filepath.Join(w.dir, fmt.Sprintf("tokens-%d.json", i)) }

// fileToks reads i's tokens file the way the code does; "bad" if it is unreadable garbage.
func (w *world) fileToks(i int) (toks []int, state string) {
	t, err := ring.LoadTokensFromFile(w.filePath(i))
	if err != nil {
		if os.IsNotExist(err) {
			return []int{}, "none"
		}
		return []int{}, "bad"
	}
	return w.ranks(t), "ok"
}

// ---------------------------------------------------------------------------------------------
// recorder: the kv.Client one incarnation of one lifecycler talks to.
type recorder struct {
	w       *world
	id      int
	dead    bool
	reject  bool
	writes  int    // committed or about-to-commit writes so far (crash points are counted in these)
	crashAt int    // 0 = never; j = die at the j-th write
	side    string // "before": the callback has run, the commit is not applied; "after": applied, then dead
	died    string // "", "mid" (inside a write, before commit), "after"
	calls   int    // CAS calls so far (reject windows are counted in these)
	rejFrom int    // 0 = none; the store rejects the calls rejFrom .. rejFrom+rejLen-1 of this incarnation
	rejLen  int
	confAt  int           // 0 = never; k = the first attempt of the k-th CAS call of this incarnation is lost
	stalled bool          // parked between the lost attempt and the retry
	resume  chan struct{} // closed by the driver after the interloper has run
}

var _ kv.Client = (*recorder)(nil)

func (r *recorder) List(ctx context.Context, prefix string) ([]string, error) {
	return r.w.inner.List(ctx, prefix)
}

func (r *recorder) Get(ctx context.Context, key string) (any, error) {
	r.w.mu.Lock()
	defer r.w.mu.Unlock()
	if r.dead {
		return nil, errDead
	}
	if r.reject {
		return nil, errRejected
	}
	return r.w.inner.Get(ctx, key)
}

func (r *recorder) Delete(ctx context.Context, key string) error {
	return errors.New("verif: lifecyclers never delete the key")
}

func (r *recorder) WatchKey(ctx context.Context, _ string, _ func(any) bool) { <-ctx.Done() }
func (r *recorder) WatchPrefix(ctx context.Context, _ string, _ func(string, any) bool) {
	<-ctx.Done()
}

func (r *recorder) CAS(ctx context.Context, key string, f func(in any) (out any, retry bool, err error)) error {
	w := r.w
	w.mu.Lock()
	defer w.mu.Unlock()
	if r.dead {
		return errDead
	}
	r.calls++
	if r.rejFrom > 0 && r.calls == r.rejFrom && !r.reject {
		r.reject = true // the window opens right before this call, wherever in a burst that is
		w.log(ev{"k": "kv", "i": r.id, "now": w.now(), "ok": false})
	} else if r.rejFrom > 0 && r.calls == r.rejFrom+r.rejLen && r.reject {
		r.reject = false
		w.log(ev{"k": "kv", "i": r.id, "now": w.now(), "ok": true})
	}
	if r.reject {
		w.log(ev{"k": "casfail", "i": r.id, "now": w.now()})
		return errRejected
	}
	if r.confAt > 0 && r.calls == r.confAt && !w.inInterloper && w.parked == nil {
		// the first attempt of this call loses a race: the callback is evaluated on the current content and its
		// result is thrown away (what a store does on a conflicting write); before the retry somebody else
		// writes (the driver's interloper).  Whatever the callback computed in the lost attempt must not
		// survive into the retry.
		cur, _ := w.inner.Get(ctx, key)
		func() {
			defer func() { _ = recover() }()
			_, _, _ = f(cur)
		}()
		w.log(ev{"k": "stall", "i": r.id, "now": w.now()})
		w.stalls++
		r.stalled = true
		r.resume = make(chan struct{})
		w.parked = r
		w.mu.Unlock()
		<-r.resume
		w.mu.Lock()
		r.stalled = false
		if r.dead {
			return errDead
		}
	}
	var inSnap, outSnap any = w.project(nil), nil
	calls := 0
	committed := false
	dieMid := false
	err := w.inner.CAS(ctx, key, func(in any) (any, bool, error) {
		calls++
		inSnap = w.project(in) // before the callback mutates it
		out, _, ferr := f(in)
		if ferr != nil {
			return nil, false, ferr // one attempt only: the store is never contended here
		}
		if out == nil {
			return nil, false, nil
		}
		outSnap = w.project(out)
		r.writes++
		if r.crashAt == r.writes && r.side == "before" {
			dieMid = true
			return nil, false, errDead
		}
		committed = true
		return out, false, nil
	})
	if dieMid {
		r.dead, r.died = true, "mid"
		return errDead
	}
	if calls != 1 {
		w.fatal = fmt.Sprintf("store CAS invoked the callback %d times", calls)
	}
	if err != nil && committed {
		w.fatal = "store CAS failed after the callback asked for a write: " + err.Error()
	}
	e := ev{"k": "cas", "i": r.id, "now": w.now(), "in": inSnap, "out": inSnap, "ok": committed}
	if committed {
		e["out"] = outSnap
	}
	w.log(e)
	if committed && r.crashAt == r.writes && r.side == "after" {
		r.dead, r.died = true, "after"
		return errDead
	}
	return err
}

// storeRing reads the store's current content (driver side, no event).
func (w *world) storeRing() *ring.Desc {
	w.mu.Lock()
	defer w.mu.Unlock()
	v, err := w.inner.Get(context.Background(), ringKey)
	if err != nil || v == nil {
		return nil
	}
	d, _ := v.(*ring.Desc)
	return d
}
