\* t_changehb: ChangeInstance steps incl. heartbeat class changes: 2 instances x <=2 tokens on 3 positions, ACTIVE/JOINING x {edge,stale}
\* (generated from UNIVERSES in checks/ringlookup_common.py: python3 checks/ringlookup_common.py --write-cfgs)
CONSTANTS
  NK = 4
  Gaps = {1}
  N = 2
  MaxTok = 2
  MaxIdle = 1
  Z = 0
  StateSet = {"ACTIVE", "JOINING"}
  HbSet = {"edge", "stale"}
  RFMax = 2
  Canon = 1
  WithRemove = TRUE
  WithChange = TRUE
  EmitSteps = TRUE
  Excl = {}
  EmitOn = TRUE
  EmitSets = FALSE
  XMax = 0
INIT Init
NEXT Next
VIEW View
INVARIANTS TypeOK SizeOK ZoneOK ClockwiseFirst SlackExact WalkDefsAgree QuorumIntersection ExpandedOK Emit
PROPERTIES MinimalDisruption OneInstanceSteps
ACTION_CONSTRAINT EmitStep
CHECK_DEADLOCK FALSE
