---------------------------- MODULE QuorumMultiTrace ----------------------------
(***************************************************************************)
(* code -> spec for DoMultiUntilQuorumWithoutSuccessfulContextCancellation:*)
(* traces recorded by harness/c11 TestRecordMulti ({id, cfg:{size,tol},    *)
(* steps:[obs, env, obs, ...]}) are accepted iff QuorumMulti has a         *)
(* behaviour taking the env steps in order, running its internal actions   *)
(* to quiescence in between and agreeing with every observation.           *)
(***************************************************************************)
EXTENDS QuorumMulti, Json

VARIABLES tr, l

Traces == ndJsonDeserialize("trace.ndjson")
T == Traces[tr]
AnyShapes == {<<1, 1>>}

TInit == /\ tr \in 1..Len(Traces)
         /\ l = 1
         /\ InitCfg([size |-> Traces[tr].cfg.size, tol |-> Traces[tr].cfg.tol])

SeqSet(q) == {q[a] : a \in 1..Len(q)}

ObsMatch(e) ==
  /\ \A i \in Inst : /\ calls[i] = e.calls[i]
                     /\ cleaned[i] = e.cleaned[i]
                     /\ e.ctx[i] = (IF calls[i] > 0 THEN ctx[i] ELSE "-")
  /\ e.bad = 0
  /\ e.ret.kind = ret.kind /\ e.ret.cls = ret.cls /\ e.ret.inst = ret.inst
  /\ SeqSet(e.ret.set) = ret.set /\ Len(e.ret.set) = Cardinality(ret.set)
  /\ e.end => Terminated

TNext ==
  /\ l <= Len(T.steps)
  /\ tr' = tr
  /\ LET e == T.steps[l]
     IN \/ /\ e.a = "obs" /\ Quiet /\ ObsMatch(e)
           /\ l' = l + 1 /\ UNCHANGED vars
        \/ /\ e.a = "obs" /\ IntNext /\ l' = l
        \/ /\ e.a = "finish" /\ Finish(e.i, e.o) /\ l' = l + 1
        \/ /\ e.a = "cancel" /\ ParentCancel /\ l' = l + 1
        \/ /\ e.a = "done" /\ CbDone(e.i) /\ l' = l + 1

Accepted == l = Len(T.steps) + 1
EmitAccepted == Accepted => PrintT(ToJson([acc |-> T.id]))
ModelObs == [calls |-> calls, cleaned |-> cleaned, ret |-> ret, ctx |-> ctx, terminated |-> Terminated]
EmitProgress == PrintT(ToJson([id |-> T.id, line |-> l, quiet |-> Quiet, obs |-> ModelObs]))
=============================================================================
