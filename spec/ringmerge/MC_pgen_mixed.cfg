\* C03 replay, partition ring: one partition and one owner together (change = nil only if neither map changed)
CONSTANTS
  NP = 1
  NO = 1
  NOwned = 1
  TsSet = {1, 2}
  PStates = {"Active"}
  LockTs = {0, 1}
  NowSet = {3}
INIT Init
NEXT Next
INVARIANTS CaseProps Emit
CHECK_DEADLOCK FALSE
