\* exchanges between two instances and hand-overs, 2 updates deep, sizes 0 and 1, three time stamps
CONSTANTS
  Inst = {1, 2}
  Ident = {1}
  Sizes = {0, 1}
  Lookbacks = {1}
  Times = {3, 4}
  Readers = {}
  MaxUpd = 2
  ZoneAware = TRUE
  Addrs = {1}
  Zones = {1, 2}
  Toks = {0, 1}
  Stamps = {0, 2, 3}
  States = {"ACTIVE"}
  Beats = {1, 2}
  Compute <- MCCompute
  InitDescs <- SwapInitDescs
INIT Init
NEXT NextSwap
INVARIANTS TypeOK UnobservableFast PendingSound
