CONSTANTS
  N = 4
  MaxTok = 2
  MaxM = 4
  MaxSize = 5
  MaxEvents = 1
INIT Init
NEXT Next
VIEW View
INVARIANTS TypeOK PSizeFormula PMonotone PConsistency PLookbackSuperset PLookbackMembers
CHECK_DEADLOCK FALSE
