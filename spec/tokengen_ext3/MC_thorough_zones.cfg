CONSTANTS
  HiCard = 2
  LoCard = 4
  MaxZ = 2
  R = 2
  MaxInst = 0
  NZ = 2
  MaxReq = 3
  MaxPureTaken = 8
  NForeign = 1
  CJ = FALSE
  PCT = 100
INIT Init
NEXT Next
VIEW view
INVARIANTS TypeOK ReserveShape ZoneCongruent ReservesDisjoint ZonesDisjointByCongruence
  PartitionTokens PartitionsDisjoint PoolIsUnion AllDistinct SpreadOwnReserve RingZoneCongruent PrefixWhenGrowing
PROPERTIES Step_NoPanic Step_InSpace Step_NoTaken Step_SortedUnique Step_AtMost Step_RandomCount
  Step_SpreadFromReserve Step_SpreadCount Step_SpreadLowestFirst Step_SpreadExact Step_ZoneCongruentOut
  Step_CanJoin Step_Reproducible Step_Family Step_Constructor Step_NeverShort Step_ReserveFixed
CHECK_DEADLOCK FALSE
