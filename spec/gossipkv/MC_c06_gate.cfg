\* C06 thorough (worker gates): Receive and Work are separate steps on node 1 - NotifyMsg hands the
\* update to the per-key worker / its channel of capacity 1 / drops it; the worker's merge and its
\* QueueBroadcast are two steps, so broadcasts can be queued out of version order and the version test
\* of Invalidates is exercised.
CONSTANTS
  N = 2
  NI = 2
  NK = 1
  MaxClock = 1
  Retention = 0
  T = 1
  MaxCas = 3
  MaxFaults = 0
  LiveStates = {"ACTIVE"}
  WatchNodes = {1, 2}
  HoldNodes = {}
  AllowRestart = FALSE
  AllowGarbage = FALSE
  AllowPartition = FALSE
  AllowJunkPP = FALSE
  GateNodes = {1}
  InboxCap = 1
  VersionTest = TRUE
  KeyTest = TRUE
  MaxDel = 0
  ObsoleteTimeout = 1
  LockKeys = {}
  ConsumeNet = FALSE
  Ideal = TRUE
  Ghost = TRUE
  Record = FALSE
  Quiesce = FALSE
  RunDepth = 0
  QRounds = 2
SPECIFICATION Spec
VIEW view
INVARIANTS TypeOK TombstonesInvisible InvalidationSafe NoInventedContent SentIsWritten WatcherNeverStale PrefixWatcherNeverStale VersionCountsChanges
PROPERTIES TombstonesForwarded NoResurrection GCOnlyExpired NoExpiredTombstoneStored OnlyChangesForwarded DeletedStaysDeleted RemovedOnlyWhenObsolete DeletedNotRevived
CHECK_DEADLOCK FALSE
