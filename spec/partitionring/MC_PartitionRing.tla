--------------------------- MODULE MC_PartitionRing ---------------------------
(* Constants of the exhaustive configurations of PartitionRing.tla (TLC .cfg files   *)
(* cannot express tuples).                                                           *)
EXTENDS PartitionRing

\* tokens: interleaved so that inactive/pending runs around the wrap occur
Tok3 == <<{1, 6}, {2, 4}, {3, 5}>>
Tok2 == <<{1, 4}, {2, 3}>>

\* <<waitOwnersCount, waitOwnersDuration, deleteInactiveAfter>> per lifecycler
Cfg2a == << <<1, 1, 1>>, <<2, 0, 2>> >>
Cfg2b == << <<0, 2, 0>>, <<1, 2, 1>> >>
Cfg3a == << <<1, 1, 1>>, <<2, 0, 2>>, <<1, 2, 1>> >>
Cfg3b == << <<2, 1, 2>>, <<0, 0, 1>>, <<1, 0, 0>> >>
Cfg2t == << <<1, 2, 1>>, <<2, 1, 2>> >>
Cfg3q == << <<1, 0, 1>>, <<1, 1, 1>>, <<0, 0, 1>> >>
Cfg2q == << <<1, 1, 1>>, <<2, 0, 1>> >>

\* partitions a lifecycler may be started for
HomesAll2 == <<{1, 2}, {1, 2}>>
HomesAll3 == <<{1, 2, 3}, {1, 2, 3}, {1, 2, 3}>>
Homes2q   == <<{1}, {1, 2}>>
Homes3r   == <<{1}, {2}, {3}>>
Homes3p2l == <<{1, 2}, {3}>>          \* 3 partitions, 2 lifecyclers: l1 moves between p1 and p2, l2 sits on p3
Homes2p3l == <<{1}, {1}, {2}>>        \* 2 partitions, 3 lifecyclers: two owners of p1, a third party on p2
Cfg3p2l == << <<1, 0, 1>>, <<0, 1, 1>> >>
Cfg2p3l == << <<2, 0, 1>>, <<2, 1, 1>>, <<1, 1, 1>> >>

(* Reachability witnesses: the action properties are implications; TLC must REFUTE each of the     *)
(* following "never" statements (MC_sm_witness.cfg, no VIEW: `act` is not part of it), which shows  *)
(* that their antecedents occur in the model: an automatic promotion, a deletion by another         *)
(* lifecycler, a request refused because of the lock, a reconciliation refused because of the lock, *)
(* and a refused illegal edge.                                                                      *)
WitAutoPromotion   == ~(act.kind = "ReconcileOwned" /\ act.res = "ok")
WitDeletion        == ~(act.kind = "ReconcileOthers" /\ act.res = "ok")
WitLockRefusal     == ~(act.kind \in {"EditorChangeState", "LcChangeState"} /\ act.res = "locked")
WitLockedReconcile == ~(act.kind = "ReconcileOwned" /\ act.res = "locked")
WitIllegalEdge     == ~(act.res = "notallowed")
=============================================================================
