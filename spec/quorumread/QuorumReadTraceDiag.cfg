CONSTANTS
  MaxN = 6
  NSet = {1, 2, 3, 4, 5, 6}
  MaxZ = 4
  Modes = {"default", "zone"}
  MinHedge = {0, 1, 3}
  Preds = {"nil", "never", "class", "all", "nottransient"}
  NoCancels = {TRUE, FALSE}
INIT TInit
NEXT TNext
INVARIANTS EmitProgress
CHECK_DEADLOCK FALSE
