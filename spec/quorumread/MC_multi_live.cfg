CONSTANTS
  Shapes <- ShapesQuick
SPECIFICATION Spec
PROPERTIES Termination
CHECK_DEADLOCK FALSE
