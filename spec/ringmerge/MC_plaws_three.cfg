\* C03 partition ring, thorough: all pairs of descriptors with THREE partitions, pair laws
CONSTANTS
  NP = 3
  NO = 0
  NOwned = 1
  TsSet = {1, 2}
  PStates = {"Active"}
  LockTs = {0}
  Arity = 2
  EmitConv = FALSE
INIT Init
NEXT Next
INVARIANTS PairLaws TripleLaws RawLaws EmitConvergence
CHECK_DEADLOCK FALSE
