---------------------------- MODULE RingMergeGen ----------------------------
(***************************************************************************)
(* C03 / C05 binding, spec -> code: every (mine, other, localCAS, now) of  *)
(* the configured universe is one case.  TLC prints, for each, what        *)
(* RingMerge!Merge demands (receiver afterwards, returned change, which    *)
(* entries were taken from the argument); harness/c03 executes the case on *)
(* real *ring.Desc objects through the exported Merge.                     *)
(* Equal-timestamp / different-content operands and colliding tokens ARE   *)
(* enumerated here (the specification says what happens to them) although  *)
(* the algebraic laws exclude them.                                        *)
(* The pair-level properties that need no proviso are checked on every     *)
(* case as well, so that they are decided on the collision universe too.   *)
(***************************************************************************)
EXTENDS RingMerge, Json

CONSTANTS TsSet, LiveSt,
          NowSet,            \* values of time.Now() for localCAS cases
          NSlices, Slice     \* only receivers d with Rank(d) % NSlices = Slice are enumerated (NSlices = 1: all)

VARIABLES mine, other, cas, now, phase
vars == <<mine, other, cas, now, phase>>

UMine == DescsOf(TsSet, LiveSt, FALSE)
URaw  == DescsOf(TsSet, LiveSt, TRUE)

Init == /\ mine \in {d \in UMine : Rank(d) % NSlices = Slice}
        /\ other = Empty /\ cas = FALSE /\ now = 0
        /\ phase = "seed"
Next == /\ phase = "seed"
        /\ phase' = "case"
        /\ mine' = mine
        /\ other' \in URaw
        /\ cas' \in BOOLEAN
        /\ now' \in IF cas' THEN NowSet ELSE {CHOOSE n \in NowSet : \A k \in NowSet : n >= k}
Spec == Init /\ [][Next]_vars

Case == phase = "case"

CaseProps ==
    Case => /\ ChangeShape(mine, other, cas, now)
            /\ NormalizeInvisible(mine, other)
            /\ Idem(mine, other)
            /\ NilIsNoop(mine, other)
            /\ NewestWins(mine, other)
            /\ RemovalWinsTies(mine, other)
            /\ \A i \in Inst : ZeroTimestamp(other[i])
            /\ ResolveDeterministic(Merge(mine, other, cas, now).pre)
            /\ LeftHasNoTokens(Merge(mine, other, cas, now).result)
            /\ TokenUnique(mine) => /\ CollisionRule(mine, other, cas, now)
                                    /\ TokenUnique(Merge(mine, other, cas, now).result)

JEntry(e) == [ts |-> e.ts, state |-> e.state, toks |-> e.toks]
JDesc(d)  == [i \in Inst |-> JEntry(d[i])]
Emit ==
    Case => LET m == Merge(mine, other, cas, now) IN
            PrintT(ToJson([kind |-> "merge", mine |-> JDesc(mine), other |-> JDesc(other), cas |-> cas, now |-> now,
                           result |-> JDesc(m.result), nil |-> m.change.nil, change |-> JDesc(m.change.d),
                           taken |-> m.taken, resolved |-> m.resolved]))
=============================================================================
