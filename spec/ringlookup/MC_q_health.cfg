\* q_health: see checks/ringlookup_common.py (UNIVERSES) for what this universe is for
CONSTANTS
  NK = 4
  Gaps = {1}
  N = 3
  MaxTok = 1
  MaxIdle = 0
  Z = 3
  StateSet = {"ACTIVE", "LEAVING", "PENDING"}
  HbSet = {"edge", "stale"}
  RFMax = 3
  Canon = 2
  WithRemove = FALSE
  EmitOn = TRUE
INIT Init
NEXT Next
VIEW View
INVARIANTS TypeOK SizeOK ZoneOK ClockwiseFirst SlackExact WalkDefsAgree QuorumIntersection Emit
PROPERTIES MinimalDisruption
CHECK_DEADLOCK FALSE
