------------------------------- MODULE Modules -------------------------------
(***************************************************************************)
(* C18, graph part - modules/modules.go as a state machine.                *)
(*                                                                         *)
(*   build phase  AddDependency(a, B): accepted iff the graph stays        *)
(*                acyclic (in particular a \notin B), otherwise rejected   *)
(*                with the graph unchanged.  Every DAG on Mod is reachable.*)
(*   init phase   InitModuleServices(T): for every target (any order)      *)
(*                orderedDeps - repeatedly place any not yet placed        *)
(*                transitive dependency all of whose DIRECT dependencies   *)
(*                are placed (Manager.orderedDeps; Go map order = any      *)
(*                choice) - initialising what initMap does not hold yet,   *)
(*                then the target itself (Manager.initModule).             *)
(*                                                                         *)
(* TLC decides: CycleRejected (action property), GraphAcyclic, and that    *)
(* the algorithm of the init phase implies the declarative clauses of      *)
(* ModulesDefs (InitOrder, InitExactlyNeeded), for every DAG, every target *)
(* set, every order of targets and every choice orderedDeps can make.      *)
(***************************************************************************)
EXTENDS ModulesDefs, TLC, Json

CONSTANTS N,         \* modules 1..N
          MaxB,      \* AddDependency(a, B) with 1 <= |B| <= MaxB
          WithInit,  \* explore the init phase
          CanonInit, \* ... only from one representative per isomorphism class of DAGs (the actions
                     \* of the init phase do not look at module identities: symmetry reduction)
          EmitCases, \* print one JSON case per DAG (gen direction)
          SelfEdgeChecked  \* TRUE: the specification; FALSE: modules.go before dskit fix 7655698, whose cycle
                           \* check compared the module only with the dependencies OF the new dependency
                           \* (self-test config: TLC must refute CycleRejected / GraphAcyclic, finding F3)

Mod  == 1..N
None == 0

VARIABLES deps,      \* the dependency graph
          tr,        \* its transitive closure, tr[m] = Trans[m] (derived: TrConsistent)
          last,      \* outcome of the last AddDependency call (history, not in VIEW)
          phase,     \* "build" | "init" | "done"
          T,         \* targets of InitModuleServices
          rem,       \* targets not yet handled
          cur,       \* target being handled (None between targets)
          placed,    \* orderedDeps: dependencies of cur already placed in the result
          order      \* sequence of initialised modules (initMap = SeqSet(order))

vars == <<deps, tr, last, phase, T, rem, cur, placed, order>>
view == <<deps, tr, phase, T, rem, cur, placed, order>>

inited == SeqSet(order)

Init == /\ deps = {} /\ tr = [m \in Mod |-> {}] /\ last = [a |-> None, B |-> {}, ok |-> TRUE]
        /\ phase = "build" /\ T = {} /\ rem = {} /\ cur = None /\ placed = {} /\ order = <<>>

(* ---- build phase ------------------------------------------------------ *)
AddDependency(a, B) ==
    /\ phase = "build"
    /\ LET ok == \A b \in B : IF SelfEdgeChecked THEN ~ClosesCycle(deps, a, b) ELSE a \notin TransOf(deps, b)
       IN  /\ deps' = IF ok THEN deps \cup {<<a, b>> : b \in B} ELSE deps
           /\ tr' = TransFn(deps', Mod)
           /\ last' = [a |-> a, B |-> B, ok |-> ok]
    /\ UNCHANGED <<phase, T, rem, cur, placed, order>>

(* ---- init phase ------------------------------------------------------- *)
(* one representative per isomorphism class: the labelling with the smallest code *)
RECURSIVE Code(_)
Code(g) == IF g = {} THEN 0 ELSE LET e == CHOOSE x \in g : TRUE IN 2^((e[1]-1)*N + (e[2]-1)) + Code(g \ {e})
Perms == {p \in [Mod -> Mod] : \A i, j \in Mod : i # j => p[i] # p[j]}
Relabel(g, p) == {<<p[e[1]], p[e[2]]>> : e \in g}
IsCanon(g) == LET c == Code(g) IN \A p \in Perms : c <= Code(Relabel(g, p))

StartInit(targets) ==
    /\ WithInit /\ phase = "build"
    /\ phase' = "init" /\ T' = targets /\ rem' = targets
    /\ UNCHANGED <<deps, tr, last, cur, placed, order>>

PickTarget(t) ==
    /\ phase = "init" /\ cur = None /\ t \in rem
    /\ cur' = t /\ rem' = rem \ {t} /\ placed' = {}
    /\ UNCHANGED <<deps, tr, last, phase, T, order>>

InitIfNew(x) == order' = IF x \in inited THEN order ELSE Append(order, x)

PlaceDep(x) ==
    /\ phase = "init" /\ cur # None
    /\ x \in tr[cur] \ placed
    /\ Direct(deps, x) \subseteq placed
    /\ placed' = placed \cup {x}
    /\ InitIfNew(x)
    /\ UNCHANGED <<deps, tr, last, phase, T, rem, cur>>

FinishTarget ==
    /\ phase = "init" /\ cur # None
    /\ placed = tr[cur]
    /\ InitIfNew(cur)
    /\ cur' = None /\ placed' = {}
    /\ phase' = IF rem = {} THEN "done" ELSE "init"
    /\ UNCHANGED <<deps, tr, last, T, rem>>

InitNothing ==   \* InitModuleServices() without targets
    /\ phase = "init" /\ cur = None /\ rem = {} /\ T = {}
    /\ phase' = "done"
    /\ UNCHANGED <<deps, tr, last, T, rem, cur, placed, order>>

Next == \/ \E a \in Mod : \E B \in SUBSET Mod : B # {} /\ Cardinality(B) <= MaxB /\ AddDependency(a, B)
        \/ /\ WithInit /\ phase = "build"
           /\ CanonInit => IsCanon(deps)
           /\ \E targets \in SUBSET Mod : StartInit(targets)
        \/ \E t \in Mod : PickTarget(t)
        \/ \E x \in Mod : PlaceDep(x)
        \/ FinishTarget
        \/ InitNothing

Spec == Init /\ [][Next]_vars

(* ---- what TLC decides -------------------------------------------------- *)
TypeOK == /\ deps \subseteq Mod \X Mod
          /\ phase \in {"build", "init", "done"}
          /\ T \subseteq Mod /\ rem \subseteq T /\ cur \in Mod \cup {None}
          /\ placed \subseteq Mod

GraphAcyclic == Acyclic(deps, Mod)
TrConsistent == phase = "build" => tr = TransFn(deps, Mod)

(* Adding a dependency that would close a cycle is rejected and changes nothing; every other  *)
(* addition is accepted.  An action property: TLC evaluates it on every AddDependency step,   *)
(* including the rejected ones that lead back to a known graph (`last` is not in the VIEW).   *)
CycleRejectedStep ==
    (phase = "build" /\ phase' = "build") =>
        LET l == last'
            g == deps \cup {<<l.a, b>> : b \in l.B}
        IN  /\ l.ok <=> Acyclic(g, Mod)
            /\ l.ok => deps' = g
            /\ ~l.ok => deps' = deps
            /\ l.a \in l.B => ~l.ok
CycleRejected == [][CycleRejectedStep]_vars

(* Every module is initialised at most once, only if needed, after all it depends on ...      *)
InitOrder == /\ InitOnce(order)
             /\ InitOnlyNeeded(tr, T, Mod, order)
             /\ InitAfterDeps(tr, Mod, order)
(* ... and when InitModuleServices returns, exactly the needed modules are initialised.       *)
InitExactlyNeeded == phase = "done" => AdmissibleInit(tr, T, Mod, order)

(* the algorithm cannot get stuck: orderedDeps always finds a module to place *)
InitProgress == (phase = "init" /\ cur # None /\ placed # tr[cur])
                   => \E x \in tr[cur] \ placed : Direct(deps, x) \subseteq placed

(* Projection lemma used by the trace validator (init functions may be nil, only the modules  *)
(* H with an init function are observed): an order over Needed(T) \cap H is the projection of *)
(* an admissible full order iff it is admissible on H.  Checked when a full order is reached. *)
Project(s, H) == SelectSeq(s, LAMBDA x : x \in H)
ProjectionLemma == phase = "done" => \A H \in SUBSET Mod : AdmissibleInit(tr, T, H, Project(order, H))

(* ---- case emitter (gen direction): one line per DAG --------------------------------------- *)
EdgeSeq(E) == LET RECURSIVE F(_)
                  F(S) == IF S = {} THEN <<>> ELSE
                          LET e == CHOOSE x \in S : \A y \in S : x[1] < y[1] \/ (x[1] = y[1] /\ x[2] <= y[2])
                          IN  <<<<e[1], e[2]>>>> \o F(S \ {e})
              IN F(E)
Emit == (EmitCases /\ phase = "build") =>
          PrintT(ToJson([n       |-> N,
                         edges   |-> EdgeSeq(deps),
                         closing |-> EdgeSeq({e \in Mod \X Mod : ClosesCycle(deps, e[1], e[2])}),
                         trans   |-> tr]))
=============================================================================
