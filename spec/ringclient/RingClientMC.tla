----------------------------- MODULE RingClientMC -----------------------------
(* Model-checking instances of RingClient: the shard function is the abstract walk. *)
EXTENDS RingClient

MCCompute(ix, lv, id, size, L, W) == AbstractShard(ix, lv, id, size, L, W)

\* start with every instance registered (the interesting histories then fit in MaxUpd updates)
StartRec(i) == [addr |-> 1, zone |-> IF i % 2 = 1 THEN 1 ELSE 2, tok |-> 0, reg |-> 2, ro |-> FALSE, rots |-> 0,
                state |-> "ACTIVE", ts |-> 1]
FullDesc == [i \in Inst |-> StartRec(i)]
MCInitDescs == {NoDesc, FullDesc}
=============================================================================
