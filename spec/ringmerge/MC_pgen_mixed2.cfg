\* C03 replay, thorough, partition ring: one partition with TWO owners (several owners per partition), raw lock register
CONSTANTS
  NP = 1
  NO = 2
  NOwned = 1
  TsSet = {1, 2}
  PStates = {"Active"}
  LockTs = {0}
  NowSet = {3}
INIT Init
NEXT Next
INVARIANTS CaseProps Emit
CHECK_DEADLOCK FALSE
