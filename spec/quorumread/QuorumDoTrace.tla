----------------------------- MODULE QuorumDoTrace -----------------------------
(***************************************************************************)
(* code -> spec for the legacy executor ReplicationSet.Do: every line of   *)
(* trace.ndjson is one execution recorded by harness/c11 TestRecordDo      *)
(* ({id, cfg, steps: [obs, env, obs, ...]}, env = finish / adv (half a delay  *)
(* passes) / cancel); accepted iff QuorumDo has a behaviour taking the    *)
(* env steps in order, running internal actions to quiescence in between   *)
(* and agreeing with every observation.  Which delayed goroutine takes a   *)
(* forceStart token is the specification's choice, bound by the observed   *)
(* calls.                                                                  *)
(***************************************************************************)
EXTENDS QuorumDo, Json

VARIABLES tr, l

Traces == ndJsonDeserialize("trace.ndjson")
T == Traces[tr]

CfgOf(j) == [n |-> j.n, zone |-> j.zone, nz |-> j.nz, mode |-> j.mode, tol |-> j.tol, delay |-> j.delay]

TInit == /\ tr \in 1..Len(Traces)
         /\ l = 1
         /\ InitCfg(CfgOf(Traces[tr].cfg))

ObsMatch(e) ==
  /\ \A i \in Inst : /\ calls[i] = e.calls[i]
                     /\ e.ctx[i] = (IF calls[i] > 0 THEN ctxDone ELSE "-")
  /\ e.ret.kind = ret.kind /\ e.ret.cls = ret.cls /\ e.ret.inst = ret.inst
  /\ e.ret.set = ret.seq                    \* results in arrival order
  /\ e.end => Terminated

TNext ==
  /\ l <= Len(T.steps)
  /\ tr' = tr
  /\ LET e == T.steps[l]
     IN \/ /\ e.a = "obs" /\ Quiet /\ ObsMatch(e)
           /\ l' = l + 1 /\ UNCHANGED vars
        \/ /\ e.a = "obs" /\ IntNext /\ l' = l
        \/ /\ e.a = "finish" /\ Finish(e.i, e.o) /\ l' = l + 1
        \/ /\ e.a = "adv" /\ Advance /\ l' = l + 1
        \/ /\ e.a = "cancel" /\ ParentCancel /\ l' = l + 1

Accepted == l = Len(T.steps) + 1
EmitAccepted == Accepted => PrintT(ToJson([acc |-> T.id]))
ModelObs == [calls |-> calls, ret |-> ret, ctx |-> ctxDone, terminated |-> Terminated]
EmitProgress == PrintT(ToJson([id |-> T.id, line |-> l, quiet |-> Quiet, obs |-> ModelObs]))
=============================================================================
