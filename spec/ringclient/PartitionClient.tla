---------------------------- MODULE PartitionClient ----------------------------
(***************************************************************************)
(* C13, partition side - a long-lived PartitionRingWatcher and the shard   *)
(* cache of the PartitionRing it hands out answer exactly like a           *)
(* PartitionRing freshly built from the latest partition-ring descriptor.  *)
(*                                                                         *)
(*   pdesc  the latest descriptor in the store                             *)
(*   ring   the watcher's current PartitionRing: an immutable snapshot of  *)
(*          the descriptor it was built from (updatePartitionRing builds a *)
(*          new one on EVERY delivered value, whatever changed)            *)
(*   pc     ring.shuffleShardCache.cacheWithoutLookback  (map or LRU)      *)
(*   lc     ring.shuffleShardCache.cacheWithLookback     (map or LRU),     *)
(*          entries [m, va, vb]                                            *)
(*   pu/lu  recency order of the keys of the two caches (LRU variant)      *)
(*                                                                         *)
(* A descriptor is [parts : partition -> [state, sts, tok], owners :       *)
(* owner -> partition].  The shard function is a parameter (PCompute):     *)
(* AbstractPShard (the walk of PartitionRing.shuffleShard over an abstract *)
(* token circle) in the exhaustive configurations, the real fresh answer   *)
(* in the trace specification.                                             *)
(***************************************************************************)
EXTENDS Integers, FiniteSets, Sequences, TLC

CONSTANTS Part,        \* partition identifiers 1..P
          Owners,      \* owner identifiers
          PIdent, PSizes, PLookbacks, PTimes,
          Capacities,  \* values of PartitionRingOptions.ShuffleShardCacheSize: 0 = unbounded map, > 0 = LRU
          PMaxUpd,
          PStates, PStamps, PToks,
          PCompute(_, _, _, _, _)    \* (desc, id, size, L, W) -> set of partitions in the subring

VARIABLES pdesc, ring, pc, lc, pu, lu, pnupd,
          cap     \* the watcher's PartitionRingOptions.ShuffleShardCacheSize (never changes)

pvars == <<pdesc, ring, pc, lc, pu, lu, pnupd, cap>>

None    == <<>>
Some(x) == <<x>>
Val(o)  == o[1]
Inf     == 1000000

NoPDesc == [parts |-> <<>>, owners |-> <<>>]

PRec == [state : PStates, sts : PStamps, tok : PToks]

(* PartitionRingDesc.WithPartitions: the sub-descriptor of a subring *)
SubDesc(d, S) == [parts  |-> [p \in S |-> d.parts[p]],
                  owners |-> [o \in {x \in DOMAIN d.owners : d.owners[x] \in S} |-> d.owners[o]]]

(* ----------------------------------------------------------------------- *)
(* AbstractPShard: PartitionRing.shuffleShard                              *)
(* ----------------------------------------------------------------------- *)
NP == Cardinality(Part)
PPos(d, p) == p + NP * d.parts[p].tok
PStart(id, k) == (3 * id + 2 * k) % (2 * NP + 1)

RECURSIVE PSorted(_, _)
PSorted(d, S) == IF S = {} THEN <<>>
                 ELSE LET m == CHOOSE p \in S : \A q \in S : PPos(d, p) <= PPos(d, q)
                      IN <<m>> \o PSorted(d, S \ {m})
PWalkSeq(d, s) == LET T == {p \in DOMAIN d.parts : d.parts[p].tok >= 0} IN
                  PSorted(d, {p \in T : PPos(d, p) > s}) \o PSorted(d, {p \in T : PPos(d, p) <= s})

\* one start position: walk until the "stop partition"; st = [res, exc, size, found]
RECURSIVE PPick(_, _, _, _, _, _)
PPick(st, seq, j, d, L, W) ==
    IF j > Len(seq) THEN st
    ELSE LET p == seq[j]
             r == d.parts[p]
         IN IF p \in st.res \/ p \in st.exc THEN PPick(st, seq, j + 1, d, L, W)
            ELSE IF r.state = "PENDING" THEN PPick([st EXCEPT !.exc = @ \cup {p}], seq, j + 1, d, L, W)
            ELSE LET within == L > 0 /\ r.sts >= W
                     incl   == r.state = "ACTIVE" \/ within
                     st2    == [res   |-> IF incl THEN st.res \cup {p} ELSE st.res,
                                exc   |-> IF incl THEN st.exc ELSE st.exc \cup {p},
                                size  |-> IF within THEN st.size + 1 ELSE st.size,
                                found |-> incl /\ ~within]
                 IN IF st2.found THEN st2 ELSE PPick(st2, seq, j + 1, d, L, W)

RECURSIVE PLoop(_, _, _, _, _, _)
PLoop(st, k, d, id, L, W) ==
    IF Cardinality(st.res) >= st.size THEN st.res
    ELSE LET st2 == PPick([st EXCEPT !.found = FALSE], PWalkSeq(d, PStart(id, k)), 1, d, L, W)
         IN IF st2.found THEN PLoop(st2, k + 1, d, id, L, W) ELSE st2.res

AbstractPShard(d, id, size, L, W) ==
    LET n  == Cardinality(DOMAIN d.parts)
        sz == IF size <= 0 \/ size >= n THEN n ELSE size
    IN PLoop([res |-> {}, exc |-> {}, size |-> sz, found |-> FALSE], 1, d, id, L, IF L > 0 THEN W ELSE 0)

(* ----------------------------------------------------------------------- *)
(* The cache (partitions_ring_shuffle_shard_cache.go)                      *)
(* ----------------------------------------------------------------------- *)
PKeys == PIdent \X PSizes
LKeys == PIdent \X PSizes \X PLookbacks

Without(s, k) == SelectSeq(s, LAMBDA x : x # k)
Touch(s, k)   == IF cap = 0 THEN s ELSE Without(s, k) \o <<k>>      \* lru Get / Add: most recent last

\* set(key, v): the cache and the recency order after an Add (evicts the oldest beyond cap)
AddTo(c, u, k, v) ==
    LET u2 == Touch(u, k)
        ev == IF cap > 0 /\ Len(u2) > cap THEN {u2[1]} ELSE {}
    IN [c |-> [x \in DOMAIN c |-> IF x = k THEN Some(v) ELSE IF x \in ev THEN None ELSE c[x]],
        u |-> IF ev = {} THEN u2 ELSE Tail(u2)]

LValid(e, W) == e # None /\ Val(e).va <= W /\ W <= Val(e).vb

PValidBefore(m, W) ==
    LET S == {m.parts[p].sts : p \in {q \in DOMAIN m.parts : m.parts[q].sts >= W}}
    IN IF S = {} THEN Inf ELSE CHOOSE t \in S : \A x \in S : t <= x

ClientPlainP(id, size) == IF pc[<<id, size>>] # None THEN Val(pc[<<id, size>>])
                          ELSE SubDesc(ring, PCompute(ring, id, size, 0, 0))
ClientLbP(id, size, L, now) ==
    IF LValid(lc[<<id, size, L>>], now - L) THEN Val(lc[<<id, size, L>>]).m
    ELSE SubDesc(ring, PCompute(ring, id, size, L, now - L))
FreshPlainP(id, size)      == SubDesc(pdesc, PCompute(pdesc, id, size, 0, 0))
FreshLbP(id, size, L, now) == SubDesc(pdesc, PCompute(pdesc, id, size, L, now - L))

(* ----------------------------------------------------------------------- *)
(* Actions                                                                 *)
(* ----------------------------------------------------------------------- *)
EmptyPC == [k \in PKeys |-> None]
EmptyLC == [k \in LKeys |-> None]

PInitDescs == {NoPDesc}

PInit == /\ pdesc \in PInitDescs /\ ring = pdesc
         /\ pc = EmptyPC /\ lc = EmptyLC /\ pu = <<>> /\ lu = <<>>
         /\ pnupd = 0 /\ cap \in Capacities

(* PartitionRingWatcher.updatePartitionRing: a new PartitionRing (and a new, empty cache) *)
PUpdate(d) ==
    /\ pnupd < PMaxUpd
    /\ pnupd' = pnupd + 1
    /\ pdesc' = d
    /\ ring' = d
    /\ pc' = EmptyPC /\ lc' = EmptyLC /\ pu' = <<>> /\ lu' = <<>>
    /\ UNCHANGED cap

(* PartitionRing.ShuffleShard *)
PQueryPlain(id, size) ==
    LET k == <<id, size>> IN
    /\ IF pc[k] # None
       THEN /\ pu' = Touch(pu, k) /\ UNCHANGED pc
       ELSE LET a == AddTo(pc, pu, k, SubDesc(ring, PCompute(ring, id, size, 0, 0)))
            IN pc' = a.c /\ pu' = a.u
    /\ UNCHANGED <<pdesc, ring, lc, lu, pnupd, cap>>

(* PartitionRing.ShuffleShardWithLookback *)
PQueryLb(id, size, L, now) ==
    LET k == <<id, size, L>>
        W == now - L
    IN
    /\ IF LValid(lc[k], W)
       THEN /\ lu' = Touch(lu, k) /\ UNCHANGED lc
       ELSE LET m  == SubDesc(ring, PCompute(ring, id, size, L, W))
                u1 == IF lc[k] # None THEN Touch(lu, k) ELSE lu     \* the failed lookup and the one in set
            IN IF lc[k] = None \/ Val(lc[k]).va < W
               THEN LET a == AddTo(lc, u1, k, [m |-> m, va |-> W, vb |-> PValidBefore(m, W)])
                    IN lc' = a.c /\ lu' = a.u
               ELSE lc' = lc /\ lu' = u1
    /\ UNCHANGED <<pdesc, ring, pc, pu, pnupd, cap>>

PUpdEqual  == PUpdate(pdesc)
PUpdState  == \E p \in DOMAIN pdesc.parts, s \in PStates, t \in PStamps :
                 (s # pdesc.parts[p].state \/ t # pdesc.parts[p].sts) /\
                 PUpdate([pdesc EXCEPT !.parts[p].state = s, !.parts[p].sts = t])
PUpdToken  == \E p \in DOMAIN pdesc.parts, t \in PToks : t # pdesc.parts[p].tok /\ PUpdate([pdesc EXCEPT !.parts[p].tok = t])
PUpdAdd    == \E p \in Part \ DOMAIN pdesc.parts, r \in PRec :
                 PUpdate([pdesc EXCEPT !.parts = [q \in DOMAIN pdesc.parts \cup {p} |-> IF q = p THEN r ELSE pdesc.parts[q]]])
PUpdRemove == \E p \in DOMAIN pdesc.parts :
                 PUpdate(SubDesc(pdesc, DOMAIN pdesc.parts \ {p}))
\* owners only (the partitions are untouched)
PUpdOwner  == \/ \E o \in Owners \ DOMAIN pdesc.owners, p \in DOMAIN pdesc.parts :
                    PUpdate([pdesc EXCEPT !.owners = [x \in DOMAIN pdesc.owners \cup {o} |-> IF x = o THEN p ELSE pdesc.owners[x]]])
              \/ \E o \in DOMAIN pdesc.owners :
                    PUpdate([pdesc EXCEPT !.owners = [x \in DOMAIN pdesc.owners \ {o} |-> pdesc.owners[x]]])

PNext == \/ PUpdEqual \/ PUpdState \/ PUpdToken \/ PUpdAdd \/ PUpdRemove \/ PUpdOwner
         \/ \E id \in PIdent, size \in PSizes : PQueryPlain(id, size)
         \/ \E id \in PIdent, size \in PSizes, L \in PLookbacks, now \in PTimes : PQueryLb(id, size, L, now)

PSpec == PInit /\ [][PNext]_pvars

(* ----------------------------------------------------------------------- *)
(* The property                                                            *)
(* ----------------------------------------------------------------------- *)
PTypeOK == /\ DOMAIN pdesc.parts \subseteq Part
           /\ \A p \in DOMAIN pdesc.parts : pdesc.parts[p] \in PRec
           /\ cap > 0 => Len(pu) <= cap /\ Len(lu) <= cap
           /\ cap > 0 => /\ {k \in PKeys : pc[k] # None} = {pu[j] : j \in 1..Len(pu)}
                              /\ {k \in LKeys : lc[k] # None} = {lu[j] : j \in 1..Len(lu)}

(* every direct answer (ActivePartitionForKey, the counters, owners, token ranges,
   PartitionInstanceRing.GetReplicationSetsForOperation) is a function of the snapshot *)
PDirectUnobservable == ring = pdesc

PShardUnobservable ==
    /\ \A id \in PIdent, size \in PSizes : ClientPlainP(id, size) = FreshPlainP(id, size)
    /\ \A id \in PIdent, size \in PSizes, L \in PLookbacks, now \in PTimes :
           ClientLbP(id, size, L, now) = FreshLbP(id, size, L, now)

PUnobservable == PDirectUnobservable /\ PShardUnobservable
=============================================================================
