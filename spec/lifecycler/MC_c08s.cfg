SPECIFICATION Spec
VIEW view
SYMMETRY PosSym
CONSTANTS
  N = 2
  Pos = {p0, p1, p2, p3, p4}
  NumTokens = 2
  HbTimeout = 2
  MaxClock = 3
  Cfg0 <- Cfg0C08s
  Cfgs <- AllCfgs
  Bud0 <- BudC08s
  OwnEntryCheck = TRUE
INVARIANTS TypeOK HeartbeatFresh NoCollision
PROPERTIES OwnEntryOnly StateEdges RefusedUntouched HeartbeatMonotone RegisteredOnce ActivationTokens ReadyImpliesActive KeepsIdentity ReRegistersFresh
