--------------------------- MODULE MetadataMisuse ---------------------------
(***************************************************************************)
(* C20 observation: tenant.Metadata documents the invariant                *)
(*     "b, err := ParseMetadata(a.source); err == nil && a == b"           *)
(* but its mutators Set / With validate neither key nor value nor the      *)
(* 64-byte limit.  This module walks metadata values from the empty one    *)
(* through Set calls: `SetChecked` takes only arguments a validating       *)
(* mutator would accept, `SetUnchecked` is the real mutator called with    *)
(* arbitrary bytes (a named deviation).  TypeInvariant is the documented   *)
(* invariant: it holds as long as only SetChecked is taken                 *)
(* (MC_metamisuse_checked.cfg) and TLC exhibits its violation as soon as   *)
(* SetUnchecked is allowed (MC_metamisuse.cfg - expected to fail).  Every  *)
(* transition is printed so that the harness can confirm on the real       *)
(* Metadata.With that the specification's result, well-formed or not, is   *)
(* what the code produces.                                                 *)
(***************************************************************************)
EXTENDS Tenant

CONSTANTS GoodKeys, GoodVals,   \* arguments a validating Set would accept
          BadKeys, BadVals,     \* arguments that break the grammar (':' '=' in a key, ':' or '/' in a value, over-long value)
          AllowUnchecked,       \* BOOLEAN
          MaxSets               \* number of Set calls in a row

VARIABLES md,      \* the Metadata value (its source string)
          nsets,
          broken,  \* a SetUnchecked step was taken (terminal)
          last     \* the arguments of the last Set call

mvars == <<md, nsets, broken, last, vars>>

MInit == /\ md = <<>> /\ nsets = 0 /\ broken = FALSE /\ last = << <<>>, <<>> >>
         /\ phase = "seed" /\ seed = [f |-> "misuse", x |-> <<>>] /\ fam = "seed" /\ org = NoOrg

Fits(k, v) == Len(MetaSet(md, k, v)) <= MaxMetadataLength

SetChecked(k, v) ==
    /\ ~broken /\ nsets < MaxSets
    /\ Fits(k, v)                       \* a validating mutator would refuse what does not fit
    /\ md' = MetaSet(md, k, v)
    /\ nsets' = nsets + 1
    /\ last' = <<k, v>>
    /\ UNCHANGED <<broken, vars>>

SetUnchecked(k, v) ==
    /\ AllowUnchecked
    /\ ~broken /\ nsets < MaxSets
    /\ md' = MetaSet(md, k, v)
    /\ nsets' = nsets + 1
    /\ broken' = TRUE
    /\ last' = <<k, v>>
    /\ UNCHANGED vars

MNext == \/ \E k \in GoodKeys, v \in GoodVals : SetChecked(k, v)
         \/ \E k \in GoodKeys \cup BadKeys, v \in GoodVals \cup BadVals : SetUnchecked(k, v)

\* the invariant documented on the type
TypeInvariant == ParseMeta(md).ok

EmitSet == PrintT(ToJson([m |-> md, key |-> last'[1], val |-> last'[2], out |-> md', wellformed |-> ParseMeta(md').ok,
                          err |-> ParseMeta(md').err]))

\* argument universes for the configs
GoodKeysDef == { <<97>>, <<98>>, <<>> }                         \* "a", "b", ""
GoodValsDef == { <<>>, <<48>>, Rep(48, 30) }                    \* "", "0", 30 digits
BadKeysDef  == { <<97, COLON, 98>>, <<97, EQ>>, <<SLASH>> }     \* "a:b", "a=", "/"
BadValsDef  == { <<COLON>>, <<PIPE, 120>>, Rep(48, 70) }        \* ":", "|x", 70 digits
=============================================================================
