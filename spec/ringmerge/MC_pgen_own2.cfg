\* C03 replay, partition ring: two owners
CONSTANTS
  NP = 0
  NO = 2
  NOwned = 2
  TsSet = {1, 2}
  PStates = {"Active"}
  LockTs = {0}
  NowSet = {3}
INIT Init
NEXT Next
INVARIANTS CaseProps Emit
CHECK_DEADLOCK FALSE
