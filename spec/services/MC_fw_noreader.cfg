CONSTANTS
  NS = 2
  ReaderFair = FALSE
SPECIFICATION Spec
INVARIANTS TypeOK ReportedAtMostOnce NeverSendOnClosed
PROPERTIES CloseReturns
CHECK_DEADLOCK FALSE
