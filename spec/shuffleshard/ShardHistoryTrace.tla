-------------------------- MODULE ShardHistoryTrace --------------------------
(***************************************************************************)
(* Code -> specification direction of C12: trace.ndjson holds histories    *)
(* recorded from the real ring.Ring / ring.PartitionRing clients           *)
(* (harness/c12 TestRecord), one event per line:                           *)
(*   {"e":"reset","kind":"inst"|"part","za":bool}                          *)
(*   {"e":"ring","t":T,"mem":[{"id":n,"zone":z,"ro":b} | {"id":n,"st":s}]} *)
(*   {"e":"q","now":T,"late":0|1,"client":c,                               *)
(*                     "shards":[{"id":s,"size":k,"S":[..]}],              *)
(*                     "lookbacks":[{"id":s,"size":k,"L":l,"S":[..]}]}     *)
(*   {"e":"sq","now":T,"late":0|1,"client":c,                              *)
(*                     "subs":[{"mem":[..],"id":s,"size":k,"S":[..]}]}     *)
(* Every line must be a step of ShardHistory: Reset, RingChange, Query or  *)
(* SubQuery.                                                               *)
(* A "q" line whose answers violate a clause is not a Query step; it is    *)
(* taken as a Reject step that prints which clauses failed (bin/check      *)
(* turns each into a disagreement) and records the answers anyway so that  *)
(* the rest of the trace is still examined.  A line that is not well timed *)
(* is a defect of the recorder, printed as "malformed".                    *)
(***************************************************************************)
EXTENDS ShardHistory, Json

Trace == ndJsonDeserialize("trace.ndjson")

VARIABLES l, rejects
tvars == <<l, rejects>>

Range(s) == {s[j] : j \in 1..Len(s)}

ViewOf(e) ==
    LET ms == Range(e.mem)
        ids == {m.id : m \in ms}
        rec(i) == CHOOSE m \in ms : m.id = i
    IN IF kind = "inst"
       THEN [mem |-> ids, zone |-> [i \in ids |-> rec(i).zone], ro |-> [i \in ids |-> rec(i).ro], st |-> <<>>]
       ELSE [mem |-> ids, zone |-> <<>>, ro |-> <<>>, st |-> [i \in ids |-> rec(i).st]]

ShardsOf(e)    == {[id |-> a.id, size |-> a.size, S |-> Range(a.S)] : a \in Range(e.shards)}
SubsOf(e)      == {[mem |-> Range(a.mem), id |-> a.id, size |-> a.size, S |-> Range(a.S)] : a \in Range(e.subs)}
LookbacksOf(e) == {[id |-> a.id, size |-> a.size, L |-> a.L, S |-> Range(a.S)] : a \in Range(e.lookbacks)}

Report(what, info) == PrintT(ToJson([line |-> l, kind |-> kind, za |-> za, what |-> what, info |-> info]))

TraceInit == HInit /\ l = 1 /\ rejects = 0

Step(e) ==
    \/ /\ e.e = "reset"
       /\ Reset(e.kind, e.za)
       /\ UNCHANGED rejects
    \/ /\ e.e = "ring"
       /\ IF ChangeWellTimed(e.t) THEN RingChange(e.t, ViewOf(e)) /\ UNCHANGED rejects
          ELSE Report("malformed", [t |-> e.t, stamp |-> stamp, clock |-> clock])
               /\ rejects' = rejects + 1 /\ UNCHANGED hvars
    \/ /\ e.e = "q"
       /\ LET sh == ShardsOf(e)
              lb == LookbacksOf(e)
          IN IF ~QueryWellTimed(e.now, e.late)
             THEN Report("malformed", [now |-> e.now, late |-> e.late, stamp |-> stamp, clock |-> clock])
                  /\ rejects' = rejects + 1 /\ UNCHANGED hvars
             ELSE LET f == Failures(e.now, e.late, sh, lb)
                  IN IF f = {} THEN Record(e.now, e.late, sh, lb) /\ UNCHANGED rejects   \* = Query(e.now, e.late, sh, lb)
                     ELSE /\ Report("rejected", [now |-> e.now, late |-> e.late, client |-> e.client, failures |-> f,
                                                 view |-> cur, stamp |-> stamp])
                          /\ Record(e.now, e.late, sh, lb)  \* Reject: not a step of ShardHistory
                          /\ rejects' = rejects + 1
    \/ /\ e.e = "sq"
       /\ LET sb == SubsOf(e)
          IN IF ~QueryWellTimed(e.now, e.late)
             THEN Report("malformed", [now |-> e.now, late |-> e.late, stamp |-> stamp, clock |-> clock])
                  /\ rejects' = rejects + 1 /\ UNCHANGED hvars
             ELSE LET f == SubFailures(sb)
                  IN IF f = {} THEN SubRecord(e.now, sb) /\ UNCHANGED rejects      \* = SubQuery(e.now, e.late, sb)
                     ELSE /\ Report("rejected", [now |-> e.now, late |-> e.late, client |-> e.client, failures |-> f,
                                                 view |-> cur, stamp |-> stamp])
                          /\ SubRecord(e.now, sb)
                          /\ rejects' = rejects + 1

TraceNext == /\ l <= Len(Trace)
             /\ Step(Trace[l])
             /\ l' = l + 1

(* the whole trace was consumed *)
AllConsumed == TLCGet("stats").diameter = Len(Trace) + 1
=============================================================================
