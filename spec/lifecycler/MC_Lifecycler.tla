---------------------------- MODULE MC_Lifecycler ----------------------------
(* Constant definitions of the exhaustive configurations (MC_*.cfg). *)
EXTENDS BasicLifecycler

PosSym == Permutations(Pos)

C(kind, join, obs, hb, unreg, f, health) ==
    [kind |-> kind, join |-> join, obs |-> obs, hb |-> hb, unreg |-> unreg, file |-> f, health |-> health,
     fsleep |-> 0, regst |-> "ACTIVE", forget |-> 0, keep |-> ~unreg]

B(bstart, ext, stop, ready, wipe, kv, crash, envBy) ==
    [start |-> bstart, ext |-> ext, stop |-> stop, ready |-> ready, wipe |-> wipe, kv |-> kv, crash |-> crash, envBy |-> envBy, stall |-> 0]

AllCfgs == UNION {{f[i] : i \in DOMAIN f} : f \in Cfg0}

\* C08: two classic lifecyclers (join-after 1 / observe 1; tokens file; ring-health readiness), external calls, stop, restart
Cfg0C08a == {<<C("classic", 1, 0, 1, TRUE, FALSE, TRUE), C("classic", 0, 1, 1, FALSE, TRUE, FALSE)>>}
BudC08a  == B(3, 1, 1, 1, 0, 0, 0, 100)
\* C08: basic lifecyclers (auto-forget, tokens file, observe period, registering as JOINING) next to a classic one
Cfg0C08b == {<<[C("basic", 0, 0, 1, TRUE, TRUE, FALSE) EXCEPT !.forget = 2], C("classic", 0, 0, 1, TRUE, FALSE, TRUE)>>,
             <<[C("basic", 0, 1, 1, FALSE, FALSE, FALSE) EXCEPT !.regst = "JOINING"], [C("basic", 0, 0, 2, TRUE, TRUE, FALSE) EXCEPT !.forget = 1]>>}
BudC08b  == B(3, 1, 1, 1, 0, 1, 0, 100)
\* C09: crashes, wipes, reject windows
Cfg0C09a == {<<C("classic", 1, 1, 1, FALSE, TRUE, FALSE), C("classic", 0, 0, 1, TRUE, FALSE, FALSE)>>}
BudC09a  == B(3, 0, 1, 0, 1, 2, 1, 100)
Cfg0C09b == {<<[C("basic", 0, 1, 1, FALSE, TRUE, FALSE) EXCEPT !.forget = 2], C("classic", 0, 1, 1, FALSE, TRUE, FALSE)>>}
BudC09b  == B(3, 0, 1, 0, 1, 2, 1, 100)
\* quick-tier variants
Cfg0C08bq == {<<[C("basic", 0, 1, 1, TRUE, TRUE, FALSE) EXCEPT !.forget = 2], C("classic", 0, 0, 1, FALSE, FALSE, TRUE)>>}
BudC08bq  == B(2, 1, 1, 1, 0, 0, 0, 100)
Cfg0C09q  == {<<C("classic", 1, 1, 1, FALSE, TRUE, FALSE), [C("basic", 0, 0, 1, TRUE, TRUE, FALSE) EXCEPT !.forget = 2]>>}
BudC09q   == B(3, 0, 1, 0, 0, 0, 1, 100)
\* C08 readiness: wipe x CheckReady x ring-health readiness (one lifecycler observing, one ACTIVE bystander)
Cfg0C08r  == {<<C("classic", 0, 1, 1, FALSE, FALSE, TRUE), C("classic", 0, 0, 1, FALSE, FALSE, TRUE)>>,
              <<C("classic", 0, 1, 1, FALSE, FALSE, FALSE), C("classic", 0, 0, 1, FALSE, TRUE, TRUE)>>}
BudC08r   == B(2, 0, 0, 2, 1, 0, 0, 100)
\* C08 CAS retries: a lifecycler is stalled inside a store call (lost attempt) while the other one and the environment go on
Cfg0C08s  == {<<C("classic", 1, 0, 1, FALSE, FALSE, FALSE), C("classic", 0, 1, 1, TRUE, FALSE, TRUE)>>,
              <<[C("basic", 0, 1, 1, TRUE, FALSE, FALSE) EXCEPT !.forget = 2], C("classic", 0, 0, 1, FALSE, FALSE, FALSE)>>}
BudC08s   == [B(2, 1, 1, 1, 0, 0, 0, 100) EXCEPT !.stall = 2]
\* tokens of different instances never collide while the store is a linearizable register that is never wiped and
\* nobody inherits tokens from a file (the clause "none visible as another instance's token when chosen", globally)
NoCollision == TokenUnique
\* C09 liveness: the environment is quiet after time 1
Cfg0Live  == {<<C("classic", 1, 1, 1, FALSE, TRUE, FALSE), [C("basic", 0, 1, 1, FALSE, TRUE, FALSE) EXCEPT !.forget = 3]>>}
BudLiveC  == B(3, 0, 0, 0, 0, 0, 1, 1)
BudLiveK  == B(2, 0, 0, 0, 1, 2, 0, 1)
=============================================================================
