CONSTANTS
  MaxN = 3
  NSet = {1, 2, 3}
  MaxZ = 3
  Modes = {"default", "zone"}
  MinHedge = {0, 3}
  Preds = {"nottransient"}
  NoCancels = {TRUE}
INIT Init
NEXT NextD
INVARIANTS TypeOK OnlySuccessful QuorumBacked ErrWhenExceeded AtMostOneCall Minimised CleanupSafe CleanupExactlyOnce UnusedCancelled ReturnedNotCancelled PlainAllCancelled CancelJustified
CHECK_DEADLOCK TRUE
