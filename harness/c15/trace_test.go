package c15

// State machine, code -> spec: real PartitionInstanceLifecyclers and a PartitionRingEditor share ONE
// in-memory consul store; each writer sits behind its own recording kv.Client, every CAS (written or
// not) and every read of a starting lifecycler becomes one event, in commit order, stamped with the
// synctest bubble clock.  spec/partitionring/PartitionRingTrace.tla accepts a chain of events only if
// each one is an enabled action of its writer applied to the ring the writer read.

import (
	"context"
	"errors"
	"fmt"
	"io"
	"math/rand"
	"os"
	"path/filepath"
	"runtime"
	"sync"
	"testing"
	"testing/synctest"
	"time"

	"github.com/go-kit/log"

	"verifharness/internal/abs"

	"github.com/grafana/dskit/kv"
	"github.com/grafana/dskit/kv/consul"
	"github.com/grafana/dskit/ring"
	"github.com/grafana/dskit/services"
)

const (
	traceNP       = 4 // partitions 1..4 of the trace specification (real ids 0..3)
	traceNO       = 6 // owner ids per chain (dense, in order of first use)
	traceNL       = 4
	ringKey       = "partitions"
	eventsPerFile = 50000
)

type partJ struct {
	St   string `json:"st"`
	Ts   int    `json:"ts"`
	Lk   bool   `json:"lk"`
	LkTs int    `json:"lkTs"`
}

type ownerJ struct {
	Part int    `json:"part"`
	Ts   int    `json:"ts"`
	St   string `json:"st"`
}

type ringJ struct {
	Parts  []partJ  `json:"parts"`
	Owners []ownerJ `json:"owners"`
}

type callJ struct {
	Kind string `json:"kind"` // none | EditorChangeState | EditorSetLock | EditorRemoveOwner | LcChangeState
	P    int    `json:"p"`
	S    string `json:"s"`
	B    bool   `json:"b"`
	O    int    `json:"o"`
}

var noCall = callJ{Kind: "none", S: ""}

// recorder is shared by all writers of one run: it serialises the CAS calls (so the log order is the
// commit order and no CAS is ever retried) and writes the events.
type recorder struct {
	mu               sync.Mutex
	dir              string
	w                *abs.NDJSONWriter
	files            []string
	inFile           int
	chain            int
	epoch            time.Time
	owners           map[string]int
	events           int
	fatal            string
	stats            map[string]int
	chainInteresting bool
	corrupt          int // self-test: falsify this event (1-based), 0 = none
	drop             int // self-test: drop this event
}

func (r *recorder) fail(f string, a ...any) {
	if r.fatal == "" {
		r.fatal = fmt.Sprintf(f, a...)
	}
}

func (r *recorder) now() int {
	d := time.Since(r.epoch)
	if d%time.Second != 0 {
		r.fail("event at a fraction of a second (%v): the specification's clock is whole seconds", d)
	}
	return int(d / time.Second)
}

func (r *recorder) rel(ts int64) int {
	if ts == 0 {
		return 0
	}
	return int(ts - r.epoch.Unix())
}

func stName(s ring.PartitionState) string {
	switch s {
	case ring.PartitionPending:
		return "P"
	case ring.PartitionActive:
		return "A"
	case ring.PartitionInactive:
		return "I"
	}
	return "?" + s.String()
}

// project maps a ring value of the store to the specification's state (partitions 1..traceNP,
// owners 1..traceNO, timestamps relative to the bubble epoch).
func (r *recorder) project(v any) ringJ {
	out := ringJ{Parts: make([]partJ, traceNP), Owners: make([]ownerJ, traceNO)}
	for i := range out.Parts {
		out.Parts[i] = partJ{St: "X"}
	}
	for i := range out.Owners {
		out.Owners[i] = ownerJ{St: "X"}
	}
	if v == nil {
		return out
	}
	d, ok := v.(*ring.PartitionRingDesc)
	if !ok || d == nil {
		if !ok {
			r.fail("store holds a %T", v)
		}
		return out
	}
	for id, p := range d.Partitions {
		if id < 0 || int(id) >= traceNP || p.Id != id {
			r.fail("unprojectable partition id %d (desc id %d)", id, p.Id)
			continue
		}
		out.Parts[id] = partJ{St: stName(p.State), Ts: r.rel(p.StateTimestamp), Lk: p.StateChangeLocked, LkTs: r.rel(p.StateChangeLockedTimestamp)}
	}
	for id, o := range d.Owners {
		ix, ok := r.owners[id]
		if !ok {
			r.fail("unprojectable owner id %q", id)
			continue
		}
		st := "A"
		if o.State != ring.OwnerActive {
			st = "?" + o.State.String()
		}
		out.Owners[ix-1] = ownerJ{Part: int(o.OwnedPartition) + 1, Ts: r.rel(o.UpdatedTimestamp), St: st}
	}
	return out
}

func (r *recorder) ownerIndex(id string, assign bool) int {
	if ix, ok := r.owners[id]; ok {
		return ix
	}
	if !assign || len(r.owners) >= traceNO {
		return 0
	}
	r.owners[id] = len(r.owners) + 1
	return r.owners[id]
}

// emit writes one event; the caller holds r.mu (or is the only goroutine running).
func (r *recorder) emit(ev map[string]any) {
	if r.fatal != "" {
		return
	}
	r.events++
	if r.drop > 0 && r.events >= r.drop && ev["ev"] == "cas" && ev["wrote"] == true {
		r.drop = 0 // self-test: the first committed write at or after event `drop` is lost
		return
	}
	if r.events == r.corrupt {
		corruptEvent(ev)
	}
	ev["c"] = r.chain
	ev["n"] = r.events
	if err := r.w.Write(ev); err != nil {
		r.fail("write trace: %v", err)
	}
	r.inFile++
}

// corruptEvent falsifies one logged field (self-test of the validator).
func corruptEvent(ev map[string]any) {
	switch ev["ev"] {
	case "cas":
		if out, ok := ev["out"].(ringJ); ok {
			for i := range out.Parts {
				if out.Parts[i].St != "X" {
					out.Parts[i].Ts++
					ev["out"] = out
					return
				}
			}
		}
		if ev["res"] == "noop" {
			ev["res"] = "locked"
		} else {
			ev["res"] = "noop"
		}
	case "begin":
		ev["p"] = ev["p"].(int)%traceNP + 1
	default:
		ev["now"] = ev["now"].(int) + 1
	}
}

func (r *recorder) startChain(meta map[string]any) error {
	if r.w == nil || r.inFile >= eventsPerFile {
		if r.w != nil {
			if err := r.w.Close(); err != nil {
				return err
			}
		}
		p := filepath.Join(r.dir, fmt.Sprintf("trace_%03d.ndjson", len(r.files)))
		w, err := abs.NewNDJSONWriter(p)
		if err != nil {
			return err
		}
		r.w, r.inFile = w, 0
		r.files = append(r.files, p)
	}
	r.chain++
	r.epoch = time.Now()
	r.owners = map[string]int{}
	r.chainInteresting = false
	ev := map[string]any{"ev": "reset", "now": 0}
	for k, v := range meta {
		ev[k] = v
	}
	r.emit(ev)
	return nil
}

// recClient is the recording kv.Client of one writer (0 = editor, l = lifecycler l).
type recClient struct {
	kv.Client
	rec    *recorder
	writer int
	intent callJ
	// race gate (conflict chains): when armed, the first invocation of a CAS function that wants to WRITE is logged as
	// an "attempt", the recorder's lock is dropped and the writer waits inside the function - between the store's read
	// and its conditional write - until the driver has let other writers commit; the store then refuses the stale
	// write and the real retry loop runs the function again.
	armed   bool
	paused  bool
	release chan struct{}
	probe   bool // a read of the driver itself (GetPartitionState): not an event
}

func (c *recClient) arm() {
	c.rec.mu.Lock()
	c.armed, c.paused = true, false
	c.release = make(chan struct{})
	c.rec.mu.Unlock()
}

// disarm returns whether the writer is waiting at the gate.
func (c *recClient) disarm() bool {
	c.rec.mu.Lock()
	defer c.rec.mu.Unlock()
	c.armed = false
	return c.paused
}

func (c *recClient) setIntent(i callJ) {
	c.rec.mu.Lock()
	c.intent = i
	c.rec.mu.Unlock()
}

func classify(err error) string {
	switch {
	case err == nil:
		return ""
	case errors.Is(err, ring.ErrPartitionStateChangeLocked):
		return "locked"
	case errors.Is(err, ring.ErrPartitionStateChangeNotAllowed):
		return "notallowed"
	case errors.Is(err, ring.ErrPartitionDoesNotExist):
		return "noexist"
	}
	return "other:" + err.Error()
}

func (c *recClient) CAS(ctx context.Context, key string, f func(in any) (out any, retry bool, err error)) error {
	r := c.rec
	r.mu.Lock()
	defer r.mu.Unlock()
	var in, out ringJ
	calls, wrote, raced := 0, false, false
	var ferr error
	err := c.Client.CAS(ctx, key, func(v any) (any, bool, error) {
		calls++
		in = r.project(v) // before f: f edits the value in place
		o, retry, e := f(v)
		ferr = e
		wrote = o != nil && e == nil
		if wrote {
			out = r.project(o)
		}
		if wrote && c.armed {
			// a stale write in the making: log what the function decided on what it read, then let others commit
			c.armed, c.paused, raced = false, true, true
			r.emit(map[string]any{"ev": "attempt", "w": c.writer, "now": r.now(), "in": in, "out": out, "wrote": true, "res": "ok", "call": c.intent})
			rel := c.release
			r.mu.Unlock()
			<-rel
			r.mu.Lock()
			c.paused = false
		}
		return o, retry, e
	})
	if calls != 1 && !(raced && calls == 2) {
		r.fail("writer %d: CAS function ran %d times (raced=%v) although un-gated writers are serialised", c.writer, calls, raced)
	}
	if raced {
		r.stats["race gated writes"]++
		if calls == 2 {
			r.stats["race real CAS conflicts"]++
			r.chainInteresting = true
			switch {
			case ferr != nil:
				r.stats["race retry refused"]++
			case !wrote:
				r.stats["race retry found nothing to do"]++
			default:
				r.stats["race retry wrote"]++
			}
		}
	}
	if err != nil && ferr == nil {
		r.fail("writer %d: store refused a serialised CAS: %v", c.writer, err)
	}
	res := classify(ferr)
	if res == "" {
		res = "noop"
		if wrote {
			res = "ok"
		}
	}
	ev := map[string]any{"ev": "cas", "w": c.writer, "now": r.now(), "in": in, "wrote": wrote, "res": res, "call": c.intent, "tries": calls}
	if wrote {
		ev["out"] = out
		for i := range in.Parts {
			switch {
			case in.Parts[i].St != out.Parts[i].St && out.Parts[i].St == "X":
				r.stats["deleted"]++
				r.chainInteresting = true
			case in.Parts[i].St != "X" && in.Parts[i].St != out.Parts[i].St:
				r.stats["edge "+in.Parts[i].St+">"+out.Parts[i].St]++
				if c.intent.Kind == "none" {
					r.stats["auto-promoted"]++
				}
				r.chainInteresting = true
			case in.Parts[i].Lk != out.Parts[i].Lk:
				r.stats["lock-change"]++
			}
		}
	} else if res != "noop" {
		r.stats["refused "+res]++
		r.chainInteresting = true
	}
	r.emit(ev)
	return err
}

func (c *recClient) Get(ctx context.Context, key string) (any, error) {
	r := c.rec
	r.mu.Lock()
	defer r.mu.Unlock()
	v, err := c.Client.Get(ctx, key)
	if err != nil {
		r.fail("writer %d: Get: %v", c.writer, err)
		return v, err
	}
	if c.probe {
		return v, err
	}
	r.emit(map[string]any{"ev": "get", "w": c.writer, "now": r.now(), "in": r.project(v)})
	return v, err
}

// ---------------------------------------------------------------------------------------------

type step struct {
	Kind string // start | stop | lc | ed | lock | rmowner | sleep
	L, P int
	S    string
	B    bool // start: create; stop: remove; lock: locked
	Cfg  [3]int
	Sub  []step // race: Sub[0] is gated at its first write attempt, Sub[1] commits meanwhile; tick: nothing
}

func (s step) String() string {
	switch s.Kind {
	case "start":
		return fmt.Sprintf("start(l%d,p%d,create=%v,cfg=%v)", s.L, s.P, s.B, s.Cfg)
	case "stop":
		return fmt.Sprintf("stop(l%d,remove=%v)", s.L, s.B)
	case "lc":
		return fmt.Sprintf("lc(l%d,%s)", s.L, s.S)
	case "ed":
		return fmt.Sprintf("ed(p%d,%s)", s.P, s.S)
	case "lock":
		return fmt.Sprintf("lock(p%d,%v)", s.P, s.B)
	case "rmowner":
		return fmt.Sprintf("rmowner(l%d,p%d)", s.L, s.P)
	case "tick":
		return fmt.Sprintf("tick(l%d)", s.L)
	case "race":
		return fmt.Sprintf("race(%v | %v)", s.Sub[0], s.Sub[1])
	}
	return s.Kind
}

type lcState struct {
	lc     *ring.PartitionInstanceLifecycler
	client *recClient
	create bool
}

type world struct {
	rec    *recorder
	ctx    context.Context
	store  kv.Client
	multi  bool
	lcs    map[int]*lcState
	editor *ring.PartitionRingEditor
	edCli  *recClient
	// a second editor (another operator) for requests that race with one of the first
	editor2   *ring.PartitionRingEditor
	edCli2    *recClient
	armNew    bool // the next started lifecycler is gated at its first write
	observing bool // GetPartitionState of every running lifecycler after every step
}

func (w *world) ownerID(l, p int) string {
	if w.multi {
		return fmt.Sprintf("i-%d/%d", l, p-1)
	}
	return fmt.Sprintf("i-%d", l)
}

// applicable tells whether the step makes sense now (a schedule with an inapplicable step is a
// duplicate of a shorter one and is skipped by the systematic walker).
func (w *world) applicable(s step) bool {
	switch s.Kind {
	case "start":
		if w.lcs[s.L] != nil {
			return false
		}
		return w.rec.ownerIndex(w.ownerID(s.L, s.P), false) != 0 || len(w.rec.owners) < traceNO
	case "stop":
		return w.lcs[s.L] != nil
	case "lc":
		return w.lcs[s.L] != nil && w.lcs[s.L].lc.State() == services.Running
	case "tick":
		return w.lcs[s.L] != nil && w.lcs[s.L].lc.State() == services.Running
	case "race":
		return w.applicable(s.Sub[0])
	case "rmowner":
		return w.multi && (w.rec.ownerIndex(w.ownerID(s.L, s.P), false) != 0 || len(w.rec.owners) < traceNO)
	}
	return true
}

// call performs one request step without waiting for quiescence; alt = through the second editor.
func (w *world) call(s step, alt bool) {
	r := w.rec
	ed, cli := w.editor, w.edCli
	if alt {
		ed, cli = w.editor2, w.edCli2
	}
	switch s.Kind {
	case "lc":
		st := w.lcs[s.L]
		st.client.setIntent(callJ{Kind: "LcChangeState", S: s.S})
		_ = st.lc.ChangePartitionState(w.ctx, pstate(s.S))
		st.client.setIntent(noCall)
	case "ed":
		cli.setIntent(callJ{Kind: "EditorChangeState", P: s.P, S: s.S})
		_ = ed.ChangePartitionState(w.ctx, int32(s.P-1), pstate(s.S))
		cli.setIntent(noCall)
	case "lock":
		cli.setIntent(callJ{Kind: "EditorSetLock", P: s.P, B: s.B})
		_ = ed.SetPartitionStateChangeLock(w.ctx, int32(s.P-1), s.B)
		cli.setIntent(noCall)
	case "rmowner":
		r.mu.Lock()
		o := r.ownerIndex(w.ownerID(s.L, s.P), true)
		r.mu.Unlock()
		cli.setIntent(callJ{Kind: "EditorRemoveOwner", O: o})
		_ = ed.RemoveMultiPartitionOwner(w.ctx, fmt.Sprintf("i-%d", s.L), int32(s.P-1))
		cli.setIntent(noCall)
	}
}

// observe binds PartitionInstanceLifecycler.GetPartitionState of every running lifecycler: what it reports must be
// the specification's state of its partition in the current ring (event "state"; the read itself is not an event).
func (w *world) observe() {
	r := w.rec
	for l := 1; l <= traceNL; l++ {
		st := w.lcs[l]
		if st == nil || st.lc.State() != services.Running {
			continue
		}
		st.client.probe = true
		ps, ts, err := st.lc.GetPartitionState(w.ctx)
		st.client.probe = false
		got, at := "X", 0
		switch {
		case err == nil:
			got, at = stName(ps), r.rel(ts.Unix())
		case !errors.Is(err, ring.ErrPartitionDoesNotExist):
			got = "?" + err.Error()
		}
		r.mu.Lock()
		r.emit(map[string]any{"ev": "state", "now": r.now(), "l": l, "got": got, "ts": at})
		r.stats["state observations"]++
		r.mu.Unlock()
	}
}

func (w *world) apply(s step) {
	r := w.rec
	switch s.Kind {
	case "start":
		r.mu.Lock()
		o := r.ownerIndex(w.ownerID(s.L, s.P), true)
		r.emit(map[string]any{"ev": "begin", "now": r.now(), "l": s.L, "p": s.P, "o": o, "cfg": s.Cfg[:], "create": s.B})
		r.mu.Unlock()
		cli := &recClient{Client: w.store, rec: r, writer: s.L, intent: noCall}
		gated := w.armNew
		if gated {
			w.armNew = false
			cli.arm()
		}
		cfg := ring.PartitionInstanceLifecyclerConfig{
			PartitionID:                          int32(s.P - 1),
			InstanceID:                           fmt.Sprintf("i-%d", s.L),
			MultiPartitionOwnership:              w.multi,
			WaitOwnersCountOnPending:             s.Cfg[0],
			WaitOwnersDurationOnPending:          time.Duration(s.Cfg[1]) * time.Second,
			DeleteInactivePartitionAfterDuration: time.Duration(s.Cfg[2]) * time.Second,
			PollingInterval:                      time.Second,
		}
		lc := ring.NewPartitionInstanceLifecycler(cfg, "verif", ringKey, cli, log.NewNopLogger(), nil)
		lc.SetCreatePartitionOnStartup(s.B)
		w.lcs[s.L] = &lcState{lc: lc, client: cli, create: s.B}
		if err := lc.StartAsync(w.ctx); err != nil {
			r.fail("StartAsync: %v", err)
		}
		synctest.Wait()
		if st := lc.State(); st != services.Running && !(st == services.Starting && (!s.B || gated)) {
			r.fail("lifecycler %d is %v after %v", s.L, st, s)
		}
	case "stop":
		st := w.lcs[s.L]
		st.lc.SetRemoveOwnerOnShutdown(s.B)
		r.mu.Lock()
		r.emit(map[string]any{"ev": "stop", "now": r.now(), "l": s.L, "remove": s.B})
		r.mu.Unlock()
		st.lc.StopAsync()
		_ = st.lc.AwaitTerminated(w.ctx) // a lifecycler still waiting for its partition ends as Failed
		synctest.Wait()
		delete(w.lcs, s.L)
	case "lc", "ed", "lock", "rmowner":
		w.call(s, false)
		synctest.Wait()
	case "sleep":
		time.Sleep(time.Second)
		synctest.Wait()
	case "race":
		w.race(s.Sub[0], s.Sub[1])
	}
	if w.observing && s.Kind != "race" {
		w.observe()
	}
}

// race: g is stopped at its first write attempt (inside the CAS function); x commits meanwhile; g is released into
// the store's refusal and the real retry. If g has nothing to write the two steps simply run one after the other.
func (w *world) race(g, x step) {
	r := w.rec
	var cli *recClient
	done := make(chan struct{})
	finish := func() {}
	switch g.Kind {
	case "tick": // the lifecycler's own reconciliation, at the first tick (of at most 3) on which it wants to write
		cli = w.lcs[g.L].client
		cli.arm()
		for k := 0; k < 3; k++ {
			time.Sleep(time.Second)
			synctest.Wait()
			r.mu.Lock()
			p := cli.paused
			r.mu.Unlock()
			if p {
				break
			}
		}
		close(done)
	case "start":
		w.armNew = true
		w.apply(g)
		cli = w.lcs[g.L].client
		close(done)
	case "stop":
		st := w.lcs[g.L]
		cli = st.client
		cli.arm()
		st.lc.SetRemoveOwnerOnShutdown(g.B)
		r.mu.Lock()
		r.emit(map[string]any{"ev": "stop", "now": r.now(), "l": g.L, "remove": g.B})
		r.mu.Unlock()
		st.lc.StopAsync()
		synctest.Wait()
		close(done)
		finish = func() {
			_ = st.lc.AwaitTerminated(w.ctx)
			synctest.Wait()
			delete(w.lcs, g.L)
		}
	default:
		cli = w.edCli
		if g.Kind == "lc" {
			cli = w.lcs[g.L].client
		}
		cli.arm()
		go func() {
			w.call(g, false)
			close(done)
		}()
		synctest.Wait()
	}
	paused := cli.disarm()
	if paused && w.applicable(x) {
		if x.Kind == "ed" || x.Kind == "lock" || x.Kind == "rmowner" {
			w.call(x, true)
			synctest.Wait()
		} else {
			w.apply(x)
		}
	}
	if paused {
		close(cli.release)
		synctest.Wait()
	}
	<-done
	finish()
	if !paused && w.applicable(x) {
		w.apply(x)
	}
	if w.observing {
		w.observe()
	}
}

// raceable: x may run while g waits at the gate (x must not need the goroutine that waits).
func raceable(g, x step) bool {
	gl := 0
	if g.Kind == "tick" || g.Kind == "lc" || g.Kind == "start" || g.Kind == "stop" {
		gl = g.L
	}
	if x.Kind == "sleep" || x.Kind == "race" || x.Kind == "tick" {
		return false // time does not pass inside a CAS of the in-memory store
	}
	if (x.Kind == "lc" || x.Kind == "start" || x.Kind == "stop") && x.L == gl {
		return false
	}
	return true
}

// runChain executes one schedule in its own bubble. gen is asked for the next step until it returns
// false; it may look at the world (applicability). Returns false if the schedule was abandoned
// before anything was logged (inapplicable systematic schedule).
func runChain(t *testing.T, rec *recorder, multi bool, meta map[string]any, steps []step, strict bool, next func(w *world, k int) (step, bool)) (ran bool) {
	synctest.Test(t, func(t *testing.T) {
		logger := log.NewNopLogger()
		store, closer := consul.NewInMemoryClient(ring.GetPartitionRingCodec(), logger, nil)
		defer func(c io.Closer) { _ = c.Close() }(closer)
		w := &world{rec: rec, ctx: context.Background(), store: store, multi: multi, lcs: map[int]*lcState{}}
		w.edCli = &recClient{Client: store, rec: rec, writer: 0, intent: noCall}
		w.editor = ring.NewPartitionRingEditor(ringKey, w.edCli)
		w.edCli2 = &recClient{Client: store, rec: rec, writer: 0, intent: noCall}
		w.editor2 = ring.NewPartitionRingEditor(ringKey, w.edCli2)
		w.observing = meta["observe"] == true
		defer func() {
			for l, st := range w.lcs {
				st.lc.StopAsync()
				_ = st.lc.AwaitTerminated(w.ctx)
				delete(w.lcs, l)
			}
		}()
		if err := rec.startChain(meta); err != nil {
			rec.fail("%v", err)
			return
		}
		ran = true
		for k := 0; rec.fatal == ""; k++ {
			var s step
			if steps != nil {
				if k >= len(steps) {
					break
				}
				s = steps[k]
			} else {
				var ok bool
				if s, ok = next(w, k); !ok {
					break
				}
			}
			if !w.applicable(s) {
				if strict {
					break // the rest of a systematic schedule is dropped: its prefix is another schedule
				}
				continue
			}
			w.apply(s)
		}
		// let pending reconciliations act, then stop everybody (logged like any other stop)
		for k := 0; k < 3 && rec.fatal == ""; k++ {
			w.apply(step{Kind: "sleep"})
		}
		for l := 1; l <= traceNL && rec.fatal == ""; l++ {
			if w.lcs[l] != nil {
				w.apply(step{Kind: "stop", L: l, B: false})
			}
		}
	})
	return ran
}

var cfgProfiles = [][2][3]int{
	{{1, 1, 1}, {2, 0, 2}},
	{{1, 0, 1}, {1, 2, 1}},
	{{2, 1, 2}, {0, 0, 1}},
	{{1, 2, 0}, {2, 2, 1}},
}

func alphabet(cfg [2][3]int, small bool) []step {
	if small {
		return []step{
			{Kind: "start", L: 2, P: 1, B: true, Cfg: cfg[1]},
			{Kind: "start", L: 2, P: 2, B: true, Cfg: cfg[1]},
			{Kind: "start", L: 2, P: 1, B: false, Cfg: cfg[1]},
			{Kind: "stop", L: 1, B: true},
			{Kind: "stop", L: 2, B: true},
			{Kind: "lc", L: 1, S: "A"},
			{Kind: "lc", L: 1, S: "I"},
			{Kind: "ed", P: 1, S: "A"},
			{Kind: "ed", P: 1, S: "I"},
			{Kind: "ed", P: 1, S: "P"},
			{Kind: "lock", P: 1, B: true},
			{Kind: "lock", P: 1, B: false},
			{Kind: "sleep"},
		}
	}
	return []step{
		{Kind: "start", L: 1, P: 1, B: true, Cfg: cfg[0]},
		{Kind: "start", L: 2, P: 1, B: true, Cfg: cfg[1]},
		{Kind: "start", L: 2, P: 2, B: true, Cfg: cfg[1]},
		{Kind: "start", L: 2, P: 1, B: false, Cfg: cfg[1]},
		{Kind: "start", L: 2, P: 2, B: false, Cfg: cfg[1]},
		{Kind: "stop", L: 1, B: true},
		{Kind: "stop", L: 1, B: false},
		{Kind: "stop", L: 2, B: true},
		{Kind: "lc", L: 1, S: "A"},
		{Kind: "lc", L: 1, S: "I"},
		{Kind: "lc", L: 1, S: "P"},
		{Kind: "lc", L: 2, S: "I"},
		{Kind: "lc", L: 2, S: "D"},
		{Kind: "ed", P: 1, S: "A"},
		{Kind: "ed", P: 1, S: "I"},
		{Kind: "ed", P: 1, S: "P"},
		{Kind: "ed", P: 2, S: "I"},
		{Kind: "lock", P: 1, B: true},
		{Kind: "lock", P: 1, B: false},
		{Kind: "sleep"},
	}
}

// scenario: a prefix of the systematic walk and whether owner ids are multi-partition ("i-1/0").
type scenario struct {
	multi  bool
	prefix []step
}

func scenarios(cfg [2][3]int) []scenario {
	var out []scenario
	for _, p := range prefixes(cfg) {
		out = append(out, scenario{false, p})
	}
	s1 := step{Kind: "start", L: 1, P: 1, B: true, Cfg: cfg[0]}
	// multi-partition owners: the editor can remove the owner entry of a RUNNING lifecycler, the only way a
	// lifecycler's own partition can become deletable while it runs
	out = append(out, scenario{true, []step{s1, {Kind: "ed", P: 1, S: "I"}, {Kind: "rmowner", L: 1, P: 1}}})
	return out
}

func deletionMatrix(full bool) [][]step {
	var out [][]step
	sl := step{Kind: "sleep"}
	for _, d := range []int{1, 2} { // DeleteInactivePartitionAfterDuration of every lifecycler
		cfg := [3]int{1, 0, d}
		s1 := step{Kind: "start", L: 1, P: 1, B: true, Cfg: cfg}
		s2 := step{Kind: "start", L: 2, P: 2, B: true, Cfg: cfg}
		s3 := step{Kind: "start", L: 3, P: 1, B: true, Cfg: cfg}
		leads := []int{1}
		if full {
			leads = []int{0, 1}
		}
		for _, lead := range leads { // seconds the first owner is registered before the partition goes inactive
			head := []step{s1, s2}
			for k := 0; k < lead; k++ {
				head = append(head, sl)
			}
			head = append(head, step{Kind: "ed", P: 1, S: "I"})
			// owner kept: never deleted
			kept := append([]step{}, head...)
			for k := 0; k < d+2; k++ {
				kept = append(kept, sl)
			}
			out = append(out, kept)
			for a := 0; a <= d+1; a++ { // seconds between the removal of the owner and the re-registration
				base := append(append([]step{}, head...), step{Kind: "stop", L: 1, B: true})
				for k := 0; k < a; k++ {
					base = append(base, sl)
				}
				out = append(out, append([]step{}, base...)) // removed, never re-registered: deleted once the delay passed
				for _, re := range []step{s1, s3} {
					for b := 0; b <= d+1; b++ { // seconds the new registration exists before the drain
						sc := append(append([]step{}, base...), re)
						for k := 0; k < b; k++ {
							sc = append(sc, sl)
						}
						out = append(out, sc)
						if full || b <= 1 {
							out = append(out, append(append([]step{}, sc...), step{Kind: "stop", L: re.L, B: true})) // ... and removed again
						}
					}
				}
			}
		}
	}
	return out
}

func prefixes(cfg [2][3]int) [][]step {
	s1 := step{Kind: "start", L: 1, P: 1, B: true, Cfg: cfg[0]}
	s21 := step{Kind: "start", L: 2, P: 1, B: true, Cfg: cfg[1]}
	s22 := step{Kind: "start", L: 2, P: 2, B: true, Cfg: cfg[1]}
	sl := step{Kind: "sleep"}
	return [][]step{
		{},
		{s1},
		{s1, s21, sl},
		{s1, s22, {Kind: "ed", P: 1, S: "I"}, {Kind: "stop", L: 1, B: true}},
		{s1, {Kind: "lock", P: 1, B: true}},
		{s1, s22, sl, sl, {Kind: "ed", P: 1, S: "A"}, {Kind: "ed", P: 2, S: "I"}},
	}
}

func racePrefixes(cfg [2][3]int) [][]step {
	s1 := step{Kind: "start", L: 1, P: 1, B: true, Cfg: cfg[0]}
	s21 := step{Kind: "start", L: 2, P: 1, B: true, Cfg: cfg[1]}
	s22 := step{Kind: "start", L: 2, P: 2, B: true, Cfg: cfg[1]}
	sl := step{Kind: "sleep"}
	return [][]step{
		{s1},
		{s1, s22, sl},
		{s1, s22, {Kind: "ed", P: 1, S: "I"}, {Kind: "stop", L: 1, B: true}}, // l2's clean-up tick will want to delete p1
		{s1, {Kind: "lock", P: 1, B: true}},
		{s1, s21, sl}, // two owners of p1 promote it on the same tick
	}
}

// raceAlphabet: the steps that are gated (g) and the steps that commit meanwhile (x).
func raceAlphabet(cfg [2][3]int) (gs, xs []step) {
	gs = []step{
		{Kind: "tick", L: 1},
		{Kind: "tick", L: 2},
		{Kind: "lc", L: 1, S: "A"},
		{Kind: "lc", L: 1, S: "I"},
		{Kind: "ed", P: 1, S: "A"},
		{Kind: "ed", P: 1, S: "I"},
		{Kind: "lock", P: 1, B: true},
		{Kind: "lock", P: 1, B: false},
		{Kind: "start", L: 3, P: 1, B: true, Cfg: cfg[1]},
		{Kind: "start", L: 3, P: 2, B: true, Cfg: cfg[1]},
		{Kind: "stop", L: 1, B: true},
		{Kind: "stop", L: 2, B: true},
	}
	xs = []step{
		{Kind: "lc", L: 1, S: "A"},
		{Kind: "lc", L: 1, S: "I"},
		{Kind: "lc", L: 2, S: "I"},
		{Kind: "ed", P: 1, S: "A"},
		{Kind: "ed", P: 1, S: "I"},
		{Kind: "ed", P: 2, S: "I"},
		{Kind: "lock", P: 1, B: true},
		{Kind: "lock", P: 1, B: false},
		{Kind: "start", L: 4, P: 1, B: true, Cfg: cfg[0]},
		{Kind: "stop", L: 1, B: true},
		{Kind: "stop", L: 2, B: true},
	}
	return gs, xs
}

func recordTrace(t *testing.T, res *abs.Result) {
	dir := os.Getenv("VERIF_TRACE_DIR")
	old := runtime.GOMAXPROCS(1) // same-instant reconciliations of different lifecyclers run in a stable order
	defer runtime.GOMAXPROCS(old)
	rec := &recorder{dir: dir, stats: map[string]int{}, corrupt: abs.EnvInt("VERIF_CORRUPT", 0), drop: abs.EnvInt("VERIF_DROP", 0)}
	seed := abs.Seed()
	tailLen := abs.EnvInt("VERIF_TAIL", 2)
	nProfiles := abs.EnvInt("VERIF_PROFILES", 1)
	nRandom := abs.EnvInt("VERIF_RANDOM", 8)
	randomLen := abs.EnvInt("VERIF_RANDOM_LEN", 60)

	count := func(ran bool) {
		if ran {
			res.Cases++
			if rec.chainInteresting {
				res.Nontrivial++
			}
		}
	}

	// (a) systematic short schedules: every prefix x every tail of tailLen steps over the alphabet
	for pi := 0; pi < nProfiles && rec.fatal == ""; pi++ {
		cfg := cfgProfiles[(int(seed)+pi)%len(cfgProfiles)]
		if seed < 0 {
			cfg = cfgProfiles[pi%len(cfgProfiles)]
		}
		alpha := alphabet(cfg, os.Getenv("VERIF_ALPHA") == "small")
		for pfi, sc := range scenarios(cfg) {
			pf := sc.prefix
			alpha := alpha
			if sc.multi {
				alpha = append(append([]step{}, alpha...), step{Kind: "rmowner", L: 1, P: 1}, step{Kind: "rmowner", L: 2, P: 1})
			}
			idx := make([]int, tailLen)
			for rec.fatal == "" {
				steps := append([]step{}, pf...)
				for _, a := range idx {
					steps = append(steps, alpha[a])
				}
				names := []string{}
				started, feasible := map[int]bool{}, true
				for _, s := range steps {
					names = append(names, s.String())
					switch s.Kind { // a schedule whose start/stop cannot apply duplicates a shorter one
					case "start":
						feasible = feasible && !started[s.L]
						started[s.L] = true
					case "stop":
						feasible = feasible && started[s.L]
						started[s.L] = false
					case "lc":
						feasible = feasible && started[s.L]
					}
				}
				if feasible {
					count(runChain(t, rec, sc.multi, map[string]any{"kind": "systematic", "prefix": pfi, "multi": sc.multi, "schedule": names}, steps, true, nil))
				}
				// next tail
				k := tailLen - 1
				for ; k >= 0; k-- {
					idx[k]++
					if idx[k] < len(alpha) {
						break
					}
					idx[k] = 0
				}
				if k < 0 {
					break
				}
			}
		}
	}

	// (a') the deletion matrix: another lifecycler's clean-up tick against a partition that has been inactive for
	//      less than / exactly / more than the delay, crossed with its owners: registered before it went inactive and
	//      kept; removed; removed and (re-)registered - by the same instance or a new one - a varying number of seconds
	//      ago; re-registered and removed again
	for _, sched := range deletionMatrix(os.Getenv("VERIF_ALPHA") != "small") {
		if rec.fatal != "" {
			break
		}
		names := []string{}
		for _, s := range sched {
			names = append(names, s.String())
		}
		count(runChain(t, rec, false, map[string]any{"kind": "deletion-matrix", "schedule": names}, sched, false, nil))
	}

	// (a'') real CAS conflicts: after each prefix, one step g is stopped inside its CAS function at its first write
	//       attempt (between the store's read and its conditional write), another writer's step x commits, and g runs
	//       into the store's refusal and the code's own retry. Every attempt and every commit must be an enabled action
	//       of its writer on the ring it read (PartitionRingTrace: "attempt" events change nothing).
	nRace := abs.EnvInt("VERIF_RACE", 1)
	for pi := 0; pi < nRace && rec.fatal == ""; pi++ {
		cfg := cfgProfiles[(int(seed)+pi)%len(cfgProfiles)]
		if seed < 0 {
			cfg = cfgProfiles[pi%len(cfgProfiles)]
		}
		gs, xs := raceAlphabet(cfg)
		for pfi, pf := range racePrefixes(cfg) {
			started := map[int]bool{}
			for _, s := range pf {
				if s.Kind == "start" {
					started[s.L] = true
				} else if s.Kind == "stop" {
					started[s.L] = false
				}
			}
			needs := func(s step) bool {
				switch s.Kind {
				case "start":
					return !started[s.L]
				case "stop", "lc", "tick":
					return started[s.L]
				}
				return true
			}
			for _, g := range gs {
				for _, x := range xs {
					if rec.fatal != "" || !raceable(g, x) || !needs(g) || !needs(x) {
						continue
					}
					steps := append(append([]step{}, pf...), step{Kind: "race", Sub: []step{g, x}})
					names := []string{}
					for _, s := range steps {
						names = append(names, s.String())
					}
					count(runChain(t, rec, false, map[string]any{"kind": "race", "prefix": pfi, "observe": true, "schedule": names}, steps, true, nil))
				}
			}
		}
	}

	// (b) seeded long schedules: 1..4 lifecyclers, 2..4 partitions, with and without multi-partition owner ids
	rnd := rand.New(rand.NewSource(seed*104729 + 15))
	for k := 0; k < nRandom && rec.fatal == ""; k++ {
		nl := 1 + rnd.Intn(traceNL)
		np := 2 + rnd.Intn(traceNP-1)
		multi := rnd.Intn(3) == 0
		if multi && nl > 3 {
			nl = 3
		}
		delays := []int{0, 1, 2}
		var descr []string
		gen := func(w *world, i int) (step, bool) {
			if i >= randomLen {
				return step{}, false
			}
			var s step
			switch x := rnd.Intn(100); {
			case x < 30:
				s = step{Kind: "sleep"}
			case x < 48:
				s = step{Kind: "start", L: 1 + rnd.Intn(nl), P: 1 + rnd.Intn(np), B: rnd.Intn(5) != 0,
					Cfg: [3]int{delays[rnd.Intn(3)], delays[rnd.Intn(3)], delays[rnd.Intn(3)]}}
			case x < 58:
				s = step{Kind: "stop", L: 1 + rnd.Intn(nl), B: rnd.Intn(3) != 0}
			case x < 70:
				s = step{Kind: "lc", L: 1 + rnd.Intn(nl), S: []string{"A", "I", "P", "A", "I", "D"}[rnd.Intn(6)]}
			case x < 85:
				s = step{Kind: "ed", P: 1 + rnd.Intn(np), S: []string{"A", "I", "P", "A", "I", "D"}[rnd.Intn(6)]}
			case x < 95:
				s = step{Kind: "lock", P: 1 + rnd.Intn(np), B: rnd.Intn(2) == 0}
			default:
				s = step{Kind: "rmowner", L: 1 + rnd.Intn(nl), P: 1 + rnd.Intn(np)}
			}
			if w.applicable(s) {
				descr = append(descr, s.String())
			}
			return s, true
		}
		count(runChain(t, rec, multi, map[string]any{"kind": "random", "multi": multi, "nl": nl, "np": np, "observe": true}, nil, false, gen))
		if k < 2 {
			res.Sample(map[string]any{"mode": "trace", "kind": "random", "multi": multi, "lifecyclers": nl, "partitions": np, "schedule": descr})
		}
	}

	if rec.w != nil {
		if err := rec.w.Close(); err != nil {
			rec.fail("close trace: %v", err)
		}
	}
	res.AddExtra("trace_files", rec.files)
	res.AddExtra("trace_events", rec.events)
	res.AddExtra("trace_chains", rec.chain)
	for k, v := range rec.stats {
		res.AddExtra("trace "+k, v)
	}
	if rec.fatal != "" {
		res.Fatal = rec.fatal
	}
}
