CONSTANTS
  Part = {0, 1, 2, 3, 4, 5}
  Owners = {}
  PIdent = {1, 2, 3}
  PSizes = {0, 1, 2, 3, 20}
  PLookbacks = {1, 2, 3, 5, 8}
  PTimes = {}
  PMaxUpd = 100000000
  PStates = {}
  PStamps = {}
  PToks = {}
  Capacities = {0}
  PCompute <- TracePCompute
INIT TraceInit
NEXT TraceNext
INVARIANT Report
VIEW TraceView
CHECK_DEADLOCK FALSE
