package c08

import (
	"context"
	"os"
	"testing"
	"testing/synctest"

	"github.com/grafana/dskit/ring"
)

// TestReproReadyWhileJoining is the minimal reproduction of the C08 finding "CheckReady reports ready while
// the instance is JOINING": with ReadinessCheckRingHealth enabled, CheckReady looks at every entry of the ring
// but never at the instance's own entry or state; after the ring key was lost and another (ACTIVE) instance
// re-registered, a lifecycler that is still JOINING (observing its tokens) reports ready - and latches.
// Run: go test -tags verif -run TestReproReadyWhileJoining ./c08   (fails on /repo before fix a84e2f3, passes since)
func TestReproReadyWhileJoining(t *testing.T) {
	if os.Getenv("VERIF_REPRO") == "" {
		t.Skip("set VERIF_REPRO=1 to run the reproduction of a reported finding")
	}
	synctest.Test(t, func(t *testing.T) {
		w := newWorld(maxN, 2, 3, t.TempDir())
		a := lcCfg{Kind: "classic", Join: 0, Obs: 5, Hb: 5, Health: true, Regst: "ACTIVE"}
		if err := w.start(1, a, 1, 0, ""); err != nil { // joins at once: JOINING with 2 tokens, observing for 5 s
			t.Fatal(err)
		}
		w.wipe()                                                  // the store loses the ring
		if err := w.start(2, bystander(), 2, 0, ""); err != nil { // somebody else registers and goes ACTIVE
			t.Fatal(err)
		}
		l := w.inc[1].classic
		err := l.CheckReady(context.Background())
		t.Logf("state=%v published=%s CheckReady=%v", l.GetState(), w.publishedState(1), err)
		if err == nil && l.GetState() != ring.ACTIVE {
			t.Errorf("CheckReady returned ready while the instance is %v and has no entry in the ring", l.GetState())
		}
		w.finish("end")
	})
}
