//go:build verif

package c07

import (
	"context"
	"encoding/json"
	"fmt"
	"os"
	"sync"
	"testing"
	"testing/synctest"

	"github.com/prometheus/client_golang/prometheus"

	"verifharness/internal/abs"

	"github.com/grafana/dskit/kv"
	"github.com/grafana/dskit/kv/memberlist"
)

// spec -> code for spec/kvcas/KVMulti.tla (outside C07's quantifier): a mirroring MultiClient over
// store 1 = memberlist KV (initial primary) and store 2 = the in-memory Consul store, with the
// primary switched at run time through MultiConfig.ConfigProvider.

type mstep struct {
	A   string   `json:"a"` // begin | put | mirror | switch
	C   int      `json:"c"` // caller (switch: the new primary)
	E   string   `json:"e"` // fin | mirror | ok
	In  [][3]int `json:"in"`
	Get [][3]int `json:"get"` // Get through the MultiClient
	S1  [][3]int `json:"s1"`  // memberlist store
	S2  [][3]int `json:"s2"`  // Consul store
}

func TestMultiSwitch(t *testing.T) {
	in := os.Getenv("VERIF_IN")
	if in == "" {
		t.Skip("VERIF_IN not set")
	}
	res := &abs.Result{}
	defer res.Write(t)
	mem, err := initInMemory()
	if err != nil {
		res.Fatal = err.Error()
		return
	}
	var behs [][]mstep
	err = abs.ReadNDJSON(in, func(line []byte) error {
		var b []mstep
		if err := json.Unmarshal(line, &b); err != nil {
			return err
		}
		behs = append(behs, b)
		return nil
	})
	if err != nil {
		res.Fatal = err.Error()
		return
	}
	lost := 0
	for bi, beh := range behs {
		synctest.Test(t, func(t *testing.T) {
			if l, fatal := runMultiBehaviour(res, mem, beh, fmt.Sprintf("msw-%d-%d", abs.Seed(), bi)); fatal != "" {
				res.Fatal = fatal
			} else if l {
				lost++
			}
		})
		if res.Fatal != "" {
			return
		}
		res.Cases++
		if len(beh) > 0 && containsSwitch(beh) {
			res.Nontrivial++
		}
		if bi%97 == 0 {
			res.Sample(map[string]interface{}{"variant": "multi-switch", "behaviour": beh})
		}
	}
	res.AddExtra("multi_switch_behaviours_where_primary_lost_an_applied_call", lost)
}

func containsSwitch(beh []mstep) bool {
	for _, s := range beh {
		if s.A == "switch" {
			return true
		}
	}
	return false
}

// runMultiBehaviour returns whether, at the end, the primary's view of itself lacked a call that
// had been applied to it (observed on the real stores), and a fatal harness error if any.
func runMultiBehaviour(res *abs.Result, mem kv.Client, beh []mstep, key string) (bool, string) {
	ctx := context.Background()
	mkv, stop, err := newMemberlistKV(ctx, 10)
	if err != nil {
		return false, err.Error()
	}
	defer stop()
	ch := make(chan kv.MultiRuntimeConfig)
	cfg := kv.Config{Store: "multi", Prefix: pfx}
	cfg.MemberlistKV = func() (*memberlist.KV, error) { return mkv, nil }
	cfg.Multi = kv.MultiConfig{Primary: "memberlist", Secondary: "inmemory", MirrorEnabled: true,
		ConfigProvider: func() <-chan kv.MultiRuntimeConfig { return ch }}
	client, err := kv.NewClient(cfg, Codec{}, prometheus.NewRegistry(), nop)
	if err != nil {
		return false, err.Error()
	}
	defer close(ch) // ends the MultiClient's config watcher goroutine
	gl, _ := memberlist.NewClient(mkv, Codec{})
	stores := map[int]kv.Client{1: gl, 2: mem}
	names := map[int]string{1: "memberlist", 2: "inmemory"}

	nc := 0
	for _, s := range beh {
		if s.A != "switch" && s.C > nc {
			nc = s.C
		}
	}
	cs := make([]*caller, nc+1)
	var pmu sync.Mutex
	owner := map[*Val]*caller{}
	for i := 1; i <= nc; i++ {
		cs[i] = &caller{id: i, gate: make(chan decision), mgate: make(chan struct{})}
	}
	hook := func(v *Val) {
		pmu.Lock()
		c := owner[v]
		delete(owner, v) // park once: the Consul client encodes again when it retries the mirror write
		pmu.Unlock()
		if c == nil {
			return
		}
		c.mu.Lock()
		c.st = stMirror
		c.mu.Unlock()
		<-c.mgate
		c.mu.Lock()
		c.st = stLeftF
		c.mu.Unlock()
	}
	encodeHook.Store(&hook)
	defer encodeHook.Store(nil)

	prim := 1
	appliedOn := map[[2]int]int{} // (caller, call) -> store it was applied to
	fail := func(i int, s mstep, what string, got, want interface{}) {
		res.Mismatch(abs.Mismatch{Sig: fmt.Sprintf("multi-switch %s->%s: %s", s.A, s.E, what),
			Case: map[string]interface{}{"behaviour": beh, "step": i}, Got: got, Want: want})
	}
	ok := true
	for i, s := range beh {
		var c *caller
		switch s.A {
		case "switch":
			prim = s.C
			ch <- kv.MultiRuntimeConfig{PrimaryStore: names[prim]}
		case "begin":
			c = cs[s.C]
			onStore := prim
			c.outHook = nil
			if onStore == 1 { // only a call running on the memberlist store has a gate before its mirror write
				cc := c
				c.outHook = func(out *Val) {
					pmu.Lock()
					owner[out] = cc
					pmu.Unlock()
				}
			}
			c.begin(ctx, client, key, nil, nil)
		case "put":
			c = cs[s.C]
			c.gate <- decision{a: "put", rf: true}
		case "mirror":
			c = cs[s.C]
			c.mgate <- struct{}{}
		}
		synctest.Wait()
		if c != nil {
			stt, in, inErr, cerr, pan := c.snapshot()
			switch {
			case pan != nil:
				fail(i, s, "panic", fmt.Sprint(pan), s.E)
				ok = false
			case s.E == "fin" && (stt != stInF || inErr != nil || !eqTriples(in, norm(s.In))):
				fail(i, s, "f entry", map[string]interface{}{"state": describe(stt, cerr), "in": in}, norm(s.In))
				ok = false
			case s.E == "mirror" && stt != stMirror:
				fail(i, s, "call should be parked in its mirror write", describe(stt, cerr), "parked in the mirror write")
				ok = false
			case s.E == "ok" && (stt != stReturned || cerr != nil):
				fail(i, s, "call result", describe(stt, cerr), "returned nil")
				ok = false
			}
		}
		if !ok {
			break
		}
		for _, o := range []struct {
			what string
			cl   kv.Client
			key  string
			want [][3]int
		}{{"Get through the MultiClient", client, key, s.Get}, {"memberlist store", gl, pfx + key, s.S1}, {"Consul store", mem, pfx + key, s.S2}} {
			got, gerr := o.cl.Get(ctx, o.key)
			gv, perr := asVal(got)
			if gerr != nil || perr != nil || !eqTriples(gv, norm(o.want)) {
				fail(i, s, o.what, map[string]interface{}{"val": gv, "err": fmt.Sprint(gerr, perr)}, norm(o.want))
				ok = false
			}
		}
		if !ok {
			break
		}
		if s.A == "put" && (s.E == "mirror" || s.E == "ok") {
			appliedOn[[2]int{s.C, cs[s.C].op}] = map[bool]int{true: 1, false: 2}[cs[s.C].outHook != nil]
		}
	}
	// what the real stores say at the end of the behaviour: is a call that was applied to the
	// current primary missing from the current primary?
	lost := false
	if ok {
		got, _ := stores[prim].Get(ctx, pfx+key)
		gv, _ := asVal(got)
		have := map[[2]int]bool{}
		for _, t := range gv {
			have[[2]int{t[0], t[1]}] = true
		}
		for call, on := range appliedOn {
			if on == prim && !have[call] {
				lost = true
			}
		}
	}
	// drain
	for rounds := 0; rounds < 64; rounds++ {
		busy := false
		for i := 1; i <= nc; i++ {
			switch stt, _, _, _, _ := cs[i].snapshot(); stt {
			case stInF:
				cs[i].gate <- decision{a: "decline"}
				busy = true
			case stMirror:
				cs[i].mgate <- struct{}{}
				busy = true
			}
		}
		if !busy {
			break
		}
		synctest.Wait()
	}
	return lost, ""
}
