----------------------------- MODULE RingLookupMC -----------------------------
(***************************************************************************)
(* The bounded universe of ring descriptors for C01 / C02, explored as a   *)
(* state machine: instances register (AddInstance) and unregister          *)
(* (RemoveInstance) one at a time.  Every reachable descriptor is one      *)
(* state; `out` holds the results the specification demands for every key  *)
(* class, operation, replication factor and zone-awareness setting on that *)
(* descriptor (a function of `desc`, kept out of the VIEW).                *)
(*                                                                         *)
(* Keys are key classes 0..NK-1 in cyclic order exactly as in              *)
(* TokenRanges.tla: a class is a token position (one concrete uint32) or a *)
(* gap class (all keys strictly between the neighbouring positions); the   *)
(* harness embeds consecutive positions as literally adjacent uint32       *)
(* values, the first one as 0 and the last one as 2^32-1.                  *)
(***************************************************************************)
EXTENDS RingLookup, TLC, Json

CONSTANTS NK,         \* number of key classes
          Gaps,       \* key classes that are not token positions
          N,          \* instance ids 1..N
          MaxTok,     \* at most this many tokens per instance
          Z,          \* zones 1..Z, 0 = no zone
          StateSet,   \* instance states of this universe
          HbSet,      \* heartbeat classes of this universe
          RFMax,      \* replication factors 1..RFMax
          Canon,      \* TRUE: one representative per renaming of instances and zones
          WithRemove, \* TRUE: RemoveInstance steps are explored as well
          EmitOn      \* TRUE: print the expected results of every state (one JSON line per descriptor)

Key    == 0..(NK-1)
TokPos == Key \ Gaps
Inst   == 1..N
OpSeq  == <<"Write", "WriteNoExtend", "Read", "Reporting">>
ZASeq  == <<FALSE, TRUE>>
RFSet  == 1..RFMax

VARIABLES desc,   \* the ring descriptor
          out     \* expected results on desc

vars == <<desc, out>>

(* TLCEval forces TLC to evaluate the (otherwise lazily re-evaluated) function values once. *)
Compute(d) ==
    [look |-> TLCEval([k \in Key |->
                 LET ord == TLCEval(WalkOrder(NK, d, k))
                 IN TLCEval([op \in OpNames |-> TLCEval([za \in BOOLEAN |->
                       LET marks == TLCEval(Marks(d, Ops[op], za, ord))    \* shared by all rf
                       IN TLCEval([rf \in RFSet |-> ResultOn(d, ord, Ops[op], rf, Pick(ord, marks, rf))])])])]),
     rset |-> TLCEval([op \in OpNames |-> TLCEval([za \in BOOLEAN |-> TLCEval([rf \in RFSet |->
                        ReplicationSetFor(d, Ops[op], rf, za)])])])]

Empty == [i \in {} |-> 0]

Init == /\ desc = Empty
        /\ out = Compute(Empty)

MaxZone(d) == IF DOMAIN d = {} THEN 0 ELSE SetMax({d[i].zone : i \in DOMAIN d})

(* Instance x registers with zone z, state s, heartbeat class h and the    *)
(* (still free) tokens T.  With Canon only one descriptor of every class   *)
(* of descriptors equal up to renaming instances and zones is built: ids   *)
(* are handed out in order, owners are numbered by their smallest token,   *)
(* instances without tokens come last, zone numbers are introduced in      *)
(* order.  (Neither the specification nor the property depends on names.)  *)
AddInstance(x, z, s, h, T) ==
    /\ x \notin DOMAIN desc
    /\ T \cap AllTokens(desc) = {}
    /\ Cardinality(T) <= MaxTok
    /\ Canon => /\ x = Cardinality(DOMAIN desc) + 1
                /\ z <= 1 + MaxZone(desc)
                /\ T # {} => \A i \in DOMAIN desc : desc[i].toks # {} /\ SetMin(desc[i].toks) < SetMin(T)
    /\ desc' = [i \in DOMAIN desc \cup {x} |->
                   IF i = x THEN [zone |-> z, state |-> s, hb |-> h, toks |-> T] ELSE desc[i]]
    /\ out' = Compute(desc')

RemoveInstance(x) ==
    /\ WithRemove
    /\ x \in DOMAIN desc
    /\ desc' = [i \in DOMAIN desc \ {x} |-> desc[i]]
    /\ out' = Compute(desc')

Next == \/ \E x \in Inst, z \in 0..Z, s \in StateSet, h \in HbSet, T \in SUBSET TokPos : AddInstance(x, z, s, h, T)
        \/ \E x \in Inst : RemoveInstance(x)

Spec == Init /\ [][Next]_vars

View == desc

----------------------------------------------------------------------------
TypeOK == /\ DOMAIN desc \subseteq Inst
          /\ \A i \in DOMAIN desc : /\ desc[i].zone \in 0..Z
                                    /\ desc[i].state \in StateSet
                                    /\ desc[i].hb \in HbSet
                                    /\ desc[i].toks \subseteq TokPos
          /\ WellFormed(desc)

Cases == Key \X OpNames \X BOOLEAN \X RFSet
L(c) == out.look[c[1]][c[2]][c[3]][c[4]]

OutIsLookup == out = Compute(desc)   \* only meaningful as a sanity check of the bookkeeping

(* C01 *)
SizeOK         == \A c \in Cases : SizeOKOn(desc, Ops[c[2]], c[4], c[3], L(c))
ZoneOK         == \A c \in Cases : ZoneOKOn(desc, Ops[c[2]], c[3], L(c))
ClockwiseFirst == \A c \in Cases : ClockwiseFirstOn(NK, desc, c[1], Ops[c[2]], c[3], L(c))
SlackExact     == \A c \in Cases : SlackExactOn(desc, Ops[c[2]], c[4], L(c))
WalkDefsAgree  == \A c \in Cases : L(c).walked = ReplicaWalkScan(desc, Ops[c[2]], c[4], c[3], WalkOrder(NK, desc, c[1]))

(* C01, the consequence: a step that registers or removes one instance     *)
(* changes the result only of lookups whose walked set contained it before *)
(* or contains it afterwards.                                              *)
Observable(r) == <<r.walked, r.ok, r.err, r.ids, r.maxErrors>>
Disruption ==
    LET changed == (DOMAIN desc' \ DOMAIN desc) \cup (DOMAIN desc \ DOMAIN desc')
    IN \A c \in Cases :
          LET a == out.look[c[1]][c[2]][c[3]][c[4]]
              b == out'.look[c[1]][c[2]][c[3]][c[4]]
          IN Observable(a) # Observable(b) => changed \cap (a.walked \cup b.walked) # {}
MinimalDisruption == [][Disruption]_vars

(* C02: with zone-awareness the property presupposes that every instance   *)
(* carries a zone.                                                         *)
AllZoned == \A i \in DOMAIN desc : desc[i].zone # 0
QuorumIntersection ==
    \A za \in BOOLEAN, rf \in RFSet :
       (za => AllZoned) =>
          LET r == out.rset["Read"][za][rf]
          IN r.ok => LET RB == ReadAnswerSets(desc, r)
                     IN \A k \in Key :
                           LET w == out.look[k]["Write"][za][rf]
                           IN w.ok => \A A \in WriteAckSets(w), B \in RB : A \cap B # {}

----------------------------------------------------------------------------
(* Case emitter: one JSON line per descriptor.  A result is one integer:   *)
(* (maxErrors + 2) * 2^N + id mask, 0 = empty ring, 2^N = too few healthy  *)
(* instances; a replication set: ((maxErrors + 2) * 8 + maxUnavailableZones) * 2^N + id mask. *)
Mask(S) == LET f[i \in 0..N] == IF i = 0 THEN 0 ELSE f[i-1] + (IF i \in S THEN 2^(i-1) ELSE 0) IN f[N]
CodeL(r) == IF r.ok THEN (r.maxErrors + 2) * (2^N) + Mask(r.ids)
            ELSE IF r.err = "empty" THEN 0 ELSE 2^N
CodeR(r) == IF r.ok THEN ((r.maxErrors + 2) * 8 + r.maxUnavailableZones) * (2^N) + Mask(r.ids)
            ELSE IF r.err = "empty" THEN 0 ELSE 8 * (2^N)

Emit == EmitOn =>
    PrintT(ToJson(
      [ids   |-> [i \in 1..N |-> IF i \in DOMAIN desc THEN 1 ELSE 0],
       zone  |-> [i \in 1..N |-> IF i \in DOMAIN desc THEN desc[i].zone ELSE 0],
       state |-> [i \in 1..N |-> IF i \in DOMAIN desc THEN desc[i].state ELSE ""],
       hb    |-> [i \in 1..N |-> IF i \in DOMAIN desc THEN desc[i].hb ELSE ""],
       toks  |-> [i \in 1..N |-> IF i \in DOMAIN desc THEN desc[i].toks ELSE {}],
       look  |-> [k \in 1..NK |-> [o \in 1..4 |-> [z \in 1..2 |-> [rf \in 1..RFMax |->
                     CodeL(out.look[k-1][OpSeq[o]][ZASeq[z]][rf])]]]],
       rset  |-> [o \in 1..4 |-> [z \in 1..2 |-> [rf \in 1..RFMax |->
                     CodeR(out.rset[OpSeq[o]][ZASeq[z]][rf])]]],
       nt    |-> Cardinality({c \in Cases : ~L(c).plain})]))
=============================================================================
