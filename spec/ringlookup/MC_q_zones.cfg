\* q_zones: see checks/ringlookup_common.py (UNIVERSES) for what this universe is for
CONSTANTS
  NK = 5
  Gaps = {2}
  N = 4
  MaxTok = 1
  MaxIdle = 1
  Z = 4
  StateSet = {"ACTIVE", "JOINING"}
  HbSet = {"edge"}
  RFMax = 4
  Canon = 2
  WithRemove = FALSE
  EmitOn = TRUE
INIT Init
NEXT Next
VIEW View
INVARIANTS TypeOK SizeOK ZoneOK ClockwiseFirst SlackExact WalkDefsAgree QuorumIntersection Emit
PROPERTIES MinimalDisruption
CHECK_DEADLOCK FALSE
