\* C03 partition ring, thorough: two partitions and two owners (both may own either partition), a seed-chosen slice of the stored descriptors
CONSTANTS
  NP = 2
  NO = 2
  NOwned = 2
  TsSet = {1, 2}
  PStates = {"Active"}
  LockTs = {0, 1}
  Lim2Set = {0, 1, 2, 3, 4, 5}
  NowSet = {2, 3}
  NSlices = @@NSLICES@@
  Slice = @@SLICE@@
INIT Init
NEXT Next
INVARIANTS SeedLawsLight CaseLaws CaseContract EmitGC EmitEdit
CHECK_DEADLOCK FALSE
