CONSTANTS
  NP = 3
  NL = 2
  NO = 2
  MaxClock = 1000
  AgeCap = 2
  Multi = FALSE
  LCfg <- Cfg3p2l
  TokOf <- Tok3
  Homes <- Homes3p2l
  WaitModes = {}
  LockParts = {}
  ReqStates = {"A", "I"}
INIT Init
NEXT Next
VIEW ageview
INVARIANTS TypeOK RoutingTotal
PROPERTIES LegalEdges LockRespected PromotionTiming DeletionGuard LockOnlyByEditor RefusedIsNoWrite
CHECK_DEADLOCK FALSE
