"""C02 - every successful quorum write shares a replica with every successful quorum read.

spec/ringlookup: ReadSet (GetReplicationSetForOperation(Read)), Lookup(Write) and the executors' success predicates
(DoBatch minSuccess, defaultResultTracker, zoneAwareResultTracker) as set predicates; TLC checks QuorumIntersection
(all acknowledging subsets x all answering subsets) in every descriptor of the tier's universes (1..5 zones, RF 1..5) and
emits the expected replication sets and Write lookups; harness/c01 replays them on the real ring and records seeded random
larger rings that RingLookupTrace.tla validates.
"""
import ringlookup_common as rl

PROPERTY = "C02"
META = {
    "level_text": "TLC checks, for every ring descriptor of bounded universes (<=4-5 single-token instances, 0-5 zones, RF 1..5, extending and "
                  "unhealthy instances, instances without tokens), that every subset of the Write replica set accepted by DoBatch's "
                  "success criterion intersects every subset of the Read replication set accepted by the default / zone-aware result "
                  "tracker's criterion (all subsets, not only minimal ones; zone-awareness presupposes that every instance has a zone). "
                  "The two operators the theorem is about are bound to the code: their values on every descriptor (all key classes; ids, "
                  "MaxErrors, MaxUnavailableZones, ZoneAwarenessEnabled or the error) are replayed against Ring.Get(Write) and "
                  "Ring.GetReplicationSetForOperation on a real ring, and seeded random larger rings are recorded and validated by TLC.",
    "level_note": "The success predicates the theorem relies on are bound to the REAL executors: for every subset A of the Write replica set "
                  "(every key class) ring.DoBatch runs on the real ring with callbacks that succeed exactly on A and must succeed iff "
                  "WriteSucceeds(w, A); for every subset B of the Read replication set DoUntilQuorum (with and without request minimisation) "
                  "and ReplicationSet.Do must succeed iff ReadSucceeds(r, B) - on every descriptor of the small universes and every 6th-16th of "
                  "the larger ones (callbacks return immediately; schedules and hedging are C10 / C11). Exhaustive only within the listed "
                  "universes; larger rings are sampled. Trusted: TLC, key-class embedding, rank compression, synctest clock.",
    "technique": "TLA+ specification (RingLookup.tla) model-checked by TLC; TLC-generated cases replayed into the real code; "
                 "traces recorded from the real code validated by TLC",
    "design_ref": "DESIGN.md 2 C02",
}


def run(ctx):
    ctx.rule = ("one case = (descriptor, operation, RF, zone-awareness) replication set or (descriptor, key class, RF, zone-awareness) Write "
                "lookup with the specification's result, plus every logged call of the recorded random rings; distinct = distinct TLC states; "
                "non-trivial = the replication set drops an instance or a zone, tolerates at least one error / unavailable zone, or fails")
    return rl.run_family(ctx, "c02")
