"""C17 - services and their manager follow the state machine on every interleaving.

spec/services/Service.tla      one BasicService at the granularity of its critical sections (TLC: exhaustive)
spec/services/ServiceGated.tla the same operators composed "environment step, then internal steps until every
                               goroutine is blocked"; TLC prints one behaviour per transition of that graph and
                               harness/c17 replays each on a real BasicService inside testing/synctest
spec/services/ServiceConfl.tla TLC: the order of the internal steps does not matter (soundness of the above)
spec/services/AbsService.tla   the service seen from outside; TLC: it simulates ServiceGated (AbsSim)
spec/services/Manager.tla      services.Manager over abstract services (TLC: exhaustive for 2, simulation for 3)
spec/services/ManagerGated.tla gate-granularity behaviours replayed on a real Manager over real BasicServices
spec/services/ServiceTrace.tla traces recorded from free-running goroutines on real services, validated by TLC
"""
import json
import os
import re

import verif

PROPERTY = "C17"
META = {
    "level_text": "TLC checks the clauses of C17 (legal transitions, function order, stopping-iff-started, context cancelled before stopping, "
                  "exact waiter latches, no double close, first error wins, listener order, notifier never blocks, no nil cancel call, the service "
                  "context exists from the moment the service is observably Starting (StartAsync is one critical section); manager: "
                  "healthy/stopped exact, failure reported once - also to listeners added late or removed -, latches; failure watcher: reported "
                  "at most once, never on the closed channel, Close returns if somebody reads) exhaustively on Service.tla (one service, 2 "
                  "StopAsync callers as two critical sections each, listeners, waiters, parent cancel, every function outcome, nil functions, "
                  "the run loops of idle and timer services specified step by step), Manager.tla (2 services exhaustive, 3 by simulation) and "
                  "FailureWatcher.tla. The code is bound to the specification in both directions: every transition of the gate-granularity state "
                  "graphs (built from the same operators) is replayed on real BasicService / NewIdleService / NewTimerService (gated iteration "
                  "function under the bubble clock) / Manager / FailureWatcher objects inside testing/synctest with the observable state "
                  "compared after every step (every replayed StartAsync is overlapped by an observer goroutine started from the Done method of "
                  "the parent context, the one call-back StartAsync makes inside its critical section: what it sees must satisfy "
                  "ContextOnceStarted), and traces of free-running goroutines racing the API (the parent context yields the processor inside "
                  "StartAsync so that the racing calls overlap it) are accepted by TLC, which infers the unlogged critical sections.",
    "level_note": "Trusted: TLC; the harness gates (service functions, timer iteration, listener callbacks, the verif hook between the two "
                  "critical sections of StopAsync); testing/synctest quiescence; the projection of the API (State, FailureCase, ServiceContext, "
                  "Await* results, callback logs, Chan()) onto the specification's observation. Bounded: <=2 racing StopAsync callers (4 in "
                  "traces), <=2 listeners, 2 waiters, <=3 timer ticks, managers of <=3 services (abstract services at delivery granularity), "
                  "failure watchers over 3 services. A listener-channel buffer smaller than 4 is decided on the specification only (not "
                  "observable through the API). FailureWatcher.Close blocking while a report is pending and nobody reads is specified and "
                  "expected as a named behaviour, not judged. The observer that overlaps StartAsync is one-sided: it reports only what it "
                  "really read (no false alarm is possible while StartAsync holds the lock), and it notices a split StartAsync only if the Go "
                  "scheduler runs it within 32 yields. Not bound: the convenience helpers StartAndAwaitRunning / StopAndAwaitTerminated / "
                  "StartManagerAndAwaitHealthy / StopManagerAndAwaitStopped / DescribeService and the NewListener adapter (thin wrappers "
                  "over the bound calls).",
    "technique": "TLA+ specifications model-checked by TLC; TLC-generated behaviours replayed into the real code (path cover of the gated "
                 "state graphs); traces recorded from the real code validated by TLC",
    "design_ref": "DESIGN.md 2 C17",
}

F4_SIG = "StopAsync:nil-cancel-after-lost-New->Terminated-race"

# gated configs: name -> harness constants
GATED = {
    "MC_nilcancel": dict(nc=2, nl=0, wrun=[], wterm=[]),
    "MC_gated_core": dict(nc=2, nl=1, wrun=[], wterm=[]),
    "MC_gated_timer_w": dict(nc=1, nl=0, wrun=[1], wterm=[2]),
    "MC_gated_timer3": dict(nc=1, nl=1, wrun=[], wterm=[]),
    "MC_gated_modes": dict(nc=1, nl=1, wrun=[], wterm=[]),
    "MC_gated_nilfn5": dict(nc=1, nl=1, wrun=[], wterm=[]),
    "MC_gated_wait": dict(nc=1, nl=0, wrun=[1], wterm=[2]),
    "MC_gated_nilfn": dict(nc=1, nl=1, wrun=[], wterm=[]),
    "MC_gated_lw": dict(nc=1, nl=1, wrun=[1], wterm=[2]),
    "MC_gated_l2": dict(nc=1, nl=2, wrun=[], wterm=[]),
    "MC_gated_start2": dict(nc=1, nl=0, wrun=[], wterm=[]),      # a second StartAsync in every state of the service
}
MGATED = {
    "MC_mgated_cover": dict(ns=2, nml=0, wh=[], ws=[]),
    "MC_mgated_cover1": dict(ns=2, nml=1, wh=[], ws=[]),
    "MC_mgated_sim": dict(ns=2, nml=1, wh=[1], ws=[2]),
    "MC_mgated_one": dict(ns=1, nml=1, wh=[1], ws=[]),
    "MC_mgated_sim3": dict(ns=3, nml=2, wh=[1], ws=[2]),
}


def incon(why):
    raise verif.Inconclusive(why)


def corrupt_one_observation(path):
    """development aid (VERIF_C17_CORRUPT=obs): change one demanded observation; the replay must then fail"""
    lines = open(path).read().splitlines()
    for k in range(len(lines) // 2, len(lines)):
        o = json.loads(lines[k])
        if o["o"].get("st") == "Stopping":
            o["o"]["st"] = "Running"
            lines[k] = json.dumps(o)
            break
    open(path, "w").write("\n".join(lines) + "\n")


def parallel(ctx, thunks, width):
    """Run thunks (each takes its own sub-context: own scratch directory and counters) in `width` threads and fold
    the counters of the sub-contexts into ctx. Results are returned in the order of `thunks` (deterministic)."""
    from concurrent.futures import ThreadPoolExecutor
    subs = [verif.Ctx(ctx.pid, ctx.tier, ctx.seed) for _ in thunks]
    for sub in subs:
        sub.t0 = ctx.t0
    with ThreadPoolExecutor(max_workers=max(1, width)) as ex:
        futs = [ex.submit(th, sub) for th, sub in zip(thunks, subs)]
        outs, first_exc = [], None
        for f in futs:
            try:
                outs.append(f.result())
            except Exception as e:      # noqa - re-raised below, after every thread has finished
                outs.append(None)
                first_exc = first_exc or e
    for sub in subs:
        ctx.states += sub.states
        ctx.transitions += sub.transitions
        ctx.tlc_runs += sub.tlc_runs
    if first_exc:
        raise first_exc
    return outs


def run(ctx):
    quick = ctx.tier == "quick"
    ncpu = os.cpu_count() or 4
    PAR = int(os.environ.get("VERIF_C17_PAR", "4" if ncpu >= 8 else "2"))          # TLC runs side by side
    W = int(os.environ.get("VERIF_TLC_WORKERS", str(max(2, min(8, ncpu // PAR)))))   # workers of each
    ctx.rule = ("a case is one behaviour: a maximal path of the gate-granularity state graph of ServiceGated.tla / ManagerGated.tla "
                "(environment calls and gate releases, TLC prints one path per transition of the graph; distinct by construction), or one "
                "recorded trace of racing goroutines; non-trivial = the service left New (replay: some transition happened; manager: healthy or "
                "stopped was reached) / the trace contains overlapping API calls")
    ctx.assumptions = ["testing/synctest: synctest.Wait() returns only when every goroutine of the bubble is durably blocked",
                       "the harness gates (service functions, listener callbacks, services.VerifYield) are the only blocking points",
                       "stamps of one atomic counter order recorded call/return events soundly (real-time order)"]
    ctx.exhaustive = True
    stages = set((os.environ.get("VERIF_C17_STAGES") or "replay,model,record").split(","))   # development aid

    def tlc_ok(module, cfg, **kw):
        """a TLC run that must finish without error and without violation"""
        def th(sub):
            kw.setdefault("timeout", 3000)
            kw.setdefault("workers", W)
            r = sub.tlc("services", module, cfg=cfg + ".cfg", **kw)
            sub.require_tlc_ok(r, cfg)
            return r
        return th

    panics, subst = 0, None
    if "replay" not in stages:      # development aid: model checking / recording only, StopAsync variant given
        g = os.environ.get("VERIF_C17_GUARD", "FALSE")
        panics = 1 if g == "FALSE" else 0
        subst = {"@@GUARD@@": g, "@@NONIL@@": "" if panics else "NoNilCancelCall"}
        ctx.inconclusive_note("development run: stages %s only" % sorted(stages))
    else:
        # ---- 1. behaviours of the gate-granularity graphs (Service.tla's invariants are checked on them as well).
        # F4: MC_nilcancel.cfg (thorough tier) is the explicit TLC run in which the specification of StopAsync as it is in the
        # pinned code violates NoNilCancelCall; its counterexample is replayed. The quick tier takes the same witness from the
        # behaviours of MC_gated_core (a printed state with nilCalls > 0 is a counterexample of the invariant).
        # (MC_gated_start2 - a second StartAsync in every state, NC=1 - is prepared but not yet part of a tier: not measured)
        gated = ["MC_gated_core", "MC_gated_modes", "MC_gated_wait", "MC_gated_nilfn"] if quick else \
                ["MC_gated_core", "MC_gated_modes", "MC_gated_timer3", "MC_gated_timer_w", "MC_gated_wait", "MC_gated_nilfn5", "MC_gated_lw", "MC_gated_l2"]
        mg = [("MC_mgated_one", None, None), ("MC_mgated_cover" if quick else "MC_mgated_cover1", None, None), ("MC_mgated_sim", "num=%d" % (40 if quick else 400), 40)]
        if not quick:
            mg.append(("MC_mgated_sim3", "num=300", 60))
        thunks = [tlc_ok("ServiceGated", cfg, heap="3g") for cfg in gated]
        thunks += [tlc_ok("ManagerGated", cfg, heap="3g", simulate=sim, depth=depth, count=not sim, workers=(W if not sim else 2))
                   for cfg, sim, depth in mg]
        thunks.append(tlc_ok("FailureWatcherGated", "MC_fwgated", heap="2g", workers=2))
        if not quick:
            def nilcancel(sub):
                r = sub.tlc("services", "ServiceGated", cfg="MC_nilcancel.cfg", timeout=600, workers=1, count=False, heap="2g")
                if r.timed_out or r.error:
                    incon("MC_nilcancel: %s" % (r.error or "timeout"))
                if r.violated != "NoNilCancelCallEmit" or r.emitted == 0:
                    incon("MC_nilcancel: the unguarded StopAsync model is expected to violate NoNilCancelCall; TLC said %r" % r.violated)
                return r
            thunks.append(nilcancel)
        outs = parallel(ctx, thunks, PAR)
        jobs, emitted = [], {}
        if not quick:
            first = open(outs[-1].out_path).readline()      # keep the first counterexample only
            cex = ctx.path("f4_cex.ndjson")
            open(cex, "w").write(first)
            ctx.extra["f4_spec_counterexample"] = [s[0] + ":" + str(s[1]) for s in json.loads(first)["h"][1:]]
            jobs.append(dict(kind="service", name="MC_nilcancel(counterexample of NoNilCancelCall)", **{"in": cex}, **GATED["MC_nilcancel"]))
        for cfg, r in zip(gated + [m[0] for m in mg] + ["MC_fwgated"], outs):
            if r.emitted == 0:
                incon("%s emitted nothing" % cfg)
            emitted[cfg] = r.emitted
            if "f4_spec_counterexample" not in ctx.extra and cfg.startswith("MC_gated_core"):
                best = None
                for ln in open(r.out_path):
                    if '"pan":0' in ln:
                        continue
                    o = json.loads(ln)
                    if best is None or len(o["h"]) < len(best["h"]):
                        best = o
                if best is None:
                    incon("%s: the unguarded StopAsync model is expected to reach a call of the nil serviceCancel" % cfg)
                ctx.extra["f4_spec_counterexample"] = [s[0] + ":" + str(s[1]) for s in best["h"][1:]]
            if os.environ.get("VERIF_C17_CORRUPT") == "obs" and cfg.startswith("MC_gated_core"):
                corrupt_one_observation(r.out_path)
            if cfg == "MC_fwgated":
                jobs.append(dict(kind="fw", name=cfg, ns=3, **{"in": r.out_path}))
            elif cfg in GATED:
                jobs.append(dict(kind="service", name=cfg, **{"in": r.out_path}, **GATED[cfg]))
            else:
                jobs.append(dict(kind="manager", name=cfg, **{"in": r.out_path}, **MGATED[cfg]))

        # ---- 2. replay everything on the real code (child processes: a crash of the code is a mismatch, not a dead run)
        manifest = ctx.path("jobs.json")
        json.dump(jobs, open(manifest, "w"))
        res = ctx.run_harness("c17", "^TestReplay$", env={"VERIF_JOBS": manifest}, timeout=3000)
        by_sig = (res.get("extra") or {}).get("mismatches_by_sig") or {}
        panics = sum(n for s, n in by_sig.items() if s == F4_SIG)
        guarded = (res.get("extra") or {}).get("guarded_nil_calls", 0)
        ctx.absorb(res, "replay")
        if panics and guarded:
            ctx.log("StopAsync panics in some schedules and not in others")
        if not panics and not guarded:
            incon("the nil-serviceCancel schedule of the specification was not exercised by the replay")
        guard = "FALSE" if panics else "TRUE"
        ctx.extra["stopasync_variant"] = ("as in the pinned code: calls a nil serviceCancel after losing the New->Terminated race "
                                          "(NoNilCancelCall violated on the specification and reproduced on the code)") if panics else \
            "guarded: the loser of the New->Terminated race does nothing (NoNilCancelCall is an invariant of every configuration below)"
        ctx.extra["behaviours_emitted"] = emitted
        subst = {"@@GUARD@@": guard, "@@NONIL@@": "" if panics else "NoNilCancelCall"}

    if "model" not in stages and "record" not in stages:
        ctx.inconclusive_note("development run: stages %s only" % sorted(stages))
        return "model_checking"

    # ---- 3. the property itself: exhaustive model checking at the granularity of the critical sections; side by side,
    #         code -> spec: traces of free-running goroutines are recorded
    fine = ["MC_svc_quick", "MC_svc_wait"] if quick else ["MC_svc_quick", "MC_svc_wait", "MC_svc_lw", "MC_svc_full", "MC_svc_live", "MC_svc_live_w"]
    covcfg = () if quick else ("MC_svc_quick", "MC_svc_wait")
    thunks = [tlc_ok("Service", cfg, subst=subst, coverage=cfg in covcfg) for cfg in fine]
    mcfgs = ["MC_mgr_quick"] if quick else ["MC_mgr_quick", "MC_mgr2", "MC_mgr_live"]
    thunks += [tlc_ok("Manager", cfg, coverage=(cfg == "MC_mgr2")) for cfg in mcfgs]
    names = fine + mcfgs
    # soundness of the binding: AbsService simulates ServiceGated; Settle is confluent
    thunks.append(tlc_ok("ServiceGated", "MC_gated_abs", heap="2g", workers=2))
    names.append("MC_gated_abs")
    if not quick:
        thunks.append(tlc_ok("Manager", "MC_mgr3", simulate="num=3000", depth=80, count=False, workers=2))
        names.append("MC_mgr3")
        for cfg in ["MC_confl_quick", "MC_confl_nil", "MC_confl"]:
            thunks.append(tlc_ok("ServiceConfl", cfg))
            names.append(cfg)
        # failure fan-in: FailureWatcher.tla
        thunks.append(tlc_ok("FailureWatcher", "MC_fw", workers=2, heap="2g"))
        names.append("MC_fw")

        def fw_noreader(sub):     # without a reader Close cannot return: expected witness (an observation, see FailureWatcher.tla)
            r = sub.tlc("services", "FailureWatcher", cfg="MC_fw_noreader.cfg", timeout=600, workers=2, count=False, heap="2g")
            if "CloseReturns was violated" not in r.log:
                incon("MC_fw_noreader: expected the witness of Close blocking without a reader, TLC said %r %r" % (r.violated, r.error))
            return r

        def qfull(sub):           # tightness witness: all four transitions can sit in a listener queue (the buffer of 4 is needed)
            r = sub.tlc("services", "Service", cfg="MC_svc_qfull.cfg", timeout=600, workers=2, subst=subst, count=False, heap="2g")
            if r.violated != "QueueNeverFull":
                incon("MC_svc_qfull: expected the witness of a full listener queue, TLC said %r %r" % (r.violated, r.error))
            return r
        thunks += [fw_noreader, qfull]
        names += ["MC_fw_noreader", "MC_svc_qfull"]

    if "model" not in stages:
        thunks, names, covcfg = [], [], ()
        ctx.inconclusive_note("development run: stages %s only" % sorted(stages))
    ntr = 120 if quick else 1000
    trace = ctx.path("trace.ndjson")

    def record(sub):
        return sub.run_harness("c17", "^TestRecord$", env={"VERIF_TRACE": trace, "VERIF_NTRACES": ntr}, timeout=1800)
    if "record" in stages:
        thunks.append(record)
        names.append("record")
    outs = dict(zip(names, parallel(ctx, thunks, PAR)))
    never = None          # vacuity guard: every action of Service.tla is taken in at least one of the two configurations
    for cfg in covcfg:      # keyed by action name AND location: the \\E-quantified disjuncts of Next are all reported as "Next"
        z = set(re.findall(r"^<(\w+ line [^>]*)>: 0:0$", outs[cfg].log, re.M))
        never = z if never is None else never & z
    if never:
        incon("Service.tla: actions never taken: %s" % sorted(never)[:8])
    if not quick and "MC_mgr2" in outs and outs["MC_mgr2"].coverage_zero:
        incon("Manager.tla: actions never taken: %s" % re.findall(r"^<(\w+ line [^>]*)>: 0:0$", outs["MC_mgr2"].log, re.M)[:8])

    if "record" not in stages:
        ctx.inconclusive_note("development run: stages %s only" % sorted(stages))
        return "model_checking"

    # ---- 4. the recorded traces are validated by TLC (ServiceTrace.tla infers the unlogged critical sections)
    rec = outs["record"]
    if rec.get("fatal"):
        incon("recording: %s" % rec["fatal"])
    rec_panics = any(m.get("sig") == F4_SIG for m in rec.get("mismatches") or [])
    tguard = "FALSE" if (panics or rec_panics) else "TRUE"
    r = ctx.tlc("services", "ServiceTrace", cfg="MC_trace.cfg", timeout=3000, workers=min(16, W * PAR), subst={"@@GUARD@@": tguard},
                extra_files={trace: "trace.ndjson"}, count=False)
    if r.timed_out or r.error or r.violated:
        incon("trace validation: %s" % (r.error or r.violated or "timeout"))
    accepted = set()
    for ln in open(r.out_path):
        accepted.add(json.loads(ln)["accepted"])
    rejected = [t for t in range(1, ntr + 1) if t not in accepted]
    rec["cases"] = len(accepted) + 1      # + the FailureWatcher probe
    ctx.absorb(rec, "record")
    ctx.extra["traces_recorded"] = ntr
    ctx.extra["trace_validation_states"] = r.distinct
    for t in rejected[:3]:
        evs = [json.loads(l) for l in open(trace) if json.loads(l)["t"] == t]
        # how far does the specification get?
        one = ctx.path("rejected_%d.ndjson" % t)
        with open(one, "w") as f:
            for e in evs:
                e = dict(e)
                e["t"] = 1
                f.write(json.dumps(e) + "\n")
        r1 = ctx.tlc("services", "ServiceTrace", cfg="MC_trace_diag.cfg", timeout=600, workers=1, subst={"@@GUARD@@": tguard},
                     extra_files={one: "trace.ndjson"}, count=False)
        reached = 0
        for ln in open(r1.out_path):
            reached = max(reached, json.loads(ln).get("reached", 0))
        bad = evs[reached - 1] if 0 < reached <= len(evs) else None
        sig = "trace-rejected:%s" % ("%s:%s" % (bad["e"], bad["s"] or "listener") if bad else "?")
        ctx.disagreement({"sig": sig, "case": {"trace": t, "events": evs[:reached]},
                          "got": bad, "want": "an event the specification can explain after the prefix (%d of %d events accepted)" % (max(reached - 1, 0), len(evs))},
                         "record")
    return "model_checking"
