\* Watchers: safety + liveness (EventuallyLatest under weak fairness of deliveries), all three stores.
\* 2 callers x 2 calls, 1 watcher (its registration point and every delivery schedule are explored).
CONSTANTS
  NC = 2
  OpsPer = 2
  Backends = {"consul", "etcd", "memberlist"}
  Limits = {10}
  MaxErr = 0
  Secondaries = {"none"}
  WithDelete = FALSE
  WithSame = TRUE
  WithBad = TRUE
  NOther = 1
  NW = 1
  Emit = FALSE
SPECIFICATION FairSpec
INVARIANTS TypeOK AtMostOncePerCall WatchSound Serial SeenChain NoLostNoPhantom
PROPERTIES FailureIsNoop EventuallyLatest
CHECK_DEADLOCK FALSE
