CONSTANTS
  NP = @@NP@@
  NO = @@NO@@
  NOwned = @@NP@@
  NRep = @@NREP@@
INIT Init
NEXT Next
INVARIANTS Accepted
POSTCONDITION Complete
CHECK_DEADLOCK FALSE
