\* C03/C05 replay, thorough: THREE ids drawing from one shared pool of two positions (three-way collisions), a seed-chosen slice of the receivers
CONSTANTS
  N = 3
  M = 2
  Shared = TRUE
  TsSet = {1, 2}
  LiveSt = {"ACTIVE", "LEAVING"}
  NowSet = {3}
  NSlices = @@NSLICES@@
  Slice = @@SLICE@@
INIT Init
NEXT Next
INVARIANTS CaseProps Emit
CHECK_DEADLOCK FALSE
