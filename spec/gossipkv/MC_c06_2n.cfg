\* C06 thorough (safety, 2 nodes, all fault kinds): 2 ids, clock 0..1, 2 CAS, 1 fault (garbage packet,
\* junk push/pull, partition, restart), blocking watcher on node 1.
CONSTANTS
  N = 2
  NI = 2
  NK = 1
  MaxClock = 1
  Retention = 0
  T = 1
  MaxCas = 2
  MaxFaults = 1
  LiveStates = {"ACTIVE"}
  WatchNodes = {1, 2}
  HoldNodes = {1}
  AllowRestart = TRUE
  AllowGarbage = TRUE
  AllowPartition = TRUE
  AllowJunkPP = TRUE
  GateNodes = {}
  InboxCap = 1
  VersionTest = TRUE
  KeyTest = TRUE
  MaxDel = 0
  ObsoleteTimeout = 1
  ConsumeNet = FALSE
  Ideal = TRUE
  Ghost = TRUE
  Record = FALSE
  Quiesce = FALSE
  RunDepth = 0
  QRounds = 2
SPECIFICATION Spec
VIEW view
INVARIANTS TypeOK TombstonesInvisible InvalidationSafe NoInventedContent SentIsWritten WatcherNeverStale PrefixWatcherNeverStale VersionCountsChanges
PROPERTIES TombstonesForwarded NoResurrection GCOnlyExpired NoExpiredTombstoneStored OnlyChangesForwarded DeletedStaysDeleted RemovedOnlyWhenObsolete DeletedNotRevived
CHECK_DEADLOCK FALSE
