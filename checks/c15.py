"""C15 - keys route to the next active partition; partition states follow legal edges.

spec/partitionring:
  PartitionRingOps.tla    pure operators: ActivePartition (declarative) / WalkPartition (code-shaped), KeysByPartition,
                          ReplicationSets, MultiReplicationSet
  PartitionRing.tla       the partition ring as a state machine (every CAS critical section of the lifecycler and the
                          editor is one action) + LegalEdges, LockRespected, PromotionTiming, DeletionGuard, RoutingTotal ...
  MC_PartitionRing.tla    constants of the exhaustive configurations (MC_sm_*.cfg)
  PartitionRingGen.tla    bounded universes of rings / owner+instance-ring combinations, theorems + expected outputs (gen/replay)
  PartitionRingCheck.tla  decides lookups recorded from the real code on random rings of 1..20 partitions (record/validate)
  PartitionRingTrace.tla  validates every CAS recorded from real lifecyclers + editor on one in-memory store (record/validate)
harness/c15: TestReplayRoute, TestReplayRepl, TestRecordRoutes, TestRecordTrace.
"""
import json
import os
import threading
import time

import verif

PROPERTY = "C15"
META = {
    "level_text": "TLC checks, on the partition-ring state machine (every CAS critical section of PartitionInstanceLifecycler and "
                  "PartitionRingEditor is one action; 2-3 lifecyclers, 2-3 partitions, waiting/deletion delays in {0,1,2} s, unbounded clock "
                  "through an age abstraction), that state changes follow the edge table, never happen under the lock, that automatic promotion "
                  "and deletion respect their timing/owner guards, and that routing is total; and on every ring of a bounded universe that the "
                  "code-shaped walk equals 'first active token strictly after the key'. The real code is bound to the specification both ways: "
                  "every enumerated ring / owner+instance combination is replayed into PartitionRing, ActivePartitionBatchRing, "
                  "PartitionInstanceRing and MultiPartitionInstanceRing and compared with TLC's outputs; lookups on seeded random rings of 1..20 "
                  "partitions with generated tokens and every CAS of real lifecyclers + editor running on one in-memory store under the synctest "
                  "clock (systematic short schedules and seeded long ones) are validated by TLC against the specification. Extension round: the "
                  "snapshot query API of PartitionRing / ActivePartitionBatchRing (ids by state, counts, ShuffleShardSize and the size of the real "
                  "ShuffleShard, owner lists incl. MultiPartitionOwnerIDs with every buffer shape, GetKeysByPartition of no keys / a cancelled "
                  "caller, Get with a caller buffer, instance names without numeric suffix in the multi-partition variant) is replayed from the "
                  "same TLC universes (SnapshotSound); real CAS conflicts are produced by stopping one writer inside its CAS function at its first "
                  "write attempt while another writer commits (every attempt and every retried commit must be an enabled action on the ring it "
                  "read); GetPartitionState of every running lifecycler is bound after every step of the conflict and random chains.",
    "level_note": "Bounded: exhaustive within the stated universes; recorded schedules are a sample of all schedules (every tail of 2 steps over a "
                  "13-step (quick) / 20-22-step (thorough) alphabet after each of 7 scenario prefixes, plus seeded random schedules of 60 steps "
                  "with 1..4 lifecyclers). Trusted: TLC, the key-class embedding and "
                  "rank compression, the projection of PartitionRingDesc to the abstract state, the recording kv.Client (un-gated writers are "
                  "serialised; conflicts are produced only at the gate inside the CAS function, so the log order is the commit order; the "
                  "atomicity of the store's CAS itself is C07's concern), whole-second event times, the consul in-memory store. Not modelled: "
                  "the partition ring over the gossip KV (lifecyclers on different memberlist nodes, tombstones, watcher-fed rings per node) - "
                  "Merge/RemoveTombstones of PartitionRingDesc are bound by C03/C04 only; KV read/write errors inside the lifecycler; a CAS retry "
                  "after time has passed (the in-memory store retries without delay).",
    "technique": "TLA+ specification model-checked by TLC; TLC-generated cases replayed into the real code; traces and lookups recorded "
                 "from the real code validated by TLC",
    "design_ref": "DESIGN.md 2 C15",
}

W = int(os.environ.get("VERIF_C15_WORKERS", "8"))
PROPS = ("LegalEdges", "LockRespected", "PromotionTiming", "DeletionGuard", "LockOnlyByEditor", "RefusedIsNoWrite", "TypeOK")

WITNESSES = ("WitAutoPromotion", "WitDeletion", "WitLockRefusal", "WitLockedReconcile", "WitIllegalEdge")

GEN = {  # cfg -> (NK, gaps) of the route universe it enumerates
    "MC_gen_quick": (6, [3]), "MC_gen_thorough": (7, [3]), "MC_gen_spaced": (7, [0, 2, 4, 6]), "MC_gen_multi2": (3, [1]),
}


_LOCAL = threading.local()
_COUNT_LOCK = threading.Lock()


def _thread_safe(ctx):
    """lib/verif.py numbers its run directories with ctx._nrun; give every thread its own range so that the
    TLC runs this check overlaps (state machine | generation + replay | validation) never share a directory."""
    base = {"n": 0}

    def get(self):
        if getattr(_LOCAL, "n", None) is None:
            with _COUNT_LOCK:
                base["n"] += 200
                _LOCAL.n = base["n"]
        return _LOCAL.n

    def put(self, v):
        _LOCAL.n = v

    ctx.__dict__.pop("_nrun", None)
    ctx.__class__ = type("C15Ctx", (ctx.__class__,), {"_nrun": property(get, put)})


def tlc_run(ctx, *a, **k):
    counted = k.pop("counted", False)
    k["count"] = False
    r = ctx.tlc(*a, **k)
    if counted:
        with _COUNT_LOCK:
            ctx.states += r.distinct
            ctx.transitions += r.generated
    return r


class Bg(threading.Thread):
    """A step that only runs TLC, overlapped with the main thread; its exception is re-raised by done()."""

    def __init__(self, fn):
        super().__init__()
        self.fn, self.exc, self.val = fn, None, None
        self.start()

    def run(self):
        try:
            self.val = self.fn()
        except BaseException as ex:
            self.exc = ex

    def done(self):
        self.join()
        if self.exc:
            raise self.exc
        return self.val


def incon(why):
    raise verif.Inconclusive(why)


def diff_sig(e):
    """Class of a rejected event: who, what was asked, what came back, what changed in the ring."""
    if e.get("ev") != "cas":
        return "trace:%s" % e.get("ev")
    who = "editor" if e.get("w") == 0 else "lifecycler"
    parts = []
    if e.get("wrote") and "out" in e:
        for a, b in zip(e["in"]["parts"], e["out"]["parts"]):
            if a == b:
                continue
            if a["st"] == "X":
                parts.append("created:" + b["st"])
            elif b["st"] == "X":
                parts.append("deleted:" + a["st"] + ("+locked" if a["lk"] else ""))
            elif a["st"] != b["st"]:
                parts.append(a["st"] + ">" + b["st"] + ("+locked" if a["lk"] else ""))
            elif a["lk"] != b["lk"]:
                parts.append("lock")
            else:
                parts.append("timestamp")
        for a, b in zip(e["in"]["owners"], e["out"]["owners"]):
            if a != b:
                parts.append("owner+" if a["st"] == "X" else ("owner-" if b["st"] == "X" else "owner~"))
    return "trace:cas %s call=%s res=%s change=%s" % (who, e.get("call", {}).get("kind"), e.get("res"), ",".join(sorted(set(parts))) or "none")


def validate_traces(ctx, files, label):
    """TLC validates every chain of every trace file. Returns (chains accepted, list of rejections)."""
    accepted, rejected = 0, []
    for f in files:
        events = verif.read_ndjson(f)
        starts = [k for k, e in enumerate(events) if e.get("ev") == "reset"]
        r = tlc_run(ctx, "partitionring", "PartitionRingTrace", extra_files={f: "trace.ndjson"}, workers=min(W, 4), deadlock=False,
                    subst={"@@ONLY@@": 0, "@@INV@@": "Done"}, timeout=1500)
        if r.timed_out or r.error:
            incon("%s: trace validation did not finish: %s" % (label, (r.error or "timeout")[:300]))
        done = set()
        for v in verif.read_ndjson(r.out_path):
            if isinstance(v, dict) and "done" in v:
                done.add(v["done"])
        if r.violated and r.violated not in PROPS:
            incon("%s: trace validation stopped on %s" % (label, r.violated))
        bad = [c for c in range(1, len(starts) + 1) if c not in done]
        accepted += len(starts) - len(bad)
        if r.violated and not bad:
            rejected.append({"sig": "trace:property " + r.violated, "case": "".join(r.trace)[-3000:], "got": "recorded behaviour", "want": r.violated})
        for c in bad[:3]:
            r2 = tlc_run(ctx, "partitionring", "PartitionRingTrace", extra_files={f: "trace.ndjson"}, workers=1, deadlock=False,
                         subst={"@@ONLY@@": c, "@@INV@@": "Progress"}, timeout=900)
            at = max([v["at"] for v in verif.read_ndjson(r2.out_path) if isinstance(v, dict) and "at" in v] or [0])
            lo = starts[c - 1]
            hi = starts[c] if c < len(starts) else len(events)
            if r2.violated in PROPS:
                rejected.append({"sig": "trace:property " + r2.violated, "case": {"chain": events[lo], "events": events[lo:min(hi, at + 1)][-6:]},
                                 "got": "recorded behaviour", "want": "property " + r2.violated + " of PartitionRing.tla"})
                continue
            if not (lo < at - 1 < hi):
                incon("%s: could not locate the rejected event of chain %d" % (label, c))
            ev = events[at - 1]
            rejected.append({"sig": diff_sig(ev), "case": {"chain": events[lo], "before": events[max(lo + 1, at - 4):at - 1]},
                             "got": ev, "want": "an enabled action of writer %s of PartitionRing.tla on `in` at this time" % ev.get("w", ev.get("l"))})
        if len(bad) > 3 and rejected:
            rejected[-1]["note"] = "%d chains of this trace file were rejected; the first 3 were analysed" % len(bad)
    return accepted, rejected


def record(ctx, env, label):
    """Run the recorder (random-ring lookups + lifecycler/editor traces): go test, main thread only."""
    d = os.path.dirname(ctx.path("rec_%s" % label, "x"))
    e = dict(env)
    e["VERIF_TRACE_DIR"] = d
    e["VERIF_CASES"] = os.path.join(d, "cases.ndjson")
    res = ctx.run_harness("c15", "^TestRecord$", env=e, timeout=1500)
    if res.get("fatal"):
        incon("recorder: " + res["fatal"])
    extra = res.get("extra") or {}
    files = extra.pop("trace_files", None) or []
    rings = int(extra.get("recorded_rings", 0))
    if not files or not rings:
        incon("recorder wrote no trace / no rings")
    return {"res": res, "files": files, "rings": rings, "cases": e["VERIF_CASES"], "label": label}


def validate(ctx, rec):
    """TLC decides what was recorded (TLC runs only: may overlap with go runs of the main thread)."""
    rejected = []
    # the trace files first (the long part), the random rings of 1..20 partitions with generated tokens in parallel
    def rings():
        r = tlc_run(ctx, "partitionring", "PartitionRingCheck", extra_files={rec["cases"]: "cases.ndjson"}, workers=min(W, 4),
                    deadlock=False, timeout=1500)
        ctx.require_tlc_ok(r, "PartitionRingCheck")
        return verif.read_ndjson(r.out_path)
    bg = Bg(rings)
    accepted, rej = validate_traces(ctx, rec["files"], rec["label"])
    verdicts = bg.done()
    if len(verdicts) != rec["rings"]:
        incon("PartitionRingCheck decided %d of %d recorded rings" % (len(verdicts), rec["rings"]))
    for v in verdicts:
        if not v["ok"]:
            b = (v["bad"] or [{}])[0]
            rejected.append({"sig": "record-route:%s" % b.get("what", "grouping"),
                             "case": {"ring": v["id"], "tokens": v["tokens"], "active": v["active"], "seed": ctx.seed},
                             "got": v["bad"][:4], "want": "the specification's ActivePartition / KeysByPartition (field want)"})
    return rec["rings"] + accepted, rejected + rej


def run(ctx):
    quick = ctx.tier == "quick"
    ctx.rule = ("replayed case = one ring (token layout x state mix) or one owner/instance-ring combination of the TLC universe, non-trivial if it "
                "has a non-active partition with tokens / an unhealthy or unknown registered owner; recorded ring = one seeded random ring, "
                "non-trivial if active and non-active partitions are mixed; recorded chain = one schedule of real lifecyclers + editor, "
                "non-trivial if it contains a committed state change, a deletion, a refused request or a real CAS conflict")
    ctx.assumptions = ["monotone key-class embedding / rank compression of uint32 tokens and keys",
                       "every partition has at least one token (AddPartition always generates tokens)",
                       "un-gated writers are serialised by the recording kv.Client and a gated writer re-takes the lock before its stale write, "
                       "so the log order is the commit order (CAS atomicity itself is C07)",
                       "events happen on whole seconds of the synctest bubble clock",
                       "the in-memory consul store (no merge of concurrent writers, no tombstones)"]
    ctx.exhaustive = True
    selftest = os.environ.get("VERIF_C15_SELFTEST", "")
    stages = set(os.environ.get("VERIF_C15_STAGES", "sm,gen,record").split(","))   # development aid only   # corrupt-route | corrupt-repl | corrupt-record | corrupt-trace | drop-trace

    _thread_safe(ctx)

    # 1. the property on the state machine, exhaustively - overlapped with the bindings below (TLC only)
    def check_sm():
        cfgs = [] if "sm" not in stages else ["MC_sm_quick"] if quick else (["MC_sm_cov", "MC_sm_full2", "MC_sm_3p2l", "MC_sm_2p3l", "MC_sm_multi"] +
                                              # MC_sm_three (3 partitions x 3 lifecyclers at once, 42M transitions) is opt-in
                                              (["MC_sm_three"] if os.environ.get("VERIF_C15_BIG") else []))
        for cfg in cfgs:
            r = tlc_run(ctx, "partitionring", "MC_PartitionRing", cfg=cfg + ".cfg", workers=W, timeout=3600 if not quick else 900,
                        coverage=(not quick and cfg == "MC_sm_cov"), deadlock=False, counted=True)
            ctx.require_tlc_ok(r, cfg)
            if r.coverage_zero:
                incon("%s: actions never taken: %s" % (cfg, r.coverage_zero))
        if not quick or "wit" in stages:
            # reachability witnesses: TLC must refute each "never" statement (the antecedents of the implication-shaped
            # action properties occur in the model)
            for wit in WITNESSES:
                r = tlc_run(ctx, "partitionring", "MC_PartitionRing", cfg="MC_sm_witness.cfg", workers=min(W, 4), timeout=900, deadlock=False,
                            subst={"@@WIT@@": wit})
                if r.timed_out or r.error or r.violated != wit:
                    incon("witness %s was not refuted by TLC (%s)" % (wit, r.error or r.violated or "no violation"))

    sm = Bg(check_sm) if ("sm" in stages or "wit" in stages) else None

    # 2. pure part, spec -> code, generation: TLC enumerates rings and owner/instance-ring combinations, proves
    #    RoutingTotal / ReplExact / MultiSound on each and emits the expected outputs (background; replayed in step 4)
    gen_cfgs = [] if "gen" not in stages else ["MC_gen_quick"] if quick else ["MC_gen_thorough", "MC_gen_spaced", "MC_gen_multi2", "MC_gen_quick"]

    if os.environ.get("VERIF_C15_GEN"):   # development aid only: replay just these universes
        gen_cfgs = os.environ["VERIF_C15_GEN"].split(",")

    def generate(cfg):
        r = tlc_run(ctx, "partitionring", "PartitionRingGen", cfg=cfg + ".cfg", workers=min(W, 4), timeout=1500, deadlock=False, counted=True)
        ctx.require_tlc_ok(r, cfg)
        if r.emitted == 0:
            incon("%s emitted no cases" % cfg)
        return r
    gens = [Bg(lambda c=gen_cfgs[0]: generate(c))] if gen_cfgs else []

    # 3. code -> spec, recording: lookups on seeded random rings and every CAS of real lifecyclers + editor on one
    #    in-memory store; PartitionRingCheck.tla / PartitionRingTrace.tla decide them in the background
    env = {"VERIF_N": 40 if quick else 200, "VERIF_TAIL": 2, "VERIF_ALPHA": "small" if quick else "full",
           "VERIF_PROFILES": 1 if quick else 2, "VERIF_RANDOM": 10 if quick else 100, "VERIF_RANDOM_LEN": 60,
           "VERIF_RACE": int(os.environ.get("VERIF_C15_RACE", 1 if quick else 4))}   # env: development aid only
    if selftest == "corrupt-ring":
        env["VERIF_CORRUPT_RING"] = 7
    if selftest == "corrupt-trace":
        env["VERIF_CORRUPT"] = int(os.environ.get("VERIF_C15_CORRUPT_AT", 777))
    if selftest == "drop-trace":
        env["VERIF_DROP"] = int(os.environ.get("VERIF_C15_CORRUPT_AT", 778))
    rec1, val1 = None, None
    try:
        if "record" in stages:
            rec1 = record(ctx, env, "run1")
            val1 = Bg(lambda: validate(ctx, rec1))

        # 4. pure part, replay: every generated case into the real code (go test: main thread only)
        for k, cfg in enumerate(gen_cfgs):
            nk, gaps = GEN[cfg]
            r = gens[k].done()
            if k + 1 < len(gen_cfgs):
                gens.append(Bg(lambda c=gen_cfgs[k + 1]: generate(c)))   # generate the next universe during this replay
            genv = {"VERIF_IN": r.out_path, "VERIF_NK": nk, "VERIF_GAPS": json.dumps(gaps), "VERIF_T": 2}
            if selftest == "corrupt-expected" and cfg in ("MC_gen_quick", "MC_gen_thorough"):
                genv["VERIF_CORRUPT"] = int(os.environ.get("VERIF_C15_CORRUPT_AT", 1 + r.emitted // 2))
            res = ctx.run_harness("c15", "^TestReplay$", env=genv, timeout=1500)
            if res.get("cases") != r.emitted:
                incon("%s: harness replayed %s of %d cases" % (cfg, res.get("cases"), r.emitted))
            ctx.absorb(res, cfg)
    finally:
        # never leave a background TLC behind an exception of the main thread
        for b in gens + [val1, sm]:
            if b is not None:
                b.join()

    if val1 is not None:
        accepted, rejected = val1.done()
        if rejected:
            # triage (DESIGN 1.4): record once more with the same seed; only a rejection that repeats is a violation
            accepted2, rejected2 = validate(ctx, record(ctx, env, "run2"))
            sigs2 = {m["sig"] for m in rejected2}
            repeat = [m for m in rejected if m["sig"] in sigs2]
            if not repeat:
                incon("rejection did not repeat on re-recording (%s)" % rejected[0]["sig"])
            rejected = repeat
        res = rec1["res"]
        res["cases"] = accepted
        ctx.absorb(res, "record")
        for m in rejected:
            ctx.disagreement(m, "record")
    if sm is not None:
        sm.done()
    return "model_checking"
