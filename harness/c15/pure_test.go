// Package c15 binds spec/partitionring (C15) to the real partition ring of dskit:
//
//	TestReplay  - every case enumerated by PartitionRingGen.tla: rings (mode "route") -> PartitionRing.ActivePartitionForKey,
//	              ActivePartitionBatchRing.Get / GetKeysByPartition; owner / instance-ring combinations (modes "repl", "multi") ->
//	              PartitionInstanceRing.GetReplicationSetsForOperation, MultiPartitionInstanceRing.GetReplicationSetForPartitionAndOperation
//	              (under the synctest clock, so heartbeat ages are exact)
//	TestRecord  - (a) seeded random rings of 1..20 partitions with generated tokens; the real answers are written rank-compressed
//	              for PartitionRingCheck.tla to decide; (b) real PartitionInstanceLifecyclers + PartitionRingEditor on one in-memory
//	              consul store, every CAS recorded for PartitionRingTrace.tla (trace_test.go)
package c15

import (
	"context"
	"encoding/json"
	"errors"
	"fmt"
	"math"
	"math/rand"
	"os"
	"sort"
	"testing"
	"testing/synctest"
	"time"

	"verifharness/internal/abs"

	"github.com/grafana/dskit/ring"
)

// ---------------------------------------------------------------------------------------------
// routing, spec -> code

type routeCase struct {
	Own    []int    `json:"own"`   // per key class: -1 gap, 0 no token, p partition (real id p-1)
	St     []string `json:"st"`    // per partition: P | A | I
	Route  []int    `json:"route"` // per key class: partition or -1 (no active partition)
	KbpErr bool     `json:"kbpErr"`
	// snapshot queries (PartitionRingOps: IdsInState, ShardSize, BatchInstancesCount, KeysByPartition of no keys)
	KbpEmptyErr bool             `json:"kbpEmptyErr"`
	Ids         map[string][]int `json:"ids"`   // state -> partition ids
	All         []int            `json:"all"`   // ids in the ring
	Shard       []int            `json:"shard"` // ShuffleShardSize for sizes -1 .. n+1
	BatchCount  int              `json:"batchCount"`
	BatchRF     int              `json:"batchRF"`
	Kbp         []struct {
		P       int   `json:"p"`
		Classes []int `json:"classes"`
	} `json:"kbp"`
}

func pstate(s string) ring.PartitionState {
	switch s {
	case "P":
		return ring.PartitionPending
	case "A":
		return ring.PartitionActive
	case "I":
		return ring.PartitionInactive
	case "D":
		return ring.PartitionDeleted
	}
	panic("unknown partition state " + s)
}

// routeSig names the class of a failing routing input.
func routeSig(what string, c *routeCase, class int, key uint32) string {
	kc := "mid"
	switch key {
	case 0:
		kc = "0"
	case math.MaxUint32:
		kc = "max"
	}
	nonActive, active := 0, 0
	for p, s := range c.St {
		has := false
		for _, o := range c.Own {
			if o == p+1 {
				has = true
			}
		}
		if !has {
			continue
		}
		if s == "A" {
			active++
		} else {
			nonActive++
		}
	}
	tokHere := c.Own[class] > 0
	return fmt.Sprintf("route:%s key=%s keyOnToken=%v active=%d nonActive=%d", what, kc, tokHere, min(active, 2), min(nonActive, 2))
}

type replayer struct {
	res     *abs.Result
	nk      int
	classes [][]uint32
	hbT     int
	corrupt int // self-test: falsify the expected output of this case (1-based), 0 = none
	now     time.Time
	counts  map[string]int
}

func (rp *replayer) route(line []byte) error {
	res, nk, classes, corrupt, now := rp.res, rp.nk, rp.classes, rp.corrupt, rp.now
	ctx := context.Background()
	{
		var c routeCase
		if err := json.Unmarshal(line, &c); err != nil {
			return err
		}
		res.Cases++
		if corrupt > 0 && res.Cases == corrupt {
			c.Route[0] = -c.Route[0]
		}
		n := len(c.St)
		desc := ring.NewPartitionRingDesc()
		present := make([]bool, n+1)
		for k, o := range c.Own {
			if o > 0 {
				present[o] = true
				_ = k
			}
		}
		nonActiveWithTokens, active := 0, 0
		for p := 1; p <= n; p++ {
			if !present[p] {
				continue
			}
			var toks []uint32
			for k, o := range c.Own {
				if o == p {
					toks = append(toks, classes[k][0])
				}
			}
			desc.Partitions[int32(p-1)] = ring.PartitionDesc{Id: int32(p - 1), Tokens: toks, State: pstate(c.St[p-1]), StateTimestamp: now.Unix()}
			if c.St[p-1] == "A" {
				active++
			} else {
				nonActiveWithTokens++
			}
		}
		func() {
			defer func() {
				if r := recover(); r != nil {
					res.Mismatch(abs.Mismatch{Sig: "route:panic", Case: c, Got: fmt.Sprint(r), Want: "no panic"})
				}
			}()
			pr, err := ring.NewPartitionRing(*desc)
			if err != nil {
				res.Mismatch(abs.Mismatch{Sig: "route:NewPartitionRing error", Case: c, Got: err.Error(), Want: "ring"})
				return
			}
			batch := ring.NewActivePartitionBatchRing(pr)
			rp.snapshot(&c, pr, batch)
			var allKeys []uint32
			var classOfKey []int
			for k := 0; k < nk; k++ {
				want := c.Route[k] - 1 // real id, or -2 for "no active partition"
				for _, key := range classes[k] {
					allKeys = append(allKeys, key)
					classOfKey = append(classOfKey, k)
					got, gerr := pr.ActivePartitionForKey(key)
					switch {
					case c.Route[k] == -1:
						if !errors.Is(gerr, ring.ErrNoActivePartitionFound) {
							res.Mismatch(abs.Mismatch{Sig: routeSig("no-error", &c, k, key), Case: c,
								Got: map[string]any{"key": key, "partition": got, "err": fmt.Sprint(gerr)}, Want: "ErrNoActivePartitionFound"})
						}
					case gerr != nil:
						res.Mismatch(abs.Mismatch{Sig: routeSig("error", &c, k, key), Case: c,
							Got: map[string]any{"key": key, "err": gerr.Error()}, Want: map[string]any{"partition": want, "class": k}})
					case int(got) != want:
						res.Mismatch(abs.Mismatch{Sig: routeSig("partition", &c, k, key), Case: c,
							Got: map[string]any{"key": key, "partition": got}, Want: map[string]any{"partition": want, "class": k}})
					}
					// the DoBatchRing view of the same lookup
					rs, berr := batch.Get(key, ring.Write, nil, nil, nil)
					if k%2 == 1 { // the caller-provided buffer path of the same lookup
						buf := make([]ring.InstanceDesc, 0, 3)
						rs2, berr2 := batch.Get(key, ring.Read, buf, nil, nil)
						if (berr2 != nil) != (berr != nil) || (berr == nil && (len(rs2.Instances) != 1 || rs2.Instances[0].Id != rs.Instances[0].Id || rs2.MaxErrors != 0 || rs2.MaxUnavailableZones != 0)) {
							res.Mismatch(abs.Mismatch{Sig: routeSig("batch-get-buf", &c, k, key), Case: c,
								Got: map[string]any{"key": key, "set": rs2, "err": fmt.Sprint(berr2)}, Want: map[string]any{"set": rs, "err": fmt.Sprint(berr)}})
						}
					}
					if (berr != nil) != (gerr != nil) || (berr == nil && (len(rs.Instances) != 1 || rs.Instances[0].Id != fmt.Sprint(got))) {
						res.Mismatch(abs.Mismatch{Sig: routeSig("batch-get", &c, k, key), Case: c,
							Got: map[string]any{"key": key, "set": rs, "err": fmt.Sprint(berr)}, Want: map[string]any{"partition": got, "err": fmt.Sprint(gerr)}})
					}
				}
			}
			// keys-by-partition over every concrete key of every class
			groups, kerr := batch.GetKeysByPartition(ctx, allKeys)
			if c.KbpErr {
				if !errors.Is(kerr, ring.ErrNoActivePartitionFound) {
					res.Mismatch(abs.Mismatch{Sig: "route:kbp no-error", Case: c, Got: map[string]any{"groups": groups, "err": fmt.Sprint(kerr)}, Want: "ErrNoActivePartitionFound"})
				}
				return
			}
			if kerr != nil {
				res.Mismatch(abs.Mismatch{Sig: "route:kbp error", Case: c, Got: kerr.Error(), Want: c.Kbp})
				return
			}
			want := map[int]map[int]bool{}
			for _, g := range c.Kbp {
				want[g.P-1] = map[int]bool{}
				for _, cl := range g.Classes {
					want[g.P-1][cl] = true
				}
			}
			seenIdx := map[int]bool{}
			seenP := map[int32]bool{}
			ok := len(groups) == len(want)
			for _, g := range groups {
				if seenP[g.PartitionID] {
					ok = false
				}
				seenP[g.PartitionID] = true
				for _, ix := range g.Indexes {
					if ix < 0 || ix >= len(allKeys) || seenIdx[ix] || !want[int(g.PartitionID)][classOfKey[ix]] {
						ok = false
						continue
					}
					seenIdx[ix] = true
				}
			}
			if len(seenIdx) != len(allKeys) {
				ok = false
			}
			if !ok {
				res.Mismatch(abs.Mismatch{Sig: fmt.Sprintf("route:kbp groups active=%d nonActive=%d", min(active, 2), min(nonActiveWithTokens, 2)), Case: c,
					Got: map[string]any{"groups": groups, "keys": allKeys}, Want: c.Kbp})
			}
		}()
		if nonActiveWithTokens > 0 {
			res.Nontrivial++
		}
		if rp.counts["route"]%4099 == 0 {
			res.Sample(map[string]any{"mode": "route", "case": c})
		}
		rp.counts["route"]++
		return nil
	}
}

// snapshot compares the query API of one PartitionRing snapshot with the specification's IdsInState /
// ShardSize / BatchInstancesCount / KeysByPartition(no keys).
func (rp *replayer) snapshot(c *routeCase, pr *ring.PartitionRing, batch *ring.ActivePartitionBatchRing) {
	res := rp.res
	same := func(want []int, got []int32) bool {
		w := append([]int(nil), want...)
		sort.Ints(w)
		if len(w) != len(got) {
			return false
		}
		for i := range w {
			if int32(w[i]-1) != got[i] {
				return false
			}
		}
		return true
	}
	bad := func(what string, got, want any) {
		res.Mismatch(abs.Mismatch{Sig: "snapshot:" + what, Case: c, Got: got, Want: want})
	}
	if got := pr.PartitionIDs(); !same(c.All, got) {
		bad("PartitionIDs", got, c.All)
	}
	if got := pr.PendingPartitionIDs(); !same(c.Ids["P"], got) {
		bad("PendingPartitionIDs", got, c.Ids["P"])
	}
	if got := pr.ActivePartitionIDs(); !same(c.Ids["A"], got) {
		bad("ActivePartitionIDs", got, c.Ids["A"])
	}
	if got := pr.InactivePartitionIDs(); !same(c.Ids["I"], got) {
		bad("InactivePartitionIDs", got, c.Ids["I"])
	}
	if got := pr.PartitionsCount(); got != len(c.All) {
		bad("PartitionsCount", got, len(c.All))
	}
	if got := pr.ActivePartitionsCount(); got != len(c.Ids["A"]) {
		bad("ActivePartitionsCount", got, len(c.Ids["A"]))
	}
	maxID := -1
	for _, p := range c.All {
		maxID = max(maxID, p-1)
	}
	if got := pr.MaxPartitionID(); int(got) != maxID {
		bad("MaxPartitionID", got, maxID)
	}
	var ids []int32
	for _, p := range pr.Partitions() {
		ids = append(ids, p.Id)
		if want := pstate(c.St[p.Id]); p.State != want {
			bad("Partitions state", p.State.String(), want.String())
		}
	}
	sort.Slice(ids, func(a, b int) bool { return ids[a] < ids[b] })
	if !same(c.All, ids) {
		bad("Partitions", ids, c.All)
	}
	for j, want := range c.Shard {
		size := j - 1
		if got := pr.ShuffleShardSize(size); got != want {
			bad(fmt.Sprintf("ShuffleShardSize size%s", map[bool]string{true: "<=0", false: ">0"}[size <= 0]), map[string]int{"size": size, "got": got}, want)
		}
		// ... and it is the number of partitions ShuffleShard(size) really returns
		if sub, err := pr.ShuffleShard("tenant-s", size); err != nil || sub.PartitionsCount() != want {
			bad("ShuffleShard count", map[string]any{"size": size, "got": fmt.Sprint(sub), "err": fmt.Sprint(err)}, want)
		}
	}
	if got := batch.InstancesCount(); got != c.BatchCount {
		bad("batch InstancesCount", got, c.BatchCount)
	}
	if got := batch.ReplicationFactor(); got != c.BatchRF {
		bad("batch ReplicationFactor", got, c.BatchRF)
	}
	groups, err := batch.GetKeysByPartition(context.Background(), nil)
	if c.KbpEmptyErr != errors.Is(err, ring.ErrNoActivePartitionFound) || (err == nil) == c.KbpEmptyErr || len(groups) != 0 {
		bad("kbp no keys", map[string]any{"groups": groups, "err": fmt.Sprint(err)}, map[string]any{"err": c.KbpEmptyErr})
	}
	// a cancelled caller gets an error, never a partial grouping (the no-active error wins: it is tested first)
	cctx, cancel := context.WithCancel(context.Background())
	cancel()
	groups, err = batch.GetKeysByPartition(cctx, []uint32{0, 1})
	if err == nil || len(groups) != 0 || c.KbpEmptyErr != errors.Is(err, ring.ErrNoActivePartitionFound) {
		bad("kbp cancelled", map[string]any{"groups": groups, "err": fmt.Sprint(err)}, "an error and no groups")
	}
}

// ---------------------------------------------------------------------------------------------
// replication sets, spec -> code

type instJ struct {
	Known bool   `json:"known"`
	St    string `json:"st"`
	Age   int    `json:"age"`
	Zone  int    `json:"zone"`
	Ro    bool   `json:"ro"`
	Idx   int    `json:"idx"`
}

type replSetJ struct {
	P         int    `json:"p"`
	Instances []int  `json:"instances"`
	Muz       int    `json:"muz"`
	MaxErrors int    `json:"maxErrors"`
	ZoneAware bool   `json:"zoneAware"`
	Err       string `json:"err"` // multi only
}

type replCase struct {
	Mode     string                     `json:"mode"`
	NP       int                        `json:"np"`
	OwnerOf  []int                      `json:"ownerOf"`
	Inst     []instJ                    `json:"inst"`
	OwnersOf [][]int                    `json:"ownersOf"` // per partition: OwnersOfPartition (owner numbers)
	Res      map[string]json.RawMessage `json:"res"`
}

type replWant struct {
	M    []int      `json:"m"` // partitions the ring is built over
	Err  string     `json:"err"`
	Sets []replSetJ `json:"sets"`
}

type replView struct {
	name string
	r    *ring.PartitionInstanceRing
}

// sameMembers: spec partition ids (1-based) vs real ids (0-based, sorted).
func sameMembers(m []int, ids []int32) bool {
	if len(m) != len(ids) {
		return false
	}
	mm := append([]int(nil), m...)
	sort.Ints(mm)
	for i := range mm {
		if mm[i]-1 != int(ids[i]) {
			return false
		}
	}
	return true
}

type staticReader struct{ r *ring.PartitionRing }

func (s staticReader) PartitionRing() *ring.PartitionRing { return s.r }

var opByName = map[string]ring.Operation{"Write": ring.Write, "Read": ring.Read, "Reporting": ring.Reporting}

// instName: lexicographic order = owner order, numeric suffix = idx (what the multi variant parses).
// idx 9 (NoIdx of the specification) = a name without a numeric suffix, which ranks above every number.
func instName(o int, idx int) string {
	if idx == 9 {
		return fmt.Sprintf("m%d-x", o)
	}
	return fmt.Sprintf("m%d-%d", o, idx)
}

func idsOf(rs ring.ReplicationSet) []string {
	out := []string{}
	for _, i := range rs.Instances {
		out = append(out, i.Id)
	}
	sort.Strings(out)
	return out
}

func sameStrings(a, b []string) bool {
	if len(a) != len(b) {
		return false
	}
	for i := range a {
		if a[i] != b[i] {
			return false
		}
	}
	return true
}

func (rp *replayer) repl(line []byte) error {
	res, hbT, corrupt, now := rp.res, rp.hbT, rp.corrupt, rp.now
	{
		{
			var c replCase
			if err := json.Unmarshal(line, &c); err != nil {
				return err
			}
			res.Cases++
			mode, np := c.Mode, c.NP
			no := len(c.OwnerOf)
			names := make([]string, no+1)
			idesc := ring.NewDesc()
			unhealthyOrUnknown := false
			for o := 1; o <= no; o++ {
				ij := c.Inst[o-1]
				names[o] = instName(o, ij.Idx)
				if !ij.Known {
					if c.OwnerOf[o-1] != 0 {
						unhealthyOrUnknown = true
					}
					continue
				}
				d := idesc.AddIngester(names[o], "addr-"+names[o], abs.ZoneName(ij.Zone), []uint32{uint32(o)}, abs.StateOf(ij.St), now, ij.Ro, time.Time{}, nil)
				d.Timestamp = now.Add(-time.Duration(ij.Age) * time.Second).Unix()
				idesc.Ingesters[names[o]] = d
				if ij.Age > hbT || ij.St != "ACTIVE" {
					unhealthyOrUnknown = true
				}
			}
			pdesc := ring.NewPartitionRingDesc()
			// partition states do not matter for the whole ring; they decide which partitions a shard keeps, so they
			// rotate through all mixes (inactive since 2 s: inside the long look-back, outside the short one)
			pstates := []ring.PartitionState{ring.PartitionActive, ring.PartitionActive, ring.PartitionInactive, ring.PartitionPending}
			rot := rp.counts[mode]
			for p := 1; p <= np; p++ {
				st := pstates[rot%len(pstates)]
				rot /= len(pstates)
				if mode == "multi" {
					st = pstates[p%len(pstates)]
				}
				pdesc.AddPartition(int32(p-1), st, now.Add(-2*time.Second))
			}
			for o := 1; o <= no; o++ {
				if p := c.OwnerOf[o-1]; p != 0 {
					id := names[o]
					if mode == "multi" {
						id = fmt.Sprintf("%s/%d", names[o], p-1)
					}
					pdesc.AddOrUpdateOwner(id, ring.OwnerActive, int32(p-1), now)
				}
			}
			func() {
				defer func() {
					if r := recover(); r != nil {
						res.Mismatch(abs.Mismatch{Sig: mode + ":panic", Case: c, Got: fmt.Sprint(r), Want: "no panic"})
					}
				}()
				pr, err := ring.NewPartitionRing(*pdesc)
				if err != nil {
					res.Fatal = "NewPartitionRing: " + err.Error()
					return
				}
				rp.owners(&c, pr, names)
				ir, stop, err := abs.NewRing(idesc, ring.Config{ReplicationFactor: 1, HeartbeatTimeout: time.Hour, SubringCacheDisabled: true})
				if err != nil {
					res.Fatal = "NewRing: " + err.Error()
					return
				}
				defer stop()
				for opName, raw := range c.Res {
					op := opByName[opName]
					if mode == "repl" {
						// expected result for every subset M of partitions a ring may be built over
						var wants []replWant
						if err := json.Unmarshal(raw, &wants); err != nil {
							res.Fatal = "bad case: " + err.Error()
							return
						}
						if corrupt > 0 && res.Cases == corrupt {
							for wi := range wants {
								if wants[wi].Err == "none" {
									wants[wi].Sets[0].Muz++
								}
							}
						}
						hb := time.Duration(hbT) * time.Second
						whole := ring.NewPartitionInstanceRing(staticReader{pr}, ir, hb)
						views := []replView{{"whole", whole}}
						// every PartitionInstanceRing the API hands out: shards of full size (0) and of size 1, without
						// look-back, with a look-back shorter than the heartbeat timeout and with a longer one
						for _, size := range []int{0, 1} {
							if sub, err := whole.ShuffleShard("tenant-a", size); err == nil {
								views = append(views, replView{fmt.Sprintf("shard size=%d", size), sub})
							} else {
								res.Mismatch(abs.Mismatch{Sig: "repl:ShuffleShard error", Case: c, Got: err.Error(), Want: "sub-ring"})
							}
							for _, lb := range []struct {
								name string
								d    time.Duration
							}{{"lookback<timeout", hb / 2}, {"lookback>timeout", time.Hour}} {
								if sub, err := whole.ShuffleShardWithLookback("tenant-a", size, lb.d, now); err == nil {
									views = append(views, replView{fmt.Sprintf("shard size=%d %s", size, lb.name), sub})
								} else {
									res.Mismatch(abs.Mismatch{Sig: "repl:ShuffleShardWithLookback error", Case: c, Got: err.Error(), Want: "sub-ring"})
								}
							}
						}
						for _, v := range views {
							members := v.r.PartitionRing().PartitionIDs()
							var want *replWant
							for wi := range wants {
								if sameMembers(wants[wi].M, members) {
									want = &wants[wi]
								}
							}
							if want == nil {
								res.Fatal = fmt.Sprintf("case has no expectation for members %v", members)
								return
							}
							if len(members) < np {
								rp.counts["repl sub-ring views"]++
							}
							got, gerr := v.r.GetReplicationSetsForOperation(op)
							sig := fmt.Sprintf("repl:%s %s want=%s", v.name, opName, want.Err)
							switch want.Err {
							case "unhealthy":
								if !errors.Is(gerr, ring.ErrTooManyUnhealthyInstances) {
									res.Mismatch(abs.Mismatch{Sig: sig, Case: c, Got: map[string]any{"members": members, "sets": got, "err": fmt.Sprint(gerr)}, Want: "ErrTooManyUnhealthyInstances"})
								}
							case "empty":
								if !errors.Is(gerr, ring.ErrEmptyRing) {
									res.Mismatch(abs.Mismatch{Sig: sig, Case: c, Got: map[string]any{"members": members, "sets": got, "err": fmt.Sprint(gerr)}, Want: "ErrEmptyRing"})
								}
							default:
								if gerr != nil {
									res.Mismatch(abs.Mismatch{Sig: sig + " got=error", Case: c, Got: map[string]any{"members": members, "err": gerr.Error()}, Want: want.Sets})
									break
								}
								// sets carry no partition id: owner sets of distinct partitions are disjoint and non-empty
								ok := len(got) == len(want.Sets)
								used := make([]bool, len(got))
								for _, ws := range want.Sets {
									wids := []string{}
									for _, o := range ws.Instances {
										wids = append(wids, names[o])
									}
									sort.Strings(wids)
									found := false
									for gi, gs := range got {
										if !used[gi] && sameStrings(idsOf(gs), wids) {
											used[gi] = true
											found = gs.MaxUnavailableZones == ws.Muz && gs.MaxErrors == ws.MaxErrors && gs.ZoneAwarenessEnabled == ws.ZoneAware
											break
										}
									}
									if !found {
										ok = false
									}
								}
								if !ok {
									res.Mismatch(abs.Mismatch{Sig: sig + " got=sets", Case: c, Got: map[string]any{"members": members, "sets": got}, Want: want.Sets})
								}
							}
						}
					} else {
						var want []replSetJ
						if err := json.Unmarshal(raw, &want); err != nil {
							res.Fatal = "bad case: " + err.Error()
							return
						}
						mir := ring.NewMultiPartitionInstanceRing(staticReader{pr}, ir, time.Duration(hbT)*time.Second)
						for wi, ws := range want {
							if corrupt > 0 && res.Cases == corrupt && wi == 0 && ws.Err == "none" {
								ws.Muz++
							}
							got, gerr := mir.GetReplicationSetForPartitionAndOperation(int32(ws.P-1), op)
							sig := fmt.Sprintf("multi:%s want=%s", opName, ws.Err)
							switch ws.Err {
							case "unhealthy":
								if !errors.Is(gerr, ring.ErrTooManyUnhealthyInstances) {
									res.Mismatch(abs.Mismatch{Sig: sig, Case: c, Got: map[string]any{"set": got, "err": fmt.Sprint(gerr)}, Want: "ErrTooManyUnhealthyInstances"})
								}
							case "empty":
								if !errors.Is(gerr, ring.ErrEmptyRing) {
									res.Mismatch(abs.Mismatch{Sig: sig, Case: c, Got: map[string]any{"set": got, "err": fmt.Sprint(gerr)}, Want: "ErrEmptyRing"})
								}
							default:
								wids := []string{}
								for _, o := range ws.Instances {
									wids = append(wids, names[o])
								}
								sort.Strings(wids)
								if gerr != nil || !sameStrings(idsOf(got), wids) || got.MaxUnavailableZones != ws.Muz || got.MaxErrors != 0 || !got.ZoneAwarenessEnabled {
									res.Mismatch(abs.Mismatch{Sig: sig + " got=set", Case: c, Got: map[string]any{"set": got, "err": fmt.Sprint(gerr)}, Want: ws})
								}
							}
						}
					}
				}
			}()
			if unhealthyOrUnknown {
				res.Nontrivial++
			}
			if rp.counts[mode]%2003 == 0 {
				res.Sample(map[string]any{"mode": mode, "case": c})
			}
			rp.counts[mode]++
			if res.Fatal != "" {
				return errors.New(res.Fatal)
			}
			return nil
		}
	}
}

// owners compares the owner lists of a snapshot with the specification's OwnersOfPartition: PartitionOwnerIDs,
// its copy, and MultiPartitionOwnerIDs (suffix stripped) with no buffer, a large one and one that is too small.
func (rp *replayer) owners(c *replCase, pr *ring.PartitionRing, names []string) {
	for p := 1; p <= c.NP && p <= len(c.OwnersOf); p++ {
		var full, stripped []string
		os := append([]int(nil), c.OwnersOf[p-1]...)
		sort.Ints(os)
		for _, o := range os {
			id := names[o]
			if c.Mode == "multi" {
				id = fmt.Sprintf("%s/%d", names[o], p-1)
			}
			full = append(full, id)
			stripped = append(stripped, names[o])
		}
		bad := func(what string, got, want any) {
			rp.res.Mismatch(abs.Mismatch{Sig: fmt.Sprintf("owners:%s mode=%s n=%d", what, c.Mode, min(len(full), 2)), Case: c, Got: got, Want: want})
		}
		if got := pr.PartitionOwnerIDs(int32(p - 1)); !sameStrings(got, full) {
			bad("PartitionOwnerIDs", got, full)
		}
		cp := pr.PartitionOwnerIDsCopy(int32(p - 1))
		if !sameStrings(cp, full) {
			bad("PartitionOwnerIDsCopy", cp, full)
		}
		if len(cp) > 0 { // a copy: scribbling on it must not reach the snapshot
			cp[0] = "scribble"
			if got := pr.PartitionOwnerIDs(int32(p - 1)); !sameStrings(got, full) {
				bad("PartitionOwnerIDsCopy aliases the snapshot", got, full)
			}
		}
		for _, buf := range [][]string{nil, make([]string, 0, 8), make([]string, 1, 1), make([]string, 5)} {
			got := pr.MultiPartitionOwnerIDs(int32(p-1), buf)
			if !sameStrings(got, stripped) {
				bad(fmt.Sprintf("MultiPartitionOwnerIDs cap=%d", cap(buf)), got, stripped)
			}
		}
		if got := pr.PartitionOwnerIDs(int32(p - 1)); !sameStrings(got, full) {
			bad("MultiPartitionOwnerIDs changed the snapshot", got, full)
		}
	}
}

// TestReplay replays every case TLC emitted (all modes of PartitionRingGen.tla) under the synctest
// clock: time.Now() is frozen while the code under test runs, so heartbeat ages are exact.
func TestReplay(t *testing.T) {
	in := os.Getenv("VERIF_IN")
	nk := abs.EnvInt("VERIF_NK", 0)
	var gaps []int
	_ = json.Unmarshal([]byte(os.Getenv("VERIF_GAPS")), &gaps)
	if in == "" || nk == 0 {
		t.Skip("VERIF_IN / VERIF_NK not set")
	}
	res := &abs.Result{}
	synctest.Test(t, func(t *testing.T) {
		rp := &replayer{res: res, nk: nk, classes: abs.KeyClasses(nk, gaps), hbT: abs.EnvInt("VERIF_T", 2),
			corrupt: abs.EnvInt("VERIF_CORRUPT", 0), now: time.Now(), counts: map[string]int{}}
		err := abs.ReadNDJSON(in, func(line []byte) error {
			var m struct {
				Mode string `json:"mode"`
			}
			if err := json.Unmarshal(line, &m); err != nil {
				return err
			}
			switch m.Mode {
			case "route":
				return rp.route(line)
			case "repl", "multi":
				return rp.repl(line)
			}
			return fmt.Errorf("unknown case mode %q", m.Mode)
		})
		if err != nil && res.Fatal == "" {
			res.Fatal = err.Error()
		}
		for k, v := range rp.counts {
			res.AddExtra("replayed "+k, v)
		}
	})
	res.Write(t)
}

// ---------------------------------------------------------------------------------------------
// routing, code -> spec: random rings with generated tokens, rank-compressed

type recRoute struct {
	ID   int   `json:"id"`
	Pid  []int `json:"pid"`  // partition id by token rank (1-based ranks, ascending token)
	Act  []int `json:"act"`  // ids of ACTIVE partitions
	Keys []int `json:"keys"` // key coordinates: token of rank r = 2r, strictly between ranks r and r+1 = 2r+1
	Got  []int `json:"got"`  // ActivePartitionForKey per key, -1 = ErrNoActivePartitionFound
	Grp  []int `json:"grp"`  // GetKeysByPartition: partition per key index, -1 = error
}

// TestRecord records both code -> spec inputs in one process: the random-ring lookups
// (VERIF_CASES) and the lifecycler/editor traces (VERIF_TRACE_DIR).
func TestRecord(t *testing.T) {
	if os.Getenv("VERIF_CASES") == "" || os.Getenv("VERIF_TRACE_DIR") == "" {
		t.Skip("VERIF_CASES / VERIF_TRACE_DIR not set")
	}
	res := &abs.Result{}
	recordRoutes(res)
	if res.Fatal == "" {
		recordTrace(t, res)
	}
	res.Write(t)
}

func recordRoutes(res *abs.Result) {
	outp := os.Getenv("VERIF_CASES")
	n := abs.EnvInt("VERIF_N", 40)
	corrupt := abs.EnvInt("VERIF_CORRUPT_RING", 0)
	rnd := rand.New(rand.NewSource(abs.Seed()*7919 + 15))
	w, err := abs.NewNDJSONWriter(outp)
	if err != nil {
		res.Fatal = err.Error()
		return
	}
	now := time.Now()
	rings := 0
	defer func() { res.AddExtra("recorded_rings", rings) }()
	for id := 1; id <= n; id++ {
		np := 1 + rnd.Intn(20)
		if id <= 20 {
			np = id // every size 1..20 occurs
		}
		perm := rnd.Perm(41)
		desc := ring.NewPartitionRingDesc()
		keep := []int{1, 2, 3, 8, 32, 512}[rnd.Intn(6)]
		if id%20 == 0 {
			keep = 512 // the full token set AddPartition generates
		} else if keep == 512 {
			keep = 16
		}
		mix := rnd.Intn(4) // 0: mostly active, 1: mostly non-active, 2: uniform, 3: exactly one active
		var act []int
		for j := 0; j < np; j++ {
			pid := int32(perm[j])
			st := ring.PartitionActive
			r := rnd.Intn(10)
			switch mix {
			case 0:
				if r >= 8 {
					st = []ring.PartitionState{ring.PartitionPending, ring.PartitionInactive}[r-8]
				}
			case 1:
				if r >= 2 {
					st = []ring.PartitionState{ring.PartitionPending, ring.PartitionInactive}[r%2]
				}
			case 2:
				st = []ring.PartitionState{ring.PartitionPending, ring.PartitionActive, ring.PartitionInactive}[r%3]
			case 3:
				if j > 0 {
					st = []ring.PartitionState{ring.PartitionPending, ring.PartitionInactive}[r%2]
				}
			}
			if id%13 == 0 { // no active partition at all
				st = ring.PartitionInactive
			}
			desc.AddPartition(pid, st, now) // the real spread-minimising tokens of this partition id
			p := desc.Partitions[pid]
			toks := append([]uint32(nil), p.Tokens...)
			if keep < len(toks) {
				rnd.Shuffle(len(toks), func(a, b int) { toks[a], toks[b] = toks[b], toks[a] })
				toks = toks[:keep]
				sort.Slice(toks, func(a, b int) bool { return toks[a] < toks[b] })
			}
			p.Tokens = toks
			desc.Partitions[pid] = p
			if st == ring.PartitionActive {
				act = append(act, int(pid))
			}
		}
		pr, err := ring.NewPartitionRing(*desc)
		if err != nil {
			res.Fatal = "NewPartitionRing: " + err.Error()
			break
		}
		// rank compression
		type tk struct {
			v   uint32
			pid int
		}
		var all []tk
		for pid, p := range desc.Partitions {
			for _, v := range p.Tokens {
				all = append(all, tk{v, int(pid)})
			}
		}
		sort.Slice(all, func(a, b int) bool { return all[a].v < all[b].v })
		for j := 1; j < len(all); j++ {
			if all[j].v == all[j-1].v {
				res.Fatal = "token collision in generated tokens"
			}
		}
		coord := func(key uint32) int {
			// number of tokens <= key, and whether key is a token
			i := sort.Search(len(all), func(j int) bool { return all[j].v >= key })
			if i < len(all) && all[i].v == key {
				return 2 * (i + 1)
			}
			return 2*i + 1
		}
		rc := recRoute{ID: id}
		for _, a := range all {
			rc.Pid = append(rc.Pid, a.pid)
		}
		sort.Ints(act)
		rc.Act = act
		if rc.Act == nil {
			rc.Act = []int{}
		}
		keys := []uint32{0, 1, math.MaxUint32, math.MaxUint32 - 1}
		for j := 0; j < 12; j++ {
			tv := all[rnd.Intn(len(all))].v
			keys = append(keys, tv, tv-1, tv+1)
		}
		keys = append(keys, all[0].v, all[0].v-1, all[len(all)-1].v, all[len(all)-1].v+1)
		for j := 0; j < 16; j++ {
			keys = append(keys, rnd.Uint32())
		}
		func() {
			defer func() {
				if r := recover(); r != nil {
					res.Mismatch(abs.Mismatch{Sig: "record-route:panic", Case: rc.ID, Got: fmt.Sprint(r), Want: "no panic"})
				}
			}()
			for _, key := range keys {
				rc.Keys = append(rc.Keys, coord(key))
				got, gerr := pr.ActivePartitionForKey(key)
				if gerr != nil {
					rc.Got = append(rc.Got, -1)
				} else {
					rc.Got = append(rc.Got, int(got))
				}
			}
			rc.Grp = make([]int, len(keys))
			groups, kerr := ring.NewActivePartitionBatchRing(pr).GetKeysByPartition(context.Background(), keys)
			for j := range rc.Grp {
				rc.Grp[j] = -1
			}
			if kerr == nil {
				for _, g := range groups {
					for _, ix := range g.Indexes {
						if ix >= 0 && ix < len(keys) && rc.Grp[ix] == -1 {
							rc.Grp[ix] = int(g.PartitionID)
						} else {
							rc.Grp[0] = -2 // malformed grouping: duplicate / out-of-range index
						}
					}
				}
			}
		}()
		if corrupt == id {
			rc.Got[len(rc.Got)-1] = -rc.Got[len(rc.Got)-1] - 5
		}
		res.Cases++
		rings++
		if len(act) < np && len(act) > 0 {
			res.Nontrivial++
		}
		if id <= 2 {
			res.Sample(map[string]any{"mode": "record-route", "partitions": np, "tokens": len(all), "active": len(act), "keys": len(keys)})
		}
		if err := w.Write(rc); err != nil {
			res.Fatal = err.Error()
			break
		}
	}
	if err := w.Close(); err != nil && res.Fatal == "" {
		res.Fatal = err.Error()
	}
}
