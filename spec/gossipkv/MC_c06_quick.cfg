\* C06 quick (safety): 2 nodes, 2 ids, clock 0..1, no tombstone collection, 2 CAS, 1 fault (partition
\* or restart); garbage packets, junk push/pull, blocking watchers, worker gates are in the thorough
\* configurations and in the replayed behaviours.
CONSTANTS
  N = 2
  NI = 2
  NK = 1
  MaxClock = 1
  Retention = 0
  T = 1
  MaxCas = 2
  MaxFaults = 1
  LiveStates = {"ACTIVE"}
  WatchNodes = {1, 2}
  HoldNodes = {}
  AllowRestart = TRUE
  AllowGarbage = FALSE
  AllowPartition = TRUE
  AllowJunkPP = FALSE
  GateNodes = {}
  InboxCap = 1
  VersionTest = TRUE
  KeyTest = TRUE
  MaxDel = 0
  ObsoleteTimeout = 1
  LockKeys = {}
  ConsumeNet = FALSE
  Ideal = TRUE
  Ghost = TRUE
  Record = FALSE
  Quiesce = FALSE
  RunDepth = 0
  QRounds = 2
SPECIFICATION Spec
VIEW view
INVARIANTS TypeOK TombstonesInvisible InvalidationSafe NoInventedContent SentIsWritten WatcherNeverStale PrefixWatcherNeverStale VersionCountsChanges
PROPERTIES TombstonesForwarded NoResurrection GCOnlyExpired NoExpiredTombstoneStored OnlyChangesForwarded DeletedStaysDeleted RemovedOnlyWhenObsolete DeletedNotRevived
CHECK_DEADLOCK FALSE
