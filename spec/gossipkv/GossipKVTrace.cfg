\* Trace validation (code -> spec): 4 nodes, 3 instance ids; the recording driver keeps within these bounds.
CONSTANTS
  N = 4
  NI = 3
  NK = 2
  MaxClock = 12
  Retention = 2
  T = 2
  MaxCas = 100000
  MaxFaults = 100000
  LiveStates = {"ACTIVE", "LEAVING", "PENDING"}
  WatchNodes = {1, 2, 3, 4}
  HoldNodes = {1, 2, 3, 4}
  AllowRestart = TRUE
  AllowGarbage = TRUE
  AllowPartition = FALSE
  AllowJunkPP = TRUE
  GateNodes = {1, 2, 3, 4}
  InboxCap = 2
  VersionTest = TRUE
  KeyTest = TRUE
  MaxDel = 100000
  ObsoleteTimeout = 2
  LockKeys = {}
  ConsumeNet = FALSE
  Ideal = TRUE
  Ghost = TRUE
  Record = TRUE
  Quiesce = FALSE
  RunDepth = 0
  QRounds = 2
INIT TInit
NEXT TNext
INVARIANTS TypeOK TombstonesInvisible NoInventedContent WatcherNeverStale PrefixWatcherNeverStale
POSTCONDITION TraceAccepted
CHECK_DEADLOCK FALSE
