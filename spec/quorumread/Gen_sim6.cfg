CONSTANTS
  MaxN = 6
  NSet = {5, 6}
  MaxZ = 4
  Modes = {"default", "zone"}
  MinHedge = {0, 1, 3}
  Preds = {"nil", "never", "class", "all", "nottransient"}
  GenCancel = TRUE
  NoCancels = {TRUE, FALSE}
INIT GInit
NEXT GNext
INVARIANTS TypeOK NoRace OneInFlight OnlySuccessful QuorumBacked ErrWhenExceeded AtMostOneCall Minimised CleanupSafe CleanupExactlyOnce UnusedCancelled ReturnedNotCancelled PlainAllCancelled Emit
CHECK_DEADLOCK FALSE
