CONSTANTS
  MinKeys = 2
  MaxKeys = 4
  NI = 6
  MaxRF = 5
  Shape = "any"
  Grain = "call"
  Gate = TRUE
  EmptyFix = TRUE
  AllowCancel = TRUE
  EarlyExits = FALSE
  MaxConc = 9
  Spawn = "go"
  Record = TRUE
SPECIFICATION SimSpec
INVARIANTS SingleSend ReturnsOnce SuccessMeansQuorum ErrorMeansNoQuorum ErrorIsReal ChannelErrorIsReal
           EarlyError LastAnswerError DecidedIsDelivered SuccessDelivered NoHang CalledExactly CleanupOnceAfterAll Emit
CHECK_DEADLOCK FALSE
