#!/bin/bash
# confirm_mut.sh <worktree> <mutdir e.g. MUTANTS/m1> <seeded-id e.g. C19-a1> <property> <demo target path rel. to worktree> <pkgs to test...>
# Confirms: patch applies; existing tests of pkgs pass with it (a failing test is re-run in isolation to rule out load flakes);
# demo fails with it and passes without. Copies into /verif/seeded/<id>/.
set -u
WT=$1; M=$2; ID=$3; PROP=$4; DEMO=$5; shift 5; PKGS="$@"
export GOFLAGS=-mod=mod GOPROXY=off
cd $WT || exit 2
LOG=/tmp/confirm_$ID.log; : > $LOG
git checkout -q -- . ; rm -f $DEMO
git apply --check $M/patch.diff >>$LOG 2>&1 || { echo "$ID: patch does not apply"; exit 1; }
demo_src=$(ls $M/demo*_test.go $M/demo*.go 2>/dev/null | head -1)
run() { for i in 1 2 3; do out=$(go test ${CONFIRM_TAGS:+-tags $CONFIRM_TAGS} -count=1 "$@" 2>&1); rc=$?; echo "$out" >>$LOG; LAST="$out"; if echo "$out" | grep -q "signal: terminated\|signal: killed"; then sleep 5; continue; fi; return $rc; done; return 3; }
cp $demo_src $DEMO
run -run 'Demo|demo' ./$(dirname $DEMO)/ ; r_without=$?
rm -f $DEMO
git apply $M/patch.diff
run -timeout 60m $PKGS ; r_existing=$?
if [ $r_existing -ne 0 ]; then
  failed=$(echo "$LAST" | grep -E '^--- FAIL: ' | awk '{print $3}' | sort -u | paste -sd'|')
  failpkgs=$(echo "$LAST" | grep -E '^FAIL\s+\S+' | awk '{print $2}' | sed 's#github.com/grafana/dskit#.#' | sort -u | tr '\n' ' ')
  echo "RERUN isolated: $failed in $failpkgs" >>$LOG
  if [ -n "$failed" ] && [ -n "$failpkgs" ]; then
    ok=1
    for attempt in 1 2 3; do run -timeout 30m -run "^($failed)\$" $failpkgs; r=$?; [ $r -eq 0 ] && { ok=0; break; }; done
    r_existing=$ok
    [ $ok -eq 0 ] && echo "existing tests: failures were load flakes (passed in isolation): $failed" >>$LOG
  fi
fi
cp $demo_src $DEMO
run -run 'Demo|demo' ./$(dirname $DEMO)/ ; r_with=$?
rm -f $DEMO
git checkout -q -- .
echo "$ID: demo_without=$r_without existing_with=$r_existing demo_with=$r_with" | tee -a $LOG
if [ $r_without -eq 0 ] && [ $r_existing -eq 0 ] && [ $r_with -ne 0 ] && [ $r_with -ne 3 ]; then
  mkdir -p /verif/seeded/$ID
  cp $M/patch.diff /verif/seeded/$ID/patch.diff
  cp $demo_src /verif/seeded/$ID/$(basename $DEMO)
  [ -f $M/README.md ] && cp $M/README.md /verif/seeded/$ID/README.md
  python3 - <<PY
import json
json.dump({"id":"$ID","property":"$PROP","demo_target":"$DEMO","existing_tests_run":"go test -count=1 -timeout 60m $PKGS",
 "confirmed":{"demo_passes_without_change":True,"existing_tests_pass_with_change":True,"demo_fails_with_change":True},
 "needs":open("$M/README.md").read()[:1500]}, open("/verif/seeded/$ID/meta.json","w"), indent=1)
PY
  echo "$ID: CONFIRMED"
else
  echo "$ID: NOT CONFIRMED (see $LOG)"
fi
