\* t_active: see checks/ringlookup_common.py (UNIVERSES) for what this universe is for
CONSTANTS
  NK = 9
  Gaps = {4}
  N = 4
  MaxTok = 2
  MaxIdle = 1
  Z = 0
  StateSet = {"ACTIVE"}
  HbSet = {"edge"}
  RFMax = 5
  Canon = 2
  WithRemove = FALSE
  EmitOn = TRUE
INIT Init
NEXT Next
VIEW View
INVARIANTS TypeOK SizeOK ZoneOK ClockwiseFirst SlackExact WalkDefsAgree QuorumIntersection Emit
PROPERTIES MinimalDisruption
CHECK_DEADLOCK FALSE
