// Package c04 is intentionally empty: property C04 (tombstones block resurrection and are never
// shown) shares its specification (spec/gossipkv/GossipKV.tla) and its conformance driver with C06;
// checks/c04.py runs harness/c06 with VERIF_PROP=C04.
package c04
