\* The named deviation ResolveWithoutTimestamp: TLC is expected to VIOLATE NeverResolveWithoutTimestamp here
\* (collision resolution rewrites a token list under an unchanged (id, ts)), which is why C03 excludes shared
\* tokens from its convergence claim and C05 does not demand order-independence for colliding updates.
CONSTANTS
  N = 2
  M = 1
  Shared = TRUE
  TsSet = {1, 2}
  LiveSt = {"ACTIVE", "LEAVING"}
  MaxUpd = 1
  Clock0 = 1
  MaxClock = 1
  CasRaw = TRUE
  ThinK = 0
  ThinR = 0
  ThinA = 0
INIT Init
NEXT Next
VIEW View
INVARIANTS TypeOK InvTokenUnique
PROPERTIES NeverResolveWithoutTimestamp
CHECK_DEADLOCK FALSE
