CONSTANTS
  WithDone = TRUE
  TrackerBug = "ignoreExpect"
  Shapes <- ShapesDoneQuick
INIT Init
NEXT NextD
INVARIANTS ErrWhenExceeded ReturnedNotCancelled CompletedJustified
CHECK_DEADLOCK TRUE
