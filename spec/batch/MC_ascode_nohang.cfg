CONSTANTS
  MinKeys = 0
  MaxKeys = 1
  NI = 2
  MaxRF = 2
  Shape = "any"
  Grain = "atomic"
  Gate = FALSE
  EmptyFix = FALSE
  AllowCancel = TRUE
  EarlyExits = TRUE
  MaxConc = 3
  Spawn = "go"
  Record = FALSE
SPECIFICATION Spec
INVARIANTS TypeOK SingleSend ReturnsOnce SuccessMeansQuorum ErrorMeansNoQuorum ErrorIsReal ChannelErrorIsReal
           EarlyError LastAnswerError DecidedIsDelivered SuccessDelivered NoHang CalledExactly CleanupOnceAfterAll
CHECK_DEADLOCK TRUE
