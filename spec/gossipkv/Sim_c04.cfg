\* C04 behaviour generation: 2 nodes, 2 ids, clock 0..6, retention 2 s, up to 8 CAS, restarts and
\* garbage, up to 2 KV.Delete calls (ObsoleteEntriesTimeout 2 s).
CONSTANTS
  N = 2
  NI = 2
  NK = 1
  MaxClock = 6
  Retention = 2
  T = 1
  MaxCas = 8
  MaxFaults = 2
  LiveStates = {"ACTIVE", "LEAVING", "PENDING"}
  WatchNodes = {1, 2}
  HoldNodes = {1}
  AllowRestart = TRUE
  AllowGarbage = TRUE
  AllowPartition = FALSE
  AllowJunkPP = FALSE
  GateNodes = {}
  InboxCap = 1
  VersionTest = TRUE
  KeyTest = TRUE
  MaxDel = 2
  ObsoleteTimeout = 2
  LockKeys = {}
  ConsumeNet = FALSE
  Ideal = TRUE
  Ghost = TRUE
  Record = TRUE
  Quiesce = TRUE
  RunDepth = @@RUN@@
  QRounds = 2
INIT Init
NEXT SimNext
INVARIANTS TypeOK TombstonesInvisible NoInventedContent WatcherNeverStale PrefixWatcherNeverStale QuiescentOK EmitDone
PROPERTIES TombstonesForwarded NoResurrection GCOnlyExpired NoExpiredTombstoneStored OnlyChangesForwarded DeletedStaysDeleted RemovedOnlyWhenObsolete DeletedNotRevived
CHECK_DEADLOCK FALSE
