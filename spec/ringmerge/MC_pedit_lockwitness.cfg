\* Expected to be VIOLATED (witness, named behaviour LockSurvivesRecreation is reachable)
CONSTANTS
  NP = 1
  NO = 0
  NOwned = 1
  TsSet = {1, 2}
  PStates = {"Active"}
  LockTs = {0, 1}
  Lim2Set = {0, 1, 2, 3, 4, 5}
  NowSet = {3}
  NSlices = 1
  Slice = 0
INIT Init
NEXT Next
INVARIANTS NegLockWitness
CHECK_DEADLOCK FALSE
