package c11

// Multi-set variant DoMultiUntilQuorumWithoutSuccessfulContextCancellation
// (spec/quorumread/QuorumMulti.tla): depth-first enumeration of environment schedules on the
// real code, recorded for QuorumMultiTrace.tla.

import (
	"context"
	"errors"
	"fmt"
	"math/rand"
	"os"
	"strings"
	"sync"
	"testing"
	"testing/synctest"

	"verifharness/internal/abs"

	"github.com/grafana/dskit/ring"
)

type MultiCfg struct {
	Size []int `json:"size"` // instances per replication set (global numbering, set by set)
	Tol  []int `json:"tol"`  // MaxErrors per set
	// Done: callbacks may call the CancelCauseFunc they were given (environment step "done"): in-flight tracker
	Done bool `json:"done"`
	// Shared: every set has one instance and all sets are views of the SAME backing array (identical *InstanceDesc):
	// the k-th invocation of f is numbered k (the sets are interchangeable: equal size and tolerance)
	Shared bool `json:"shared"`
}

type MultiTrace struct {
	ID    int      `json:"id"`
	Cfg   MultiCfg `json:"cfg"`
	Steps []Step   `json:"steps"`
}

type multiRun struct {
	cfg      MultiCfg
	n        int
	mu       sync.Mutex
	calls    []int
	ctxs     []context.Context
	finished []bool
	cleaned  []int
	bad      int
	gates    []chan string
	cancel   context.CancelCauseFunc
	retCh    chan Ret
	ret      *Ret
	canceled bool
	cancels  []context.CancelCauseFunc // the CancelCauseFunc handed to each invocation
	doneCb   []bool
	next     int
}

var errCb = errors.New("verif: callback is done with its context")

func (r *multiRun) start(preCancel bool) {
	n := 0
	for _, s := range r.cfg.Size {
		n += s
	}
	r.n = n
	r.calls = make([]int, n+1)
	r.ctxs = make([]context.Context, n+1)
	r.finished = make([]bool, n+1)
	r.cleaned = make([]int, n+1)
	r.gates = make([]chan string, n+1)
	r.cancels = make([]context.CancelCauseFunc, n+1)
	r.doneCb = make([]bool, n+1)
	for i := 1; i <= n; i++ {
		r.gates[i] = make(chan string, 1)
	}
	r.retCh = make(chan Ret, 1)
	var sets []ring.ReplicationSet
	next := 1
	shared := []ring.InstanceDesc{{Id: "i-1", Addr: "addr-1"}}
	for k, sz := range r.cfg.Size {
		rs := ring.ReplicationSet{MaxErrors: r.cfg.Tol[k]}
		if r.cfg.Shared {
			rs.Instances = shared
			sets = append(sets, rs)
			continue
		}
		for j := 0; j < sz; j++ {
			rs.Instances = append(rs.Instances, ring.InstanceDesc{Id: fmt.Sprintf("i-%d", next), Addr: fmt.Sprintf("addr-%d", next)})
			next++
		}
		sets = append(sets, rs)
	}
	parent, cancel := context.WithCancelCause(context.Background())
	r.cancel = cancel
	if preCancel {
		cancel(errParent)
		r.canceled = true
	}
	f := func(ctx context.Context, d *ring.InstanceDesc, cancel context.CancelCauseFunc) (int, error) {
		i := instIndex(d)
		r.mu.Lock()
		if r.cfg.Shared {
			r.next++
			i = r.next
			if i > n { // more invocations than instances: count it against the last one
				i = n
			}
		}
		r.calls[i]++
		if r.ctxs[i] == nil {
			r.ctxs[i] = ctx
			r.cancels[i] = cancel
		}
		r.mu.Unlock()
		if o := <-r.gates[i]; o == "err" {
			return 0, &instErr{inst: i}
		}
		return i, nil
	}
	cleanup := func(v int) {
		r.mu.Lock()
		defer r.mu.Unlock()
		if v >= 1 && v <= n {
			r.cleaned[v]++
		} else {
			r.bad++
		}
	}
	go func() {
		ret := Ret{Kind: "ok", Set: []int{}, Cls: "-"}
		defer func() {
			if p := recover(); p != nil {
				ret = Ret{Kind: "err", Set: []int{}, Cls: "other:panic " + fmt.Sprint(p)}
			}
			r.retCh <- ret
		}()
		res, err := ring.DoMultiUntilQuorumWithoutSuccessfulContextCancellation(parent, sets, ring.DoUntilQuorumConfig{}, f, cleanup)
		if err != nil {
			ret.Kind = "err"
			var ie *instErr
			switch {
			case err == errParent:
				ret.Cls = "cancelled"
			case errors.As(err, &ie) && !strings.Contains(err.Error(), "another replication set"):
				ret.Cls, ret.Inst = "inst", ie.inst
			default:
				ret.Cls = "other:" + err.Error()
			}
			if len(res) != 0 {
				ret.Cls += "+results"
			}
			return
		}
		ret.Set = append(ret.Set, res...)
	}()
}

func multiCtxClass(ctx context.Context) string {
	if ctx != nil && ctx.Err() != nil && context.Cause(ctx) == errCb {
		return "cb"
	}
	c := ctxClass(ctx)
	if strings.HasPrefix(c, "other:") && strings.Contains(c, "quorum was not reached in another replication set") {
		return "otherSet"
	}
	if c == "other:all requests completed" {
		return "completed"
	}
	return c
}

func (r *multiRun) obs() Step {
	synctest.Wait()
	if r.ret == nil {
		select {
		case x := <-r.retCh:
			r.ret = &x
		default:
		}
	}
	r.mu.Lock()
	defer r.mu.Unlock()
	s := Step{A: "obs", Calls: append([]int(nil), r.calls[1:]...), Cleaned: append([]int(nil), r.cleaned[1:]...), Bad: r.bad, Ctx: make([]string, r.n)}
	for i := 1; i <= r.n; i++ {
		s.Ctx[i-1] = multiCtxClass(r.ctxs[i])
	}
	if r.ret != nil {
		x := *r.ret
		s.Ret = &x
	} else {
		s.Ret = &Ret{Kind: "none", Set: []int{}, Cls: "-"}
	}
	return s
}

func (r *multiRun) options(last Step) []Step {
	var out []Step
	returned := last.Ret.Kind != "none"
	for i := 1; i <= r.n; i++ {
		if last.Calls[i-1] > 0 && !r.finished[i] {
			out = append(out, Step{A: "finish", I: i, O: "ok"}, Step{A: "finish", I: i, O: "err"})
			if returned {
				break
			}
		}
	}
	if r.cfg.Done {
		for i := 1; i <= r.n; i++ {
			if last.Calls[i-1] > 0 && !r.doneCb[i] {
				out = append(out, Step{A: "done", I: i})
			}
		}
	}
	if !returned && !r.canceled {
		out = append(out, Step{A: "cancel"})
	}
	return out
}

func (r *multiRun) do(s Step) error {
	switch s.A {
	case "finish":
		if s.I < 1 || s.I > r.n || r.finished[s.I] {
			return fmt.Errorf("finish of instance %d not possible", s.I)
		}
		r.finished[s.I] = true
		r.gates[s.I] <- s.O
	case "done":
		r.mu.Lock()
		cancel := r.cancels[s.I]
		r.mu.Unlock()
		if s.I < 1 || s.I > r.n || r.doneCb[s.I] || cancel == nil {
			return fmt.Errorf("done of instance %d not possible", s.I)
		}
		r.doneCb[s.I] = true
		cancel(errCb)
	case "cancel":
		r.canceled = true
		r.cancel(errParent)
	default:
		return fmt.Errorf("unknown step %q", s.A)
	}
	return nil
}

func (r *multiRun) finishUp() {
	for i := 1; i <= r.n; i++ {
		close(r.gates[i])
	}
	r.cancel(errParent)
	synctest.Wait()
}

func multiCfgs(thorough bool) []MultiCfg {
	shapes := [][]int{{1, 1}, {2, 1}, {1, 2}, {1, 1, 1}}
	if thorough {
		shapes = append(shapes, []int{2, 2}, []int{2, 1, 1}, []int{1, 2, 1}, []int{1, 1, 2})
	}
	var out []MultiCfg
	for _, sh := range shapes {
		var rec func(k int, tol []int)
		rec = func(k int, tol []int) {
			if k == len(sh) {
				out = append(out, MultiCfg{Size: sh, Tol: append([]int(nil), tol...)})
				return
			}
			for t := 0; t <= sh[k]; t++ {
				rec(k+1, append(tol, t))
			}
		}
		rec(0, nil)
	}
	// in-flight tracker: callbacks release their contexts at any point of the schedule. One set (delegation to the
	// inner call, no tracker), two sets of one instance; sets sharing their instances (equal tolerances)
	for _, sh := range [][]int{{1}, {2}, {1, 1}} {
		for _, tol := range tolVectors(sh, 2) {
			out = append(out, MultiCfg{Size: sh, Tol: tol, Done: true})
		}
	}
	for _, t := range []int{0, 1} {
		out = append(out, MultiCfg{Size: []int{1, 1}, Tol: []int{t, t}, Done: true, Shared: true})
		if thorough {
			out = append(out, MultiCfg{Size: []int{1, 1, 1}, Tol: []int{t, t, t}, Done: true, Shared: true})
		}
	}
	return out
}

func tolVectors(sh []int, maxTol int) [][]int {
	var out [][]int
	var rec func(k int, tol []int)
	rec = func(k int, tol []int) {
		if k == len(sh) {
			out = append(out, append([]int(nil), tol...))
			return
		}
		for t := 0; t <= sh[k] && t <= maxTol; t++ {
			rec(k+1, append(tol, t))
		}
	}
	rec(0, nil)
	return out
}

// multiSampleCfgs: larger shapes explored by seeded random schedules with the "done" steps enabled.
func multiSampleCfgs() []MultiCfg {
	var out []MultiCfg
	for _, sh := range [][]int{{2, 1}, {1, 2}, {1, 1, 1}, {2, 2}, {2, 1, 1}} {
		for _, tol := range tolVectors(sh, 1) {
			out = append(out, MultiCfg{Size: sh, Tol: tol, Done: true})
		}
	}
	out = append(out, MultiCfg{Size: []int{1, 1, 1}, Tol: []int{0, 0, 0}, Done: true, Shared: true})
	return out
}

// TestRecordMulti: depth-first enumeration of environment schedules of the multi-set variant.
func TestRecordMulti(t *testing.T) {
	outPath := os.Getenv("VERIF_TRACE_OUT")
	if outPath == "" {
		t.Skip("VERIF_TRACE_OUT not set")
	}
	res := &abs.Result{}
	defer res.Write(t)
	w, err := abs.NewNDJSONWriter(outPath)
	if err != nil {
		res.Fatal = err.Error()
		return
	}
	defer w.Close()
	corruptAt := abs.EnvInt("VERIF_CORRUPT_TRACE", 0)
	id := 0
	for _, cfg := range multiCfgs(abs.Tier() == "thorough") {
		for _, pre := range []bool{false, true} {
			var path []int
			for {
				var counts []int
				steps, leak := exploreWith(t, func() driver { return &multiRun{cfg: cfg} }, pre, func(depth int, opts []Step) int {
					counts = append(counts, len(opts))
					if depth < len(path) {
						if path[depth] >= len(opts) {
							path[depth] = len(opts) - 1
						}
						return path[depth]
					}
					path = append(path, 0)
					return 0
				})
				id++
				if id == corruptAt {
					corruptTrace(steps)
				}
				tr := MultiTrace{ID: id, Cfg: cfg, Steps: steps}
				if err := w.Write(tr); err != nil {
					res.Fatal = err.Error()
				}
				res.Cases++
				if isNontrivial(steps) {
					res.Nontrivial++
				}
				if id%499 == 1 {
					res.Sample(tr)
				}
				if leak != "" {
					res.Mismatch(abs.Mismatch{Sig: "multi: goroutines left blocked after every call finished", Case: tr, Got: leak, Want: "all goroutines of the call terminate"})
				}
				k := len(counts) - 1
				path = path[:len(counts)]
				for k >= 0 && path[k]+1 >= counts[k] {
					k--
				}
				if k < 0 {
					break
				}
				path = append(path[:k:k], path[k]+1)
			}
		}
	}
	// sampled part: seeded random schedules over larger shapes (3 sets, 2 instances per set) with "done" steps
	rng := rand.New(rand.NewSource(abs.Seed()))
	sc := multiSampleCfgs()
	for k := 0; k < abs.EnvInt("VERIF_MULTI_SAMPLES", 0); k++ {
		cfg := sc[rng.Intn(len(sc))]
		steps, leak := exploreWith(t, func() driver { return &multiRun{cfg: cfg} }, false, func(depth int, opts []Step) int { return rng.Intn(len(opts)) })
		id++
		tr := MultiTrace{ID: id, Cfg: cfg, Steps: steps}
		if err := w.Write(tr); err != nil {
			res.Fatal = err.Error()
		}
		res.Cases++
		if isNontrivial(steps) {
			res.Nontrivial++
		}
		if leak != "" {
			res.Mismatch(abs.Mismatch{Sig: "multi: goroutines left blocked after every call finished", Case: tr, Got: leak, Want: "all goroutines of the call terminate"})
		}
	}
	res.AddExtra("multi_traces_recorded", id)
}
