\* C03 partition ring, quick: all triples of single-partition descriptors (Active/Deleted x 2 ts x lock register), every law
CONSTANTS
  NP = 1
  NO = 0
  NOwned = 1
  TsSet = {1, 2}
  PStates = {"Active"}
  LockTs = {0, 1, 2}
  Arity = 3
  EmitConv = TRUE
INIT Init
NEXT Next
INVARIANTS PairLaws TripleLaws RawLaws EmitConvergence
CHECK_DEADLOCK FALSE
