\* Negative control: Invalidates WITHOUT the key comparison lets an update of one key supersede a
\* queued update of another key whose content names it covers. This configuration is EXPECTED to
\* violate InvalidationSafe.
CONSTANTS
  N = 2
  NI = 1
  NK = 2
  MaxClock = 1
  Retention = 0
  T = 1
  MaxCas = 3
  MaxFaults = 0
  LiveStates = {"ACTIVE"}
  WatchNodes = {1, 2}
  HoldNodes = {}
  AllowRestart = FALSE
  AllowGarbage = FALSE
  AllowPartition = FALSE
  AllowJunkPP = FALSE
  GateNodes = {}
  InboxCap = 1
  VersionTest = TRUE
  KeyTest = FALSE
  MaxDel = 0
  ObsoleteTimeout = 1
  LockKeys = {}
  ConsumeNet = FALSE
  Ideal = TRUE
  Ghost = TRUE
  Record = FALSE
  Quiesce = FALSE
  RunDepth = 0
  QRounds = 2
SPECIFICATION Spec
VIEW view
INVARIANTS InvalidationSafe
CHECK_DEADLOCK FALSE
