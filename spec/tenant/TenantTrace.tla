----------------------------- MODULE TenantTrace -----------------------------
(***************************************************************************)
(* C20, code -> specification.  trace.ndjson holds observations recorded   *)
(* from the real tenant package by harness/c20 TestRecordTenant: one line  *)
(* per organisation id (bytes as integer arrays) with what every entry     *)
(* point answered.  Each record becomes one case state of Tenant.tla, so   *)
(* the theorems of the property are decided on the recorded inputs too,    *)
(* and `Agrees` recomputes every logged output with the specification's    *)
(* operators.  A record that disagrees is printed as JSON ("rejected").    *)
(***************************************************************************)
EXTENDS Tenant

CONSTANT NChunks       \* fan-out of the seed states (parallelism only)

VARIABLE idx           \* index of the record the case state stands for

Log  == ndJsonDeserialize("trace.ndjson")
NLog == Len(Log)

tvars == <<vars, idx>>

TInit == /\ phase = "seed"
         /\ seed \in {[f |-> "trace", x |-> <<k>>] : k \in 0..(NChunks-1)}
         /\ fam = "seed"
         /\ org = NoOrg
         /\ idx = 0

TNext == /\ phase = "seed"
         /\ \E i \in 1..NLog :
              /\ i % NChunks = seed.x[1]
              /\ idx' = i
              /\ Case("trace", [has |-> Log[i].has, b |-> Log[i].in])

SameRes(g, w) == /\ g.ok = w.ok
                 /\ g.err = w.err
                 /\ g.bad = w.bad
                 /\ w.ok => g.val = w.val

\* names of the logged fields that disagree with the specification
Rejected(rec, c) ==
    LET o == Outcome(c) IN
    (IF rec.valid = o.valid /\ rec.validbad = o.validbad THEN {} ELSE {"valid"}) \cup
    (IF rec.trim = o.trim                      THEN {} ELSE {"trim"}) \cup
    (IF rec.join = c.b                         THEN {} ELSE {"join"}) \cup
    (IF rec.normalize = o.normalize            THEN {} ELSE {"normalize"}) \cup
    (IF SameRes(rec.single, o.single)          THEN {} ELSE {"single"}) \cup
    (IF SameRes(rec.multi, o.multi)            THEN {} ELSE {"multi"}) \cup
    (IF SameRes(rec.withmeta, o.withmeta)      THEN {} ELSE {"withmeta"}) \cup
    (IF SameRes(rec.http, o.http)              THEN {} ELSE {"http"}) \cup
    (IF rec.validmeta = o.validmeta            THEN {} ELSE {"validmeta"}) \cup
    (IF rec.parsemeta = o.parsemeta /\ rec.metabad = o.metabad THEN {} ELSE {"parsemeta"}) \cup
    (IF o.withmeta.ok => rec.pairs = Pairs(o.withmeta.val.meta) THEN {} ELSE {"pairs"})

Agrees == IsCase =>
            LET rej == Rejected(Log[idx], org) IN
            \/ rej = {}
            \/ PrintT(ToJson([rejected |-> idx, fields |-> rej, in |-> org.b, has |-> org.has,
                              want |-> [f \in rej |-> IF f = "join" THEN org.b
                                                      ELSE IF f = "pairs" THEN Pairs(Outcome(org).withmeta.val.meta)
                                                      ELSE Outcome(org)[f]],
                              got  |-> [f \in rej |-> Log[idx][f]]]))

\* every record is visited (checked by the driver: distinct states = NLog + NChunks)
=============================================================================
