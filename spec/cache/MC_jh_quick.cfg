CONSTANTS N = 4
INIT Init
NEXT Next
INVARIANTS PickInList OrderInsensitive AppendStable MonotoneBuckets
CHECK_DEADLOCK FALSE
