CONSTANTS
  Ext <- ExtRegOnly
  N = 3
  MaxTok = 2
  MaxM = 3
  Z = 2
  MaxSize = 4
  MaxEvents = 2
  ZaModes = {TRUE, FALSE}
  FullMem = FALSE
  MaxRO0 = 1
INIT Init
NEXT Next
VIEW View
INVARIANTS TypeOK LookbackSuperset
CHECK_DEADLOCK FALSE
