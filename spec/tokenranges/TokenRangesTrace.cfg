CONSTANTS
  NK = 1
  Gaps = {}
  N = 1
  Z = 1
  MaxTok = 1
INIT TraceInit
NEXT TraceNext
INVARIANT LineOK
POSTCONDITION AllConsumed
CHECK_DEADLOCK FALSE
