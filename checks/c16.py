"""C16 - generated tokens are unique, untaken, sorted; spread-minimising generator: reproducible, disjoint, zone-congruent.

spec/tokengen/TokenGen.tla      the TokenGenerator contract (one clause = one named formula), the reserve of the spread-minimising
                                generator as a function of (instance index, zone index), AddPartition, and a growing cluster;
                                model-checked exhaustively on a space of 8..12 limb-pair tokens (MC_*.cfg).
spec/tokengen/TokenGenTrace.tla the same actions bound to what the real code did (harness/c16 records every real constructor /
                                GenerateTokens / CanJoin / reserve computation / AddPartition call, tokens as 16-bit limbs);
                                TLC validates every event against the clauses.
"""
import json
import os
import re

import verif

PROPERTY = "C16"
META = {
    "level_text": "TokenGen.tla states the TokenGenerator contract clause by clause (no taken token, strictly increasing output, at most / "
                  "exactly the requested count while free tokens exist, spread-minimising output = the first free tokens of the generator's "
                  "own 512-token reserve), the reserve as a function of (instance index, zone index) with the history invariants Reproducible, "
                  "ReservesDisjoint, ZoneCongruent (token mod 8 = zone index, on 16-bit limbs), PartitionTokens (AddPartition(p) = reserve of "
                  "(p, zone 0)), CanJoin / constructor verdicts, and a growing cluster whose members call GenerateTokens with the ring's tokens "
                  "as taken set. TLC checks all of it exhaustively on small token spaces (every reserve family, every taken set, every requested "
                  "count -1..R+1, joins / losses / leaves in every order: AllDistinct, NeverShort, prefix growth under CanJoin). The real code is "
                  "bound by record/validate: every real call of both generators (all exported entry points; random generator incl. taken sets "
                  "made of its own future draws and a call in which it re-draws its own candidate; spread-minimising for instance indexes "
                  "0..2000, zones 0..7, zone lists of 1..8 zones in unsorted order, both constructors, attributions by larger indexes through "
                  "generateTokensByInstanceID, dense taken sets inside the reserve, clusters that grow / lose / clone members, AddPartition "
                  "0..n) is logged and TLC accepts the trace only if every clause holds after every event. Also bound: REAL ring.Lifecycler "
                  "instances with the spread-minimising generator and the CanJoin check on, started in reverse index order on one in-memory "
                  "store under testing/synctest - every ring write in which an instance first appears with tokens is a Join of the cluster "
                  "machine (contract clauses, AllDistinct, SpreadOwnReserve, NeverShort, PrefixWhenGrowing); concurrent GenerateTokens calls "
                  "on one RandomTokenGenerator (each call's contract); and the relational shadow of the spread clause, NoDonorStarved: in the "
                  "sorted ring of all instances 0..n of a zone the donor of a token (owner of the next token clockwise that belongs to a "
                  "smaller index - order comparisons only) ranges over EVERY instance below n-w when the tokens of the last w instances are "
                  "considered (quick: n=200, w=50; thorough: also n=1300, w=100) - an instance that drops out of the generator's priority "
                  "queue is never a donor again and is flagged (seeded mutant C16-a2, thorough tier).",
    "level_note": "NOT decided by this technique: the numeric clause of C16 (each instance's share of the key space within one percent of the "
                  "others', for every number of instances). It needs exact sums of 2^32-scale distances over up to 2000x512 tokens and the "
                  "generator's float64 priorities; TLC has 32-bit integers and no floats. Only its relational consequence NoDonorStarved "
                  "is checked (windows of 50/100 instances, where the pinned code has >= 16 donations per instance): a change that degrades "
                  "the spread while every instance keeps donating is out of reach of this check. Relational clauses on the real code hold for the sampled indexes (quick: ~15 indexes per zone list plus "
                  "all 0..200 of one zone; thorough: all of 0..64 in every zone, ~60 more up to 2000, all 0..2000 of one zone), not for all "
                  "2001x8 generators. Trusted: TLC, uint32->limb split, the driver's own bookkeeping of the ring it passes as taken set, "
                  "slices.Sort on the per-instance lists of generateTokensByInstanceID (reached by go:linkname, no change to dskit).",
    "technique": "TLA+ specification (TokenGen.tla) model-checked by TLC; traces recorded from the real code validated by TLC (TokenGenTrace.tla)",
    "design_ref": "DESIGN.md 2 C16",
}

MC = {
    "quick": ["MC_quick_grow", "MC_quick_zones"],
    "thorough": ["MC_quick_zones", "MC_thorough_grow", "MC_thorough_zones", "MC_thorough_three"],
}
# development aid on a shared machine: VERIF_TLC_WORKERS=4 bin/check C16 (default: all cores)
WORKERS = int(os.environ.get("VERIF_TLC_WORKERS", "0")) or None
TSCALE = float(os.environ.get("VERIF_C16_TIMEOUT_SCALE", "1"))      # development aid: oversubscribed machine
COVERAGE_CFGS = ("MC_thorough_grow", "MC_quick_zones")                 # vacuity guard (thorough tier) on the two small configs
ACTIONS = ["PureCall", "Join", "Lose", "Leave", "Observe", "CanJoinObs", "AddPartition", "Family", "Construct"]


def _zero_actions(log):
    """actions with zero coverage in the LAST coverage dump of a TLC run (interim dumps list not-yet-taken actions)"""
    k = log.rfind("The coverage statistics at")
    if k < 0:
        return set(ACTIONS)
    return set(re.findall(r"^<(\w+) line [^>]*>: 0:0$", log[k:], re.M))


def _event_of(path, lineno):
    with open(path) as f:
        for n, line in enumerate(f, 1):
            if n == lineno:
                return json.loads(line)
    return None


def _shrink(v, lim=12):
    """events can hold thousands of tokens: keep the shape, cut the lists"""
    if isinstance(v, list):
        if len(v) > lim:
            return [_shrink(x, lim) for x in v[:lim]] + ["... %d more" % (len(v) - lim)]
        return [_shrink(x, lim) for x in v]
    if isinstance(v, dict):
        return {k: _shrink(x, lim) for k, x in v.items()}
    return v


def _sig(inv, e):
    """class of the failing input: event kind, generator kind, violated clause, boundary features of the arguments"""
    if e is None:
        return "trace %s" % inv
    ev = e.get("ev")
    if ev == "call":
        req = e.get("req", 0)
        rq = "req<0" if req < 0 else "req=0" if req == 0 else "req>512" if req > 512 else "req=512" if req == 512 else "req<512"
        where = "member" if e.get("member", -1) >= 0 else ("taken" if e.get("taken") else "notaken")
        if e.get("panic"):
            return "call:%s panic %s" % (e.get("_kind", "?"), rq)
        return "call:%s %s %s %s" % (e.get("_kind", "?"), inv, rq, where)
    if ev == "observe":
        return "observe:%s %s" % (e.get("via"), inv)
    if ev == "gen":
        return "gen:%s %s nz=%s zin=%s idok=%s" % (e.get("ctor"), inv, e.get("nz"), e.get("zin"), e.get("idok"))
    if ev == "canjoin":
        return "canjoin %s pp=%s pt=%s" % (inv, e.get("pp"), e.get("pt"))
    return "%s %s" % (ev, inv)


def _kind_of(path, h):
    with open(path) as f:
        for line in f:
            if '"ev":"gen"' in line:
                e = json.loads(line)
                if e.get("h") == h:
                    # handles are unique per file (the driver never re-uses one)
                    return e.get("kind")
    return "?"


def _record(ctx, tag):
    d = ctx.path("traces_%s" % tag, "x")
    d = os.path.dirname(d)
    res = ctx.run_harness("c16", "^TestRecord$", env={"VERIF_TRACE_DIR": d}, timeout=int(800 * TSCALE))
    if res.get("fatal"):
        raise verif.Inconclusive("driver: %s" % res["fatal"])
    files = (res.get("extra") or {}).get("trace_files") or []
    if not files:
        raise verif.Inconclusive("driver recorded no trace")
    return res, files


def _validate(ctx, files, workers, timeout, count=True):
    extra = {f: "trace_%d.ndjson" % (k + 1) for k, f in enumerate(files)}
    r = ctx.tlc("tokengen", "TokenGenTrace", cfg="TokenGenTrace.cfg", extra_files=extra, workers=workers,
                subst={"@@NTRACES@@": len(files)}, timeout=timeout, count=count,
                extra_args=["-maxSetSize", "4000000"],      # the family 0..2000 of one zone is a set of 2001*512 tokens
                heap="6g" if ctx.tier == "thorough" else None)
    return r


def _rejection(r, files):
    """(invariant, trace index, event) of a rejected trace, from TLC's counterexample"""
    tail = r.log[-400000:] if len(r.log) > 400000 else r.log
    # the violating state is the last one printed
    mi = re.findall(r"^/\\ i = (\d+)$", tail, re.M)
    mt = re.findall(r"^/\\ tr = (\d+)$", tail, re.M)
    if not mi or not mt:
        return r.violated, None, None, None
    i, tr = int(mi[-1]), int(mt[-1])
    path = files[tr - 1]
    e = _event_of(path, i - 1)       # the state after consuming line i-1
    if e is not None and "h" in e:
        e["_kind"] = _kind_of(path, e["h"])
    return r.violated, tr, i - 1, e


def run(ctx):
    ctx.rule = ("one case = one real call (constructor, GenerateTokens, CanJoin, reserve computation, AddPartition) logged and validated by "
                "TLC against TokenGen.tla; non-trivial = the taken set intersects the generator's reserve / forces rejections of its own "
                "candidates, the requested count is <= 0 or > 512 or exceeds the free tokens, a reserve is computed a second time by another "
                "constructor / a larger index / AddPartition, a CanJoin view with a decoy entry, a registration by a real lifecycler, a "
                "concurrent call, or a donors ring (counted by the driver)")
    ctx.assumptions = ["TLC; uint32 -> (hi, lo) 16-bit limbs; the driver's bookkeeping of the ring passed as taken set",
                       "zone lists without duplicates; instance ids with a decimal suffix that fits an int",
                       "numeric spread clause of C16 is not decided (see level_note)"]
    thorough = ctx.tier == "thorough"

    # 1. the property on the specification, exhaustively
    zero = set(ACTIONS)
    skip_mc = bool(os.environ.get("VERIF_C16_SKIP_MC"))      # development aid (mutation runs): trace validation only
    for cfg in ([] if skip_mc else MC[ctx.tier]):
        cov = thorough and cfg in COVERAGE_CFGS
        r = ctx.tlc("tokengen", "TokenGen", cfg=cfg + ".cfg", timeout=(800 if thorough else 600) * TSCALE,
                    coverage=cov, deadlock=False, workers=WORKERS)
        ctx.require_tlc_ok(r, cfg)
        if r.distinct == 0:
            raise verif.Inconclusive("%s explored nothing" % cfg)
        if cov:
            zero &= _zero_actions(r.log)
    if not skip_mc:
        # the random generator's algorithm (rejection sampling + sort) in a dense 6-token space: contract on return, termination
        cfg = "MC_algo_thorough" if thorough else "MC_algo_quick"
        r = ctx.tlc("tokengen", "RandomGenAlgo", cfg=cfg + ".cfg", timeout=600 * TSCALE, workers=WORKERS)
        ctx.require_tlc_ok(r, cfg)
    if thorough and zero and not skip_mc:
        raise verif.Inconclusive("actions never taken in any exhaustive config (vacuity): %s" % sorted(zero))
    ctx.exhaustive = not skip_mc
    if skip_mc:
        ctx.extra["skipped_model_checking"] = True

    # 2. record what the real code does, 3. validate it against the specification
    res, files = _record(ctx, "a")
    nworkers = min(len(files), WORKERS or 6)
    r = _validate(ctx, files, nworkers, (800 if thorough else 600) * TSCALE)
    if r.timed_out or r.error:
        ctx.require_tlc_ok(r, "trace validation")
    if r.violated:
        inv, tr, line, e = _rejection(r, files)
        if inv == "Deadlock" or e is None:
            raise verif.Inconclusive("trace could not be bound to the specification (%s at trace %s line %s): %s" % (
                inv, tr, line, json.dumps(_shrink(e))[:600]))
        # triage: record again with the same seed; only a rejection that repeats is a violation
        res2, files2 = _record(ctx, "b")
        if len(files2) != len(files):
            raise verif.Inconclusive("re-recording produced %d traces instead of %d" % (len(files2), len(files)))
        r2 = _validate(ctx, [files2[tr - 1]], 1, (800 if thorough else 600) * TSCALE, count=False)
        if r2.timed_out or r2.error:
            ctx.require_tlc_ok(r2, "trace re-validation")
        if not r2.violated:
            raise verif.Inconclusive("rejection of %s (%s) did not repeat on re-recording" % (os.path.basename(files[tr - 1]), inv))
        inv2, _tr2, line2, e2 = _rejection(r2, [files2[tr - 1]])
        if e2 is None or inv2 == "Deadlock":
            raise verif.Inconclusive("re-recorded trace could not be bound (%s)" % inv2)
        ctx.disagreement({
            "sig": _sig(inv2, e2),
            "case": {"trace": os.path.basename(files2[tr - 1]), "line": line2, "event": _shrink(e2),
                     "first_run": {"invariant": inv, "line": line, "sig": _sig(inv, e)}},
            "got": "the real code's result logged in this event",
            "want": "TokenGen.tla clause %s (spec/tokengen/TokenGen.tla, C_%s)" % (inv2, inv2[2:]),
        }, "trace")
    else:
        ctx.require_tlc_ok(r, "trace validation")
        nlines = sum(1 for f in files for _ in open(f))
        if r.distinct != nlines + len(files):
            raise verif.Inconclusive("TLC consumed %d states for %d events in %d traces" % (r.distinct, nlines, len(files)))
    # every logged call was validated (or the run already has a violation)
    ctx.traces += int(res.get("cases", 0))
    ctx.evaluations += int(res.get("cases", 0))
    ctx.nontrivial += int(res.get("nontrivial", 0))
    for s in (res.get("samples") or [])[:3]:
        ctx.samples.append(_shrink(s, 6))
    ctx.extra["trace_events"] = sum(1 for f in files for _ in open(f))
    ctx.extra["trace_segments"] = [os.path.basename(f) for f in files]
    return "model_checking"
