\* t_change: ChangeInstance steps next to Add/Remove: 3 instances x <=2 tokens on 4 positions, zones 0..1, ACTIVE/JOINING; every step replayed into a long-lived ring client
\* (generated from UNIVERSES in checks/ringlookup_common.py: python3 checks/ringlookup_common.py --write-cfgs)
CONSTANTS
  NK = 5
  Gaps = {2}
  N = 3
  MaxTok = 2
  MaxIdle = 1
  Z = 1
  StateSet = {"ACTIVE", "JOINING"}
  HbSet = {"edge"}
  RFMax = 3
  Canon = 1
  WithRemove = TRUE
  WithChange = TRUE
  EmitSteps = TRUE
  Excl = {}
  EmitOn = TRUE
  EmitSets = FALSE
  XMax = 0
INIT Init
NEXT Next
VIEW View
INVARIANTS TypeOK SizeOK ZoneOK ClockwiseFirst SlackExact WalkDefsAgree QuorumIntersection ExpandedOK Emit
PROPERTIES MinimalDisruption OneInstanceSteps
ACTION_CONSTRAINT EmitStep
CHECK_DEADLOCK FALSE
