\* C03 replay, thorough, partition ring: THREE partitions
CONSTANTS
  NP = 3
  NO = 0
  NOwned = 1
  TsSet = {1, 2}
  PStates = {"Active"}
  LockTs = {0}
  NowSet = {3}
INIT Init
NEXT Next
INVARIANTS CaseProps Emit
CHECK_DEADLOCK FALSE
