CONSTANTS
  WithDone = TRUE
  TrackerBug = "none"
  Shapes <- ShapesDoneQuick
SPECIFICATION Spec
PROPERTIES Termination
CHECK_DEADLOCK FALSE
