----------------------------- MODULE ShuffleShard -----------------------------
(***************************************************************************)
(* C12, specification (a), white box: the shuffle-shard *walk* of          *)
(* ring.Ring.shuffleShard / ring.PartitionRing.shuffleShard with the       *)
(* pseudo-random start positions as an explicit INPUT.  The code draws,    *)
(* per zone, r_1, r_2, ... from math/rand seeded with md5(identifier,zone) *)
(* and starts the k-th walk at searchToken(zoneTokens, r_k); which numbers *)
(* come out of the generator is irrelevant to every clause of the          *)
(* property, so the specification quantifies over all of them.             *)
(*                                                                         *)
(* Abstract token circle.  Positions 1..M in cyclic order; own[p] is the   *)
(* instance owning the token at position p.  `own` describes a *universe*  *)
(* of instances; a ring content is the universe restricted to the          *)
(* registered set `mem` (so that a ring and the ring with one instance     *)
(* added/removed share their positions).  A start value s \in 1..M stands  *)
(* for "the random number falls between the token at position s-1         *)
(* (inclusive) and the token at position s (exclusive)": the first token   *)
(* strictly greater than the number is the first *registered* token met    *)
(* from position s on, clockwise.  Positions not occupied by any universe  *)
(* token would be indistinguishable from the previous position and are     *)
(* not modelled.                                                           *)
(*                                                                         *)
(* Ring content C (a record):                                              *)
(*   M, own \in [1..M -> Inst], zone \in [Inst -> 1..Z], mem \subseteq Inst*)
(*   ro[i] read-only flag, reg[i] registration time, rots[i] time of the   *)
(*   last read-only change (0 = never), za zone-awareness,                 *)
(*   starts \in [zone -> Seq(1..M)]  (za = FALSE uses starts[1] only)      *)
(* Time is in seconds; a look-back query is (L, now), L = 0 is the plain   *)
(* shard.                                                                  *)
(***************************************************************************)
EXTENDS ShardProps, Sequences

(* shouldIncludeReadonlyInstanceInTheShard *)
Inc(C, i, L, now) == \/ ~C.ro[i]
                     \/ L > 0 /\ ~(C.rots[i] > 0 /\ C.rots[i] < now - L)

(* "include it and keep walking": registered, or is / has switched          *)
(* read-only, inside the window                                            *)
Ext(C, i, L, now) == L > 0 /\ (C.reg[i] >= now - L \/ C.ro[i] \/ C.rots[i] >= now - L)

StartOf(C, z, k) == IF k <= Len(C.starts[z]) THEN C.starts[z][k] ELSE 1

(* One walk: from position s clockwise over the tokens of the instances in *)
(* Zi (the zone's registered instances), at most one lap.  An instance      *)
(* already in the shard or not includable is passed; an includable one is  *)
(* added and ends the walk unless it extends the shard.                    *)
RECURSIVE Walk(_, _, _, _, _, _, _)
Walk(C, Zi, s, d, sh, L, now) ==
    IF d = C.M THEN [sh |-> sh, found |-> FALSE]
    ELSE LET p == ((s - 1 + d) % C.M) + 1
             i == C.own[p]
         IN IF i \notin Zi \/ i \in sh \/ ~Inc(C, i, L, now)
            THEN Walk(C, Zi, s, d + 1, sh, L, now)
            ELSE IF Ext(C, i, L, now)
                 THEN Walk(C, Zi, s, d + 1, sh \cup {i}, L, now)
                 ELSE [sh |-> sh \cup {i}, found |-> TRUE]

(* for k = 1..q: one walk per draw; the zone is finished when a walk finds *)
(* nobody                                                                  *)
RECURSIVE Picks(_, _, _, _, _, _, _, _)
Picks(C, Zi, z, q, k, sh, L, now) ==
    IF k > q THEN sh
    ELSE LET r == Walk(C, Zi, StartOf(C, z, k), 0, sh, L, now)
         IN IF r.found THEN Picks(C, Zi, z, q, k + 1, r.sh, L, now) ELSE r.sh

OldestReg(C) == IF \E i \in C.mem : C.reg[i] = 0 THEN 0
                ELSE IF C.mem = {} THEN 0
                ELSE CHOOSE t \in {C.reg[i] : i \in C.mem} : \A i \in C.mem : t <= C.reg[i]

RECURSIVE OverZones(_, _, _, _, _, _)
OverZones(C, zs, q, sh, L, now) ==
    IF zs = {} THEN sh
    ELSE LET z  == CHOOSE y \in zs : \A w \in zs : y <= w
             Zi == InZone(C, z)
             part == IF q >= Cardinality(Zi)
                     THEN {i \in Zi : Inc(C, i, L, now)}            \* "take all of the zone" fast path
                     ELSE Picks(C, Zi, z, q, 1, sh, L, now) \ sh
         IN OverZones(C, zs \ {z}, q, sh \cup part, L, now)

Shard(C, size, L, now) ==
    IF size <= 0 THEN {i \in C.mem : Inc(C, i, L, now)}              \* filterOutReadOnlyInstances
    ELSE IF L > 0 /\ OldestReg(C) > 0 /\ OldestReg(C) >= now - L THEN C.mem
    ELSE IF C.za THEN OverZones(C, Zones(C), PerZone(C, TRUE, size), {}, L, now)
    ELSE Picks(C, C.mem, 1, size, 1, {}, L, now)

(***************************************************************************)
(* Partition ring.  One circle, no zones.  Content P:                      *)
(*   M, own \in [1..M -> Part], mem, st[p] \in {"pending","active",        *)
(*   "inactive"}, sts[p] time of the last state change, starts \in Seq.    *)
(* The walk keeps a set of excluded partitions (pending ones, and inactive *)
(* ones whose state change lies before the window); a partition whose      *)
(* state changed inside the window is included and asks for one more.      *)
(***************************************************************************)
PWithin(P, p, L, now) == L > 0 /\ P.sts[p] >= now - L

RECURSIVE PWalk(_, _, _, _, _, _, _, _)
PWalk(P, s, d, res, exc, sz, L, now) ==
    IF d = P.M THEN [res |-> res, exc |-> exc, sz |-> sz, found |-> FALSE]
    ELSE LET p == P.own[((s - 1 + d) % P.M) + 1]
         IN IF p \notin P.mem \/ p \in res \/ p \in exc
            THEN PWalk(P, s, d + 1, res, exc, sz, L, now)
            ELSE IF P.st[p] = "pending"
            THEN PWalk(P, s, d + 1, res, exc \cup {p}, sz, L, now)
            ELSE LET within  == PWithin(P, p, L, now)
                     include == P.st[p] = "active" \/ within
                 IN IF include /\ ~within
                    THEN [res |-> res \cup {p}, exc |-> exc, sz |-> sz, found |-> TRUE]
                    ELSE PWalk(P, s, d + 1,
                               IF include THEN res \cup {p} ELSE res,
                               IF include THEN exc ELSE exc \cup {p},
                               IF within THEN sz + 1 ELSE sz, L, now)

PStartOf(P, k) == IF k <= Len(P.starts) THEN P.starts[k] ELSE 1

RECURSIVE PPicks(_, _, _, _, _, _, _)
PPicks(P, k, res, exc, sz, L, now) ==
    IF Cardinality(res) >= sz THEN res
    ELSE LET r == PWalk(P, PStartOf(P, k), 0, res, exc, sz, L, now)
         IN IF r.found THEN PPicks(P, k + 1, r.res, r.exc, r.sz, L, now) ELSE r.res

PShard(P, size, L, now) ==
    LET n  == Cardinality(P.mem)
        sz == IF size <= 0 \/ size >= n THEN n ELSE size
    IN PPicks(P, 1, {}, {}, sz, L, now)
=============================================================================
