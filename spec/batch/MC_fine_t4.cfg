CONSTANTS
  MinKeys = 1
  MaxKeys = 2
  NI = 4
  MaxRF = 3
  Shape = "quorum"
  Grain = "atomic"
  Gate = FALSE
  EmptyFix = TRUE
  AllowCancel = TRUE
  EarlyExits = FALSE
  MaxConc = 3
  Spawn = "go"
  Record = FALSE
SPECIFICATION Spec
INVARIANTS TypeOK SingleSend ReturnsOnce SuccessMeansQuorum ErrorMeansNoQuorum ErrorIsReal ChannelErrorIsReal
           EarlyError LastAnswerError DecidedIsDelivered SuccessDelivered NoHang CalledExactly CleanupOnceAfterAll
CHECK_DEADLOCK TRUE
