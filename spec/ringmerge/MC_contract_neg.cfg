\* Expected to be VIOLATED (negative control): "stamped at or before the limit" is not RemoveTombstones
CONSTANTS
  N = 1
  M = 2
  Shared = TRUE
  TsSet = {1, 2}
  LiveSt = {"ACTIVE"}
  Lim2Set = {0, 1, 2, 3, 4, 5}
  NowSet = {3}
INIT Init
NEXT Next
INVARIANTS GCWrongIsGC
CHECK_DEADLOCK FALSE
