CONSTANTS
  MinKeys = 1
  MaxKeys = 1
  NI = 2
  MaxRF = 2
  Shape = "degenerate"
  Grain = "atomic"
  Gate = FALSE
  EmptyFix = TRUE
  AllowCancel = TRUE
  EarlyExits = FALSE
  MaxConc = 3
  Spawn = "go"
  Record = FALSE
SPECIFICATION Spec
INVARIANTS TypeOK SingleSend ReturnsOnce CalledExactly CleanupOnceAfterAll NoHang
CHECK_DEADLOCK TRUE
