package c17

// FailureWatcher (spec/services/FailureWatcher.tla): each failed service is reported exactly once to a
// reader; Close returns once the pending reports are received and then closes the channel. The second
// probe replays the witness of MC_fw_noreader.cfg: without a reader Close blocks (an observation that
// is reported in the evidence, not a disagreement with C17).

import (
	"context"
	"fmt"
	"strings"
	"testing"
	"testing/synctest"

	"verifharness/internal/abs"

	"github.com/grafana/dskit/services"
)

func failureWatcherProbe(t *testing.T, res *abs.Result) {
	synctest.Test(t, func(t *testing.T) {
		w := services.NewFailureWatcher()
		var svcs []*services.BasicService
		for i := 0; i < 3; i++ {
			fail := i < 2
			s := services.NewBasicService(nil, func(ctx context.Context) error {
				if fail {
					return errRun
				}
				<-ctx.Done()
				return nil
			}, nil).WithName(fmt.Sprintf("svc-%d", i))
			svcs = append(svcs, s)
			w.WatchService(s)
		}
		for _, s := range svcs {
			_ = s.StartAsync(context.Background())
		}
		synctest.Wait()
		// no reader yet: Close must not have anything to close over; start it and look
		closed := false
		go func() { w.Close(); closed = true }()
		synctest.Wait()
		res.AddExtra("failurewatcher_close_blocks_without_reader", !closed)
		seen := map[string]int{}
		for k := 0; k < 2; k++ {
			select {
			case e, ok := <-w.Chan():
				if !ok {
					res.Mismatch(abs.Mismatch{Sig: "failurewatcher:channel-closed-before-reports", Case: "2 failed services, Close pending", Got: seen, Want: "2 reports"})
					k = 2
					break
				}
				for i := range svcs {
					if strings.Contains(e.Error(), fmt.Sprintf("svc-%d", i)) {
						seen[fmt.Sprintf("svc-%d", i)]++
					}
				}
			default:
				res.Mismatch(abs.Mismatch{Sig: "failurewatcher:failure-not-reported", Case: "2 failed services", Got: seen, Want: "2 reports"})
			}
			synctest.Wait()
		}
		synctest.Wait()
		if seen["svc-0"] != 1 || seen["svc-1"] != 1 || seen["svc-2"] != 0 {
			res.Mismatch(abs.Mismatch{Sig: "failurewatcher:failure-not-reported-exactly-once", Case: "services 0 and 1 fail, 2 runs", Got: seen, Want: "svc-0:1 svc-1:1"})
		}
		if !closed {
			res.Mismatch(abs.Mismatch{Sig: "failurewatcher:Close-blocked-with-reader", Case: "all reports received", Got: "Close still blocked", Want: "Close returns"})
		} else if _, ok := <-w.Chan(); ok {
			res.Mismatch(abs.Mismatch{Sig: "failurewatcher:channel-open-after-Close", Case: "Close returned", Got: "value received", Want: "closed channel"})
		}
		svcs[2].StopAsync()
		synctest.Wait()
		res.Cases++
		res.Nontrivial++
	})
}
