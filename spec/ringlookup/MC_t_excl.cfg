\* t_excl: ring.Config.ExcludedZones = {zone 1, zone 3}: 3 single-token instances on 4 positions, zones 0..3, ACTIVE/JOINING x {edge,stale}
\* (generated from UNIVERSES in checks/ringlookup_common.py: python3 checks/ringlookup_common.py --write-cfgs)
CONSTANTS
  NK = 5
  Gaps = {2}
  N = 3
  MaxTok = 1
  MaxIdle = 1
  Z = 3
  StateSet = {"ACTIVE", "JOINING"}
  HbSet = {"edge", "stale"}
  RFMax = 5
  Canon = 2
  WithRemove = FALSE
  Excl = {1, 3}
  EmitOn = TRUE
  EmitSets = TRUE
  XMax = 0
INIT Init
NEXT Next
VIEW View
INVARIANTS TypeOK SizeOK ZoneOK ClockwiseFirst SlackExact WalkDefsAgree QuorumIntersection ExpandedOK Emit
PROPERTIES MinimalDisruption
CHECK_DEADLOCK FALSE
