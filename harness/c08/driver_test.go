package c08

import (
	"context"
	"fmt"
	"math/rand"
	"os"
	"sort"
	"strconv"
	"testing/synctest"
	"time"

	"github.com/go-kit/log"
	"github.com/grafana/dskit/ring"
	"github.com/grafana/dskit/services"
)

// lcCfg mirrors the cfg record of spec/lifecycler/Lifecycler.tla.
type lcCfg struct {
	Kind   string `json:"kind"` // classic | basic
	Join   int    `json:"join"`
	Obs    int    `json:"obs"`
	Hb     int    `json:"hb"`
	Unreg  bool   `json:"unreg"`
	File   bool   `json:"file"`
	Health bool   `json:"health"`
	Fsleep int    `json:"fsleep"`
	Regst  string `json:"regst"`
	Forget int    `json:"forget"`
	Keep   bool   `json:"keep"`
}

type incarnation struct {
	id      int
	cfg     lcCfg
	rec     *recorder
	classic *ring.Lifecycler
	basic   *ring.BasicLifecycler
	svc     services.Service
	over    bool // termination already logged
	crashed bool
}

// scripted token generator: picks from the world's small universe, never a taken token; the choice
// is seeded per incarnation.  What it returned is visible in the logged ring versions.
type tokGen struct {
	w   *world
	id  int
	rnd *rand.Rand
}

func (g *tokGen) GenerateTokens(n int, taken []uint32) ring.Tokens {
	if n <= 0 {
		return ring.Tokens{}
	}
	used := map[uint32]bool{}
	for _, t := range taken {
		used[t] = true
	}
	// a real generator never clashes with the instance's own tokens file either (32-bit randomness)
	if ft, err := ring.LoadTokensFromFile(g.w.filePath(g.id)); err == nil {
		for _, t := range ft {
			used[t] = true
		}
	}
	var free []uint32
	for _, v := range g.w.univ {
		if !used[v] {
			free = append(free, v)
		}
	}
	if !g.w.lowestGen {
		g.rnd.Shuffle(len(free), func(a, b int) { free[a], free[b] = free[b], free[a] })
	}
	if n > len(free) {
		n = len(free)
	}
	out := append(ring.Tokens{}, free[:n]...)
	sort.Sort(out)
	return out
}
func (g *tokGen) CanJoin(map[string]ring.InstanceDesc) error { return nil }
func (g *tokGen) CanJoinEnabled() bool                       { return false }

func stateOf(s string) ring.InstanceState {
	switch s {
	case "PENDING":
		return ring.PENDING
	case "JOINING":
		return ring.JOINING
	case "LEAVING":
		return ring.LEAVING
	}
	return ring.ACTIVE
}

func sec(n int) time.Duration { return time.Duration(n) * time.Second }

// step: every driver action happens at its own millisecond, so no two timers of different
// lifecyclers ever fire at the same instant (their order is then fixed by the bubble clock).
func (w *world) step() {
	w.steps++
	time.Sleep(time.Millisecond)
}

func (w *world) settle() {
	w.quiesce()
	w.observe()
}

// quiesce waits until every goroutine of the bubble is blocked.  A recorder parked after a lost CAS attempt
// is dealt with here: the interloper (another writer) acts, then the parked call is retried.
func (w *world) quiesce() {
	synctest.Wait()
	for {
		w.mu.Lock()
		p := w.parked
		w.mu.Unlock()
		if p == nil || w.inInterloper {
			return
		}
		w.inInterloper = true
		if w.interloper != nil {
			w.interloper(w)
		}
		w.inInterloper = false
		w.step()
		w.log(ev{"k": "unstall", "i": p.id, "now": w.now()})
		w.mu.Lock()
		w.parked = nil
		w.mu.Unlock()
		close(p.resume)
		synctest.Wait()
	}
}

// observe logs terminations and getter samples at a quiescent point.
func (w *world) observe() {
	for i := 1; i <= w.n; i++ {
		c := w.inc[i]
		if c == nil || c.over || c.rec.stalled {
			continue // (a lifecycler in the middle of a retried store call has no settled state to sample)
		}
		if c.rec.dead && !c.crashed {
			// died at an injected crash point: log it, then tear the corpse down without letting it
			// touch the tokens file (a dead process writes nothing)
			c.crashed = true
			toks, fst := w.fileToks(i)
			w.log(ev{"k": "crash", "i": i, "now": w.now(), "file": toks, "fstate": fst, "at": c.rec.died})
			w.blockFile = true
			c.svc.StopAsync()
			synctest.Wait()
			_ = c.svc.AwaitTerminated(context.Background())
			w.blockFile = false
			c.over = true
			continue
		}
		st := c.svc.State()
		if st == services.Terminated || st == services.Failed {
			c.over = true
			w.log(ev{"k": "term", "i": i, "now": w.now(), "failed": st == services.Failed})
			continue
		}
		if st != services.Running && st != services.Starting && st != services.Stopping {
			continue
		}
		s := ev{"k": "sample", "i": i, "now": w.now()}
		if c.classic != nil {
			s["st"] = c.classic.GetState().String()
			ro, _ := c.classic.GetReadOnlyState()
			s["ro"] = ro
		} else if c.basic.IsRegistered() {
			s["st"] = c.basic.GetState().String()
			s["toks"] = w.ranks(c.basic.GetTokens())
			s["reg"] = w.sec(timeUnix(c.basic.GetRegisteredAt()))
			ro, _ := c.basic.GetReadOnlyState()
			s["ro"] = ro
		} else {
			continue
		}
		w.log(s)
	}
}

func timeUnix(t time.Time) int64 {
	if t.IsZero() {
		return 0
	}
	return t.Unix()
}

// start creates and starts a new incarnation of identity i.
func (w *world) start(i int, c lcCfg, seed int64, crashAt int, side string) error {
	w.step()
	rec := &recorder{w: w, id: i, crashAt: crashAt, side: side, rejFrom: w.rejNext[0], rejLen: w.rejNext[1]}
	w.rejNext = [2]int{}
	rec.confAt, w.confNext = w.confNext, 0
	if prev := w.inc[i]; prev != nil {
		rec.reject = prev.rec.reject // the store's attitude towards this identity outlives the process
	}
	inc := &incarnation{id: i, cfg: c, rec: rec}
	gen := &tokGen{w: w, id: i, rnd: rand.New(rand.NewSource(seed))}
	path := ""
	if c.File {
		path = w.filePath(i)
	}
	if c.Kind == "classic" {
		var lc ring.LifecyclerConfig
		lc.RingConfig.KVStore.Mock = rec
		lc.RingConfig.HeartbeatTimeout = sec(w.hbTimeout)
		lc.RingConfig.ReplicationFactor = 1
		lc.NumTokens = w.numTokens
		lc.HeartbeatPeriod = sec(c.Hb)
		lc.HeartbeatTimeout = sec(w.hbTimeout)
		lc.JoinAfter = sec(c.Join)
		lc.ObservePeriod = sec(c.Obs)
		lc.MinReadyDuration = 0
		lc.FinalSleep = sec(c.Fsleep)
		lc.TokensFilePath = path
		lc.Zone = "z"
		lc.UnregisterOnShutdown = c.Unreg
		lc.ReadinessCheckRingHealth = c.Health
		lc.Addr = fmt.Sprintf("10.0.0.%d", i)
		lc.Port = 1
		lc.ID = instID(i)
		lc.RingTokenGenerator = gen
		l, err := ring.NewLifecycler(lc, nil, "verif", ringKey, false, log.NewNopLogger(), nil)
		if err != nil {
			return err
		}
		inc.classic, inc.svc = l, l
	} else {
		bc := ring.BasicLifecyclerConfig{
			ID: instID(i), Addr: addrOf(i), Zone: "z",
			HeartbeatPeriod: sec(c.Hb), HeartbeatTimeout: sec(w.hbTimeout), TokensObservePeriod: sec(c.Obs),
			NumTokens: w.numTokens, KeepInstanceInTheRingOnShutdown: c.Keep, RingTokenGenerator: gen,
		}
		var d ring.BasicLifecyclerDelegate = ring.NewInstanceRegisterDelegate(stateOf(c.Regst), w.numTokens)
		if c.Forget > 0 {
			d = ring.NewAutoForgetDelegate(sec(c.Forget), d, log.NewNopLogger())
		}
		d = ring.NewTokensPersistencyDelegate(path, ring.ACTIVE, d, log.NewNopLogger())
		d = ring.NewLeaveOnStoppingDelegate(d, log.NewNopLogger())
		l, err := ring.NewBasicLifecycler(bc, "verif", ringKey, rec, d, log.NewNopLogger(), nil)
		if err != nil {
			return err
		}
		inc.basic, inc.svc = l, l
	}
	w.inc[i] = inc
	w.log(ev{"k": "start", "i": i, "now": w.now(), "cfg": c})
	if err := inc.svc.StartAsync(context.Background()); err != nil {
		return err
	}
	w.settle()
	return nil
}

func (w *world) running(i int) bool {
	c := w.inc[i]
	return c != nil && !c.over && !c.rec.dead && c.svc.State() == services.Running
}

func (w *world) alive(i int) bool {
	c := w.inc[i]
	return c != nil && !c.over && !c.rec.dead
}

// request performs an external call on a Running lifecycler: cs <STATE> | ro true|false | claim <j>.
func (w *world) request(i int, op, arg string) {
	c := w.inc[i]
	w.step()
	w.log(ev{"k": "req", "i": i, "now": w.now(), "op": op, "arg": arg})
	ctx := context.Background()
	// the call runs on its own goroutine: its store operation may be parked (lost CAS attempt) until the
	// driver has let the interloper act
	done := make(chan error, 1)
	go func() {
		var err error
		switch op {
		case "cs":
			if c.classic != nil {
				err = c.classic.ChangeState(ctx, stateOf(arg))
			} else {
				err = c.basic.ChangeState(ctx, stateOf(arg))
			}
		case "ro":
			if c.classic != nil {
				err = c.classic.ChangeReadOnlyState(ctx, arg == "true")
			} else {
				err = c.basic.ChangeReadOnlyState(ctx, arg == "true")
			}
		case "claim":
			j, _ := strconv.Atoi(arg)
			err = c.classic.ClaimTokensFor(ctx, instID(j))
		}
		done <- err
	}()
	w.quiesce()
	err := <-done
	res := "ok"
	if err != nil {
		res = "err"
	}
	if !c.rec.dead { // what a process that died inside the call returns is nobody's business
		w.log(ev{"k": "ret", "i": i, "now": w.now(), "res": res})
	}
	w.observe()
}

func (w *world) checkReady(i int) {
	c := w.inc[i]
	w.step()
	err := c.classic.CheckReady(context.Background())
	w.log(ev{"k": "ready", "i": i, "now": w.now(), "res": err == nil})
	w.settle()
}

func (w *world) stop(i int) {
	c := w.inc[i]
	w.step()
	w.log(ev{"k": "stop", "i": i, "now": w.now()})
	c.svc.StopAsync()
	w.settle()
}

// sleep advances the virtual clock second by second; the tick is logged BEFORE sleeping: every
// timer that fires during the second fires at a smaller millisecond offset than the driver's.
func (w *world) sleep(seconds int) {
	for s := 0; s < seconds; s++ {
		w.log(ev{"k": "tick", "now": w.now() + 1})
		time.Sleep(time.Second)
		w.settle()
	}
}

func (w *world) wipe() {
	w.step()
	w.mu.Lock()
	_ = w.inner.Delete(context.Background(), ringKey)
	w.mu.Unlock()
	w.log(ev{"k": "wipe", "now": w.now()})
	w.settle()
}

func (w *world) setKV(i int, ok bool) {
	w.step()
	w.inc[i].rec.reject = !ok
	w.log(ev{"k": "kv", "i": i, "now": w.now(), "ok": ok})
	w.settle()
}

// seedFile writes a tokens file for i before it starts (ranks into the universe).
func (w *world) seedFile(i int, ranks []int) error {
	var t ring.Tokens
	for _, r := range ranks {
		t = append(t, w.univ[r])
	}
	if err := t.StoreToFile(w.filePath(i)); err != nil {
		return err
	}
	w.log(ev{"k": "file", "i": i, "now": w.now(), "toks": ranks})
	return nil
}

// finish stops whatever still runs (not part of the trace's obligations) and closes the store.
func (w *world) finish(final string) {
	w.log(ev{"k": final, "now": w.now()})
	n := len(w.events)
	for i := 1; i <= w.n; i++ {
		if c := w.inc[i]; c != nil && !c.over {
			c.rec.dead = true // silent teardown
			w.blockFile = true
			c.svc.StopAsync()
			synctest.Wait()
			_ = c.svc.AwaitTerminated(context.Background())
		}
	}
	w.blockFile = false
	w.events = w.events[:n]
	w.close()
	_ = os.RemoveAll(w.dir)
}
