------------------------ MODULE PartitionMergeTrace ------------------------
(***************************************************************************)
(* C03 binding, code -> spec, partition ring: validates a log of real      *)
(* PartitionRingDesc.Merge calls (harness/c03 recordPart) against          *)
(* PartitionMerge!Merge; same acceptance rule as RingMergeTrace.           *)
(***************************************************************************)
EXTENDS PartitionMerge, Json

CONSTANTS NRep

Trace == ndJsonDeserialize("trace.ndjson")

VARIABLES idx, st, bad
vars == <<idx, st, bad>>

ToP(j) == [state |-> j.state, sts |-> j.sts, locked |-> j.locked, lts |-> j.lts]
ToO(j) == [state |-> j.state, ts |-> j.ts, part |-> j.part]
ToDesc(j) == [parts |-> [p \in Part |-> ToP(j.parts[p])], owners |-> [o \in Own |-> ToO(j.owners[o])]]

Init == /\ idx = 1
        /\ st = [r \in 1..NRep |-> Empty]
        /\ bad = 0

MergeEvent(e) ==
    LET m  == Merge(st[e.r], ToDesc(e.other), e.cas, e.now)
        ok == /\ ToDesc(e.mine) = st[e.r]
              /\ m.result = ToDesc(e.result)
              /\ m.change.nil = e.nil
              /\ m.change.d = ToDesc(e.change)
    IN  IF ok
        THEN /\ st' = [st EXCEPT ![e.r] = m.result]
             /\ idx' = idx + 1
             /\ bad' = 0
        ELSE /\ PrintT(ToJson([rejected |-> idx, r |-> e.r, want_pre |-> st[e.r],
                               want_result |-> m.result, want_nil |-> m.change.nil, want_change |-> m.change.d,
                               cas |-> e.cas]))
             /\ bad' = idx
             /\ UNCHANGED <<idx, st>>

Next == /\ bad = 0
        /\ idx <= Len(Trace)
        /\ MergeEvent(Trace[idx])
Spec == Init /\ [][Next]_vars

Accepted == bad = 0
Complete == TLCGet("stats").diameter = Len(Trace) + 1
=============================================================================
