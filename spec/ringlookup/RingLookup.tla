------------------------------ MODULE RingLookup ------------------------------
(***************************************************************************)
(* C01 / C02 - what a key lookup on the hash ring returns, what the        *)
(* ring-wide replication set for an operation is, when the quorum          *)
(* executors report success, and the theorems relating them.               *)
(*                                                                         *)
(* Everything here is a pure operator over a ring descriptor               *)
(*                                                                         *)
(*    d \in [I -> [zone : Nat, state : States, hb : Heartbeats,            *)
(*                 toks : SUBSET (0..M-1)]]        (I = registered ids)    *)
(*                                                                         *)
(* with pairwise disjoint token sets, zone 0 = "no zone", M = size of the  *)
(* abstract token circle (RingTypes).  The definitions are written from    *)
(* the statement of the property, not from the implementation's loop: no   *)
(* token index, no iteration counter, no per-zone bookkeeping.             *)
(*                                                                         *)
(* RingLookupMC.tla explores the bounded universe of descriptors through   *)
(* AddInstance / RemoveInstance steps, checks the theorems below in every  *)
(* state / on every step and emits the expected results for the replay     *)
(* into the real code; RingLookupTrace.tla checks results recorded from    *)
(* the real code on larger rings against the same operators.               *)
(***************************************************************************)
EXTENDS RingTypes, Sequences, TLC

Members(d)   == DOMAIN d
Owners(d)    == {i \in DOMAIN d : d[i].toks # {}}
AllTokens(d) == UNION {d[i].toks : i \in DOMAIN d}
WellFormed(d) == \A i, j \in DOMAIN d : i # j => d[i].toks \cap d[j].toks = {}
OwnerOf(d, t) == CHOOSE i \in DOMAIN d : t \in d[i].toks

(***************************************************************************)
(* The walk.  "Walking the token circle clockwise from the first token     *)
(* strictly greater than the key" visits the instances in the order of the *)
(* clockwise distance from the key to their nearest token.                 *)
(***************************************************************************)
Successor(M, d, k) == LET T == AllTokens(d)
                      IN CHOOSE t \in T : \A u \in T : Clockwise(M, k, t) <= Clockwise(M, k, u)

Reach(M, d, k) == [i \in Owners(d) |-> SetMin({Clockwise(M, k, t) : t \in d[i].toks})]

\* (TLCEval is the identity; it only tells TLC to evaluate a function once instead of lazily)
WalkOrder(M, d, k) ==
    LET O    == Owners(d)
        r    == TLCEval(Reach(M, d, k))
        rank == TLCEval([i \in O |-> Cardinality({j \in O : r[j] < r[i]})])   \* token sets are disjoint: ranks are distinct
    IN [n \in 1..Cardinality(O) |-> CHOOSE i \in O : rank[i] = n - 1]

(***************************************************************************)
(* The walked replica set: the first rf instances of the walk that do not  *)
(* extend the set - with zone-awareness at most one of them per zone, an   *)
(* instance of a zone that already has one being passed over - plus every  *)
(* extending instance met on the way (each one asks for one further        *)
(* instance; it does not use up its zone).  Instances without a zone       *)
(* (zone 0) are never passed over.                                         *)
(***************************************************************************)
Extends(d, op, i) == d[i].state \in op.extending

\* Marks(..)[n] = <<instance n of the walk is not passed over, number of replicas proper before it>>
Marks(d, op, za, ord) ==
    LET L    == Len(ord)
        ext  == TLCEval([n \in 1..L |-> Extends(d, op, ord[n])])
        zn   == TLCEval([n \in 1..L |-> d[ord[n]].zone])
        \* not passed over: its zone has no earlier non-extending instance
        elig == TLCEval([n \in 1..L |-> ~za \/ zn[n] = 0 \/ \A m \in 1..(n-1) : ext[m] \/ zn[m] # zn[n]])
    IN [n \in 1..L |-> <<elig[n], Cardinality({m \in 1..(n-1) : elig[m] /\ ~ext[m]})>>]

Pick(ord, marks, rf) == {ord[n] : n \in {n \in 1..Len(ord) : marks[n][1] /\ marks[n][2] < rf}}

ReplicaWalk(d, op, rf, za, ord) == Pick(ord, Marks(d, op, za, ord), rf)

(* The same set as a left-to-right scan: "need" grows with every extending *)
(* instance picked.  WalkDefsAgree (RingLookupMC) shows both coincide.     *)
RECURSIVE ScanWalk(_, _, _, _, _, _, _, _)
ScanWalk(d, op, za, ord, n, need, full, picked) ==
    IF n > Len(ord) \/ Cardinality(picked) >= need THEN picked
    ELSE LET i == ord[n]
             z == d[i].zone
         IN IF za /\ z # 0 /\ z \in full
            THEN ScanWalk(d, op, za, ord, n + 1, need, full, picked)
            ELSE IF Extends(d, op, i)
                 THEN ScanWalk(d, op, za, ord, n + 1, need + 1, full, picked \cup {i})
                 ELSE ScanWalk(d, op, za, ord, n + 1, need, full \cup {z}, picked \cup {i})
ReplicaWalkScan(d, op, rf, za, ord) == ScanWalk(d, op, za, ord, 1, rf, {}, {})

(***************************************************************************)
(* Health, majority, the lookup result.                                    *)
(***************************************************************************)
\* hb classes are about the full-resolution heartbeat age versus the timeout (RingTypes): "stale" is any
\* age > timeout, however little, "edge" the closed boundary age <= timeout.
Healthy(d, op, i) == d[i].state \in op.healthy /\ HeartbeatOK(d[i].hb)

Majority(rf, walked) == (Max2(rf, walked) \div 2) + 1

\* (code is filled in by the case emitter of RingLookupMC)
NoResult(e, W) == [ok |-> FALSE, err |-> e, ids |-> {}, maxErrors |-> 0, walked |-> W, plain |-> TRUE, code |-> 0]

ResultOn(d, ord, op, rf, W) ==
    IF Len(ord) = 0 THEN NoResult("empty", {})
    ELSE LET H   == {i \in W : Healthy(d, op, i)}
             nW  == Cardinality(W)
             maj == Majority(rf, nW)
             \* plain = nothing but the first |W| instances of the walk, all healthy, no extension
             plain == H = W /\ nW <= rf /\ W = {ord[n] : n \in 1..nW}
         IN IF Cardinality(H) < maj
            THEN [NoResult("unhealthy", W) EXCEPT !.plain = FALSE]
            ELSE [ok |-> TRUE, err |-> "", ids |-> H, maxErrors |-> Cardinality(H) - maj,
                  walked |-> W, plain |-> plain, code |-> 0]

LookupOn(d, ord, op, rf, za) == ResultOn(d, ord, op, rf, ReplicaWalk(d, op, rf, za, ord))

Lookup(M, d, k, op, rf, za) == LookupOn(d, WalkOrder(M, d, k), op, rf, za)

(***************************************************************************)
(* Configuration and per-call options.                                     *)
(*                                                                         *)
(* ExcludedZones (ring.Config): instances of an excluded zone are dropped  *)
(* from the descriptor before anything is indexed - the ring behaves       *)
(* exactly like the ring over the remaining instances (lookups, the        *)
(* ring-wide replication sets, the instance and zone counts they use).     *)
(*                                                                         *)
(* GetWithOptions(WithReplicationFactor(callRF)): a per-call replication   *)
(* factor that is not positive or below the configured one is replaced by  *)
(* the configured one.  One above the configured factor is refused by the  *)
(* default replication strategy (it equates replication factor and number  *)
(* of zones and returns one instance per zone, SupportsExpandedReplication *)
(* = false): the call fails with "rf-exceeds" - unless the ring has no     *)
(* tokens, which is reported first.  (Only the ignore-unhealthy strategy   *)
(* opts into expanded replication, see LookupIgnoreUnhealthy below.)       *)
(***************************************************************************)
ExcludeZones(d, X) == [i \in {j \in DOMAIN d : d[j].zone \notin X} |-> d[i]]

LookupCall(M, d, k, op, cfgRF, callRF, za) ==
    IF AllTokens(d) = {} THEN NoResult("empty", {})
    ELSE IF callRF > cfgRF THEN NoResult("rf-exceeds", {})
    ELSE Lookup(M, d, k, op, cfgRF, za)

(***************************************************************************)
(* The ignore-unhealthy replication strategy                               *)
(* (NewIgnoreUnhealthyInstancesReplicationStrategy) differs in two ways:   *)
(*  - a lookup succeeds as soon as ONE walked instance is healthy and      *)
(*    tolerates healthy - 1 errors (no majority);                          *)
(*  - it supports expanded replication: with a per-call factor callRF      *)
(*    above the configured one the walk takes the first callRF replicas    *)
(*    proper, and with zone-awareness at most callRF \div cfgRF of them    *)
(*    per zone (the configured factor stands for the number of zones);     *)
(*    extending instances are added as before.                             *)
(* MarksT is Marks for "at most t replicas proper per zone": an instance   *)
(* is passed over iff t earlier non-extending instances share its zone.    *)
(***************************************************************************)
MarksT(d, op, za, ord, t) ==
    LET L    == Len(ord)
        ext  == TLCEval([n \in 1..L |-> Extends(d, op, ord[n])])
        zn   == TLCEval([n \in 1..L |-> d[ord[n]].zone])
        elig == TLCEval([n \in 1..L |-> ~za \/ zn[n] = 0
                            \/ Cardinality({m \in 1..(n-1) : ~ext[m] /\ zn[m] = zn[n]}) < t])
    IN [n \in 1..L |-> <<elig[n], Cardinality({m \in 1..(n-1) : elig[m] /\ ~ext[m]})>>]

LookupIgnoreUnhealthy(M, d, k, op, cfgRF, callRF, za) ==
    IF AllTokens(d) = {} THEN NoResult("empty", {})
    ELSE LET rf  == IF callRF <= 0 \/ callRF < cfgRF THEN cfgRF ELSE callRF
             t   == Max2(1, rf \div cfgRF)
             ord == TLCEval(WalkOrder(M, d, k))
             W   == Pick(ord, TLCEval(MarksT(d, op, za, ord, t)), rf)
             H   == {i \in W : Healthy(d, op, i)}
         IN IF H = {} THEN [NoResult("unhealthy", W) EXCEPT !.plain = FALSE]
            ELSE [ok |-> TRUE, err |-> "", ids |-> H, maxErrors |-> Cardinality(H) - 1,
                  walked |-> W, plain |-> FALSE, code |-> 0]

(***************************************************************************)
(* The ring-wide replication set for an operation                          *)
(* (GetReplicationSetForOperation; ReadSet = the one for Read).  All       *)
(* registered instances count, also those without tokens.  Without         *)
(* zone-awareness rf \div 2 of max(#instances, rf) may be missing; with    *)
(* zone-awareness min(#zones, rf) \div 2 zones may be missing, a zone with *)
(* an unhealthy instance is dropped whole and uses up one of them.         *)
(***************************************************************************)
NoSet(e) == [ok |-> FALSE, err |-> e, ids |-> {}, maxErrors |-> 0, maxUnavailableZones |-> 0, za |-> FALSE, code |-> 0]

ReplicationSetFor(d, op, rf, za) ==
    IF AllTokens(d) = {} THEN NoSet("empty")
    ELSE LET Hl     == {i \in DOMAIN d : Healthy(d, op, i)}
             zones  == {d[i].zone : i \in DOMAIN d}
             failed == {d[i].zone : i \in DOMAIN d \ Hl}
         IN IF za
            THEN LET tolerated == Min2(Cardinality(zones), rf) \div 2
                 IN IF Cardinality(failed) > tolerated THEN NoSet("unhealthy")
                    ELSE [ok |-> TRUE, err |-> "", ids |-> {i \in Hl : d[i].zone \notin failed},
                          maxErrors |-> 0, maxUnavailableZones |-> tolerated - Cardinality(failed), za |-> TRUE, code |-> 0]
            ELSE LET required == Max2(Cardinality(DOMAIN d), rf) - (rf \div 2)
                 IN IF Cardinality(Hl) < required THEN NoSet("unhealthy")
                    ELSE [ok |-> TRUE, err |-> "", ids |-> Hl, maxErrors |-> Cardinality(Hl) - required,
                          maxUnavailableZones |-> 0, za |-> FALSE, code |-> 0]

ReadSet(d, rf, za) == ReplicationSetFor(d, Ops["Read"], rf, za)

(***************************************************************************)
(* When the executors report success, as predicates on the set of          *)
(* instances that answered without error.                                  *)
(*  - DoBatch (per key, on a Lookup result): minSuccess = |ids| - MaxErrors *)
(*  - defaultResultTracker: |ids| - MaxErrors successes                    *)
(*  - zoneAwareResultTracker: all instances of at least                    *)
(*    (#zones of ids - MaxUnavailableZones) zones succeeded                *)
(***************************************************************************)
WriteSucceeds(w, A) == A \subseteq w.ids /\ Cardinality(A) >= Cardinality(w.ids) - w.maxErrors

ReadSucceeds(d, r, B) ==
    /\ B \subseteq r.ids
    /\ IF r.za \/ r.maxUnavailableZones > 0
       THEN LET zs       == {d[i].zone : i \in r.ids}
                complete == {z \in zs : {i \in r.ids : d[i].zone = z} \subseteq B}
            IN Cardinality(complete) >= Max2(Cardinality(zs) - r.maxUnavailableZones, 0)
       ELSE Cardinality(B) >= Cardinality(r.ids) - r.maxErrors

WriteAckSets(w)      == {A \in SUBSET w.ids : WriteSucceeds(w, A)}
ReadAnswerSets(d, r) == {B \in SUBSET r.ids : ReadSucceeds(d, r, B)}

(***************************************************************************)
(* The theorems (checked by TLC in every state of RingLookupMC).           *)
(***************************************************************************)
(* C01: size of the walked set; nothing that could be taken is left out.   *)
SizeOKOn(d, op, rf, za, r) ==
    LET W == r.walked
        E == {i \in W : Extends(d, op, i)}
        C == W \ E
    IN /\ r.ids \subseteq W /\ W \subseteq Owners(d)
       /\ Cardinality(C) <= rf
       /\ Cardinality(W) <= rf + Cardinality(E)
       /\ Cardinality(C) < rf =>
             \A i \in Owners(d) \ W : za /\ d[i].zone # 0 /\ \E j \in C : d[j].zone = d[i].zone

(* C01: at most one replica proper per zone. *)
ZoneOKOn(d, op, za, r) ==
    za => \A i, j \in r.walked :
             (i # j /\ d[i].zone # 0 /\ d[i].zone = d[j].zone) => (Extends(d, op, i) \/ Extends(d, op, j))

(* C01: the walk starts at the owner of the first token strictly greater   *)
(* than the key, wrapping around to the smallest token ...                 *)
WalkStartOK(M, d, k, ord) ==
    LET T == AllTokens(d)
    IN IF T = {} THEN Len(ord) = 0
       ELSE LET above == {t \in T : t > k}
                first == IF above # {} THEN SetMin(above) ELSE SetMin(T)
            IN first = Successor(M, d, k) /\ ord[1] = OwnerOf(d, first)

(* ... and never jumps over an instance it could have taken (reach = the   *)
(* clockwise distances of RingLookup!Reach for the key).                   *)
NoJumpOn(d, reach, op, za, r) ==
    LET W == r.walked
    IN /\ (DOMAIN reach # {} => \E i \in W : \A j \in DOMAIN reach : reach[i] <= reach[j])
       /\ \A i \in W, j \in DOMAIN reach \ W : reach[j] < reach[i] =>
             /\ za /\ d[j].zone # 0
             /\ \E c \in W : ~Extends(d, op, c) /\ d[c].zone = d[j].zone /\ reach[c] < reach[j]

(* C01: failure exactly below a majority of max(rf, |walked|); otherwise   *)
(* exactly the healthy walked instances and exactly the slack above it.    *)
SlackExactOn(d, op, rf, r) ==
    LET H   == {i \in r.walked : Healthy(d, op, i)}
        maj == Majority(rf, Cardinality(r.walked))
    IN /\ AllTokens(d) = {} <=> (~r.ok /\ r.err = "empty")
       /\ AllTokens(d) # {} =>
            /\ r.ok <=> Cardinality(H) >= maj
            /\ r.ok => /\ r.ids = H
                       /\ r.maxErrors >= 0
                       /\ Cardinality(r.ids) - r.maxErrors = maj
            /\ ~r.ok => r.err = "unhealthy"

(* C02 *)
QuorumIntersectionOn(d, w, r) ==
    (w.ok /\ r.ok) => \A A \in WriteAckSets(w), B \in ReadAnswerSets(d, r) : A \cap B # {}
=============================================================================
