\* t_n4zs: 4 single-token instances + tokenless: all four behaviour classes of states x zones 0..3
\* (generated from UNIVERSES in checks/ringlookup_common.py: python3 checks/ringlookup_common.py --write-cfgs)
CONSTANTS
  NK = 5
  Gaps = {2}
  N = 4
  MaxTok = 1
  MaxIdle = 1
  Z = 3
  StateSet = {"ACTIVE", "LEAVING", "PENDING", "JOINING"}
  HbSet = {"edge"}
  RFMax = 5
  Canon = 2
  WithRemove = FALSE
  Excl = {}
  EmitOn = TRUE
  EmitSets = TRUE
  XMax = 0
INIT Init
NEXT Next
VIEW View
INVARIANTS TypeOK SizeOK ZoneOK ClockwiseFirst SlackExact WalkDefsAgree QuorumIntersection ExpandedOK Emit
PROPERTIES MinimalDisruption
CHECK_DEADLOCK FALSE
