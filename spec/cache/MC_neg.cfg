\* Negative controls: the check substitutes @@WRONG@@ by one deliberately wrong model of a wrapper (see CONSTANT Wrong in
\* CacheStack.tla); TLC HAS TO refute a clause of C19 (or a structural invariant that guards it) - otherwise the clauses would be
\* vacuous on this universe. LRU alone, LRU over Versioned (two views), Snappy over LRU with foreign undecodable writes.
CONSTANTS
  StackIds = {2, 5, 8}
  Caps = {1, 2}
  DTTLs = {1, 2}
  Keys = {k1, k2}
  Values = {a, b}
  TTLs = {1, 2}
  Deltas = {1}
  NViews = 2
  PokeTTLs = {1}
  MaxOps = 4
  Faults = FALSE
  Full = FALSE
  DetOnly = FALSE
  Wrong = "@@WRONG@@"
INIT Init
NEXT Next
VIEW View
SYMMETRY Sym
CONSTRAINT Bounded
\* only the clauses of C19 themselves (no structural invariant may do the refuting)
INVARIANTS PkIsPeek
PROPERTIES NeverWrong NeverAfterDelete NeverAfterDeadline NeverCorrupt NoAlias AddSemantics
CHECK_DEADLOCK FALSE
