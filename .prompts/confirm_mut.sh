#!/bin/bash
# confirm_mut.sh <worktree> <mutdir e.g. MUTANTS/m1> <seeded-id e.g. C19-a1> <property> <demo target path rel. to worktree> <pkgs to test...>
# Confirms: patch applies; existing tests of pkgs pass with it; demo fails with it and passes without. Copies into /verif/seeded/<id>/.
set -u
WT=$1; M=$2; ID=$3; PROP=$4; DEMO=$5; shift 5; PKGS="$@"
export GOFLAGS=-mod=mod GOPROXY=off
cd $WT || exit 2
LOG=/tmp/confirm_$ID.log; : > $LOG
git checkout -q -- . ; rm -f $DEMO
git apply --check $M/patch.diff >>$LOG 2>&1 || { echo "$ID: patch does not apply"; exit 1; }
demo_src=$(ls $M/demo*_test.go $M/demo*.go 2>/dev/null | head -1)
run() { for i in 1 2 3; do out=$(go test -count=1 "$@" 2>&1); rc=$?; echo "$out" >>$LOG; if echo "$out" | grep -q "signal: terminated\|signal: killed"; then sleep 5; continue; fi; return $rc; done; return 3; }
# 1. demo passes without the change
cp $demo_src $DEMO
run -run 'Demo|demo' ./$(dirname $DEMO)/ ; r_without=$?
rm -f $DEMO
# 2. existing tests pass with the change
git apply $M/patch.diff
run $PKGS ; r_existing=$?
# 3. demo fails with the change
cp $demo_src $DEMO
run -run 'Demo|demo' ./$(dirname $DEMO)/ ; r_with=$?
rm -f $DEMO
git checkout -q -- .
echo "$ID: demo_without=$r_without existing_with=$r_existing demo_with=$r_with" | tee -a $LOG
if [ $r_without -eq 0 ] && [ $r_existing -eq 0 ] && [ $r_with -ne 0 ] && [ $r_with -ne 3 ]; then
  mkdir -p /verif/seeded/$ID
  cp $M/patch.diff /verif/seeded/$ID/patch.diff
  cp $demo_src /verif/seeded/$ID/$(basename $DEMO)
  [ -f $M/README.md ] && cp $M/README.md /verif/seeded/$ID/README.md
  python3 - <<PY
import json
json.dump({"id":"$ID","property":"$PROP","demo_target":"$DEMO","existing_tests_run":"go test -count=1 $PKGS",
 "confirmed":{"demo_passes_without_change":True,"existing_tests_pass_with_change":True,"demo_fails_with_change":True},
 "needs":open("$M/README.md").read()[:1500] if True else ""}, open("/verif/seeded/$ID/meta.json","w"), indent=1)
PY
  echo "$ID: CONFIRMED"
else
  echo "$ID: NOT CONFIRMED (see $LOG)"
fi
