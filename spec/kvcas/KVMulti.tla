------------------------------- MODULE KVMulti -------------------------------
(***************************************************************************)
(* Growth of the KV specification beyond C07 (DESIGN 4): kv.MultiClient    *)
(* with mirroring while the primary store is switched at run time.         *)
(*                                                                         *)
(* Two stores: 1 = a memberlist KV (live entries + tombstones), 2 = the    *)
(* in-memory Consul store; `prim` is the store MultiClient.getPrimaryClient *)
(* returns.  multi.go: CAS picks the primary ONCE, runs the whole CAS      *)
(* (retries included) on it and, if it succeeded with a non-nil value,     *)
(* writes f's output into every other store with a CAS whose function      *)
(* ignores its input (writeToSecondary).  A switch of the primary          *)
(* (MultiRuntimeConfig.PrimaryStore) cancels watches, not CAS calls: a CAS *)
(* in flight completes on the old primary and then "mirrors" into the new  *)
(* one.                                                                    *)
(*                                                                         *)
(* Granularity: f (between read and conditional write of the primary) as   *)
(* in KVCas.tla, plus - for a call running on store 1 - the point between  *)
(* its write to store 1 and its mirror write to store 2 (the harness parks *)
(* the call in the codec's Encode of the mirrored value).  The mirror      *)
(* write of a call running on store 2 is fused with its write (no gate).   *)
(* f always appends the caller's tag and returns retry = true.             *)
(***************************************************************************)
EXTENDS Integers, Sequences, FiniteSets, TLC, Json

CONSTANTS NC, OpsPer, MaxSwitch, Emit

Clients == 1..NC
Stores  == {1, 2}
Other(s) == 3 - s
Nil == {}

VARIABLES st,       \* st[s] = [live, dead, ver]; dead is used by store 1 only
          prim,     \* current primary
          nsw,      \* switches so far
          cl,       \* cl[c] = [pc, op, on, sval, sver, out]; pc: idle | inf | mirror
          applied,  \* history: successful primary writes [c, k, on]
          hist

vars == <<st, prim, nsw, cl, applied, hist>>
view == <<st, prim, nsw, cl, applied>>

Tags(v) == {<<t[1], t[2]>> : t \in v}
AppendTag(v, c, k) == v \cup {<<c, k, Cardinality(v) + 1>>}
IdleRec(k) == [pc |-> "idle", op |-> k, on |-> 0, sval |-> Nil, sver |-> 0, out |-> Nil]

Init == /\ st = [s \in Stores |-> [live |-> Nil, dead |-> Nil, ver |-> 0]]
        /\ prim = 1 /\ nsw = 0
        /\ cl = [c \in Clients |-> IdleRec(0)]
        /\ applied = <<>>
        /\ hist = <<>>

(* memberlist merge of an incoming value into the stored one (Val.Merge in harness/c07/val.go,  *)
(* faithful to the Mergeable contract): entries are added unless a tombstone of theirs exists;  *)
(* a local CAS (the key existed when it was read) tombstones the entries the incoming lacks.    *)
MLMerge(s, out, localCAS) ==
    LET dead2 == IF localCAS THEN s.dead \cup {t \in s.live : <<t[1], t[2]>> \notin Tags(out)} ELSE s.dead
        live2 == {t \in s.live \cup out : t \notin dead2}
    IN [live |-> live2, dead |-> dead2, ver |-> IF live2 = s.live /\ dead2 = s.dead THEN s.ver ELSE s.ver + 1]

(* the primary's conditional write (KVCas.tla CanWrite / Written for the two kinds) *)
CanWrite(c) == LET s == st[cl[c].on] IN
               IF cl[c].on = 1 THEN cl[c].sver = 0 \/ s.ver = cl[c].sver
                               ELSE s.ver = 0 \/ s.ver = cl[c].sver
(* writeToSecondary into store o: CAS(func(_) { return out, false, nil }).  Consul client: read, *)
(* write, on conflict read again and write: the value ends up stored whatever the store held.   *)
(* memberlist: one attempt, read + merge without a gate in between, so the version matches and  *)
(* the merge is a local CAS as soon as the key exists.                                          *)
MirrorInto(o, out) == IF o = 2 THEN [live |-> out, dead |-> Nil, ver |-> st[o].ver + 1]
                               ELSE MLMerge(st[o], out, st[o].ver > 0)

Step(a, c, e, in) ==
    LET r == [a |-> a, c |-> c, e |-> e, in |-> in, get |-> st'[prim'].live, s1 |-> st'[1].live, s2 |-> st'[2].live]
    IN hist' = IF Emit THEN Append(hist, r) ELSE <<r>>

Begin(c) ==
    /\ cl[c].pc = "idle" /\ cl[c].op < OpsPer
    /\ cl' = [cl EXCEPT ![c] = [pc |-> "inf", op |-> @.op + 1, on |-> prim, sval |-> st[prim].live,
                                sver |-> st[prim].ver, out |-> Nil]]
    /\ UNCHANGED <<st, prim, nsw, applied>>
    /\ Step("begin", c, "fin", st[prim].live)

(* f returns in + own tag: write on the store the call started on; conflict: re-read THAT store *)
Put(c) ==
    /\ cl[c].pc = "inf"
    /\ LET out == AppendTag(cl[c].sval, c, cl[c].op)
           me  == [cl[c] EXCEPT !.out = out]
           on  == cl[c].on
       IN IF CanWrite(c)
          THEN LET w == (LET s == st[on] IN
                         IF on = 1 THEN MLMerge(s, out, cl[c].sver > 0)
                                   ELSE [live |-> out, dead |-> Nil, ver |-> s.ver + 1])
               IN /\ applied' = Append(applied, [c |-> c, k |-> cl[c].op, on |-> on])
                  /\ IF on = 1
                     THEN \* parked between the primary write and the mirror write
                          /\ st' = [st EXCEPT ![1] = w]
                          /\ cl' = [cl EXCEPT ![c] = [me EXCEPT !.pc = "mirror"]]
                          /\ UNCHANGED <<prim, nsw>>
                          /\ Step("put", c, "mirror", Nil)
                     ELSE \* no gate: the mirror write into store 1 follows at once, the call returns
                          /\ st' = [st EXCEPT ![2] = w, ![1] = MirrorInto(1, out)]
                          /\ cl' = [cl EXCEPT ![c] = IdleRec(cl[c].op)]
                          /\ UNCHANGED <<prim, nsw>>
                          /\ Step("put", c, "ok", Nil)
          ELSE /\ cl' = [cl EXCEPT ![c] = [@ EXCEPT !.sval = st[on].live, !.sver = st[on].ver]]
               /\ UNCHANGED <<st, prim, nsw, applied>>
               /\ Step("put", c, "fin", st[on].live)

Mirror(c) ==
    /\ cl[c].pc = "mirror"
    /\ st' = [st EXCEPT ![2] = MirrorInto(2, cl[c].out)]
    /\ cl' = [cl EXCEPT ![c] = IdleRec(@.op)]
    /\ UNCHANGED <<prim, nsw, applied>>
    /\ Step("mirror", c, "ok", Nil)

SwitchPrimary ==
    /\ nsw < MaxSwitch
    /\ prim' = Other(prim) /\ nsw' = nsw + 1
    /\ UNCHANGED <<st, cl, applied>>
    /\ Step("switch", prim', "", Nil)

Next == \/ \E c \in Clients : Begin(c) \/ Put(c) \/ Mirror(c)
        \/ SwitchPrimary

Spec == Init /\ [][Next]_vars

-----------------------------------------------------------------------------
TypeOK == prim \in Stores /\ \A c \in Clients : cl[c].pc \in {"idle", "inf", "mirror"}

(* A CAS in flight is never moved: it completes (or keeps retrying) on the store that was the   *)
(* primary when it started.                                                                     *)
StaysOnItsPrimary == [][\A c \in Clients : cl[c].pc # "idle" /\ cl'[c].pc # "idle" => cl'[c].on = cl[c].on]_view

(* No successful CAS is lost from the current primary's view of itself: a call applied to the   *)
(* store that is the primary now is still visible there.  Holds while the primary is not        *)
(* switched (MaxSwitch = 0: mirror writes only ever go to the other store).  With a switch it   *)
(* does not: a call still in flight on the old primary mirrors its output over the new primary. *)
NoLostOnPrimary == \A i \in 1..Len(applied) :
                      applied[i].on = prim => <<applied[i].c, applied[i].k>> \in Tags(st[prim].live)

EmitHist == Emit => PrintT(ToJson(hist'))
=============================================================================
