--------------------------- MODULE PartitionShardMC ---------------------------
(***************************************************************************)
(* C12 (a), partition ring: TLC decides "the same guarantees over active   *)
(* partitions" for PShard of ShuffleShard.tla, for EVERY start sequence,   *)
(* over every small partition ring in all states.                          *)
(*                                                                         *)
(* Same construction as ShuffleShardMC: phase "build" grows the token      *)
(* layout (partitions named in the order of their first token), Start      *)
(* picks the initial state of every partition of the universe (absent,     *)
(* pending, active, inactive) and the start sequence (first start fixed to *)
(* position 1: rotation symmetry), phase "run" applies AddPartition,       *)
(* SwitchState (legal edges pending->active, pending->inactive,            *)
(* active->inactive, inactive->active) and RemovePartition, one change per *)
(* second.  Time convention as in ShuffleShardMC.                          *)
(***************************************************************************)
EXTENDS ShuffleShard, TLC, Json

CONSTANTS N, MaxTok, MaxM, MaxSize, MaxEvents

VARIABLES phase, lay, P, now, hist
vars == <<phase, lay, P, now, hist>>

T0 == 10
Sizes == 0..MaxSize
PStates == {"pending", "active", "inactive"}

Count(s, l) == Cardinality({p \in 1..Len(s) : s[p] = l})
MaxLabel(s) == IF Len(s) = 0 THEN 0 ELSE CHOOSE l \in {s[p] : p \in 1..Len(s)} : \A p \in 1..Len(s) : s[p] <= l

Init == phase = "build" /\ lay = <<>> /\ P = [M |-> 0] /\ now = T0 /\ hist = <<>>

Extend == /\ phase = "build" /\ Len(lay) < MaxM
          /\ \E l \in 1..Min2(MaxLabel(lay) + 1, N) :
                /\ Count(lay, l) < MaxTok
                /\ lay' = Append(lay, l)
          /\ UNCHANGED <<phase, P, now, hist>>

Version(c, t) == [to |-> 0, sh |-> [s \in Sizes |-> PShard(c, s, 0, t)],
                  c |-> [mem |-> c.mem, st |-> c.st, sts |-> c.sts]]      \* content, for counterexamples

Start ==
    /\ phase = "build" /\ Len(lay) >= 1
    /\ LET n == MaxLabel(lay)
           m == Len(lay)
       IN \E st0 \in [1..n -> PStates \cup {"absent"}] :
          \E ss \in [1..n -> 1..m] :
             /\ ss[1] = 1
             /\ \E p \in 1..n : st0[p] # "absent"
             /\ P' = [M |-> m, own |-> lay, mem |-> {p \in 1..n : st0[p] # "absent"},
                      st |-> st0, sts |-> [p \in 1..n |-> IF st0[p] = "absent" THEN 0 ELSE 1],
                      starts |-> ss]
    /\ phase' = "run"
    /\ hist' = <<Version(P', now)>>
    /\ UNCHANGED <<lay, now>>

Universe == 1..MaxLabel(lay)

Commit(c) ==
    /\ P' = c
    /\ hist' = Append([hist EXCEPT ![Len(hist)].to = now], Version(c, now))
    /\ now' = now + 1
    /\ UNCHANGED <<phase, lay>>

CanChange == phase = "run" /\ Len(hist) <= MaxEvents

AddPartition(p, s) == /\ CanChange /\ p \notin P.mem /\ P.sts[p] = 0 /\ s \in {"pending", "active"}
                      /\ Commit([P EXCEPT !.mem = @ \cup {p}, !.st[p] = s, !.sts[p] = now])

Legal(a, b) == \/ a = "pending" /\ b \in {"active", "inactive"}
               \/ a = "active" /\ b = "inactive"
               \/ a = "inactive" /\ b = "active"

SwitchState(p, s) == /\ CanChange /\ p \in P.mem /\ Legal(P.st[p], s)
                     /\ Commit([P EXCEPT !.st[p] = s, !.sts[p] = now])

RemovePartition(p) == /\ CanChange /\ p \in P.mem /\ Cardinality(P.mem) > 1
                      /\ Commit([P EXCEPT !.mem = @ \ {p}, !.st[p] = "absent"])

Next == \/ Extend \/ Start
        \/ \E p \in Universe : \/ RemovePartition(p)
                               \/ \E s \in PStates : AddPartition(p, s) \/ SwitchState(p, s)

Spec == Init /\ [][Next]_vars

(* the content snapshots in `hist` only serve counterexample reports *)
View == <<phase, lay, P, now, [v \in 1..Len(hist) |-> [to |-> hist[v].to, sh |-> hist[v].sh]]>>

--------------------------------------------------------------------------------
Running == phase = "run"
Cur == hist[Len(hist)].sh

Cex(name, info) == PrintT(ToJson([cex |-> name, kind |-> "part", C |-> P, now |-> now, shards |-> Cur, info |-> info])) /\ FALSE

(* right-sized and only active partitions *)
PSizeFormula ==
    Running => \A s \in Sizes : PSizeOK(Cur[s], P, s) \/ Cex("PSizeFormula", [size |-> s])

PMonotone ==
    Running => \A a, b \in Sizes :
                  SizeLE(a, b) => MonotoneOK(Cur[a], Cur[b]) \/ Cex("PMonotone", [size |-> a, size2 |-> b])

(* every ring one partition apart: the partition removed, or in another state *)
Neighbours == {[P EXCEPT !.mem = @ \ {p}] : p \in P.mem}
              \cup {[P EXCEPT !.st[p] = s] : p \in P.mem, s \in PStates}

PConsistency ==
    Running => \A W \in Neighbours :
        POneApart(P, W) =>
            \A s \in Sizes : ConsistencyOK(Cur[s], PShard(W, s, 0, now))
                               \/ Cex("PConsistency", [size |-> s, c |-> [mem |-> W.mem, st |-> W.st, sts |-> W.sts],
                                                        other |-> PShard(W, s, 0, now)])

InWindow(v, L) == hist[v].to = 0 \/ hist[v].to >= now - L
Lookbacks == (1..(now - T0 + 1)) \cup {now - 1}

PLookbackSuperset ==
    Running => \A s \in Sizes : \A L \in Lookbacks :
        LET past == {hist[v].sh[s] : v \in {w \in 1..Len(hist) : InWindow(w, L)}}
        IN LookbackOK(PShard(P, s, L, now), past, P.mem)
              \/ Cex("PLookbackSuperset", [size |-> s, L |-> L, lb |-> PShard(P, s, L, now), hist |-> hist])

(* the look-back answer never contains a pending partition, nor an inactive one that turned inactive before the window *)
PLookbackMembers ==
    Running => \A s \in Sizes : \A L \in Lookbacks :
        \A p \in PShard(P, s, L, now) :
            /\ p \in P.mem /\ P.st[p] # "pending"
            /\ P.st[p] = "inactive" => P.sts[p] >= now - L

TypeOK == Running => /\ P.mem # {} /\ P.mem \subseteq Universe
                     /\ \A s \in Sizes : Cur[s] \subseteq P.mem
=============================================================================
