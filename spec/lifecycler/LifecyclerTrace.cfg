SPECIFICATION TSpec
CONSTANTS
  N = 5
  Pos <- TPos
  NumTokens = @@NT@@
  HbTimeout = 3
  MaxClock = 1000000
  Cfgs <- TCfgs
  Cfg0 <- TCfg0
  Bud0 <- TBud
  OwnEntryCheck = TRUE
INVARIANTS HeartbeatFresh
PROPERTIES OwnEntryOnly StateEdges RefusedUntouched HeartbeatMonotone RegisteredOnce ActivationTokens ReadyImpliesActive KeepsIdentity ReRegistersFresh
POSTCONDITION Accepted
CHECK_DEADLOCK FALSE
