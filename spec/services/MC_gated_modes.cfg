CONSTANTS
  NC = 1
  NL = 1
  WRun = {}
  WTerm = {}
  QCap = 4
  MaxIters = 2
  MaxStart = 1
  ParentCancels = TRUE
  Presents = {{"start","run","stop"}}
  RunModes = {"idle","timer"}
  GuardNilCancel = FALSE
INIT GInit
NEXT GNext
VIEW GView
INVARIANTS TypeOK ChainedHistory SwitchNeverFails FnOrder RunOnlyAfterStart StopFnIffStarted CtxCancelledBeforeStopFn StopFnGetsRunError ContextReleased ContextOnceStarted WaitersExact NoDoubleClose FirstErrorWins ListenerOrder NotifierNeverBlocks Quiescent EmitInit
ACTION_CONSTRAINT EmitTransition
CHECK_DEADLOCK FALSE
