----------------------------- MODULE RingClientMC -----------------------------
(* Model-checking instances of RingClient: the shard function is the abstract walk. *)
EXTENDS RingClient

MCCompute(ix, lv, id, size, L, W) == AbstractShard(ix, lv, id, size, L, W)

MinOf(S) == CHOOSE x \in S : \A y \in S : x <= y
MaxOf(S) == CHOOSE x \in S : \A y \in S : y <= x
StartRec(i) == [addr |-> MinOf(Addrs), zone |-> IF i % 2 = 1 THEN MinOf(Zones) ELSE MaxOf(Zones), tok |-> MaxOf(Toks),
                reg |-> MinOf(Stamps \ {0}), ro |-> FALSE, rots |-> 0,
                state |-> "ACTIVE", ts |-> MinOf(Beats)]
FullDesc == [i \in Inst |-> StartRec(i)]

\* "update" configurations: the client starts on an empty store or with every instance registered
\* (the interesting histories then fit in MaxUpd updates)
NarrowInitDescs == {NoDesc, FullDesc}

\* "window" configurations: the client starts on ANY combination of registration time, read-only flag
\* and read-only time (the fields the look-back validity window is computed from)
WideInitDescs == {[i \in Inst |-> [StartRec(i) EXCEPT !.reg = f[i][1], !.ro = f[i][2], !.rots = f[i][3]]] :
                     f \in [Inst -> Stamps \X BOOLEAN \X Stamps]}

\* "swap" configurations: ANY combination of registration time, read-only flag / time and token alternative, so that an
\* exchange between two instances is a real change
SwapInitDescs == {[i \in Inst |-> [StartRec(i) EXCEPT !.reg = f[i][1], !.ro = f[i][2], !.rots = f[i][3], !.tok = f[i][4]]] :
                     f \in [Inst -> Stamps \X BOOLEAN \X Stamps \X Toks]}

\* NEGATIVE CONTROL (a deliberately wrong RingCompare): compares the COLLECTION of topology records instead of the
\* record of every instance - single-field updates are still classified correctly, an exchange is taken for "equal but
\* states and timestamps".  TLC must refute UnobservableFast with it (MC_neg_aggcompare.cfg).
AggClassify(old, new) ==
    IF DOMAIN old # DOMAIN new THEN "Different"
    ELSE IF {Topo(old[i]) : i \in DOMAIN old} # {Topo(new[i]) : i \in DOMAIN new} THEN "Different"
    ELSE IF \E i \in DOMAIN old : old[i].state # new[i].state \/ old[i].ts # new[i].ts
         THEN "EqualButStatesAndTimestamps"
    ELSE "Equal"
=============================================================================
