------------------------------ MODULE TokenRanges ------------------------------
(***************************************************************************)
(* C14 - key ownership on the token circle and the token ranges reported   *)
(* for an instance of a zone (zone-aware ring, zones = replication factor) *)
(* or for a partition (all partitions active).                             *)
(*                                                                         *)
(* Keys are abstract *key classes* 0..NK-1 in cyclic order.  A class is    *)
(* either a token position (a token may sit exactly there; it denotes one  *)
(* concrete uint32) or a gap class (no token can sit there; it denotes all *)
(* concrete keys strictly between the neighbouring positions).  The        *)
(* harness embeds positions monotonically into uint32 so that positions    *)
(* not separated by a gap class are literally adjacent (t, t+1), the first *)
(* position is 0 and the last is 2^32-1 (DESIGN.md 1.1).                   *)
(***************************************************************************)
EXTENDS Integers, FiniteSets, Sequences, TLC, Json

CONSTANTS NK,      \* number of key classes
          Gaps,    \* key classes that are not token positions
          N,       \* owners 1..N (instances of the ring / partitions)
          Z,       \* zones 1..Z (1 for the partition ring)
          MaxTok   \* at most this many tokens per owner

Key    == 0..(NK-1)
TokPos == Key \ Gaps
Owner  == 1..N

VARIABLES own,   \* own[p] = owner of the token at position p, 0 = no token there
          zone   \* zone[i] = zone of owner i

vars == <<own, zone>>

(***************************************************************************)
(* Parameterised operators (also used by TokenRangesTrace on recorded      *)
(* rings, where the layout differs from line to line).  o = own, zn = zone,*)
(* nk = number of key classes.                                             *)
(***************************************************************************)
ToksP(o, i)         == {p \in DOMAIN o : o[p] = i}
ZoneToksP(o, zn, z) == {p \in DOMAIN o : o[p] > 0 /\ zn[o[p]] = z}

(* Definition 1 - what a lookup does (C01 restricted to one zone): the key *)
(* belongs to the owner of the first token strictly greater than the key,  *)
(* wrapping to the smallest token.                                         *)
Succ(S, k) == IF \E p \in S : p > k
              THEN CHOOSE p \in S : p > k /\ \A q \in S : q > k => p <= q
              ELSE CHOOSE p \in S : \A q \in S : p <= q
LookupOwnerP(o, zn, z, k) == IF ZoneToksP(o, zn, z) = {} THEN 0 ELSE o[Succ(ZoneToksP(o, zn, z), k)]
OwnedKeysP(nk, o, zn, i)  == {k \in 0..(nk-1) : LookupOwnerP(o, zn, zn[i], k) = i}

(* Definition 2 - what "token ranges" are documented to be: the token t    *)
(* owns the keys from the previous token of its zone (inclusive) up to t-1 *)
(* (inclusive), cyclically; a zone with a single token owns everything.    *)
Pred(S, t) == IF \E p \in S : p < t
              THEN CHOOSE p \in S : p < t /\ \A q \in S : q < t => q <= p
              ELSE CHOOSE p \in S : \A q \in S : q <= p
CycRangeP(nk, a, b) == IF a < b THEN a..(b-1) ELSE (a..(nk-1)) \cup (0..(b-1))
RangeKeysP(nk, o, zn, i) == UNION {CycRangeP(nk, Pred(ZoneToksP(o, zn, zn[i]), t), t) : t \in ToksP(o, i)}

Toks(i)           == ToksP(own, i)
ZoneToks(z)       == ZoneToksP(own, zone, z)
LookupOwner(z, k) == LookupOwnerP(own, zone, z, k)
OwnedKeys(i)      == OwnedKeysP(NK, own, zone, i)
RangeKeys(i)      == RangeKeysP(NK, own, zone, i)

TypeOK == /\ own \in [TokPos -> 0..N]
          /\ zone \in [Owner -> 1..Z]

Init == /\ own \in [TokPos -> 0..N]
        /\ \E p \in TokPos : own[p] # 0
        /\ \A i \in Owner : Cardinality(Toks(i)) <= MaxTok
        /\ zone \in [Owner -> 1..Z]
        \* a token-less owner sits in the lowest zone that has tokens (a zone with members but no
        \* tokens is outside "as many zones as replicas": lookups fail there)
        /\ \A i \in Owner : Toks(i) = {} =>
               /\ ZoneToks(zone[i]) # {}
               /\ \A z \in 1..Z : ZoneToks(z) # {} => zone[i] <= z

Next == UNCHANGED vars
Spec == Init /\ [][Next]_vars

(* The theorems TLC decides on the specification. *)
RangesAreOwnership == \A i \in Owner : RangeKeys(i) = OwnedKeys(i)

Tiling == \A z \in 1..Z : ZoneToks(z) # {} =>
            LET M == {i \in Owner : zone[i] = z} IN
              /\ UNION {RangeKeys(i) : i \in M} = Key
              /\ \A i, j \in M : i # j => RangeKeys(i) \cap RangeKeys(j) = {}

(* Case emitter: one JSON line per ring with the ownership matrix the code must reproduce. *)
Emit == PrintT(ToJson([own   |-> [j \in 1..NK |-> IF (j-1) \in Gaps THEN -1 ELSE own[j-1]],
                       zone  |-> zone,
                       owned |-> [i \in Owner |-> OwnedKeys(i)]]))
=============================================================================
