package c12

import (
	"encoding/json"
	"fmt"
	"os"
	"sort"
	"strconv"
	"testing"
	"time"

	"verifharness/internal/abs"

	"github.com/grafana/dskit/ring"
)

// ---------------------------------------------------------------------------------------------
// A counterexample TLC found on the white-box walk model (ShuffleShardMC / PartitionShardMC print
// it as JSON) is only a specification-level fact.  TestConcretise turns it into a real input:
// tokens at evenly spaced values, and an identifier (zone names, with zone-awareness) whose real
// start sequence - shard.ShuffleShardSeed + math/rand, exactly as the code draws it - is
// rank-equal to the counterexample's starts.  The model's violating answers are part of the
// counterexample; if the real code returns exactly those answers the violation is reproduced on
// the real code (a mismatch, exit 1); otherwise the model has drifted from the code (exit 2).

type cexVersion struct {
	To int64            `json:"to"`
	Sh map[string][]int `json:"sh"`
	C  cexContent       `json:"c"`
}
type cexContent struct {
	Mem  []int    `json:"mem"`
	RO   []bool   `json:"ro"`
	Reg  []int64  `json:"reg"`
	Rots []int64  `json:"rots"`
	St   []string `json:"st"`
	Sts  []int64  `json:"sts"`
}
type cexInfo struct {
	Size    int          `json:"size"`
	Size2   int          `json:"size2"`
	Without int          `json:"without"`
	Other   []int        `json:"other"`
	L       int          `json:"L"`
	LB      []int        `json:"lb"`
	Hist    []cexVersion `json:"hist"`
	C       *cexContent  `json:"c"`
}
type cexLine struct {
	Cex  string `json:"cex"`
	Kind string `json:"kind"`
	C    struct {
		cexContent
		M      int             `json:"M"`
		Own    []int           `json:"own"`
		Zone   []int           `json:"zone"`
		ZA     bool            `json:"za"`
		Starts json.RawMessage `json:"starts"`
	} `json:"C"`
	Now    int64            `json:"now"`
	Shards map[string][]int `json:"shards"`
	Info   cexInfo          `json:"info"`
}

func eqInts(a, b []int) bool {
	if len(a) != len(b) {
		return false
	}
	for i := range a {
		if a[i] != b[i] {
			return false
		}
	}
	return true
}

func findName(pattern string, zone func(j int) (tenant, zone string), all []uint32, want []int) (string, string, bool) {
	for j := 0; j < 3000000; j++ {
		tn, zn := zone(j)
		if eqInts(startsFor(tn, zn, all, len(want)), want) {
			return tn, zn, true
		}
	}
	return "", "", false
}

func TestConcretise(t *testing.T) {
	in := os.Getenv("VERIF_IN")
	if in == "" {
		t.Skip("VERIF_IN not set")
	}
	res := &abs.Result{}
	var notes []string
	seen := 0
	err := abs.ReadNDJSON(in, func(line []byte) error {
		var c cexLine
		if err := json.Unmarshal(line, &c); err != nil || c.Cex == "" {
			return nil // not a counterexample line
		}
		if seen >= 3 {
			return nil
		}
		seen++
		res.Cases++
		note, reproduced, detail := concretise(c)
		if reproduced {
			res.Mismatch(abs.Mismatch{Sig: "cex:" + c.Kind + ":" + c.Cex + " (counterexample of the walk model reproduced on the code)", Case: detail,
				Got: "the real code returns the model's violating answers", Want: "clause " + c.Cex})
		} else {
			notes = append(notes, c.Cex+": "+note)
		}
		return nil
	})
	if err != nil {
		res.Fatal = err.Error()
	}
	res.AddExtra("c12_cex_not_reproduced", notes)
	res.Write(t)
}

func concretise(c cexLine) (note string, reproduced bool, detail map[string]any) {
	defer func() {
		if x := recover(); x != nil {
			note, reproduced = fmt.Sprintf("panic while concretising: %v", x), false
		}
	}()
	M := c.C.M
	n := 0
	for _, o := range c.C.Own {
		if o > n {
			n = o
		}
	}
	step := uint32((uint64(1) << 32) / uint64(M+1))
	all := make([]uint32, M)
	toks := make([][]uint32, n)
	for p := 1; p <= M; p++ {
		all[p-1] = uint32(p) * step
		toks[c.C.Own[p-1]-1] = append(toks[c.C.Own[p-1]-1], all[p-1])
	}
	tenant := "t-0"
	zoneNames := map[int]string{1: "zone-1", 2: "zone-2", 3: "zone-3"}
	if c.Kind == "part" {
		var st []int
		if err := json.Unmarshal(c.C.Starts, &st); err != nil {
			return "bad starts: " + err.Error(), false, nil
		}
		tn, _, ok := findName("t", func(j int) (string, string) { return "t-" + strconv.Itoa(j), "" }, all, st)
		if !ok {
			return "no identifier with these starts found", false, nil
		}
		tenant = tn
	} else {
		var st [][]int
		if err := json.Unmarshal(c.C.Starts, &st); err != nil {
			return "bad starts: " + err.Error(), false, nil
		}
		if !c.C.ZA {
			tn, _, ok := findName("t", func(j int) (string, string) { return "t-" + strconv.Itoa(j), "" }, all, st[0])
			if !ok {
				return "no identifier with these starts found", false, nil
			}
			tenant = tn
		} else {
			for z := 1; z <= len(st) && z <= 3; z++ {
				if len(st[z-1]) == 0 {
					continue
				}
				z := z
				_, zn, ok := findName("z", func(j int) (string, string) { return tenant, fmt.Sprintf("zone-%d-%d", z, j) }, all, st[z-1])
				if !ok {
					return "no zone name with these starts found", false, nil
				}
				zoneNames[z] = zn
			}
		}
	}
	detail = map[string]any{"clause": c.Cex, "kind": c.Kind, "tenant": tenant, "tokens": toks, "zone_names": zoneNames,
		"zone": c.C.Zone, "za": c.C.ZA, "content": c.C.cexContent, "now": c.Now, "info": map[string]any{"size": c.Info.Size, "size2": c.Info.Size2, "without": c.Info.Without, "L": c.Info.L}}

	// the real answer on a given content
	answer := func(ct cexContent, size, L int, now int64) ([]int, error) {
		if c.Kind == "part" {
			ps := map[int]*part{}
			for _, id := range ct.Mem {
				ps[id] = &part{id: id, tokens: toks[id-1], st: stOf(ct.St[id-1]), sts: ct.Sts[id-1]}
			}
			pr, err := ring.NewPartitionRing(partDesc(ps))
			if err != nil {
				return nil, err
			}
			var sub *ring.PartitionRing
			if L == 0 {
				sub, err = pr.ShuffleShard(tenant, size)
			} else {
				sub, err = pr.ShuffleShardWithLookback(tenant, size, time.Duration(L)*time.Second, time.Unix(now, 250e6))
			}
			if err != nil {
				return nil, err
			}
			out := []int{}
			for _, id := range sub.PartitionIDs() {
				out = append(out, int(id))
			}
			sort.Ints(out)
			return out, nil
		}
		d := ring.NewDesc()
		ids := append([]int(nil), ct.Mem...)
		sort.Ints(ids)
		for _, id := range ids {
			d.Ingesters[instName(id)] = ring.InstanceDesc{Id: instName(id), Addr: instName(id), Timestamp: 1000, State: ring.ACTIVE,
				Tokens: append([]uint32(nil), toks[id-1]...), Zone: zoneNames[c.C.Zone[id-1]], RegisteredTimestamp: ct.Reg[id-1],
				ReadOnly: ct.RO[id-1], ReadOnlyUpdatedTimestamp: ct.Rots[id-1]}
		}
		r, stop, err := abs.NewRing(d, ringCfg(c.C.ZA, true))
		if err != nil {
			return nil, err
		}
		defer stop()
		var sub ring.ReadRing
		if L == 0 {
			sub = r.ShuffleShard(tenant, size)
		} else {
			sub = r.ShuffleShardWithLookback(tenant, size, time.Duration(L)*time.Second, time.Unix(now, 250e6))
		}
		m, _ := membersOf(sub, ids)
		return m, nil
	}
	same := func(what string, ct cexContent, size, L int, now int64, model []int) string {
		got, err := answer(ct, size, L, now)
		if err != nil {
			return what + ": " + err.Error()
		}
		if !sameSet(got, model) {
			return fmt.Sprintf("%s: the real code answers %v, the model %v", what, got, model)
		}
		return ""
	}
	cur := c.C.cexContent
	sh := func(size int) []int { return c.Shards[strconv.Itoa(size)] }
	var diffs []string
	add := func(s string) {
		if s != "" {
			diffs = append(diffs, s)
		}
	}
	switch c.Cex {
	case "SizeFormula", "NoReadOnly", "PSizeFormula":
		add(same("shard", cur, c.Info.Size, 0, c.Now, sh(c.Info.Size)))
	case "Monotone", "PMonotone":
		add(same("shard(a)", cur, c.Info.Size, 0, c.Now, sh(c.Info.Size)))
		add(same("shard(b)", cur, c.Info.Size2, 0, c.Now, sh(c.Info.Size2)))
	case "Consistency":
		add(same("shard", cur, c.Info.Size, 0, c.Now, sh(c.Info.Size)))
		w := cur
		w.Mem = nil
		for _, id := range cur.Mem {
			if id != c.Info.Without {
				w.Mem = append(w.Mem, id)
			}
		}
		add(same("shard without the instance", w, c.Info.Size, 0, c.Now, c.Info.Other))
	case "PConsistency":
		add(same("shard", cur, c.Info.Size, 0, c.Now, sh(c.Info.Size)))
		if c.Info.C == nil {
			return "counterexample without the neighbouring ring", false, detail
		}
		add(same("shard of the neighbouring ring", *c.Info.C, c.Info.Size, 0, c.Now, c.Info.Other))
	case "LookbackSuperset", "PLookbackSuperset":
		add(same("look-back answer", cur, c.Info.Size, c.Info.L, c.Now, c.Info.LB))
		for v, h := range c.Info.Hist {
			if h.To != 0 && h.To < c.Now-int64(c.Info.L) {
				continue
			}
			add(same(fmt.Sprintf("shard of version %d", v+1), h.C, c.Info.Size, 0, c.Now, h.Sh[strconv.Itoa(c.Info.Size)]))
		}
	default:
		return "unknown clause " + c.Cex, false, detail
	}
	if len(diffs) > 0 {
		return fmt.Sprintf("tenant %q: %v", tenant, diffs), false, detail
	}
	return "", true, detail
}
