CONSTANTS
  Modes = {"route"}
  NK = 7
  Gaps = {0, 2, 4, 6}
  NRoute = 3
  MaxTok = 2
  NRepl = 1
  NOwnRepl = 1
  StatesRepl = {"ACTIVE"}
  AgesRepl = {2}
  NMulti = 1
  NOwnMulti = 1
  StatesMulti = {"ACTIVE"}
  AgesMulti = {2}
  IdxMulti = {1, 2}
  T = 2
INIT Init
NEXT Next
INVARIANTS RoutingTotal SnapshotSound ReplExact MultiSound Emit
CHECK_DEADLOCK FALSE
