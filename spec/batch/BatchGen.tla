------------------------------ MODULE BatchGen ------------------------------
(***************************************************************************)
(* C10, spec -> code.  The specification Batch run as a case generator:    *)
(* with Gate = TRUE the environment (callbacks returning, yield points     *)
(* being passed, the context ending) moves only in quiescent states, which *)
(* is what a test driver can do with the real code, and with Record = TRUE *)
(* every environment step is kept together with what is observable at the  *)
(* following quiescent point.  The invariant Emit of Batch prints every    *)
(* complete behaviour once (MC_gen_*.cfg); all property invariants are     *)
(* checked on these runs as well.  Nothing is redefined here: the module   *)
(* exists so that generator runs and model-checking runs of a check can    *)
(* proceed side by side in separate scratch directories.                   *)
(***************************************************************************)
EXTENDS Batch
=============================================================================
