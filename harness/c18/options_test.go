package c18

// Replays the registration sequences enumerated by spec/modules/ModuleOptions.tla on the real
// modules.Manager and compares IsModuleRegistered / IsUserVisibleModule / IsTargetableModule /
// UserVisibleModuleNames with the specification's answers.

import (
	"encoding/json"
	"fmt"
	"os"
	"testing"

	"github.com/go-kit/log"

	"verifharness/internal/abs"

	"github.com/grafana/dskit/modules"
)

type optCase struct {
	Calls      []json.RawMessage `json:"calls"` // [m, [options...]]
	Registered []bool            `json:"registered"`
	Visible    []bool            `json:"visible"`
	Targetable []bool            `json:"targetable"`
	Names      []int             `json:"names"`
}

func register(mm *modules.Manager, m int, opts []string) error {
	inv, tgt := modules.UserInvisibleModule, modules.UserInvisibleTargetableModule
	name := modName(m)
	switch fmt.Sprint(opts) {
	case "[]":
		mm.RegisterModule(name, nil)
	case "[inv]":
		mm.RegisterModule(name, nil, inv)
	case "[invtgt]":
		mm.RegisterModule(name, nil, tgt)
	case "[inv inv]":
		mm.RegisterModule(name, nil, inv, inv)
	case "[inv invtgt]":
		mm.RegisterModule(name, nil, inv, tgt)
	case "[invtgt inv]":
		mm.RegisterModule(name, nil, tgt, inv)
	case "[invtgt invtgt]":
		mm.RegisterModule(name, nil, tgt, tgt)
	default:
		return fmt.Errorf("unknown option sequence %v", opts)
	}
	return nil
}

func TestOptions(t *testing.T) {
	in := os.Getenv("VERIF_IN")
	if in == "" {
		t.Skip("VERIF_IN not set")
	}
	res := &abs.Result{}
	err := abs.ReadNDJSON(in, func(line []byte) error {
		var c optCase
		if err := json.Unmarshal(line, &c); err != nil {
			return err
		}
		res.Cases++
		mm := modules.NewManager(log.NewNopLogger())
		withOptions := false
		for _, raw := range c.Calls {
			var call []json.RawMessage
			var m int
			var opts []string
			if err := json.Unmarshal(raw, &call); err != nil || len(call) != 2 {
				return fmt.Errorf("bad call %s", raw)
			}
			if err := json.Unmarshal(call[0], &m); err != nil {
				return err
			}
			if err := json.Unmarshal(call[1], &opts); err != nil {
				return err
			}
			withOptions = withOptions || len(opts) > 0
			if err := register(mm, m, opts); err != nil {
				return err
			}
		}
		if withOptions {
			res.Nontrivial++
		}
		n := len(c.Registered)
		got := optCase{Registered: make([]bool, n), Visible: make([]bool, n), Targetable: make([]bool, n), Names: numbers(mm.UserVisibleModuleNames())}
		bad := ""
		for m := 1; m <= n; m++ {
			got.Registered[m-1] = mm.IsModuleRegistered(modName(m))
			got.Visible[m-1] = mm.IsUserVisibleModule(modName(m))
			got.Targetable[m-1] = mm.IsTargetableModule(modName(m))
			switch {
			case got.Registered[m-1] != c.Registered[m-1]:
				bad = "IsModuleRegistered"
			case got.Visible[m-1] != c.Visible[m-1]:
				bad = "IsUserVisibleModule"
			case got.Targetable[m-1] != c.Targetable[m-1]:
				bad = "IsTargetableModule"
			}
		}
		if bad == "" && !equalInts(got.Names, c.Names) {
			bad = "UserVisibleModuleNames"
		}
		if bad != "" {
			res.Mismatch(abs.Mismatch{Sig: "options:" + bad, Case: c.Calls, Got: got, Want: c})
		}
		if res.Cases%1999 == 1 {
			res.Sample(c)
		}
		return nil
	})
	if err != nil {
		res.Fatal = err.Error()
	}
	res.Write(t)
}
