\* C20 observation: only validated Set calls - the documented Metadata invariant holds.
CONSTANTS
  GoodKeys <- GoodKeysDef
  GoodVals <- GoodValsDef
  BadKeys <- BadKeysDef
  BadVals <- BadValsDef
  AllowUnchecked = FALSE
  MaxSets = 3
  Alphabet = {}
  MaxShort = 0
  Alphabet2 = {}
  MaxShort2 = 0
  RunBytes = {}
  RunCounts = {}
  SepBytes = {}
  MaxSegs = 0
  Pool <- PoolNone
  MaxParts = 0
  Pool2 <- PoolNone
  MaxParts2 = 0
  MetaAlphabet = {}
  MaxMeta = 0
  MetaRuns = {}
INIT MInit
NEXT MNext
INVARIANTS TypeInvariant
CHECK_DEADLOCK FALSE
