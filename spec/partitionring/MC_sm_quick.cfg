CONSTANTS
  NP = 3
  NL = 2
  NO = 2
  MaxClock = 4
  Multi = FALSE
  LCfg <- Cfg2a
  TokOf <- Tok3
INIT Init
NEXT Next
VIEW view
INVARIANTS TypeOK RoutingTotal
PROPERTIES LegalEdges LockRespected PromotionTiming DeletionGuard LockOnlyByEditor RefusedIsNoWrite
CHECK_DEADLOCK FALSE
