CONSTANTS
  Mode = "route"
  NK = 7
  Gaps = {0, 2, 4, 6}
  N = 3
  MaxTok = 2
  NOwn = 1
  IStates = {"ACTIVE"}
  T = 2
INIT Init
NEXT Next
INVARIANTS RoutingTotal ReplExact MultiSound Emit
CHECK_DEADLOCK FALSE
