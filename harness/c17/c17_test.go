// Package c17 binds spec/services/*.tla to the real dskit services package (C17).
//
// spec -> code (c17_test.go, c17_manager_test.go): TestReplay replays the behaviours of
// ServiceGated.tla / ManagerGated.tla (one per transition of the gate-granularity state graph,
// printed by TLC) on real BasicService / Manager objects inside testing/synctest: the three service
// functions, listener callbacks and services.VerifYield("StopAsync.checked") are gates the harness
// opens one at a time, everything else is an ordinary API call. After every step and
// synctest.Wait() the observable state of the real objects is compared with the observation TLC
// printed for that step.
//
// A panic inside a goroutine started by dskit (b.main, listener goroutines) cannot be recovered, so
// the replay runs in child processes (one per shard); the parent turns a crashed child into a
// mismatch for the behaviour that was running and restarts the child after it.
//
// code -> spec (c17_record_test.go): TestRecord records traces of free-running goroutines for
// ServiceTrace.tla; c17_failurewatcher_test.go probes services.FailureWatcher.
//
// Environment: VERIF_JOBS (manifest written by checks/c17.py), VERIF_OUT, VERIF_C17_SHARDS
// (number of child processes, default min(8, NumCPU/2)), VERIF_TRACE / VERIF_NTRACES (TestRecord).
package c17

import (
	"bytes"
	"context"
	"encoding/json"
	"errors"
	"fmt"
	"os"
	"os/exec"
	"regexp"
	"runtime"
	"sort"
	"strconv"
	"strings"
	"sync"
	"sync/atomic"
	"testing"
	"testing/synctest"
	"time"

	"verifharness/internal/abs"

	"github.com/grafana/dskit/services"
)

// ---------------------------------------------------------------- observations (JSON shape of ServiceGated!Obs)

type lisObs struct {
	D  [][]string `json:"d"`
	Cb bool       `json:"cb"`
	Rm string     `json:"rm"`
	St string     `json:"st"`
}

type wObs struct {
	Pc string   `json:"pc"`
	R  []string `json:"r"`
}

type obs struct {
	St     string   `json:"st"`
	Fail   string   `json:"fail"`
	Ctx    string   `json:"ctx"`
	Fns    []string `json:"fns"`
	Gate   string   `json:"gate"`
	Sctx   string   `json:"sctx"`
	Sarg   string   `json:"sarg"`
	Starts []string `json:"starts"`
	Pan    int      `json:"pan"`
	It     int      `json:"it"`
	Spc    []string `json:"spc"`
	Lis    []lisObs `json:"lis"`
	W      []wObs   `json:"w"`
}

type step struct {
	Label string
	Arg   string // "none"/"estart"/... or decimal index
	Set   []string
}

func (s step) String() string { return s.Label + ":" + s.Arg }

func (s step) idx() int { n, _ := strconv.Atoi(s.Arg); return n }

func parseStep(raw json.RawMessage) (step, error) {
	var parts []json.RawMessage
	if err := json.Unmarshal(raw, &parts); err != nil || len(parts) != 2 {
		return step{}, fmt.Errorf("bad step %s", raw)
	}
	var st step
	if err := json.Unmarshal(parts[0], &st.Label); err != nil {
		return st, err
	}
	var s string
	var n int
	switch {
	case json.Unmarshal(parts[1], &s) == nil:
		st.Arg = s
	case json.Unmarshal(parts[1], &n) == nil:
		st.Arg = strconv.Itoa(n)
	case json.Unmarshal(parts[1], &st.Set) == nil:
		sort.Strings(st.Set)
		st.Arg = strings.Join(st.Set, "+")
	default:
		return st, fmt.Errorf("bad step argument %s", parts[1])
	}
	return st, nil
}

// ---------------------------------------------------------------- the gated service

var (
	errStart = errors.New("estart")
	errRun   = errors.New("erun")
	errStop  = errors.New("estop")
)

func errOf(name string) error {
	switch name {
	case "estart":
		return errStart
	case "erun":
		return errRun
	case "estop":
		return errStop
	}
	return nil
}

func nameOf(err error) string {
	switch {
	case err == nil:
		return "none"
	case errors.Is(err, errStart):
		return "estart"
	case errors.Is(err, errRun):
		return "erun"
	case errors.Is(err, errStop):
		return "estop"
	}
	return "?" + err.Error()
}

var invalidStateRe = regexp.MustCompile(`^invalid service state: (\w+), expected: (\w+)(?:, failure: (.*))?$`)

type gatedListener struct {
	h    *svcHarness
	i    int
	log  [][]string
	in   int // callbacks currently executing
	gate chan struct{}
}

func (l *gatedListener) ev(to, from, e string) {
	l.in++
	if l.in > 1 {
		l.h.problems = append(l.h.problems, fmt.Sprintf("listener %d: two callbacks at once", l.i+1))
	}
	l.log = append(l.log, []string{to, from, e})
	<-l.gate
	l.in--
}
func (l *gatedListener) Starting()                      { l.ev("Starting", "New", "none") }
func (l *gatedListener) Running()                       { l.ev("Running", "Starting", "none") }
func (l *gatedListener) Stopping(from services.State)   { l.ev("Stopping", from.String(), "none") }
func (l *gatedListener) Terminated(from services.State) { l.ev("Terminated", from.String(), "none") }
func (l *gatedListener) Failed(from services.State, e error) {
	l.ev("Failed", from.String(), nameOf(e))
}

type svcHarness struct {
	mode    string // any | idle | timer
	svc     *services.BasicService
	parent  context.Context
	pcancel context.CancelFunc

	fnGate map[string]chan string
	inGate string
	fnlog  []string
	sctx   string
	sarg   string
	iters  int

	starts []string

	nc           int
	cur          int // caller whose StopAsync is running towards the yield point
	parked       []bool
	stopDone     []bool
	stopPanicked []bool
	yield        []chan struct{}
	panics       []string
	free         bool

	lis    []*gatedListener
	rm     []func()
	rmCall []bool
	rmDone []bool

	wrun    map[int]bool
	wcancel []context.CancelFunc
	wctx    []context.Context
	wcalled []bool
	wres    [][]string

	problems []string

	inStartAsync atomic.Bool
	inProbe      atomic.Bool
	nprobes      int
	probeMu      sync.Mutex
	probes       []probeObs
}

// probeObs is what an observer goroutine that overlaps a StartAsync call saw (State, then ServiceContext, then
// FailureCase). The observer is started from the Done method of the parent context handed to StartAsync, i.e. at
// the point where StartAsync derives the service context - the only place where the code under test calls back
// into its caller while it is inside a critical section.
type probeObs struct {
	St     string `json:"st"`
	Ctx    string `json:"ctx"`
	Fail   string `json:"fail"`
	Inside bool   `json:"inside"` // the observer finished before the Done method returned
}

// probeCtx is the parent context of the replayed services: an ordinary cancellable context whose Done method,
// when called from inside StartAsync, lets a concurrent observer of the service run.
type probeCtx struct {
	context.Context
	h *svcHarness
}

func (p *probeCtx) Done() <-chan struct{} {
	h := p.h
	if h.inStartAsync.CompareAndSwap(true, false) {
		var done atomic.Bool
		go func() {
			o := probeObs{St: h.svc.State().String(), Ctx: "nil"}
			if c := h.svc.ServiceContext(); c != nil {
				o.Ctx = "live"
				if c.Err() != nil {
					o.Ctx = "done"
				}
			}
			o.Fail = nameOf(h.svc.FailureCase())
			o.Inside = h.inProbe.Load()
			h.probeMu.Lock()
			h.probes = append(h.probes, o)
			h.probeMu.Unlock()
			done.Store(true)
		}()
		// hand the processor to the observer; if StartAsync holds the service lock here (as the specification's
		// single critical section says) the observer blocks on it and runs once StartAsync has finished
		h.inProbe.Store(true)
		for i := 0; i < 32 && !done.Load(); i++ {
			runtime.Gosched()
		}
		h.inProbe.Store(false)
	}
	return p.Context.Done()
}

// probeIssues checks what the observers saw against the invariant ContextOnceStarted of Service.tla (TLC checks it on
// every configuration): a service that is observably Starting/Running/Stopping/Failed has a service context.
func (h *svcHarness) probeIssues() (bad []probeObs) {
	h.probeMu.Lock()
	defer h.probeMu.Unlock()
	for _, o := range h.probes {
		if o.Ctx == "nil" && o.St != "New" && o.St != "Terminated" {
			bad = append(bad, o)
		}
	}
	h.nprobes += len(h.probes)
	h.probes = nil
	return bad
}

func has(set []string, x string) bool {
	for _, s := range set {
		if s == x {
			return true
		}
	}
	return false
}

func newSvcHarness(mode string, present []string, nc, nl int, wrun, wterm []int) *svcHarness {
	h := &svcHarness{mode: mode, nc: nc, sctx: "na", sarg: "na"}
	h.parent, h.pcancel = context.WithCancel(context.Background())
	h.fnGate = map[string]chan string{"start": make(chan string), "run": make(chan string), "stop": make(chan string), "iter": make(chan string)}
	var startFn services.StartingFn
	var runFn services.RunningFn
	var stopFn services.StoppingFn
	if has(present, "start") {
		startFn = func(ctx context.Context) error {
			h.fnlog = append(h.fnlog, "start")
			h.inGate = "start"
			e := <-h.fnGate["start"]
			h.inGate = "none"
			return errOf(e)
		}
	}
	if has(present, "run") {
		runFn = func(ctx context.Context) error {
			h.fnlog = append(h.fnlog, "run")
			h.inGate = "run"
			e := <-h.fnGate["run"]
			h.inGate = "none"
			return errOf(e)
		}
	}
	if has(present, "stop") {
		stopFn = func(failure error) error {
			h.fnlog = append(h.fnlog, "stop")
			h.sctx = "live"
			if c := h.svc.ServiceContext(); c != nil && c.Err() != nil {
				h.sctx = "done"
			}
			h.sarg = nameOf(failure)
			h.inGate = "stop"
			e := <-h.fnGate["stop"]
			h.inGate = "none"
			return errOf(e)
		}
	}
	switch mode {
	case "idle":
		h.svc = services.NewIdleService(startFn, stopFn)
	case "timer":
		// the REAL run loop of NewTimerService under the bubble clock; its iteration function is a gate
		h.svc = services.NewTimerService(time.Second, startFn, func(ctx context.Context) error {
			h.iters++
			h.inGate = "iter"
			e := <-h.fnGate["iter"]
			h.inGate = "none"
			return errOf(e)
		}, stopFn)
	default:
		h.svc = services.NewBasicService(startFn, runFn, stopFn)
	}
	h.inGate = "none"
	h.parked = make([]bool, nc)
	h.stopDone = make([]bool, nc)
	h.stopPanicked = make([]bool, nc)
	h.yield = make([]chan struct{}, nc)
	for i := range h.yield {
		h.yield[i] = make(chan struct{})
	}
	for i := 0; i < nl; i++ {
		h.lis = append(h.lis, &gatedListener{h: h, i: i, gate: make(chan struct{})})
	}
	h.rm = make([]func(), nl)
	h.rmCall = make([]bool, nl)
	h.rmDone = make([]bool, nl)
	nw := len(wrun) + len(wterm)
	h.wrun = map[int]bool{}
	for _, w := range wrun {
		h.wrun[w-1] = true
	}
	h.wcancel = make([]context.CancelFunc, nw)
	h.wctx = make([]context.Context, nw)
	h.wcalled = make([]bool, nw)
	h.wres = make([][]string, nw)
	for i := 0; i < nw; i++ {
		h.wctx[i], h.wcancel[i] = context.WithCancel(context.Background())
	}
	return h
}

// yieldHook is installed as services.VerifYield: the goroutine that runs StopAsync parks here,
// between the state check and the state switch, until the harness releases it.
func (h *svcHarness) yieldHook(point string) {
	if point != "StopAsync.checked" || h.free {
		return
	}
	c := h.cur
	h.parked[c] = true
	<-h.yield[c]
	h.parked[c] = false
}

func (h *svcHarness) stopAsync(c int) {
	go func() {
		defer func() {
			if r := recover(); r != nil {
				h.panics = append(h.panics, fmt.Sprint(r))
				h.stopPanicked[c] = true
				h.parked[c] = false
			}
			h.stopDone[c] = true
		}()
		h.cur = c
		h.svc.StopAsync()
	}()
}

func (h *svcHarness) apply(s step) error {
	switch s.Label {
	case "StartAsync":
		h.inStartAsync.Store(true)
		err := h.svc.StartAsync(&probeCtx{Context: h.parent, h: h})
		h.inStartAsync.Store(false)
		if err == nil {
			h.starts = append(h.starts, "ok")
		} else if m := invalidStateRe.FindStringSubmatch(err.Error()); m != nil && m[2] == "New" {
			h.starts = append(h.starts, m[1])
		} else {
			h.starts = append(h.starts, "?"+err.Error())
		}
	case "ParentCancel":
		h.pcancel()
	case "StartRet":
		return sendTo(h.fnGate["start"], s.Arg, "start function")
	case "RunRet":
		return sendTo(h.fnGate["run"], s.Arg, "running function")
	case "IterRet":
		return sendTo(h.fnGate["iter"], s.Arg, "iteration function")
	case "StopRet":
		return sendTo(h.fnGate["stop"], s.Arg, "stopping function")
	case "Tick": // exactly one tick of the service's ticker: all sleeps of a replay are one interval long
		time.Sleep(time.Second)
	case "StopCall":
		h.stopAsync(s.idx() - 1)
	case "StopRelease":
		return sendTo(h.yield[s.idx()-1], struct{}{}, "StopAsync yield point")
	case "AddListener":
		l := s.idx() - 1
		h.rm[l] = h.svc.AddListener(h.lis[l])
	case "Remove":
		l := s.idx() - 1
		h.rmCall[l] = true
		go func() { h.rm[l](); h.rmDone[l] = true }()
	case "CbReturn":
		return sendTo(h.lis[s.idx()-1].gate, struct{}{}, "listener callback")
	case "Await":
		w := s.idx() - 1
		h.wcalled[w] = true
		go func() {
			var err error
			exp := "Terminated"
			if h.wrun[w] {
				exp = "Running"
				err = h.svc.AwaitRunning(h.wctx[w])
			} else {
				err = h.svc.AwaitTerminated(h.wctx[w])
			}
			switch {
			case err == nil:
				h.wres[w] = []string{"ok"}
			case h.wctx[w].Err() != nil && errors.Is(err, context.Canceled):
				h.wres[w] = []string{"ctx"}
			default:
				if m := invalidStateRe.FindStringSubmatch(err.Error()); m != nil && m[2] == exp {
					h.wres[w] = []string{m[1], nameOf(errors.Unwrap(err))}
				} else {
					h.wres[w] = []string{"?" + err.Error()}
				}
			}
		}()
	case "AwaitCancel":
		h.wcancel[s.idx()-1]()
	default:
		return fmt.Errorf("unknown step %v", s)
	}
	return nil
}

// sendTo opens a gate; the goroutine of the code must already be parked at it.
func sendTo[T any](ch chan T, v T, what string) error {
	select {
	case ch <- v:
		return nil
	default:
		return fmt.Errorf("gate-not-reached:%s", what)
	}
}

func (h *svcHarness) observe() obs {
	o := obs{St: h.svc.State().String(), Fail: nameOf(h.svc.FailureCase()), Ctx: "nil", Fns: append([]string{}, h.fnlog...),
		Gate: h.inGate, Sctx: h.sctx, Sarg: h.sarg, Starts: append([]string{}, h.starts...), Pan: len(h.panics), It: h.iters,
		Spc: []string{}, Lis: []lisObs{}, W: []wObs{}}
	if c := h.svc.ServiceContext(); c != nil {
		o.Ctx = "live"
		if c.Err() != nil {
			o.Ctx = "done"
		}
	}
	for c := 0; c < h.nc; c++ {
		switch {
		case h.stopPanicked[c]:
			o.Spc = append(o.Spc, "panicked")
		case h.stopDone[c]:
			o.Spc = append(o.Spc, "done")
		case h.parked[c]:
			o.Spc = append(o.Spc, "checked")
		default:
			o.Spc = append(o.Spc, "idle")
		}
	}
	for i, l := range h.lis {
		lo := lisObs{D: append([][]string{}, l.log...), Cb: l.in > 0, Rm: "none"}
		if h.rmDone[i] {
			lo.Rm = "done"
		} else if h.rmCall[i] {
			lo.Rm = "deleted"
		}
		o.Lis = append(o.Lis, lo)
	}
	for w := range h.wres {
		wo := wObs{Pc: "idle", R: []string{}}
		if h.wres[w] != nil {
			wo = wObs{Pc: "returned", R: h.wres[w]}
		} else if h.wcalled[w] {
			wo.Pc = "waiting"
		}
		o.W = append(o.W, wo)
	}
	return o
}

// cleanup opens every gate, stops the service and lets every goroutine of the bubble finish.
func (h *svcHarness) cleanup() string {
	h.free = true
	for _, ch := range h.fnGate {
		close(ch)
	}
	for _, l := range h.lis {
		close(l.gate)
	}
	for _, y := range h.yield {
		close(y)
	}
	for _, c := range h.wcancel {
		c()
	}
	h.pcancel()
	synctest.Wait()
	func() {
		defer func() { _ = recover() }()
		h.svc.StopAsync()
	}()
	synctest.Wait()
	if st := h.svc.State(); st != services.Terminated && st != services.Failed {
		return "service not terminal after cleanup: " + st.String()
	}
	return ""
}

// normalise removes from the demanded observation what the API cannot show.
func normalise(want obs, got *obs, mode string) obs {
	for i := range want.Lis {
		if i < len(got.Lis) {
			got.Lis[i].St = want.Lis[i].St // "nop" and "active" listeners cannot be told apart
		}
	}
	if mode != "any" { // the running function of idle/timer services belongs to dskit: no gate, no log entry
		fns := []string{}
		for _, f := range want.Fns {
			if f != "run" {
				fns = append(fns, f)
			}
		}
		want.Fns = fns
	}
	return want
}

func asJSON(v any) string { b, _ := json.Marshal(v); return string(b) }

// ---------------------------------------------------------------- trie of demanded observations

// The specification prints one line {h: labels of a path, o: observation demanded after it} per
// transition; every prefix of a printed path is printed too, so the lines form a trie.
type trie struct {
	obs      map[string]json.RawMessage
	children map[string]int
	steps    map[string][]json.RawMessage
}

type line struct {
	H []json.RawMessage `json:"h"`
	O json.RawMessage   `json:"o"`
}

func rawKey(steps []json.RawMessage) string {
	var b strings.Builder
	for _, s := range steps {
		b.Write(s)
		b.WriteByte('/')
	}
	return b.String()
}

func loadTrie(path string) (*trie, []string, error) {
	tr := &trie{obs: map[string]json.RawMessage{}, children: map[string]int{}, steps: map[string][]json.RawMessage{}}
	err := abs.ReadNDJSON(path, func(b []byte) error {
		var ln line
		if err := json.Unmarshal(b, &ln); err != nil {
			return err
		}
		k := rawKey(ln.H)
		if _, dup := tr.obs[k]; !dup {
			tr.obs[k] = ln.O
			tr.steps[k] = ln.H
			if len(ln.H) > 1 {
				tr.children[rawKey(ln.H[:len(ln.H)-1])]++
			}
		}
		return nil
	})
	if err != nil {
		return nil, nil, err
	}
	var leaves []string
	for k := range tr.obs {
		if tr.children[k] == 0 {
			leaves = append(leaves, k)
		}
	}
	sort.Strings(leaves)
	return tr, leaves, nil
}

// job is one entry of the manifest $VERIF_JOBS: a file of specification output and the constants it was produced with.
type job struct {
	Kind  string `json:"kind"` // service | manager
	Name  string `json:"name"`
	In    string `json:"in"`
	NC    int    `json:"nc"`
	NL    int    `json:"nl"`
	WRun  []int  `json:"wrun"`
	WTerm []int  `json:"wterm"`
	NS    int    `json:"ns"`
	NML   int    `json:"nml"`
	WH    []int  `json:"wh"`
	WS    []int  `json:"ws"`
}

type replayCfg struct {
	name        string
	mode        string
	nc, nl      int
	wrun, wterm []int
}

// F4Sig is the class of the known nil-serviceCancel panic.
const F4Sig = "StopAsync:nil-cancel-after-lost-New->Terminated-race"

func panicSig(msg string) string {
	if strings.Contains(msg, "nil pointer dereference") || strings.Contains(msg, "invalid memory address") {
		return F4Sig
	}
	return "StopAsync:panic:" + msg
}

// replayOne runs one behaviour on a real service; it returns the mismatches it found.
func replayOne(t *testing.T, tr *trie, leaf string, rc replayCfg) (mis []abs.Mismatch, nontrivial bool) {
	raws := tr.steps[leaf]
	steps := make([]step, len(raws))
	for i, r := range raws {
		st, err := parseStep(r)
		if err != nil {
			return []abs.Mismatch{{Sig: "harness:bad-step", Case: string(r), Note: err.Error()}}, false
		}
		steps[i] = st
	}
	var present []string
	for _, x := range steps[0].Set {
		if strings.HasPrefix(x, "mode=") {
			rc.mode = strings.TrimPrefix(x, "mode=")
		} else {
			present = append(present, x)
		}
	}
	report := func(sig string, upto int, got, want any, note string) {
		var labels []string
		for _, s := range steps[:upto+1] {
			labels = append(labels, s.String())
		}
		mis = append(mis, abs.Mismatch{Sig: sig, Case: map[string]any{"job": rc.name, "mode": rc.mode, "steps": labels}, Got: got, Want: want, Note: note})
	}
	synctest.Test(t, func(t *testing.T) {
		h := newSvcHarness(rc.mode, present, rc.nc, rc.nl, rc.wrun, rc.wterm)
		services.VerifYield = h.yieldHook
		defer func() { services.VerifYield = nil }()
		seenPanics := 0
		countedGuard := map[int]bool{}
		for i, s := range steps {
			if i > 0 {
				if err := h.apply(s); err != nil {
					report("harness:"+err.Error(), i, nil, nil, "")
					break
				}
			}
			synctest.Wait()
			got := h.observe()
			if got.St != "New" {
				nontrivial = true
			}
			for _, p := range h.probeIssues() {
				report("probe:ServiceContext-nil-in-"+p.St+"-during-StartAsync", i, p, "a service context once the service is observably "+p.St+
					" (Service.tla: ContextOnceStarted; StartAsync is one critical section)", "observer overlapping "+s.String())
			}
			for ; seenPanics < len(h.panics); seenPanics++ {
				// the property says StopAsync never panics: reported whatever the specification variant says
				report(panicSig(h.panics[seenPanics]), i, "panic: "+h.panics[seenPanics], "StopAsync returns", "panic in "+s.String())
			}
			rawWant, ok := tr.obs[rawKey(raws[:i+1])]
			if !ok {
				continue
			}
			var want obs
			if err := json.Unmarshal(rawWant, &want); err != nil {
				report("harness:bad-observation", i, string(rawWant), nil, err.Error())
				break
			}
			want = normalise(want, &got, rc.mode)
			// The two variants of StopAsync (GuardNilCancel) differ only in whether the loser of the
			// New->Terminated race panics; whichever the code does, the rest must agree. A panic is
			// reported above in any case; a modelled nil call that did not panic is only counted.
			for c := range want.Spc {
				if c < len(got.Spc) && want.Spc[c] == "panicked" && got.Spc[c] == "done" {
					got.Spc[c] = "panicked"
					got.Pan++
					if !countedGuard[c] {
						countedGuard[c] = true
						guardedNilCalls++
					}
				} else if c < len(got.Spc) && want.Spc[c] == "done" && got.Spc[c] == "panicked" {
					got.Spc[c] = "done"
					got.Pan--
				}
			}
			if asJSON(got) != asJSON(want) {
				report("obs:"+diffFields(got, want)+" after "+s.Label, i, got, want, "")
				break
			}
		}
		if len(h.problems) > 0 {
			report("listener:"+h.problems[0], len(steps)-1, h.problems, nil, "")
		}
		if msg := h.cleanup(); msg != "" {
			report("cleanup:"+msg, len(steps)-1, msg, nil, "")
		}
	})
	return mis, nontrivial
}

func diffFields(got, want obs) string {
	var g, w map[string]json.RawMessage
	_ = json.Unmarshal([]byte(asJSON(got)), &g)
	_ = json.Unmarshal([]byte(asJSON(want)), &w)
	var d []string
	for k := range w {
		if !bytes.Equal(g[k], w[k]) {
			d = append(d, k)
		}
	}
	sort.Strings(d)
	return strings.Join(d, ",")
}

// ---------------------------------------------------------------- parent / child

// guardedNilCalls counts steps where the specification variant GuardNilCancel = FALSE models a call of
// the nil serviceCancel and the code did not panic (the code implements the guarded variant).
var guardedNilCalls int

// Progress of a child: one fixed-size line rewritten in place before every behaviour.
//
//	next cases nontrivial guarded total done
type childState struct {
	Next, Cases, Nontrivial, Guarded, Total, Done int
}

const stateLen = 96

func (st childState) write(f *os.File) {
	line := fmt.Sprintf("%d %d %d %d %d %d", st.Next, st.Cases, st.Nontrivial, st.Guarded, st.Total, st.Done)
	b := []byte(line + strings.Repeat(" ", stateLen-1-len(line)) + "\n")
	_, _ = f.WriteAt(b, 0)
}

func readState(path string) (childState, error) {
	var st childState
	b, err := os.ReadFile(path)
	if err != nil {
		return st, err
	}
	_, err = fmt.Sscan(string(b), &st.Next, &st.Cases, &st.Nontrivial, &st.Guarded, &st.Total, &st.Done)
	return st, err
}

type shardResult struct {
	cases, nontrivial, guarded int
	mis                        []abs.Mismatch
	fatal                      string
	crashLimit                 bool
}

// runShard runs the children of one shard (behaviours with index = shard mod nshards) to completion.
func runShard(childTest string, shard, nshards int, dir string) (out shardResult) {
	statePath := fmt.Sprintf("%s/state%d", dir, shard)
	misPath := fmt.Sprintf("%s/mis%d.ndjson", dir, shard)
	from, crashes := 0, 0
	for {
		cmd := exec.Command(os.Args[0], "-test.run", "^"+childTest+"$", "-test.count=1", "-test.timeout=6000s")
		cmd.Env = append(os.Environ(), "VERIF_CHILD_FROM="+strconv.Itoa(from), "VERIF_CHILD_STATE="+statePath, "VERIF_CHILD_MIS="+misPath,
			fmt.Sprintf("VERIF_CHILD_SHARD=%d/%d", shard, nshards))
		var buf bytes.Buffer
		cmd.Stdout, cmd.Stderr = &buf, &buf
		runErr := cmd.Run()
		st, err := readState(statePath)
		if err != nil {
			out.fatal = "child wrote no state: " + tail(buf.String(), 1500)
			return
		}
		if b, err := os.ReadFile(misPath); err == nil {
			for _, ln := range bytes.Split(b, []byte("\n")) {
				var m abs.Mismatch
				if len(ln) > 0 && json.Unmarshal(ln, &m) == nil {
					out.mis = append(out.mis, m)
				}
			}
			_ = os.Remove(misPath)
		}
		out.cases += st.Cases
		out.nontrivial += st.Nontrivial
		out.guarded += st.Guarded
		if st.Done == 1 && runErr == nil {
			return
		}
		if st.Done == 1 {
			out.fatal = "child failed after finishing: " + tail(buf.String(), 1500)
			return
		}
		// the child died while replaying behaviour st.Next
		crashes++
		msg := crashLine(buf.String())
		if msg == "" {
			out.fatal = "child died without a panic message: " + tail(buf.String(), 1500)
			return
		}
		desc := exec.Command(os.Args[0], "-test.run", "^"+childTest+"$", "-test.count=1")
		desc.Env = append(os.Environ(), "VERIF_CHILD_DESCRIBE="+strconv.Itoa(st.Next), "VERIF_CHILD_STATE="+statePath+".desc")
		_ = desc.Run()
		var cur any
		if b, err := os.ReadFile(statePath + ".desc"); err == nil {
			_ = json.Unmarshal(b, &cur)
		}
		out.cases++
		out.mis = append(out.mis, abs.Mismatch{Sig: "crash:" + msg, Case: cur, Got: tail(buf.String(), 1200), Want: "no panic",
			Note: "the process running the real code died while replaying this behaviour"})
		if crashes >= 3 {
			out.crashLimit = true
			return
		}
		from = st.Next + 1
		if from >= st.Total {
			return
		}
	}
}

func runChildLoop(t *testing.T, childTest string, res *abs.Result) {
	dir, err := os.MkdirTemp("", "c17child")
	if err != nil {
		res.Fatal = err.Error()
		return
	}
	defer os.RemoveAll(dir)
	nshards := abs.EnvInt("VERIF_C17_SHARDS", 0)
	if nshards <= 0 {
		nshards = runtime.NumCPU() / 2
		if nshards > 8 {
			nshards = 8
		}
		if nshards < 1 {
			nshards = 1
		}
	}
	outs := make([]shardResult, nshards)
	var wg sync.WaitGroup
	for k := 0; k < nshards; k++ {
		wg.Add(1)
		go func(k int) {
			defer wg.Done()
			outs[k] = runShard(childTest, k, nshards, dir)
		}(k)
	}
	wg.Wait()
	guarded := 0
	for _, o := range outs { // merged in shard order: deterministic
		res.Cases += o.cases
		res.Nontrivial += o.nontrivial
		guarded += o.guarded
		for _, m := range o.mis {
			res.Mismatch(m)
		}
		if o.fatal != "" && res.Fatal == "" {
			res.Fatal = o.fatal
		}
		if o.crashLimit {
			res.AddExtra("crash_limit_reached", true)
		}
	}
	res.AddExtra("guarded_nil_calls", guarded)
}

func tail(s string, n int) string {
	if len(s) > n {
		return s[len(s)-n:]
	}
	return s
}

var goroutineRe = regexp.MustCompile(`services\.\(\*(\w+)\)\.(\w+)`)

func crashLine(out string) string {
	for _, ln := range strings.Split(out, "\n") {
		if strings.HasPrefix(ln, "panic: ") || strings.HasPrefix(ln, "fatal error: ") {
			msg := strings.TrimSpace(ln)
			if i := strings.Index(msg, " [recovered]"); i > 0 {
				msg = msg[:i]
			}
			rest := out[strings.Index(out, ln):]
			if m := goroutineRe.FindStringSubmatch(rest); m != nil {
				msg += " in " + m[1] + "." + m[2]
			}
			if len(msg) > 160 {
				msg = msg[:160]
			}
			return msg
		}
	}
	return ""
}

// childRun replays the behaviours of this child's shard, starting at index VERIF_CHILD_FROM.
func childRun(t *testing.T, n int, describe func(i int) any, each func(i int) (mis []abs.Mismatch, nontrivial bool)) {
	statePath := os.Getenv("VERIF_CHILD_STATE")
	if d := os.Getenv("VERIF_CHILD_DESCRIBE"); d != "" {
		i, _ := strconv.Atoi(d)
		b, _ := json.Marshal(describe(i))
		_ = os.WriteFile(statePath, b, 0o644)
		return
	}
	shard, nshards := 0, 1
	_, _ = fmt.Sscanf(os.Getenv("VERIF_CHILD_SHARD"), "%d/%d", &shard, &nshards)
	from := abs.EnvInt("VERIF_CHILD_FROM", 0)
	sf, err := os.OpenFile(statePath, os.O_CREATE|os.O_RDWR|os.O_TRUNC, 0o644)
	if err != nil {
		t.Fatal(err)
	}
	defer sf.Close()
	st := childState{Next: from, Total: n}
	st.write(sf)
	var misf *os.File
	for i := from; i < n; i++ {
		if i%nshards != shard {
			continue
		}
		st.Next = i
		st.write(sf)
		mis, nt := each(i)
		st.Cases++
		st.Guarded = guardedNilCalls
		if nt {
			st.Nontrivial++
		}
		for _, m := range mis {
			if misf == nil {
				misf, _ = os.OpenFile(os.Getenv("VERIF_CHILD_MIS"), os.O_CREATE|os.O_APPEND|os.O_WRONLY, 0o644)
			}
			b, _ := json.Marshal(m)
			_, _ = misf.Write(append(b, '\n'))
		}
	}
	if misf != nil {
		misf.Close()
	}
	st.Done = 1
	st.Next = n
	st.write(sf)
}

// TestReplay: $VERIF_JOBS names a JSON manifest of jobs; each job's input holds the lines
// {h: path labels, o: demanded observation} printed by ServiceGated.tla / ManagerGated.tla.
func TestReplay(t *testing.T) {
	res := &abs.Result{}
	defer res.Write(t)
	if os.Getenv("VERIF_JOBS") == "" {
		res.Fatal = "VERIF_JOBS not set"
		return
	}
	runChildLoop(t, "TestReplayChild", res)
}

func TestReplayChild(t *testing.T) {
	if os.Getenv("VERIF_CHILD_STATE") == "" {
		t.Skip("child of TestReplay")
	}
	var jobs []job
	b, err := os.ReadFile(os.Getenv("VERIF_JOBS"))
	if err != nil {
		t.Fatal(err)
	}
	if err := json.Unmarshal(b, &jobs); err != nil {
		t.Fatal(err)
	}
	type unit struct {
		j    int
		leaf string
	}
	var units []unit
	tries := make([]*trie, len(jobs))
	for j, jb := range jobs {
		tr, leaves, err := loadTrie(jb.In)
		if err != nil {
			t.Fatalf("%s: %v", jb.In, err)
		}
		tries[j] = tr
		for _, l := range leaves {
			units = append(units, unit{j, l})
		}
	}
	childRun(t, len(units),
		func(i int) any {
			return map[string]any{"job": jobs[units[i].j].Name, "steps": tries[units[i].j].steps[units[i].leaf]}
		},
		func(i int) ([]abs.Mismatch, bool) {
			u := units[i]
			jb := jobs[u.j]
			if jb.Kind == "manager" {
				return replayManager(t, tries[u.j], u.leaf, jb)
			}
			if jb.Kind == "fw" {
				return replayFW(t, tries[u.j], u.leaf, jb)
			}
			return replayOne(t, tries[u.j], u.leaf, replayCfg{name: jb.Name, mode: "any", nc: jb.NC, nl: jb.NL, wrun: jb.WRun, wterm: jb.WTerm})
		})
}
