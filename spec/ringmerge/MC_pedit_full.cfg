\* C03 partition ring, thorough: the same over all partition states, full lock register, writer clocks 1..3 (1 = a writer whose clock is behind)
CONSTANTS
  NP = 1
  NO = 1
  NOwned = 2
  TsSet = {1, 2}
  PStates = {"Pending", "Active", "Inactive"}
  LockTs = {0, 1, 2}
  Lim2Set = {0, 1, 2, 3, 4, 5}
  NowSet = {1, 2, 3}
  NSlices = 1
  Slice = 0
INIT Init
NEXT Next
INVARIANTS SeedLawsLight CaseLaws CaseContract EmitGC EmitEdit
CHECK_DEADLOCK FALSE
