CONSTANTS N = 4
  Dups = FALSE
  Wrong = "@@WRONG@@"
INIT Init
NEXT Next
INVARIANTS PickInList OrderInsensitive AppendStable
CHECK_DEADLOCK FALSE
