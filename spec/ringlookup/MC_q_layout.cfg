\* q_layout: token layouts: <=3 instances x <=2 tokens on 4 positions (0,1 | gap | 2^32-2,2^32-1), 1 tokenless, zones 0..2, ACTIVE/JOINING
\* (generated from UNIVERSES in checks/ringlookup_common.py: python3 checks/ringlookup_common.py --write-cfgs)
CONSTANTS
  NK = 5
  Gaps = {2}
  N = 3
  MaxTok = 2
  MaxIdle = 1
  Z = 2
  StateSet = {"ACTIVE", "JOINING"}
  HbSet = {"edge"}
  RFMax = 3
  Canon = 2
  WithRemove = FALSE
  Excl = {}
  EmitOn = TRUE
  EmitSets = FALSE
  XMax = 0
INIT Init
NEXT Next
VIEW View
INVARIANTS TypeOK SizeOK ZoneOK ClockwiseFirst SlackExact WalkDefsAgree QuorumIntersection ExpandedOK Emit
PROPERTIES MinimalDisruption
CHECK_DEADLOCK FALSE
