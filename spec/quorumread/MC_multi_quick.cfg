CONSTANTS
  Shapes <- ShapesQuick
INIT Init
NEXT NextD
INVARIANTS TypeOK OnlySuccessful QuorumBacked ErrWhenExceeded AtMostOneCall CleanupSafe CleanupExactlyOnce UnusedCancelled ReturnedNotCancelled
CHECK_DEADLOCK TRUE
