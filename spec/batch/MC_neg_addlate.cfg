CONSTANTS
  MinKeys = 0
  MaxKeys = 2
  NI = 2
  MaxRF = 2
  Shape = "any"
  Grain = "call"
  Gate = FALSE
  EmptyFix = TRUE
  AllowCancel = TRUE
  EarlyExits = TRUE
  MaxConc = 3
  Spawn = "deferred-addlate"
  Record = FALSE
SPECIFICATION Spec
INVARIANTS TypeOK CleanupAfterAll
CHECK_DEADLOCK TRUE
