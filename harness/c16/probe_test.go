package c16

import (
	"fmt"
	"testing"
	"time"
	_ "unsafe"

	"github.com/grafana/dskit/ring"
)

//go:linkname generateTokensByInstanceID github.com/grafana/dskit/ring.(*SpreadMinimizingTokenGenerator).generateTokensByInstanceID
func generateTokensByInstanceID(t *ring.SpreadMinimizingTokenGenerator) (map[int]ring.Tokens, error)

func TestProbe(t *testing.T) {
	func() {
		defer func() { fmt.Println("recover:", recover()) }()
		g := ring.NewSpreadMinimizingTokenGeneratorForInstanceAndZoneID("x-", 3, 1, false)
		out := g.GenerateTokens(-1, nil)
		fmt.Println("out", len(out), out == nil)
	}()
	for _, n := range []int{10, 100, 1000, 2000} {
		t0 := time.Now()
		g := ring.NewSpreadMinimizingTokenGeneratorForInstanceAndZoneID("x-", n, 1, false)
		out := g.GenerateTokens(512, nil)
		fmt.Println(n, len(out), time.Since(t0))
		t0 = time.Now()
		m, err := generateTokensByInstanceID(g)
		fmt.Println(n, len(m), err, time.Since(t0))
	}
}
