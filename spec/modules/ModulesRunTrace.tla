-------------------------- MODULE ModulesRunTrace ---------------------------
(***************************************************************************)
(* C18, run-time part, code -> spec: evaluates the run-time clauses of the *)
(* specification (the operators of ModulesDefs that ModulesRun.tla is      *)
(* model-checked against) on every event recorded from the real wrappers   *)
(* (harness/c18/runtime_test.go).                                          *)
(*                                                                         *)
(* trace.ndjson = for every recorded run a header line (graph, modules     *)
(* with a service, which services block in run) followed by its events;    *)
(* every event carries a snapshot of the states of all W[m] and S[m].      *)
(* Runs are driven wrapper by wrapper, or (services.Manager family) by    *)
(* one services.Manager that stops everything on the first failure; the    *)
(* final event carries the failure class of every W / S (1 =               *)
(* modules.ErrStopProcess).                                                *)
(* The history variables of ModulesRun (startAsked, stopAsked, startedOK,  *)
(* sRan, wStarted) are rebuilt from the events.  TLC walks every run (one  *)
(* initial state per run, so runs are checked in parallel) and prints one  *)
(* JSON line per event that breaks a clause; it never stops at the first.  *)
(***************************************************************************)
EXTENDS ModulesDefs, TLC, Json

Log == ndJsonDeserialize("trace.ndjson")
Headers == {j \in 1..Len(Log) : Log[j].k = "h"}

StateName == <<"New", "Starting", "Running", "Stopping", "Terminated", "Failed">>

VARIABLES i,        \* line being looked at
          h,        \* line of the header of the current run
          tr,       \* transitive closure of the run's graph
          startAsked, stopAsked, startedOK, sRan, wStarted,
          wRanSeen, \* the wrapper was seen Running in some snapshot
          wst, sst  \* previous snapshot

vars == <<i, h, tr, startAsked, stopAsked, startedOK, sRan, wStarted, wRanSeen, wst, sst>>

HMod == 1..Log[h].n
HSvc == SeqSet(Log[h].svc)
HBlocks == Log[h].blocks

Snap(codes) == [m \in 1..Len(codes) |-> StateName[codes[m] + 1]]
False(n) == [m \in 1..n |-> FALSE]

Init == /\ h \in Headers /\ i = h
        /\ tr = TransFn({<<e[1], e[2]>> : e \in SeqSet(Log[h].edges)}, 1..Log[h].n)
        /\ startAsked = False(Log[h].n) /\ stopAsked = False(Log[h].n) /\ startedOK = False(Log[h].n)
        /\ sRan = False(Log[h].n) /\ wStarted = False(Log[h].n) /\ wRanSeen = False(Log[h].n)
        /\ wst = [m \in 1..Log[h].n |-> "New"] /\ sst = [m \in 1..Log[h].n |-> "New"]

IsEvent(j) == j <= Len(Log) /\ Log[j].k = "e"

(* The clauses an event can break, by name.  e = the event, w / s its snapshot. *)
Bad(e, w, s) ==
    LET m == e.m
        named(c, name) == IF c THEN {} ELSE {name}
    IN  named(\A x \in HMod : SvcReach(wst[x], w[x]) /\ SvcReach(sst[x], s[x]), "LegalTransitions")
        \cup named(\A x \in HMod \ HSvc : w[x] = "New" /\ s[x] = "New", "NoServiceNoWrapper")
        \cup named(ActiveKeepsDeps(tr, HSvc, s, stopAsked), "StopOrderState")
        \cup named(FailureReported(HSvc, w, s), "FailureIsReported")
        \cup named(FailurePropagatesSafe(tr, HSvc, w, sRan, startAsked, wStarted), "FailurePropagates")
        \cup (IF e.ev = "istart"
              THEN named(~startAsked[m] /\ s[m] = "New" /\ w[m] = "Starting", "StartOnceWhileStarting")
                   \cup named(StartCond(tr, HSvc, m, w, s, startedOK, stopAsked, HBlocks), "StartAfterDeps")
              ELSE {})
        \cup (IF e.ev = "istop" /\ ~stopAsked[m]
              THEN named(StopCondW(tr, HSvc, m, w, startAsked), "StopAfterDependantsW")
                   \cup named(StopCondS(tr, HSvc, m, s), "StopAfterDependants")
              ELSE {})
        \cup (IF e.ev = "final"
              THEN named(AllStopped(HSvc, w, s), "Termination")
                   \cup named(FailurePropagatesDone(tr, HSvc, w, sRan, wStarted), "FailurePropagatesDone")
                   \cup named(\A x \in HSvc : (e.sf[x] = 1 /\ wRanSeen[x]) => e.wf[x] = 1, "StopProcessReported")
              ELSE {})

Step ==
    /\ IsEvent(i + 1)
    /\ i' = i + 1 /\ h' = h /\ tr' = tr
    /\ LET e == Log[i + 1]
           w == Snap(e.w)
           s == Snap(e.s)
           bad == Bad(e, w, s)
       IN  /\ IF bad = {} THEN TRUE
              ELSE PrintT(ToJson([run |-> Log[h].id, line |-> i + 1, ev |-> e.ev, m |-> e.m, bad |-> bad, w |-> e.w, s |-> e.s,
                                   active_dependants |-> IF e.ev = "istop" THEN {x \in DependantsSvc(tr, HSvc, e.m) : s[x] \in Active} ELSE {}]))
           /\ wst' = w /\ sst' = s
           /\ wRanSeen' = [x \in HMod |-> wRanSeen[x] \/ w[x] = "Running"]
           /\ startAsked' = IF e.ev = "istart" THEN [startAsked EXCEPT ![e.m] = TRUE] ELSE startAsked
           /\ stopAsked'  = IF e.ev = "istop" THEN [stopAsked EXCEPT ![e.m] = TRUE] ELSE stopAsked
           /\ startedOK'  = IF e.ev = "sstartret" /\ e.ok THEN [startedOK EXCEPT ![e.m] = TRUE] ELSE startedOK
           /\ sRan'       = IF e.ev = "srun" THEN [sRan EXCEPT ![e.m] = TRUE] ELSE sRan
           /\ wStarted'   = IF e.ev = "wstart" /\ e.ok THEN [wStarted EXCEPT ![e.m] = TRUE] ELSE wStarted

Next == Step
Spec == Init /\ [][Next]_vars

(* every run ends with its "final" event: a truncated log is not silently accepted *)
Complete == (~IsEvent(i + 1)) => (i > h /\ Log[i].ev = "final")
=============================================================================
