---------------------------- MODULE RingReclaim ----------------------------
(***************************************************************************)
(* C05, the owners' side (ring/lifecycler.go verifyTokens,                  *)
(* ring/basic_lifecycler.go verifyTokens / waitStableTokens): one instance  *)
(* `Me` joins a gossiped ring through a lifecycler whose store is a replica *)
(* of RingReplica's kind (every write is RingMerge!Merge with localCAS, every*)
(* peer update Merge without).  Me picks its tokens among the positions that *)
(* are free IN ITS REPLICA; peers that picked the same positions concurrently*)
(* arrive later (Deliver) and the collision rule may strip Me of tokens.     *)
(* After every observe period the owner re-reads its entry (Verify):         *)
(*   - tokens in the ring = tokens in memory: verified (classic: the entry   *)
(*     is rewritten ACTIVE; basic: the lifecycler finishes starting);        *)
(*   - otherwise it keeps what the ring left it, asks its generator for      *)
(*     NumTok - kept tokens avoiding every token present in the ring, writes *)
(*     the union (stamped now, still JOINING) and observes again.            *)
(* Schedule (seconds): classic Register(PENDING, no tokens)@1, Join@3,       *)
(* Verify@5,7,..; basic Join@1, Verify@3,5,..; peer updates are delivered    *)
(* before the start (pre-existing content) and at even seconds.              *)
(*                                                                           *)
(* TLC decides: TokenUnique / LeftHasNoTokens in every reachable state,      *)
(* VerifiedOwns (the owner declares its tokens verified only when the ring   *)
(* gives it exactly NumTok tokens, the ones it remembers, none shared),      *)
(* ReclaimRule (a re-claim keeps what the ring left, adds only free          *)
(* positions, restores NumTok) and MemoryMatchesWrite.                       *)
(***************************************************************************)
EXTENDS RingMerge, Json

CONSTANTS Kind,        \* "classic" | "basic"
          Me,          \* the joining instance
          NumTok,      \* tokens it wants
          PeerTs,      \* timestamps of peer updates
          PeerSt,      \* live states of peer updates
          MaxDeliver,  \* number of peer updates delivered in one scenario
          MaxClock,
          ThinE, ThinR \* emit the scenarios numbered ThinR modulo ThinE (those with a re-claim: modulo ThinC)
        , ThinC

VARIABLES d, clock,
          lc,      \* the owner: [st: "new"|"PENDING"|"JOINING"|"done", toks: tokens it remembers, nextAt: second of its next timer]
          ndel,    \* deliveries so far
          due,     \* the owner's timer of this second has not fired yet (peer updates of the second come after it)
          hist, nrec \* not in the VIEW
vars == <<d, clock, lc, ndel, due, hist, nrec>>
View == <<d, clock, lc, ndel, due>>

Peers == Inst \ {Me}
PeerUpdates ==
    {[i \in Inst |-> IF i = j THEN e ELSE Absent] :
        j \in Peers,
        e \in {[ts |-> t, state |-> s, toks |-> S] : t \in PeerTs, s \in PeerSt, S \in (SUBSET Pos) \ {{}}}
              \cup {[ts |-> t, state |-> "LEFT", toks |-> {}] : t \in PeerTs}}

Taken(x) == UNION {x[i].toks : i \in Inst}          \* every token present in the value the owner reads
JEntry(e) == [ts |-> e.ts, state |-> e.state, toks |-> e.toks]
JDesc(x)  == [i \in Inst |-> JEntry(x[i])]
NoGen == [need |-> -1, taken |-> {}, pick |-> {}]

Rec(act, o, cs, post, gen, wrote) ==
    [act |-> act, other |-> JDesc(o), cas |-> cs, now |-> clock, post |-> JDesc(post), wrote |-> wrote,
     gen |-> gen, lcst |-> lc'.st, lctoks |-> lc'.toks]

\* a write of the owner: the visible content with its own entry replaced
Write(e) == Merge(d, [Logical(d) EXCEPT ![Me] = e], TRUE, clock)

Deliver(o) ==
    /\ ~due /\ ndel < MaxDeliver /\ lc.st # "done"
    /\ lc.st = "new" \/ clock % 2 = 0
    /\ LET m == Merge(d, o, FALSE, clock) IN
       /\ d' = m.result
       /\ ndel' = ndel + 1
       /\ UNCHANGED <<clock, lc, due, nrec>>
       /\ hist' = Append(hist, Rec("Deliver", o, FALSE, m.result, NoGen, ~m.change.nil))

Register ==    \* classic only: initRing adds the instance PENDING without tokens
    /\ Kind = "classic" /\ lc.st = "new" /\ due
    /\ LET m == Write([ts |-> clock, state |-> "PENDING", toks |-> {}]) IN
       /\ d' = m.result
       /\ lc' = [st |-> "PENDING", toks |-> {}, nextAt |-> clock + 2]
       /\ due' = FALSE
       /\ UNCHANGED <<clock, ndel, nrec>>
       /\ hist' = Append(hist, Rec("Register", Empty, TRUE, m.result, NoGen, TRUE))

Join(S) ==     \* autoJoin (classic) / registerInstance (basic): pick NumTok tokens avoiding every token in the ring
    /\ due
    /\ \/ Kind = "classic" /\ lc.st = "PENDING"
       \/ Kind = "basic" /\ lc.st = "new"
    /\ LET mine == Logical(d)[Me].toks
           need == NumTok - Cardinality(mine) IN
       /\ S \subseteq Pos \ Taken(Logical(d)) /\ Cardinality(S) = need
       /\ LET m == Write([ts |-> clock, state |-> "JOINING", toks |-> mine \cup S]) IN
          /\ d' = m.result
          /\ lc' = [st |-> "JOINING", toks |-> mine \cup S, nextAt |-> clock + 2]
          /\ due' = FALSE
          /\ UNCHANGED <<clock, ndel, nrec>>
          /\ hist' = Append(hist, Rec("Join", Empty, TRUE, m.result, [need |-> need, taken |-> Taken(Logical(d)), pick |-> S], TRUE))

VerifyOK ==
    /\ due /\ lc.st = "JOINING"
    /\ Logical(d)[Me].toks = lc.toks
    /\ due' = FALSE
    /\ lc' = [lc EXCEPT !.st = "done"]
    /\ UNCHANGED <<clock, ndel, nrec>>
    /\ IF Kind = "classic"
       THEN LET m == Write([ts |-> clock, state |-> "ACTIVE", toks |-> Logical(d)[Me].toks]) IN
            /\ d' = m.result
            /\ hist' = Append(hist, Rec("VerifyOK", Empty, TRUE, m.result, NoGen, TRUE))
       ELSE /\ d' = d
            /\ hist' = Append(hist, Rec("VerifyOK", Empty, TRUE, d, NoGen, FALSE))

Reclaim(S) ==
    /\ due /\ lc.st = "JOINING"
    /\ Present(Logical(d)[Me])
    /\ Logical(d)[Me].toks # lc.toks
    /\ LET kept == Logical(d)[Me].toks
           need == NumTok - Cardinality(kept) IN
       /\ S \subseteq Pos \ Taken(Logical(d)) /\ Cardinality(S) = need
       /\ LET m == Write([ts |-> clock, state |-> "JOINING", toks |-> kept \cup S]) IN
          /\ d' = m.result
          /\ lc' = [st |-> "JOINING", toks |-> kept \cup S, nextAt |-> clock + 2]
          /\ due' = FALSE
          /\ nrec' = nrec + 1
          /\ UNCHANGED <<clock, ndel>>
          /\ hist' = Append(hist, Rec("Reclaim", Empty, TRUE, m.result, [need |-> need, taken |-> Taken(Logical(d)), pick |-> S], TRUE))

Start ==       \* the lifecycler is started at second 1, after the pre-existing content arrived
    /\ lc.st = "new" /\ ~due /\ lc.nextAt = 0
    /\ lc' = [lc EXCEPT !.nextAt = clock]
    /\ due' = TRUE
    /\ UNCHANGED <<d, clock, ndel, hist, nrec>>

Tick ==
    /\ ~due /\ lc.nextAt > 0 /\ lc.st # "done" /\ clock < MaxClock
    /\ clock' = clock + 1
    /\ due' = (lc.nextAt = clock + 1)
    /\ UNCHANGED <<d, lc, ndel, hist, nrec>>

Init == /\ d = Empty /\ clock = 1 /\ ndel = 0 /\ due = FALSE /\ hist = <<>> /\ nrec = 0
        /\ lc = [st |-> "new", toks |-> {}, nextAt |-> 0]

Next == \/ \E o \in PeerUpdates : Deliver(o)
        \/ Start \/ Register \/ Tick \/ VerifyOK
        \/ \E S \in SUBSET Pos : Join(S) \/ Reclaim(S)

Spec == Init /\ [][Next]_vars

---------------------------------------------------------------------------
TypeOK == /\ d \in [Inst -> [ts : Nat, state : LiveStates \cup {"LEFT", "ABSENT"}, toks : SUBSET Pos]]
          /\ lc.st \in {"new", "PENDING", "JOINING", "done"} /\ lc.toks \subseteq Pos

InvTokenUnique     == TokenUnique(d)
InvLeftHasNoTokens == LeftHasNoTokens(d)

\* the owner declares its tokens verified only if the ring gives it exactly what it remembers: NumTok tokens, none shared
VerifiedOwns ==
    [][lc'.st = "done" /\ lc.st # "done" =>
          /\ Logical(d')[Me].toks = lc'.toks
          /\ Cardinality(lc'.toks) = NumTok
          /\ \A p \in lc'.toks : Claimants(d', p) = {Me}
          /\ d'[Me].state = IF Kind = "classic" THEN "ACTIVE" ELSE "JOINING"]_vars

\* a re-claim keeps what the ring left, adds only positions nobody holds, and restores the wanted number of tokens
ReclaimRule ==
    [][nrec' = nrec + 1 =>
          /\ Logical(d)[Me].toks \subseteq d'[Me].toks
          /\ (d'[Me].toks \ Logical(d)[Me].toks) \cap Taken(Logical(d)) = {}
          /\ Cardinality(d'[Me].toks) = NumTok
          /\ d'[Me].ts = clock /\ d'[Me].state = "JOINING"
          /\ \A i \in Peers : d'[i] = d[i]]_vars                 \* and it edits nobody else

\* whenever the owner has written, the ring holds what it remembers
MemoryMatchesWrite ==
    [][lc'.toks # lc.toks => d'[Me].toks = lc'.toks]_vars

\* witnesses (expected to be VIOLATED, MC_reclaim_witness.cfg): a re-claim happens; two re-claims happen
NeverReclaims == nrec = 0
NeverTwice    == nrec < 2

\* one line per finished scenario (thinned)
ScenNo == Rank(d) + 7 * ndel + 13 * clock + Len(hist)
EmitScenario ==
    \/ lc.st # "done"
    \/ IF nrec > 0 THEN ScenNo % ThinC # ThinR % ThinC ELSE ScenNo % ThinE # ThinR % ThinE
    \/ PrintT(ToJson([kind |-> "scenario", lk |-> Kind, me |-> Me, numtok |-> NumTok, nrec |-> nrec, steps |-> hist]))
=============================================================================
