----------------------------- MODULE AbsService -----------------------------
(***************************************************************************)
(* A BasicService seen from outside, at gate granularity: what Manager.tla *)
(* needs to know about each managed service.  Pure operators on a record   *)
(*   a = [state, ctx \in {"nil","live","done"}, gate, merr, fail]          *)
(* each returning [a |-> successor, evs |-> listener events emitted].      *)
(*                                                                         *)
(* ServiceGated.tla (MC_gated_abs.cfg) checks with TLC that this machine   *)
(* simulates the detailed one: every step of ServiceGated maps to one      *)
(* operator below (or to no change) with exactly the same emitted events.  *)
(***************************************************************************)
EXTENDS Sequences

AbsInit == [state |-> "New", ctx |-> "nil", gate |-> "none", merr |-> "none", fail |-> "none"]

R(a, evs) == [a |-> a, evs |-> evs]

AStart(a, parentDone) ==
  IF a.state = "New"
  THEN R([a EXCEPT !.state = "Starting", !.ctx = IF parentDone THEN "done" ELSE "live", !.gate = "start"],
         << <<"Starting", "New", "none">> >>)
  ELSE R(a, <<>>)

AStop(a) ==
  CASE a.state = "New" -> R([a EXCEPT !.state = "Terminated"], << <<"Terminated", "New", "none">> >>)
    [] a.state \in {"Starting", "Running"} -> R([a EXCEPT !.ctx = "done"], <<>>)
    [] OTHER -> R(a, <<>>)

AParentCancel(a) == R([a EXCEPT !.ctx = IF @ = "live" THEN "done" ELSE @], <<>>)

AStartRetEn(a) == a.gate = "start"
AStartRet(a, e) ==
  IF e # "none"
  THEN R([a EXCEPT !.state = "Failed", !.fail = e, !.ctx = "done", !.gate = "none"], << <<"Failed", "Starting", e>> >>)
  ELSE IF a.ctx = "done"
  THEN R([a EXCEPT !.state = "Stopping", !.gate = "stop"], << <<"Stopping", "Starting", "none">> >>)
  ELSE R([a EXCEPT !.state = "Running", !.gate = "run"], << <<"Running", "Starting", "none">> >>)

ARunRetEn(a) == a.gate = "run"
ARunRet(a, e) == R([a EXCEPT !.state = "Stopping", !.ctx = "done", !.gate = "stop", !.merr = e],
                   << <<"Stopping", "Running", "none">> >>)

AStopRetEn(a) == a.gate = "stop"
AStopRet(a, e) ==
  LET f == IF a.merr # "none" THEN a.merr ELSE e
  IN IF f # "none"
     THEN R([a EXCEPT !.state = "Failed", !.fail = f, !.gate = "none", !.merr = "none"], << <<"Failed", "Stopping", f>> >>)
     ELSE R([a EXCEPT !.state = "Terminated", !.gate = "none", !.merr = "none"], << <<"Terminated", "Stopping", "none">> >>)

\* every successor the abstract machine allows from a (parentDone is the environment's)
AbsSuccessors(a, parentDone) ==
  {AStart(a, parentDone), AStop(a), AParentCancel(a)}
  \cup (IF AStartRetEn(a) THEN {AStartRet(a, e) : e \in {"none", "estart"}} ELSE {})
  \cup (IF ARunRetEn(a) THEN {ARunRet(a, e) : e \in {"none", "erun"}} ELSE {})
  \cup (IF AStopRetEn(a) THEN {AStopRet(a, e) : e \in {"none", "estop"}} ELSE {})
=============================================================================
