\* C04 behaviour generation with key deletion: 3 nodes, up to 3 KV.Delete calls, ObsoleteEntriesTimeout
\* 2 s, cleanup at any time.
CONSTANTS
  N = 3
  NI = 2
  NK = 1
  MaxClock = 7
  Retention = 2
  T = 2
  MaxCas = 8
  MaxFaults = 1
  LiveStates = {"ACTIVE", "LEAVING", "PENDING"}
  WatchNodes = {1, 2, 3}
  HoldNodes = {}
  AllowRestart = TRUE
  AllowGarbage = FALSE
  AllowPartition = FALSE
  AllowJunkPP = FALSE
  GateNodes = {}
  InboxCap = 1
  VersionTest = TRUE
  KeyTest = TRUE
  MaxDel = 3
  ObsoleteTimeout = 2
  LockKeys = {}
  ConsumeNet = FALSE
  Ideal = TRUE
  Ghost = TRUE
  Record = TRUE
  Quiesce = TRUE
  RunDepth = @@RUN@@
  QRounds = 2
INIT Init
NEXT SimNext
INVARIANTS TypeOK TombstonesInvisible NoInventedContent WatcherNeverStale PrefixWatcherNeverStale QuiescentOK EmitDone
PROPERTIES TombstonesForwarded NoResurrection GCOnlyExpired NoExpiredTombstoneStored OnlyChangesForwarded DeletedStaysDeleted RemovedOnlyWhenObsolete DeletedNotRevived
CHECK_DEADLOCK FALSE
