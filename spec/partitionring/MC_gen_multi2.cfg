CONSTANTS
  Modes = {"multi"}
  NK = 3
  Gaps = {1}
  NRoute = 1
  MaxTok = 1
  NRepl = 1
  NOwnRepl = 1
  StatesRepl = {"ACTIVE"}
  AgesRepl = {2}
  NMulti = 2
  NOwnMulti = 3
  StatesMulti = {"ACTIVE"}
  AgesMulti = {2, 3}
  IdxMulti = {1, 2, 9}
  T = 2
INIT Init
NEXT Next
INVARIANTS RoutingTotal SnapshotSound ReplExact MultiSound Emit
CHECK_DEADLOCK FALSE
