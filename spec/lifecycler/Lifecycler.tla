----------------------------- MODULE Lifecycler -----------------------------
(***************************************************************************)
(* C08 / C09 - instance lifecyclers sharing one ring descriptor in a       *)
(* linearizable store.  This module holds the shared state, the classic    *)
(* ring.Lifecycler (one action per CAS the code issues) and the            *)
(* environment.  BasicLifecycler.tla adds ring.BasicLifecycler with its    *)
(* standard delegates and the properties TLC decides.                      *)
(*                                                                         *)
(* Tokens are abstract positions (never uint32), time is integer seconds   *)
(* of a virtual clock.  Every code path that calls kv.Client.CAS is one    *)
(* action; the token choice of a TokenGenerator is existential (the ...T   *)
(* actions take the chosen set as a parameter so that the trace module can *)
(* bind it to what the real generator produced).                           *)
(***************************************************************************)
EXTENDS Integers, FiniteSets, Sequences, TLC

CONSTANTS N,          \* lifecycler identities 1..N
          Pos,        \* token positions the generators may choose from
          NumTokens,  \* configured number of tokens
          HbTimeout,  \* ring heartbeat timeout (readiness)
          MaxClock,   \* bound of the virtual clock (model checking only)
          Cfgs,       \* set of configurations a lifecycler may be started with
          Cfg0,       \* set of initial assignments Inst -> Cfgs (model checking: a restart keeps the configuration)
          Bud0,       \* budgets of the environment actions (model checking only)
          OwnEntryCheck \* TRUE: CheckReady requires the instance's own entry in the ring in both modes (the code
                        \* since fix a84e2f3); FALSE: the earlier code, which looked only at the others when checking
                        \* ring health (negative control: TLC refutes ReadyImpliesActive)

Inst == 1..N
Card(S) == Cardinality(S)
Max(a, b) == IF a >= b THEN a ELSE b

VARIABLES ring,    \* ring[j]: the published entry of j (Absent if none)
          rnil,    \* TRUE iff the ring key does not exist in the store at all
          clock,   \* virtual time, seconds
          file,    \* file[i]: content of i's tokens file ({} = none / empty)
          kvok,    \* kvok[i]: the store accepts the calls of i
          cfg,     \* cfg[i]: configuration of the current incarnation of i
          L,       \* L[i]: the local (volatile) state of i's lifecycler
          okSince, \* okSince[i]: since when i's entry could have been kept fresh
          bud,     \* remaining environment budgets
          actor    \* who took the last step (0 = environment)

vars == <<ring, rnil, clock, file, kvok, cfg, L, okSince, bud, actor>>
view == <<ring, rnil, clock, file, kvok, cfg, L, okSince, bud>>

Absent == [st |-> "ABSENT", toks |-> {}, ts |-> 0, reg |-> 0, ro |-> FALSE]
Entry(st, toks, ts, reg, ro) == [st |-> st, toks |-> toks, ts |-> ts, reg |-> reg, ro |-> ro]
\* what ClaimTokensFor leaves when the claimer has no entry: the zero InstanceDesc (state 0 = ACTIVE)
ZeroEntry == [st |-> "ACTIVE", toks |-> {}, ts |-> 0, reg |-> 0, ro |-> FALSE]

Present(j)   == ring[j].st # "ABSENT"
AllToks      == UNION {ring[j].toks : j \in Inst}
OtherToks(i) == UNION {ring[j].toks : j \in Inst \ {i}}

Choices(n, taken)        == IF n <= 0 THEN {{}} ELSE {T \in SUBSET (Pos \ taken) : Card(T) = n}
ValidChoice(T, n, taken) == T \cap taken = {} /\ Card(T) = Max(n, 0)

L0 == [phase |-> "off", st |-> "PENDING", toks |-> {}, reg |-> 0, ro |-> FALSE, ready |-> FALSE,
       joinAt |-> -1, obsAt |-> -1, nextHb |-> -1, stopAt |-> -1,
       pc |-> "idle", arg |-> "", res |-> "none", fresh |-> FALSE,
       stall |-> FALSE]   \* stalled: inside a store call whose first attempt(s) lost a race (CAS retry); see Stall

Due(t) == t >= 0 /\ t <= clock
\* model checking only: the environment acts up to time Bud0.envBy (liveness needs a quiet suffix)
EnvOK == clock <= Bud0.envBy
Arm(p) == IF p > 0 THEN clock + p ELSE -1

\* a lifecycler that still has something to do at the current instant
HasWork(i) == LET l == L[i] IN
    \/ l.phase \in {"init", "stopreq"}
    \/ l.pc # "idle" \/ l.res # "none"
    \/ l.phase = "run" /\ (Due(l.joinAt) \/ Due(l.obsAt) \/ Due(l.nextHb))
    \/ l.phase = "observing" /\ (Due(l.obsAt) \/ Due(l.nextHb))
    \/ l.phase = "stopping" /\ (Due(l.stopAt) \/ Due(l.nextHb))
\* a stalled lifecycler (its store call is being retried) does nothing: the others and the environment go on
Busy(i) == ~L[i].stall /\ HasWork(i)

\* the environment (the driver) acts at quiescent points only; time advances only when every
\* lifecycler has done what was due (the bubble clock)
Calm == \A k \in Inst : ~Busy(k)

Put(i, e) == ring' = [ring EXCEPT ![i] = e] /\ rnil' = FALSE
SetL(i, r) == L' = [L EXCEPT ![i] = r]
FileSet(i, toks) == file' = IF cfg[i].file THEN [file EXCEPT ![i] = toks] ELSE file

Init == /\ ring = [j \in Inst |-> Absent] /\ rnil = TRUE /\ clock = 0
        /\ file = [j \in Inst |-> {}] /\ kvok = [j \in Inst |-> TRUE]
        /\ cfg \in Cfg0 /\ L = [j \in Inst |-> L0]
        /\ okSince = [j \in Inst |-> 0] /\ bud = Bud0 /\ actor = 0

(***************************************************************************)
(* updateConsul: the classic lifecycler's only way of publishing state.    *)
(* Tokens are taken FROM THE RING when the entry exists; a missing entry   *)
(* is re-inserted with the remembered tokens and a fresh registration time.*)
(***************************************************************************)
UCEntry(i, st, ro) ==
    LET e == ring[i] IN
    Entry(st, IF e.st = "ABSENT" THEN L[i].toks ELSE e.toks, clock,
          IF e.st = "ABSENT" THEN clock ELSE L[i].reg, ro)
UCReg(i) == IF ring[i].st = "ABSENT" THEN clock ELSE L[i].reg
\* UC(i, r): r is the new local record (with st/ro already updated); publishes if the store accepts
UC(i, r) == IF kvok[i]
            THEN /\ Put(i, UCEntry(i, r.st, r.ro))
                 /\ SetL(i, [r EXCEPT !.reg = UCReg(i)])
            ELSE /\ UNCHANGED <<ring, rnil>> /\ SetL(i, r)

Allowed(from, to) == \/ from = "PENDING" /\ to = "JOINING"
                     \/ from = "JOINING" /\ to = "PENDING"
                     \/ from = "JOINING" /\ to = "ACTIVE"
                     \/ from = "PENDING" /\ to = "ACTIVE"
                     \/ from = "ACTIVE"  /\ to = "LEAVING"

Classic(i) == cfg[i].kind = "classic"

(******************************* start ***********************************)
Start(i, c) ==
    /\ L[i].phase \in {"off", "dead"} /\ bud.start > 0 /\ EnvOK /\ Calm
    /\ cfg' = [cfg EXCEPT ![i] = c]
    /\ SetL(i, [L0 EXCEPT !.phase = "init"])
    /\ bud' = [bud EXCEPT !.start = @ - 1] /\ actor' = 0
    /\ UNCHANGED <<ring, rnil, clock, file, kvok, okSince>>

\* the first CAS fails: the service fails without touching anything (both kinds)
InitFail(i) ==
    /\ L[i].phase = "init" /\ ~kvok[i]
    /\ SetL(i, [L[i] EXCEPT !.phase = "off"]) /\ actor' = i
    /\ UNCHANGED <<ring, rnil, clock, file, kvok, cfg, okSince, bud>>

(***************************************************************************)
(* initRing - five branches.  X is the generator's choice (top-up) or the  *)
(* random subset that survives trimming.                                   *)
(***************************************************************************)
InitRingT(i, X) ==
    /\ L[i].phase = "init" /\ Classic(i) /\ kvok[i]
    /\ LET e == ring[i]
           c == cfg[i]
           f == IF c.file THEN file[i] ELSE {}
           armed == [L[i] EXCEPT !.phase = "run", !.joinAt = clock + c.join, !.nextHb = Arm(c.hb)]
       IN
       CASE e.st = "ABSENT" /\ f # {} ->
              LET st == IF Card(f) >= NumTokens THEN "ACTIVE" ELSE "PENDING" IN
              /\ X = {}
              /\ Put(i, Entry(st, f, clock, clock, FALSE))
              /\ SetL(i, [armed EXCEPT !.st = st, !.toks = f, !.reg = clock, !.ro = FALSE])
              /\ UNCHANGED file
         [] e.st = "ABSENT" /\ f = {} ->
              /\ X = {}
              /\ Put(i, Entry("PENDING", {}, clock, clock, FALSE))
              /\ SetL(i, [armed EXCEPT !.reg = clock, !.ro = FALSE])
              /\ UNCHANGED file
         [] e.st = "JOINING" ->
              \* died while joining: only the LOCAL state restarts from PENDING; the published
              \* entry is rewritten unchanged and stays JOINING until the next write
              /\ X = {}
              /\ UNCHANGED <<ring, rnil, file>>
              /\ SetL(i, [armed EXCEPT !.reg = e.reg, !.ro = e.ro])
         [] e.st = "LEAVING" ->
              LET d == NumTokens - Card(e.toks)
                  toks == IF d > 0 THEN e.toks \cup X ELSE IF d < 0 THEN X ELSE e.toks
              IN
              /\ IF d > 0 THEN ValidChoice(X, d, AllToks)
                 ELSE IF d < 0 THEN X \subseteq e.toks /\ Card(X) = NumTokens
                 ELSE X = {}
              /\ Put(i, Entry("ACTIVE", toks, clock, e.reg, e.ro))
              /\ SetL(i, [armed EXCEPT !.st = "ACTIVE", !.toks = toks, !.reg = e.reg, !.ro = e.ro])
              /\ FileSet(i, toks)
         [] OTHER ->
              /\ X = {}
              /\ UNCHANGED <<ring, rnil>>
              /\ SetL(i, [armed EXCEPT !.st = e.st, !.toks = e.toks, !.reg = e.reg, !.ro = e.ro])
              /\ FileSet(i, e.toks)
    /\ okSince' = [okSince EXCEPT ![i] = clock]
    /\ actor' = i
    /\ UNCHANGED <<clock, kvok, cfg, bud>>

InitRingChoices(i) ==
    LET e == ring[i] d == NumTokens - Card(e.toks) IN
    IF e.st # "LEAVING" THEN {{}}
    ELSE IF d > 0 THEN Choices(d, AllToks)
    ELSE IF d < 0 THEN {S \in SUBSET e.toks : Card(S) = NumTokens}
    ELSE {{}}

(******************************* autoJoin ********************************)
AutoJoinT(i, T) ==
    /\ L[i].phase = "run" /\ Classic(i) /\ Due(L[i].joinAt) /\ L[i].pc = "idle"
    /\ L[i].st = "PENDING" /\ kvok[i]
    /\ LET c == cfg[i]
           my == ring[i].toks
           target == IF c.obs > 0 THEN "JOINING" ELSE "ACTIVE"
           toks == my \cup T
       IN
       /\ ValidChoice(T, NumTokens - Card(my), AllToks)
       /\ Put(i, Entry(target, toks, clock, L[i].reg, L[i].ro))
       /\ SetL(i, [L[i] EXCEPT !.st = target, !.toks = toks, !.joinAt = -1,
                               !.obsAt = IF target = "JOINING" THEN clock + c.obs ELSE -1,
                               !.fresh = (my = {})])
       /\ FileSet(i, toks)
    /\ actor' = i /\ UNCHANGED <<clock, kvok, cfg, okSince, bud>>

\* the timer fires but the instance is no longer PENDING: nothing happens
AutoJoinSkip(i) ==
    /\ L[i].phase = "run" /\ Classic(i) /\ Due(L[i].joinAt) /\ L[i].pc = "idle"
    /\ L[i].st # "PENDING"
    /\ SetL(i, [L[i] EXCEPT !.joinAt = -1])
    /\ actor' = i /\ UNCHANGED <<ring, rnil, clock, file, kvok, cfg, okSince, bud>>

\* the join CAS fails: loop() returns the error, the service fails, nothing is cleaned up
AutoJoinFail(i) ==
    /\ L[i].phase = "run" /\ Classic(i) /\ Due(L[i].joinAt) /\ L[i].pc = "idle"
    /\ L[i].st = "PENDING" /\ ~kvok[i]
    /\ SetL(i, [L[i] EXCEPT !.phase = "off"])
    /\ actor' = i /\ UNCHANGED <<ring, rnil, clock, file, kvok, cfg, okSince, bud>>

(**************************** observe / verifyTokens *********************)
ObserveT(i, T) ==
    /\ L[i].phase = "run" /\ Classic(i) /\ Due(L[i].obsAt) /\ L[i].pc = "idle"
    /\ LET c == cfg[i]  my == ring[i].toks IN
       IF ~kvok[i] THEN
          /\ T = {} /\ SetL(i, [L[i] EXCEPT !.obsAt = clock + c.obs])
          /\ UNCHANGED <<ring, rnil, file>>
       ELSE IF my = L[i].toks THEN
          /\ T = {} /\ SetL(i, [L[i] EXCEPT !.obsAt = -1, !.pc = "activate"])
          /\ UNCHANGED <<ring, rnil, file>>
       ELSE
          /\ ValidChoice(T, NumTokens - Card(my), AllToks)
          /\ Put(i, Entry(L[i].st, my \cup T, clock, L[i].reg, L[i].ro))
          /\ SetL(i, [L[i] EXCEPT !.toks = my \cup T, !.obsAt = clock + c.obs])
          /\ FileSet(i, my \cup T)
    /\ actor' = i /\ UNCHANGED <<clock, kvok, cfg, okSince, bud>>

ObserveChoices(i) ==
    LET my == ring[i].toks IN
    IF ~kvok[i] \/ my = L[i].toks THEN {{}} ELSE Choices(NumTokens - Card(my), AllToks)

\* changeState(ACTIVE) right after a successful verification
Activate(i) ==
    /\ L[i].phase = "run" /\ Classic(i) /\ L[i].pc = "activate"
    /\ IF Allowed(L[i].st, "ACTIVE")
       THEN UC(i, [L[i] EXCEPT !.pc = "idle", !.st = "ACTIVE"])
       ELSE SetL(i, [L[i] EXCEPT !.pc = "idle"]) /\ UNCHANGED <<ring, rnil>>
    /\ actor' = i /\ UNCHANGED <<clock, file, kvok, cfg, okSince, bud>>

(******************************* heartbeat *******************************)
Heartbeat(i) ==
    /\ L[i].phase \in {"run", "stopping"} /\ Classic(i) /\ Due(L[i].nextHb) /\ L[i].pc = "idle"
    /\ UC(i, [L[i] EXCEPT !.nextHb = @ + cfg[i].hb])
    /\ actor' = i /\ UNCHANGED <<clock, file, kvok, cfg, okSince, bud>>

(**************************** external calls *****************************)
\* the environment hands a call to the actor goroutine (pc), the lifecycler executes it (Do...)
Request(i, op, a) ==
    /\ L[i].phase = "run" /\ ~L[i].stall /\ Calm /\ bud.ext > 0 /\ EnvOK
    /\ SetL(i, [L[i] EXCEPT !.pc = op, !.arg = a])
    /\ bud' = [bud EXCEPT !.ext = @ - 1] /\ actor' = 0
    /\ UNCHANGED <<ring, rnil, clock, file, kvok, cfg, okSince>>

DoChangeState(i) ==
    /\ L[i].phase = "run" /\ Classic(i) /\ L[i].pc = "cs"
    /\ LET s == L[i].arg IN
       IF Allowed(L[i].st, s)
       THEN UC(i, [L[i] EXCEPT !.pc = "idle", !.arg = "", !.st = s,
                               !.res = IF kvok[i] THEN "ok" ELSE "err"])
       ELSE \* refused: neither the local state nor the ring is touched
            SetL(i, [L[i] EXCEPT !.pc = "idle", !.arg = "", !.res = "err"]) /\ UNCHANGED <<ring, rnil>>
    /\ actor' = i /\ UNCHANGED <<clock, file, kvok, cfg, okSince, bud>>

DoReadOnly(i) ==
    /\ L[i].phase = "run" /\ Classic(i) /\ L[i].pc = "ro"
    /\ LET b == (L[i].arg = "true") IN
       IF L[i].ro # b
       THEN UC(i, [L[i] EXCEPT !.pc = "idle", !.arg = "", !.ro = b,
                               !.res = IF kvok[i] THEN "ok" ELSE "err"])
       ELSE SetL(i, [L[i] EXCEPT !.pc = "idle", !.arg = "", !.res = "ok"]) /\ UNCHANGED <<ring, rnil>>
    /\ actor' = i /\ UNCHANGED <<clock, file, kvok, cfg, okSince, bud>>

\* ClaimTokensFor(j): explicit token hand-over j -> i (the only foreign entry a classic lifecycler edits)
DoClaim(i, j) ==
    /\ L[i].phase = "run" /\ Classic(i) /\ L[i].pc = "claim" /\ L[i].arg = ToString(j) /\ j # i
    /\ IF kvok[i] /\ ~rnil
       THEN LET tk == ring[j].toks
                mine == IF Present(i) THEN ring[i] ELSE ZeroEntry IN
            /\ ring' = [ring EXCEPT ![j] = IF Present(j) THEN [@ EXCEPT !.toks = {}] ELSE @,
                                    ![i] = [mine EXCEPT !.toks = tk, !.ts = clock]]
            /\ rnil' = FALSE
            /\ SetL(i, [L[i] EXCEPT !.pc = "idle", !.arg = "", !.res = "ok", !.toks = tk, !.fresh = FALSE])
            /\ FileSet(i, tk)
       ELSE \* the CAS fails (store rejects / no ring): the remembered tokens are dropped all the same
            /\ UNCHANGED <<ring, rnil>>
            /\ SetL(i, [L[i] EXCEPT !.pc = "idle", !.arg = "", !.res = "ok", !.toks = {}, !.fresh = FALSE])
            /\ FileSet(i, {})
    /\ actor' = i /\ UNCHANGED <<clock, kvok, cfg, okSince, bud>>

\* return of an external call, observed by the caller
Return(i) ==
    /\ L[i].res # "none" /\ L[i].pc = "idle"
    /\ SetL(i, [L[i] EXCEPT !.res = "none"]) /\ actor' = 0
    /\ UNCHANGED <<ring, rnil, clock, file, kvok, cfg, okSince, bud>>

(******************************* readiness *******************************)
\* Time abstraction: the code compares its real-valued now with timestamps truncated to seconds, and no
\* step happens exactly on a second boundary, so "now - ts <= P" reads "clock - ts < P" in whole seconds
\* and "now - ts > P" reads "clock - ts >= P".
Healthy(e) == clock - e.ts < HbTimeout
ReadyCond(i) ==
    /\ L[i].toks # {} /\ kvok[i] /\ ~rnil
    /\ OwnEntryCheck => Present(i)
    /\ IF cfg[i].health
       THEN /\ \A j \in Inst : Present(j) => (Healthy(ring[j]) /\ ring[j].st = "ACTIVE")
            /\ AllToks # {}
       ELSE Present(i) /\ Healthy(ring[i]) /\ ring[i].st = "ACTIVE"
CheckReady(i) ==
    /\ L[i].phase \in {"run", "stopping"} /\ Classic(i) /\ Calm /\ bud.ready > 0
    /\ SetL(i, [L[i] EXCEPT !.ready = @ \/ ReadyCond(i)])
    /\ bud' = [bud EXCEPT !.ready = @ - 1] /\ actor' = 0
    /\ UNCHANGED <<ring, rnil, clock, file, kvok, cfg, okSince>>

(******************************* shutdown ********************************)
StopReq(i) ==
    /\ L[i].phase = "run" /\ Classic(i) /\ ~L[i].stall /\ Calm /\ bud.stop > 0 /\ EnvOK
    /\ SetL(i, [L[i] EXCEPT !.phase = IF L[i].st = "ACTIVE" THEN "stopreq" ELSE "stopping",
                            !.joinAt = -1, !.obsAt = -1,
                            !.nextHb = Arm(cfg[i].hb), !.stopAt = clock + cfg[i].fsleep])
    /\ bud' = [bud EXCEPT !.stop = @ - 1] /\ actor' = 0
    /\ UNCHANGED <<ring, rnil, clock, file, kvok, cfg, okSince>>

StopLeaving(i) ==
    /\ L[i].phase = "stopreq" /\ Classic(i)
    /\ UC(i, [L[i] EXCEPT !.phase = "stopping", !.st = "LEAVING"])
    /\ actor' = i /\ UNCHANGED <<clock, file, kvok, cfg, okSince, bud>>

Unregister(i) ==
    /\ L[i].phase = "stopping" /\ Due(L[i].stopAt)
    /\ IF Classic(i) THEN cfg[i].unreg ELSE ~cfg[i].keep
    /\ IF kvok[i] /\ ~rnil
       THEN ring' = [ring EXCEPT ![i] = Absent] /\ rnil' = FALSE
       ELSE UNCHANGED <<ring, rnil>>
    /\ SetL(i, [L[i] EXCEPT !.phase = "off"])
    /\ actor' = i /\ UNCHANGED <<clock, file, kvok, cfg, okSince, bud>>

FinishStop(i) ==
    /\ L[i].phase = "stopping" /\ Due(L[i].stopAt)
    /\ IF Classic(i) THEN ~cfg[i].unreg ELSE cfg[i].keep
    /\ SetL(i, [L[i] EXCEPT !.phase = "off"])
    /\ actor' = i /\ UNCHANGED <<ring, rnil, clock, file, kvok, cfg, okSince, bud>>

(***************************** environment *******************************)
\* time advances only when every lifecycler has done what was due (the bubble clock)
Tick == /\ clock < MaxClock /\ Calm /\ \A k \in Inst : ~L[k].stall
        /\ clock' = clock + 1 /\ actor' = 0
        /\ UNCHANGED <<ring, rnil, file, kvok, cfg, L, okSince, bud>>

Wipe == /\ bud.wipe > 0 /\ Calm /\ EnvOK
        /\ ring' = [j \in Inst |-> Absent] /\ rnil' = TRUE
        /\ okSince' = [j \in Inst |-> clock]
        /\ bud' = [bud EXCEPT !.wipe = @ - 1] /\ actor' = 0
        /\ UNCHANGED <<clock, file, kvok, cfg, L>>

\* the store's attitude towards a client can change at ANY moment, in particular between two consecutive
\* calls of the same burst (e.g. after verifyTokens succeeded and before the JOINING -> ACTIVE write)
SetKV(i, b) == /\ bud.kv > 0 /\ EnvOK /\ kvok[i] # b
               /\ kvok' = [kvok EXCEPT ![i] = b]
               /\ okSince' = [okSince EXCEPT ![i] = clock]
               /\ bud' = [bud EXCEPT !.kv = @ - 1] /\ actor' = 0
               /\ UNCHANGED <<ring, rnil, clock, file, cfg, L>>

(***************************************************************************)
(* CAS retries.  kv.Client.CAS may evaluate the callback several times: an *)
(* attempt whose read was overtaken by another writer is lost and the      *)
(* callback is evaluated again on the newer ring.  Only the LAST           *)
(* evaluation is the action (it reads the ring it writes on); the lost     *)
(* ones leave no trace - whatever they computed (tokens, state,            *)
(* registration time) is recomputed.  Between the lost attempt and the     *)
(* retry the lifecycler is stalled while everybody else goes on.           *)
(***************************************************************************)
Stall(i) == /\ bud.stall > 0 /\ EnvOK /\ ~L[i].stall /\ HasWork(i) /\ L[i].res = "none" /\ kvok[i]
            /\ L[i].phase \notin {"off", "dead"}
            /\ SetL(i, [L[i] EXCEPT !.stall = TRUE])
            /\ bud' = [bud EXCEPT !.stall = @ - 1] /\ actor' = 0
            /\ UNCHANGED <<ring, rnil, clock, file, kvok, cfg, okSince>>
Unstall(i) == /\ L[i].stall
              /\ SetL(i, [L[i] EXCEPT !.stall = FALSE]) /\ actor' = 0
              /\ UNCHANGED <<ring, rnil, clock, file, kvok, cfg, okSince, bud>>

\* the process dies: everything volatile is lost, ring and tokens file stay
Crash(i) == /\ bud.crash > 0 /\ EnvOK /\ L[i].phase \notin {"off", "dead"}
            /\ SetL(i, [L0 EXCEPT !.phase = "dead"])
            /\ bud' = [bud EXCEPT !.crash = @ - 1] /\ actor' = 0
            /\ UNCHANGED <<ring, rnil, clock, file, kvok, cfg, okSince>>

(***************************************************************************)
(* Death inside a write of the classic lifecycler: the callback has run    *)
(* (tokens file already rewritten) but the commit never reaches the store. *)
(* MidFiles(i) = what the file may then hold.  (Death right AFTER a commit *)
(* is the action followed by Crash.)                                       *)
(***************************************************************************)
MidFiles(i) ==
    LET l == L[i] e == ring[i] IN
    IF ~Classic(i) \/ ~cfg[i].file THEN {}
    ELSE IF l.phase = "init" THEN
        (IF e.st = "ABSENT" \/ e.st = "JOINING" THEN {}
         ELSE IF e.st = "LEAVING" THEN
              {IF NumTokens - Card(e.toks) > 0 THEN e.toks \cup X ELSE IF NumTokens - Card(e.toks) < 0 THEN X ELSE e.toks
                 : X \in InitRingChoices(i)}
         ELSE {e.toks})
    ELSE IF l.phase = "run" /\ l.pc = "idle" /\ Due(l.joinAt) /\ l.st = "PENDING" THEN
        {e.toks \cup T : T \in Choices(NumTokens - Card(e.toks), AllToks)}
    ELSE IF l.phase = "run" /\ l.pc = "idle" /\ Due(l.obsAt) /\ e.toks # l.toks THEN
        {e.toks \cup T : T \in Choices(NumTokens - Card(e.toks), AllToks)}
    ELSE IF l.phase = "run" /\ l.pc = "claim" /\ ~rnil THEN
        {ring[j].toks : j \in {k \in Inst : ToString(k) = l.arg}}
    ELSE {}

CrashMid(i, F) ==
    /\ bud.crash > 0 /\ EnvOK /\ kvok[i] /\ F \in MidFiles(i)
    /\ file' = [file EXCEPT ![i] = F]
    /\ SetL(i, [L0 EXCEPT !.phase = "dead"])
    /\ bud' = [bud EXCEPT !.crash = @ - 1] /\ actor' = 0
    /\ UNCHANGED <<ring, rnil, clock, kvok, cfg, okSince>>

\* (the cheap guards in front of the quantifiers only spare TLC the enumeration of token choices)
ClassicStep(i) ==
    \/ (L[i].phase = "init" /\ Classic(i) /\ \E X \in InitRingChoices(i) : InitRingT(i, X))
    \/ (L[i].phase = "run" /\ Classic(i) /\ Due(L[i].joinAt) /\ L[i].st = "PENDING" /\ kvok[i]
           /\ \E T \in Choices(NumTokens - Card(ring[i].toks), AllToks) : AutoJoinT(i, T))
    \/ AutoJoinSkip(i) \/ AutoJoinFail(i)
    \/ (L[i].phase = "run" /\ Classic(i) /\ Due(L[i].obsAt) /\ \E T \in ObserveChoices(i) : ObserveT(i, T))
    \/ Activate(i) \/ Heartbeat(i)
    \/ DoChangeState(i) \/ DoReadOnly(i) \/ (L[i].pc = "claim" /\ \E j \in Inst : DoClaim(i, j))
    \/ StopLeaving(i)
=============================================================================
