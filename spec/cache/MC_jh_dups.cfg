CONSTANTS N = @@N@@
  Dups = TRUE
  Wrong = "none"
INIT Init
NEXT Next
INVARIANTS PickInList OrderInsensitive AppendStable MonotoneBuckets
CHECK_DEADLOCK FALSE
