---------------------------- MODULE ShuffleShardMC ----------------------------
(***************************************************************************)
(* C12 (a): TLC decides the clauses of the property for the walk of        *)
(* ShuffleShard.tla, for EVERY start sequence, over every small ring.      *)
(*                                                                         *)
(* phase "build": the token layout is grown position by position           *)
(*    (Extend) - instances are named in the order of their first token     *)
(*    (renaming instances is a symmetry), every instance has 1..MaxTok     *)
(*    tokens, at most MaxM positions, at most N instances.                 *)
(* Start: picks zone-awareness, zones, the registered set, read-only flags *)
(*    and the start sequences.  Rotating the circle together with all      *)
(*    start values is a symmetry, so the first start of the first circle   *)
(*    that walks is fixed to position 1.  Start values beyond the number   *)
(*    of walks that can succeed are irrelevant and not enumerated.         *)
(* phase "run": the ring lives: Join / Leave / SetReadOnly, one event per  *)
(*    second (MaxEvents = 0: static rings only).  `hist` remembers, per    *)
(*    ring version, the plain shards of every size - the specification's   *)
(*    own answers - and when the version ended.                            *)
(*                                                                         *)
(* Invariants (all in phase "run"): SizeFormula, NoReadOnlyMembers,        *)
(* Monotone, Consistency (vs. the ring with one registered instance less,  *)
(* which - the universe being arbitrary - is also "one instance added"),   *)
(* LookbackSuperset.                                                       *)
(*                                                                         *)
(* Time.  A ring change stamped t (seconds, truncated) happens at t + 1/2; *)
(* a query with now = t is issued at t + 1/4, before the change of that    *)
(* second.  The version ended by a change stamped u was therefore current  *)
(* at a moment of the window [now - L, now] iff u >= now - L.              *)
(***************************************************************************)
EXTENDS ShuffleShard, TLC, Json

CONSTANTS N,          \* at most N instances in the universe
          MaxTok,     \* tokens per instance
          MaxM,       \* at most MaxM token positions
          Z,          \* at most Z zones (<= 3)
          MaxSize,    \* shard sizes 0..MaxSize
          MaxEvents,  \* ring changes per behaviour
          ZaModes,    \* subset of BOOLEAN: zone-awareness settings explored
          FullMem,    \* TRUE: the initial ring registers the whole universe
          MaxRO0      \* at most MaxRO0 instances are read-only initially (more can switch later)

VARIABLES phase, lay, C, now, hist
vars == <<phase, lay, C, now, hist>>

T0 == 10                       \* time of the first possible change; initial instances registered at 1
Sizes == 0..MaxSize

Count(s, l) == Cardinality({p \in 1..Len(s) : s[p] = l})
MaxLabel(s) == IF Len(s) = 0 THEN 0 ELSE CHOOSE l \in {s[p] : p \in 1..Len(s)} : \A p \in 1..Len(s) : s[p] <= l

NoC == [M |-> 0]

Init == phase = "build" /\ lay = <<>> /\ C = NoC /\ now = T0 /\ hist = <<>>

Extend == /\ phase = "build" /\ Len(lay) < MaxM
          /\ \E l \in 1..Min2(MaxLabel(lay) + 1, N) :
                /\ Count(lay, l) < MaxTok
                /\ lay' = Append(lay, l)
          /\ UNCHANGED <<phase, C, now, hist>>

ShardTable(c, t) == [s \in Sizes |-> Shard(c, s, 0, t)]
Version(c, t)    == [to |-> 0, zs |-> Zones(c), sh |-> ShardTable(c, t),
                     c |-> [mem |-> c.mem, ro |-> c.ro, reg |-> c.reg, rots |-> c.rots]]   \* content, for counterexamples

(* zone assignments up to renaming of zones: zones are numbered in the     *)
(* order of their first instance                                           *)
ZoneMaps(n) == {f \in [1..n -> 1..Z] : \A i \in 1..n : f[i] <= 1 + MaxLabel([j \in 1..(i-1) |-> f[j]])}

Start ==
    /\ phase = "build" /\ Len(lay) >= 1
    /\ LET n == MaxLabel(lay)
           m == Len(lay)
       IN \E za \in ZaModes :
          \E zone \in IF za THEN ZoneMaps(n) ELSE {[i \in 1..n |-> 1]} :
          \E mem \in IF FullMem THEN {1..n} ELSE (SUBSET (1..n)) \ {{}} :
          \E ros \in {r \in SUBSET mem : Cardinality(r) <= MaxRO0} :
          \E unset \in IF MaxEvents > 0 /\ ros # {} THEN BOOLEAN ELSE {FALSE} :
            LET circle(z) == IF za THEN {i \in 1..n : zone[i] = z} ELSE IF z = 1 THEN 1..n ELSE {}
                \* number of walks of circle z that can succeed
                K(z) == LET c == Cardinality(circle(z))
                            r == IF MaxEvents = 0 THEN Cardinality(ros \cap circle(z)) ELSE 0
                            k == IF za THEN Min2(c - 1, c - r) ELSE c - r
                        IN IF k < 0 THEN 0 ELSE Min2(k, MaxSize)
                first == IF K(1) > 0 THEN 1 ELSE IF K(2) > 0 THEN 2 ELSE 3
            IN \E s1 \in [1..K(1) -> 1..m], s2 \in [1..K(2) -> 1..m], s3 \in [1..K(3) -> 1..m] :
                 /\ LET ss == <<s1, s2, s3>> IN K(first) > 0 => ss[first][1] = 1
                 /\ C' = [M |-> m, own |-> lay, zone |-> zone, mem |-> mem, za |-> za,
                          ro   |-> [i \in 1..n |-> i \in ros],
                          reg  |-> [i \in 1..n |-> IF i \in mem THEN 1 ELSE 0],
                          rots |-> [i \in 1..n |-> IF i \in ros /\ ~unset THEN 1 ELSE 0],
                          starts |-> <<s1, s2, s3>>]
    /\ phase' = "run"
    /\ hist' = <<Version(C', now)>>
    /\ UNCHANGED <<lay, now>>

Universe == 1..MaxLabel(lay)

Commit(c) ==
    /\ C' = c
    /\ hist' = Append([hist EXCEPT ![Len(hist)].to = now], Version(c, now))
    /\ now' = now + 1
    /\ UNCHANGED <<phase, lay>>

CanChange == phase = "run" /\ Len(hist) <= MaxEvents

(* an instance registers (never seen before: identifiers are not reused) *)
Join(x) == /\ CanChange /\ x \notin C.mem /\ C.reg[x] = 0
           /\ Commit([C EXCEPT !.mem = @ \cup {x}, !.reg[x] = now])

(* an instance is removed from the ring (the ring is never emptied) *)
Leave(x) == /\ CanChange /\ x \in C.mem /\ Cardinality(C.mem) > 1
            /\ Commit([C EXCEPT !.mem = @ \ {x}])

(* an instance switches to read-only or back to read-write *)
SetReadOnly(x) == /\ CanChange /\ x \in C.mem
                  /\ Commit([C EXCEPT !.ro[x] = ~@, !.rots[x] = now])

Next == \/ Extend \/ Start
        \/ \E x \in Universe : Join(x) \/ Leave(x) \/ SetReadOnly(x)

Spec == Init /\ [][Next]_vars

(* the content snapshots in `hist` only serve counterexample reports *)
View == <<phase, lay, C, now, [v \in 1..Len(hist) |-> [to |-> hist[v].to, zs |-> hist[v].zs, sh |-> hist[v].sh]]>>

--------------------------------------------------------------------------------
Running == phase = "run"
Cur == hist[Len(hist)].sh

(* a failing clause prints the case so that bin/check can concretise it *)
Cex(name, info) == PrintT(ToJson([cex |-> name, kind |-> "inst", C |-> C, now |-> now, shards |-> Cur, info |-> info])) /\ FALSE

SizeFormula ==
    Running => \A s \in Sizes : SizeOK(Cur[s], C, C.za, s) \/ Cex("SizeFormula", [size |-> s])

NoReadOnlyMembers ==
    Running => \A s \in Sizes : NoReadOnly(Cur[s], C) \/ Cex("NoReadOnly", [size |-> s])

Monotone ==
    Running => \A a, b \in Sizes :
                  SizeLE(a, b) => MonotoneOK(Cur[a], Cur[b]) \/ Cex("Monotone", [size |-> a, size2 |-> b])

Consistency ==
    Running => \A x \in C.mem :
        LET W == [C EXCEPT !.mem = @ \ {x}]
        IN ConsistencyApplies(C, W, C.za) =>
             \A s \in Sizes : ConsistencyOK(Cur[s], Shard(W, s, 0, now))
                                \/ Cex("Consistency", [size |-> s, without |-> x, other |-> Shard(W, s, 0, now)])

(* versions that were current at some moment of the window of (L, now) and *)
(* - with zone-awareness - had the zones of the current ring                *)
InWindow(v, L) == /\ hist[v].to = 0 \/ hist[v].to >= now - L
                  /\ C.za /\ ZoneChangesExempt => hist[v].zs = Zones(C)
(* look-back periods: one per number of changes covered, plus the one that *)
(* reaches back to the registration of the initial instances               *)
Lookbacks == (1..(now - T0 + 1)) \cup {now - 1}

LookbackSuperset ==
    Running => \A s \in Sizes : \A L \in Lookbacks :
        LET past == {hist[v].sh[s] : v \in {w \in 1..Len(hist) : InWindow(w, L)}}
        IN LookbackOK(Shard(C, s, L, now), past, C.mem)
              \/ Cex("LookbackSuperset", [size |-> s, L |-> L, lb |-> Shard(C, s, L, now), hist |-> hist])

(***************************************************************************)
(* Negative controls (MC_neg_*.cfg substitute them; TLC must refute).      *)
(*  NoZoneExemption     for ZoneChangesExempt: the look-back clause also   *)
(*     across a change of the set of zones - refuted, which is the         *)
(*     recorded observation of DESIGN 8.3/8.4 as a reachable state.        *)
(*  ExtRegOnly          for Ext: a walk that stops at an instance that is  *)
(*     or recently switched read-only - LookbackSuperset must fail.        *)
(*  IncAlways           for Inc: a walk that does not pass read-only       *)
(*     instances - SizeFormula / NoReadOnlyMembers must fail.              *)
(***************************************************************************)
NoZoneExemption == FALSE
ExtRegOnly(c, i, L, t) == L > 0 /\ c.reg[i] >= t - L
IncAlways(c, i, L, t) == TRUE

(* reachability witnesses for the implication-shaped clauses: TLC must     *)
(* REFUTE each "never" (MC_wit_*.cfg)                                      *)
NeverExtended ==     \* the look-back answer is never larger than the plain shard
    Running => \A s \in Sizes : \A L \in Lookbacks : Shard(C, s, L, now) = Cur[s]
NeverExhausted ==    \* no zone ever runs out of eligible instances
    Running => \A s \in Sizes : s = 0 \/ Cardinality(Cur[s]) >= Min2(s, Cardinality(C.mem))
NeverInconsistentPair ==   \* Consistency is never applicable with a changed shard
    Running => \A x \in C.mem : LET W == [C EXCEPT !.mem = @ \ {x}]
                                IN ConsistencyApplies(C, W, C.za) => \A s \in Sizes : Cur[s] = Shard(W, s, 0, now)

(* sanity of the model itself: look-back 0 through the look-back entry is the plain shard *)
TypeOK == Running => /\ C.mem # {} /\ C.mem \subseteq Universe
                     /\ \A s \in Sizes : Cur[s] = Shard(C, s, 0, now) /\ Cur[s] \subseteq C.mem
=============================================================================
