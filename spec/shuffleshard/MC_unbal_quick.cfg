CONSTANTS
  N = 5
  MaxTok = 1
  MaxM = 5
  Z = 3
  MaxSize = 7
  MaxEvents = 0
  ZaModes = {TRUE}
  FullMem = TRUE
  MaxRO0 = 1
INIT Init
NEXT Next
VIEW View
INVARIANTS TypeOK SizeFormula NoReadOnlyMembers Monotone Consistency LookbackSuperset
CHECK_DEADLOCK FALSE
