CONSTANTS
  NC = 1
  NL = 2
  WRun = {}
  WTerm = {}
  QCap = 4
  MaxIters = 2
  MaxStart = 1
  ParentCancels = TRUE
  Presents = {{"start","run","stop"}}
  RunModes = {"any","timer"}
  GuardNilCancel = @@GUARD@@
INIT Init
NEXT Next
INVARIANTS TypeOK ChainedHistory SwitchNeverFails FnOrder RunOnlyAfterStart StopFnIffStarted CtxCancelledBeforeStopFn StopFnGetsRunError ContextReleased ContextOnceStarted WaitersExact NoDoubleClose FirstErrorWins ListenerOrder NotifierNeverBlocks @@NONIL@@ 
PROPERTIES LegalTransitions
CHECK_DEADLOCK FALSE
