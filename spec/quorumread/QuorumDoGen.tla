----------------------------- MODULE QuorumDoGen -----------------------------
(***************************************************************************)
(* spec -> code for the legacy executor ReplicationSet.Do: behaviours of   *)
(* QuorumDo under quiescent driving (environment steps only in quiescent   *)
(* states), with the observation demanded before every environment step.   *)
(* Which delayed goroutine receives a forceStart token is decided by the   *)
(* Go runtime (receiver queue order), so configurations in which two       *)
(* delayed goroutines can compete for a token are left to record/validate  *)
(* (GenCfgOK).                                                             *)
(***************************************************************************)
EXTENDS QuorumDo, Json

VARIABLES hist

GenCfgOK(c) == ~c.delay \/ c.mode = "zone" \/ c.tol <= 1

Obs(end) == [a |-> "obs", calls |-> calls,
             ret |-> [kind |-> ret.kind, set |-> ret.seq, cls |-> ret.cls, inst |-> ret.inst],
             cleaned |-> [i \in Inst |-> 0], bad |-> 0,
             ctx |-> [i \in Inst |-> IF calls[i] > 0 THEN ctxDone ELSE "-"],
             end |-> end]

GInit == Init /\ GenCfgOK(cfg) /\ hist = <<>>

PostOK(i) == mainPc = "returned" => \A j \in Inst : st[j] = "running" => i <= j
Env(step, A) == Quiet /\ A /\ hist' = hist \o <<Obs(FALSE), step>>
\* cancel() closes the context's own done channel first: a main loop blocked in select commits to ctx.Done()
SelectCommit == (ctxDone # "live" /\ mainPc = "loop") => mainPc' = "returned"

GNext == \/ \E i \in Inst : \E o \in {"ok", "err"} : PostOK(i) /\ Env([a |-> "finish", i |-> i, o |-> o], Finish(i, o))
         \/ Env([a |-> "adv"], Advance)
         \/ Env([a |-> "cancel"], ParentCancel)
         \/ ~Quiet /\ IntNext /\ SelectCommit /\ UNCHANGED hist

Behaviour == [cfg |-> cfg, steps |-> Append(hist, Obs(TRUE))]
Emit == Terminated => PrintT(ToJson(Behaviour))
=============================================================================
