------------------------------ MODULE QuorumMulti ------------------------------
(***************************************************************************)
(* C11, multi-set variant:                                                 *)
(* ring.DoMultiUntilQuorumWithoutSuccessfulContextCancellation(ctx, sets,  *)
(* cfg, f, cleanup) with 2..3 replication sets.  One worker goroutine per  *)
(* set runs DoUntilQuorumWithoutSuccessfulContextCancellation on the       *)
(* shared workersCtx; the first failing set records its error and cancels  *)
(* workersCtx (so the other sets end with "cancelled"); when all workers   *)
(* are done the call returns the concatenated results or the first error.  *)
(*                                                                         *)
(* The inner call is the one of QuorumRead.tla, here with set-indexed      *)
(* variables and restricted to what the outer layer can influence: default *)
(* (non-zone-aware) tracker, all requests started, no hedging, no terminal *)
(* predicate (those dimensions are decided on QuorumRead.tla).             *)
(*                                                                         *)
(* In-flight tracker / "all requests completed" rule: every invocation of  *)
(* f is tracked (addInstance) until the callback calls the CancelCauseFunc *)
(* it was given (CbDone: cancels its own context, removeInstance, then     *)
(* cancelWorkersCtxIfSafe).  workersCtx is released ("completed") exactly  *)
(* when the call has returned successfully (allInstancesAdded) and no      *)
(* tracked invocation is left - never while a returned call still uses its *)
(* context.  With a single set the call is delegated to the inner call and *)
(* there is no tracker.  Switched on by the constant WithDone.              *)
(*                                                                         *)
(* The specification states what the PROPERTY demands: a result that a     *)
(* successful set handed to its worker and that is not returned because    *)
(* another set failed is passed to cleanup when the call returns           *)
(* (OuterReturn).                                                          *)
(***************************************************************************)
EXTENDS Integers, FiniteSets, Sequences, TLC

CONSTANTS Shapes,     \* set of sequences of set sizes, e.g. {<<1,1>>, <<2,1>>, <<1,1,1>>}
          WithDone,   \* BOOLEAN: callbacks may call their CancelCauseFunc (in-flight tracker modelled)
          TrackerBug  \* negative control: "none" as coded | "ignoreExpect": allInstancesCompleted ignores
                      \* expectMoreInstances | "firstDone": the first completed callback releases workersCtx

VARIABLES cfg,        \* [size |-> <<n_1..n_K>>, tol |-> <<t_1..t_K>>]
          st, outcome, ctx, calls, cleaned,     \* per instance (global numbering, set by set)
          chan, numSucc, numErr, rmap, innerPc, iret, workerDone,   \* per set
          wctx,       \* workersCtx: "live" | "parent" | "otherSet"
          firstErr,   \* returnErr: [cls, inst] or NoErr
          collected,  \* returnResults (as a set of instances)
          outerPc, ret,
          cbDone,     \* instances whose callback has called its CancelCauseFunc
          expectMore, \* inflightInstanceTracker.expectMoreInstances
          errRecv     \* history: instances whose error an inner main loop received

vars == <<cfg, st, outcome, ctx, calls, cleaned, chan, numSucc, numErr, rmap, innerPc, iret, workerDone,
          wctx, firstErr, collected, outerPc, ret, cbDone, expectMore, errRecv>>

K    == Len(cfg.size)
Sets == 1..K
RECURSIVE SumTo(_, _)
SumTo(s, k) == IF k = 0 THEN 0 ELSE s[k] + SumTo(s, k - 1)
N    == SumTo(cfg.size, K)
Inst == 1..N
First(s) == SumTo(cfg.size, s - 1) + 1
InstOf(s) == First(s)..(First(s) + cfg.size[s] - 1)
SetOf(i) == CHOOSE s \in Sets : i \in InstOf(s)
Max2(a, b) == IF a > b THEN a ELSE b

NoErr == [cls |-> "-", inst |-> 0]
NoRet == [kind |-> "none", set |-> {}, cls |-> "-", inst |-> 0]

Succeeded(s) == numSucc[s] >= cfg.size[s] - cfg.tol[s]
Failed(s)    == numErr[s] > cfg.tol[s]

TolChoices(sz) == {t \in [1..Len(sz) -> 0..2] : \A k \in 1..Len(sz) : t[k] <= sz[k]}
Cfgs == UNION {{[size |-> sz, tol |-> t] : t \in TolChoices(sz)} : sz \in Shapes}

InitCfg(c) ==
  LET kk == Len(c.size)
      nn == SumTo(c.size, kk)
  IN /\ cfg = c
     /\ st = [i \in 1..nn |-> "released"]
     /\ outcome = [i \in 1..nn |-> "none"]
     /\ ctx = [i \in 1..nn |-> "live"]
     /\ calls = [i \in 1..nn |-> 0]
     /\ cleaned = [i \in 1..nn |-> 0]
     /\ chan = [s \in 1..kk |-> <<>>]
     /\ numSucc = [s \in 1..kk |-> 0]
     /\ numErr = [s \in 1..kk |-> 0]
     /\ rmap = [s \in 1..kk |-> {}]
     /\ innerPc = [s \in 1..kk |-> "loop"]
     /\ iret = [s \in 1..kk |-> NoRet]
     /\ workerDone = [s \in 1..kk |-> FALSE]
     /\ wctx = "live" /\ firstErr = NoErr /\ collected = {}
     /\ outerPc = "wait" /\ ret = NoRet /\ errRecv = {}
     /\ cbDone = {} /\ expectMore = TRUE
Init == \E c \in Cfgs : InitCfg(c)

CancelIn(c, S, cause) == [i \in Inst |-> IF i \in S /\ c[i] = "live" THEN cause ELSE c[i]]
CleanAll(cl, S) == [i \in Inst |-> cl[i] + (IF i \in S THEN 1 ELSE 0)]

-----------------------------------------------------------------------------
Begin(i) ==
  /\ st[i] = "released"
  /\ st' = [st EXCEPT ![i] = "running"]
  /\ calls' = [calls EXCEPT ![i] = @ + 1]
  /\ UNCHANGED <<cfg, outcome, ctx, cleaned, chan, numSucc, numErr, rmap, innerPc, iret, workerDone,
                 wctx, firstErr, collected, outerPc, ret, cbDone, expectMore, errRecv>>

Abort(i) ==
  /\ st[i] = "released" /\ ctx[i] # "live"
  /\ st' = [st EXCEPT ![i] = "posted"]
  /\ outcome' = [outcome EXCEPT ![i] = "abort"]
  /\ chan' = [chan EXCEPT ![SetOf(i)] = Append(@, i)]
  /\ UNCHANGED <<cfg, ctx, calls, cleaned, numSucc, numErr, rmap, innerPc, iret, workerDone,
                 wctx, firstErr, collected, outerPc, ret, cbDone, expectMore, errRecv>>

Finish(i, o) ==
  /\ st[i] = "running" /\ o \in {"ok", "err"}
  /\ st' = [st EXCEPT ![i] = "posted"]
  /\ outcome' = [outcome EXCEPT ![i] = o]
  /\ chan' = [chan EXCEPT ![SetOf(i)] = Append(@, i)]
  /\ UNCHANGED <<cfg, ctx, calls, cleaned, numSucc, numErr, rmap, innerPc, iret, workerDone,
                 wctx, firstErr, collected, outerPc, ret, cbDone, expectMore, errRecv>>

ParentCancel ==
  /\ wctx = "live" /\ outerPc = "wait"
  /\ wctx' = "parent"
  /\ ctx' = CancelIn(ctx, Inst, "parent")
  /\ UNCHANGED <<cfg, st, outcome, calls, cleaned, chan, numSucc, numErr, rmap, innerPc, iret, workerDone,
                 firstErr, collected, outerPc, ret, cbDone, expectMore, errRecv>>

\* inner main loop of set s: case result := <-resultsChan
InnerRecv(s) ==
  /\ innerPc[s] = "loop" /\ ~Succeeded(s) /\ chan[s] # <<>>
  /\ UNCHANGED <<cfg, outcome, calls, workerDone, wctx, firstErr, collected, outerPc, ret, cbDone, expectMore>>
  /\ LET i == Head(chan[s])
     IN /\ chan' = [chan EXCEPT ![s] = Tail(@)]
        /\ st' = [st EXCEPT ![i] = "recv"]
        /\ IF outcome[i] = "ok"
           THEN /\ numSucc' = [numSucc EXCEPT ![s] = @ + 1]
                /\ rmap' = [rmap EXCEPT ![s] = @ \cup {i}]
                /\ UNCHANGED <<numErr, ctx, cleaned, innerPc, iret, errRecv>>
           ELSE /\ numErr' = [numErr EXCEPT ![s] = @ + 1]
                /\ errRecv' = errRecv \cup {i}
                /\ UNCHANGED <<numSucc, rmap>>
                /\ IF Failed(s)'
                   THEN /\ ctx' = CancelIn(CancelIn(ctx, {i}, "instErr"), InstOf(s), "noQuorum")
                        /\ innerPc' = [innerPc EXCEPT ![s] = "returned"]
                        /\ iret' = [iret EXCEPT ![s] = [kind |-> "err", set |-> {}, cls |-> "inst", inst |-> i]]
                        /\ cleaned' = CleanAll(cleaned, rmap[s])
                   ELSE /\ ctx' = CancelIn(ctx, {i}, "instErr")
                        /\ UNCHANGED <<innerPc, iret, cleaned>>

\* inner main loop: case <-ctx.Done() (workersCtx ended)
InnerCtxDone(s) ==
  /\ innerPc[s] = "loop" /\ ~Succeeded(s) /\ wctx # "live"
  /\ innerPc' = [innerPc EXCEPT ![s] = "returned"]
  /\ iret' = [iret EXCEPT ![s] = [kind |-> "err", set |-> {}, inst |-> 0,
                                  cls |-> IF wctx = "parent" THEN "cancelled"
                                          ELSE IF wctx = "completed" THEN "completed" ELSE "otherSet"]]
  /\ cleaned' = CleanAll(cleaned, rmap[s])
  /\ UNCHANGED <<cfg, st, outcome, ctx, calls, chan, numSucc, numErr, rmap, workerDone,
                 wctx, firstErr, collected, outerPc, ret, cbDone, expectMore, errRecv>>

InnerReturnOK(s) ==
  /\ innerPc[s] = "loop" /\ Succeeded(s)
  /\ innerPc' = [innerPc EXCEPT ![s] = "returned"]
  /\ iret' = [iret EXCEPT ![s] = [kind |-> "ok", set |-> rmap[s], cls |-> "-", inst |-> 0]]
  /\ ctx' = CancelIn(ctx, InstOf(s) \ rmap[s], "notRequired")
  /\ UNCHANGED <<cfg, st, outcome, calls, cleaned, chan, numSucc, numErr, rmap, workerDone,
                 wctx, firstErr, collected, outerPc, ret, cbDone, expectMore, errRecv>>

Drain(s) ==
  /\ innerPc[s] = "returned" /\ chan[s] # <<>>
  /\ LET i == Head(chan[s])
     IN /\ chan' = [chan EXCEPT ![s] = Tail(@)]
        /\ st' = [st EXCEPT ![i] = "recv"]
        /\ cleaned' = IF outcome[i] = "ok" THEN [cleaned EXCEPT ![i] = @ + 1] ELSE cleaned
  /\ UNCHANGED <<cfg, outcome, ctx, calls, numSucc, numErr, rmap, innerPc, iret, workerDone,
                 wctx, firstErr, collected, outerPc, ret, cbDone, expectMore, errRecv>>

\* worker goroutine of set s after its inner call returned
Worker(s) ==
  /\ innerPc[s] = "returned" /\ ~workerDone[s]
  /\ workerDone' = [workerDone EXCEPT ![s] = TRUE]
  /\ IF iret[s].kind = "err"
     THEN /\ UNCHANGED collected
          /\ IF firstErr = NoErr
             THEN \* returnErrOnce: remember the error, interrupt all workers
                  /\ firstErr' = [cls |-> iret[s].cls, inst |-> iret[s].inst]
                  /\ wctx' = IF wctx = "live" THEN "otherSet" ELSE wctx
                  /\ ctx' = CancelIn(ctx, Inst, "otherSet")
             ELSE UNCHANGED <<firstErr, wctx, ctx>>
     ELSE /\ collected' = collected \cup iret[s].set
          /\ UNCHANGED <<firstErr, wctx, ctx>>
  /\ UNCHANGED <<cfg, st, outcome, calls, cleaned, chan, numSucc, numErr, rmap, innerPc, iret,
                 outerPc, ret, cbDone, expectMore, errRecv>>

\* tracked invocations of f that have not completed (inflightInstanceTracker.inflight; addInstance
\* happens when f is invoked, removeInstance when the callback calls its CancelCauseFunc)
Inflight == {i \in Inst : calls[i] > 0 /\ i \notin cbDone}
\* inflightTracker.allInstancesCompleted() if the tracked set were X and expectMoreInstances were e
AllCompleted(X, e) == CASE TrackerBug = "ignoreExpect" -> X = {}
                        [] OTHER -> ~e /\ X = {}

\* workersGroup.Wait() returned
OuterReturn ==
  /\ outerPc = "wait" /\ \A s \in Sets : workerDone[s]
  /\ outerPc' = "returned"
  /\ IF firstErr # NoErr
     THEN /\ ret' = [kind |-> "err", set |-> {}, cls |-> firstErr.cls, inst |-> firstErr.inst]
          /\ cleaned' = CleanAll(cleaned, collected)      \* demanded by the property (see header)
          /\ UNCHANGED <<expectMore, wctx, ctx>>
     ELSE /\ ret' = [kind |-> "ok", set |-> collected, cls |-> "-", inst |-> 0]
          /\ UNCHANGED cleaned
          \* inflightTracker.allInstancesAdded(); cancelWorkersCtxIfSafe()
          /\ expectMore' = FALSE
          /\ IF K > 1 /\ AllCompleted(Inflight, FALSE) /\ wctx = "live"
             THEN wctx' = "completed" /\ ctx' = CancelIn(ctx, Inst, "completed")
             ELSE UNCHANGED <<wctx, ctx>>
  /\ UNCHANGED <<cfg, st, outcome, calls, chan, numSucc, numErr, rmap, innerPc, iret, workerDone,
                 firstErr, collected, cbDone, errRecv>>

\* environment: the callback invoked for i calls the CancelCauseFunc it was given (while it runs or any
\* time later): cancelCtx(cause); inflightTracker.removeInstance; cancelWorkersCtxIfSafe().
\* With one set the function is the inner call's own cancel function.
CbDone(i) ==
  /\ WithDone /\ calls[i] > 0 /\ i \notin cbDone
  /\ cbDone' = cbDone \cup {i}
  /\ LET c1 == CancelIn(ctx, {i}, "cb")
         release == \/ AllCompleted(Inflight \ {i}, expectMore)
                    \/ TrackerBug = "firstDone"
     IN IF K > 1 /\ release /\ wctx = "live"
        THEN wctx' = "completed" /\ ctx' = CancelIn(c1, Inst, "completed")
        ELSE ctx' = c1 /\ UNCHANGED wctx
  /\ UNCHANGED <<cfg, st, outcome, calls, cleaned, chan, numSucc, numErr, rmap, innerPc, iret, workerDone,
                 firstErr, collected, outerPc, ret, expectMore, errRecv>>

EnvNext == (\E i \in Inst : (\E o \in {"ok", "err"} : Finish(i, o)) \/ CbDone(i)) \/ ParentCancel
IntNext == \/ \E i \in Inst : Begin(i) \/ Abort(i)
           \/ \E s \in Sets : InnerRecv(s) \/ InnerCtxDone(s) \/ InnerReturnOK(s) \/ Drain(s) \/ Worker(s)
           \/ OuterReturn
Next == EnvNext \/ IntNext

Terminated == outerPc = "returned" /\ \A i \in Inst : st[i] = "recv"
Done == Terminated /\ UNCHANGED vars
NextD == Next \/ Done

Quiet == /\ \A i \in Inst : st[i] # "released"
         /\ \A s \in Sets : /\ innerPc[s] = "loop" => (~Succeeded(s) /\ chan[s] = <<>> /\ wctx = "live")
                            /\ innerPc[s] = "returned" => (chan[s] = <<>> /\ workerDone[s])
         /\ outerPc = "wait" => \E s \in Sets : ~workerDone[s]

Fairness == /\ \A i \in 1..6 : WF_vars(i \in Inst /\ (Begin(i) \/ Abort(i)))
            /\ \A j \in 1..6 : WF_vars(j \in Inst /\ \E o \in {"ok", "err"} : Finish(j, o))
            /\ \A s \in 1..3 : WF_vars(s \in Sets /\ (InnerRecv(s) \/ InnerCtxDone(s) \/ InnerReturnOK(s) \/ Drain(s) \/ Worker(s)))
            /\ WF_vars(OuterReturn)
Spec == Init /\ [][Next]_vars /\ Fairness

-----------------------------------------------------------------------------
TypeOK == /\ \A i \in Inst : calls[i] \in 0..1 /\ cleaned[i] \in 0..2
          /\ cbDone \subseteq {i \in Inst : calls[i] > 0}
          /\ wctx \in {"live", "parent", "otherSet", "completed"}
          /\ expectMore = ~(outerPc = "returned" /\ ret.kind = "ok")
          /\ (outerPc = "wait") = (ret.kind = "none")

ExceededH(s) == Cardinality(errRecv \cap InstOf(s)) > cfg.tol[s]

OnlySuccessful == ret.kind = "ok" => \A i \in ret.set : outcome[i] = "ok" /\ calls[i] = 1
QuorumBacked   == ret.kind = "ok" => \A s \in Sets : Cardinality(ret.set \cap InstOf(s)) = Max2(cfg.size[s] - cfg.tol[s], 0)
ErrWhenExceeded ==
  /\ ret.kind = "ok" => \A s \in Sets : ~ExceededH(s)
  /\ ret.kind = "err" => \/ ret.cls = "inst" /\ ret.inst \in errRecv /\ ExceededH(SetOf(ret.inst))
                         \/ ret.cls = "cancelled" /\ wctx = "parent"      \* never "completed" / "otherSet"
AtMostOneCall == \A i \in Inst : calls[i] <= 1
CleanupSafe == \A i \in Inst : cleaned[i] <= 1 /\ (cleaned[i] = 1 => outcome[i] = "ok" /\ i \notin ret.set)
CleanupExactlyOnce ==
  Terminated => \A i \in Inst : cleaned[i] = (IF outcome[i] = "ok" /\ i \notin ret.set THEN 1 ELSE 0)
UnusedCancelled == outerPc = "returned" => \A i \in Inst \ ret.set : ctx[i] # "live"
\* the context of a returned call stays usable until the caller gives up or the callback itself releases it
ReturnedNotCancelled == (ret.kind = "ok" /\ wctx # "parent") => \A i \in ret.set \ cbDone : ctx[i] = "live"
\* the shared workers context is released only after a successful return and only when every returned call
\* has released its own context (so it outlives every use of a returned result) ...
CompletedJustified == wctx = "completed" => /\ K > 1 /\ ret.kind = "ok" /\ ~expectMore
                                            /\ ret.set \subseteq cbDone
\* ... and it IS released as soon as nothing tracked is left (no leak of the context tree)
CompletedWhenAllDone == (K > 1 /\ ret.kind = "ok" /\ wctx # "parent" /\ Inflight = {}) => wctx = "completed"
\* reachability witnesses (TLC must refute them)
NeverCompleted == wctx # "completed"
NeverCompletedByCallback == ~(wctx = "completed" /\ \E i \in cbDone : ctx[i] = "cb" /\ i \in ret.set)
Termination == <>Terminated
=============================================================================
