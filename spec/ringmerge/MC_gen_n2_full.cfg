\* C03/C05 replay, thorough: two ids, shared pool, a third live state that behaves like ACTIVE.
CONSTANTS
  N = 2
  M = 2
  Shared = TRUE
  TsSet = {1, 2}
  LiveSt = {"ACTIVE", "LEAVING", "JOINING"}
  NowSet = {2}
  NSlices = @@NSLICES@@
  Slice = @@SLICE@@
INIT Init
NEXT Next
INVARIANTS CaseProps Emit
CHECK_DEADLOCK FALSE
