"""C03 - ring-descriptor merge is a CRDT (instance ring and partition ring).

spec/ringmerge/RingMerge.tla and PartitionMerge.tla define Merge(mine, other, localCAS, now) -> [result, change]
from the documented rules and the code's exact tie rules.  TLC decides the algebraic laws (Idem, Comm, Assoc,
DeltaSelf/DeltaOther, NilIsNoop, NewestWins, RemovalWinsTies, Convergence over permutations / regroupings /
duplications / relayed changes of <= 3 updates) on exhaustively enumerated universes (RingMergeLaws,
PartitionMergeLaws).  Binding: (1) every enumerated (mine, other, localCAS, now) with the receiver and change the
specification demands is executed on real *ring.Desc / *ring.PartitionRingDesc through the exported Merge inside a
testing/synctest bubble (RingMergeGen / PartitionMergeGen -> harness/c03), as are the convergence schedules;
(2) random larger descriptors and merge sequences are recorded from the real code and every call is recomputed by
TLC (RingMergeTrace / PartitionMergeTrace).
"""
import os

import ringmerge_common as rc
import verif

PROPERTY = "C03"
META = {
    "level_text": "The merge of both ring descriptors is an explicit TLA+ operator; TLC decides idempotence, commutativity, associativity, "
                  "sufficiency of the reported change (for the sender and for any replica containing the pre-state), nil-change = no-op, "
                  "newest-wins / removal-wins-ties and convergence of every permutation, regrouping, duplication and relayed-change schedule "
                  "of <= 3 updates on exhaustively enumerated universes (instance ring: all 35^3 triples of single-id descriptors over "
                  "absent | ts in {1,2} x (4 live states x 4 token subsets | LEFT), all pairs of two-id descriptors; partition ring: all "
                  "triples over absent | states x ts x lock register, owners x ts x owned partition) under the statement's provisos. "
                  "The laws are tied to the code by replaying every enumerated Merge(mine, other, localCAS) - including the collision, "
                  "equal-timestamp and zero-timestamp operands the laws exclude - on real objects (token lists shuffled and duplicated, "
                  "3 repetitions for map order, virtual clock = the case's now; the quick tier replays a seed-chosen 1/16 slice of the "
                  "two-id collision universe and every third convergence triple, the thorough tier half / all of them) and comparing receiver and returned change with the "
                  "specification's, by executing the convergence schedules on real objects, and by validating recorded random merge "
                  "sequences on descriptors with 12 instances / 8 partitions + 6 owners against the specification. "
                  "The rest of the memberlist.Mergeable contract is specified and bound too (RingContract.tla, PartitionEdit.tla): "
                  "MergeContent = Content (a change is nil exactly when its content is empty; Merge never drops an id), "
                  "RemoveTombstones(limit) = GC with limits in half seconds (strictly-before boundary, zero time = the reader's view, "
                  "twice = no-op, counts; negative control: 'at or before' is refuted), Clone (equal, independent, not mutated by a later "
                  "in-place Merge), codec round trip (every second replayed Merge receives its argument encode -> decode), nil / foreign "
                  "arguments. For the partition ring every mutator (AddPartition, UpdatePartitionState, UpdatePartitionStateChangeLock, "
                  "RemovePartition, AddOrUpdateOwner, RemoveOwner) is a specification operator; TLC decides that a local CAS (strip "
                  "tombstones, mutate, Merge with localCAS) reports a change exactly when the mutator did, touches only the edited key and "
                  "that the change carries the edit to a replica holding the pre-state and to a fresh one (EditLaws, under the fresh-clock "
                  "proviso; removals also in the same second), and every enumerated (stored, mutator, clock) is executed on real objects "
                  "with all intermediate values compared. Thorough adds three partitions, two owners of one partition, two partitions x two "
                  "owners for the edits, all partition states x full lock register x a writer clock that is behind.",
    "level_note": "Exhaustive within the stated small universes only; associativity/convergence for several ids relies on merge being "
                  "entry-wise when no tokens are shared (checked for pairs of two-id descriptors, sampled by the recorded traces). "
                  "Trusted: TLC, the projection harness/internal/abs/ringmerge.go (token lists as sets + sortedness check, unix seconds "
                  "relative to 2000-01-01), testing/synctest's clock. Named deviations kept in the specification: an entry stamped 0 is "
                  "invisible to a replica that lacks it (ZeroTimestamp), owner tombstones keep a dead payload (TombstonePayload), "
                  "collisions are resolved without touching the loser's timestamp (ResolveWithoutTimestamp, see C05); a live -> live edit in the "
                  "very second of the previous write of that entry is dropped by the local-CAS merge although the mutator reported a change "
                  "(SameSecondEditLost, e.g. RemoveOwner then AddOrUpdateOwner within one second; TLC exhibits it in MC_pedit_samesecond); "
                  "AddPartition over an entry whose lock register was ever written - in production a tombstone - keeps that lock register "
                  "(LockSurvivesRecreation, MC_pedit_lockwitness). Observed, outside the property: PartitionRingDesc.MergeContent() starts with "
                  "as many empty strings as it has entries; PartitionRingDesc.Clone() shares token storage with the original although "
                  "Mergeable.Clone is documented as a deep copy (counted in the evidence). Not bound: the instance ring's own mutators "
                  "(AddIngester, RemoveIngester, ClaimTokens - they belong to the lifecycler properties), three ids sharing tokens in the "
                  "replay (MC_gen_n3.cfg exists, not in a tier: its slicing needs tuning; C05's RingReplica covers three colliding ids).",
    "technique": "TLA+ specifications (RingMerge.tla, PartitionMerge.tla) model-checked by TLC; TLC-generated cases replayed into the real "
                 "code; traces recorded from the real code validated by TLC",
    "design_ref": "DESIGN.md 2 C03",
}


def run(ctx):
    quick = ctx.tier == "quick"
    ctx.rule = ("one case = one Merge(mine, other, localCAS, now) of the enumerated universe (receiver and change compared), one "
                "convergence triple (7 schedule shapes x 6 permutations executed, final descriptor compared), one (descriptor, tombstone "
                "limit) contract case, one (stored, mutator, clock) local-CAS edit case or one recorded Merge "
                "call accepted by the trace specification; non-trivial = the merge changes the receiver (non-nil change; also for recorded "
                "calls and edits) / at least two of the three updates are non-empty / a tombstone is collected; distinct = distinct TLC "
                "states (operand tuples)")
    ctx.assumptions = ["receivers are normalised (sorted, duplicate-free token lists; LEFT without tokens) as Desc.Merge requires",
                       "timestamps are unix seconds: specification time t>0 is 2000-01-01T00:00:00Z + t s on the synctest clock, 0 is 0",
                       "instance ids i-1..i-9 / i-01..i-12 (string order = numeric order)"]
    ctx.exhaustive = True

    # ---- 1. TLC decides the laws -------------------------------------------------------------
    law_runs = [("RingMergeLaws", "MC_laws_quick.cfg"),
                ("PartitionMergeLaws", "MC_plaws_part_quick.cfg"), ("PartitionMergeLaws", "MC_plaws_own.cfg")]
    if not quick:
        law_runs = [("RingMergeLaws", "MC_laws_full.cfg"), ("RingMergeLaws", "MC_laws_pairs_quick.cfg"),
                    ("RingMergeLaws", "MC_laws_pairs_shared.cfg"),
                    ("RingMergeLaws", "MC_laws_pairs_disjoint.cfg"),
                    ("PartitionMergeLaws", "MC_plaws_part_full.cfg"), ("PartitionMergeLaws", "MC_plaws_own.cfg"),
                    ("PartitionMergeLaws", "MC_plaws_mixed.cfg"), ("PartitionMergeLaws", "MC_plaws_three.cfg"),
                    ("PartitionEdit", "MC_pedit_contract.cfg")]
    # ---- 2. spec -> code: every enumerated merge (generated alongside the law runs) -----------
    nsl = 16 if quick else 2
    gen_runs = [("RingMergeGen", "MC_gen_n1.cfg", None),
                ("RingMergeGen", "MC_gen_n2.cfg", {"@@NSLICES@@": nsl, "@@SLICE@@": ctx.seed % nsl}),
                ("PartitionMergeGen", "MC_pgen_part.cfg", None), ("PartitionMergeGen", "MC_pgen_own.cfg", None),
                ("PartitionMergeGen", "MC_pgen_mixed.cfg", None)]
    # the rest of the Mergeable contract (MergeContent, RemoveTombstones(limit), Clone, codec) and the partition ring's own
    # mutators run as a local CAS + merge of the change on a second replica: laws decided and gc / pgc / pedit cases emitted
    if quick:
        gen_runs += [("RingContract", "MC_contract_ring_quick.cfg", None), ("PartitionEdit", "MC_pedit_quick.cfg", None)]
    else:
        gen_runs += [("RingMergeGen", "MC_gen_n2_full.cfg", {"@@NSLICES@@": 8, "@@SLICE@@": ctx.seed % 8}),
                     ("PartitionMergeGen", "MC_pgen_own2.cfg", None), ("PartitionMergeGen", "MC_pgen_two.cfg", None),
                     ("PartitionMergeGen", "MC_pgen_mixed2.cfg", None), ("PartitionMergeGen", "MC_pgen_three.cfg", None),
                     ("RingContract", "MC_contract_ring.cfg", None), ("PartitionEdit", "MC_pedit_full.cfg", None),
                     ("PartitionEdit", "MC_pedit_two.cfg", {"@@NSLICES@@": 16, "@@SLICE@@": ctx.seed % 16})]
    width = 4
    wk = rc.par_workers(width)

    def law(module, cfg):
        def f():
            r = rc.tlc_ok(ctx, module, cfg, workers=wk,
                          coverage=(not quick and cfg.startswith(("MC_laws_full", "MC_plaws_part_full"))))
            if rc.zero_coverage(r):
                raise verif.Inconclusive("%s: actions with zero coverage: %s" % (cfg, rc.zero_coverage(r)))
            if not r.emitted and "EmitConv = TRUE" in open(os.path.join(verif.SPEC, rc.FAMILY, cfg)).read():
                raise verif.Inconclusive("%s: the provisos filtered every triple away (vacuous laws)" % cfg)
            return r
        return f

    def gen(module, cfg, subst):
        def f():
            r = rc.tlc_ok(ctx, module, cfg, subst=subst, workers=wk)
            if r.emitted == 0:
                raise verif.Inconclusive("%s emitted no cases" % cfg)
            return r
        return f

    def noproviso():   # the provisos are not decoration: without them TLC must refute commutativity
        r = rc.locked_tlc(ctx, rc.FAMILY, "RingMergeLaws", cfg="MC_laws_noproviso.cfg", workers=2, timeout=rc.TLC_TIMEOUT, count=False)
        if r.timed_out or r.error or r.violated != "CommWithoutProvisos":
            raise verif.Inconclusive("MC_laws_noproviso.cfg: expected a counterexample to unconditional commutativity, got %s %s" % (
                r.violated, (r.error or "")[:200]))
        ctx.extra["provisos_shown_necessary"] = True
        return None

    def refuted(module, cfg, inv, key):   # negative controls / witnesses: TLC must refute a deliberately wrong or too strong model
        def f():
            r = rc.locked_tlc(ctx, rc.FAMILY, module, cfg=cfg, workers=2, timeout=rc.TLC_TIMEOUT, count=False)
            if r.timed_out or r.error or r.violated != inv:
                raise verif.Inconclusive("%s: expected TLC to refute %s, got %s %s" % (cfg, inv, r.violated, (r.error or "")[:200]))
            ctx.extra[key] = True
            return None
        return f

    # code -> spec runs beside the model checking: record random merge sequences, then let TLC recompute every call
    tdir = os.path.dirname(ctx.path("traces", "x"))
    tn, tm, tnp, tno = 12, 24, 8, 6
    steps = 500 if quick else 6000

    def record_and_validate():
        env = {"VERIF_TRACE_DIR": tdir, "VERIF_TN": tn, "VERIF_TM": tm, "VERIF_TNP": tnp, "VERIF_TNO": tno,
               "VERIF_TSTEPS": steps, "VERIF_TMAXNOW": max(60, steps // 4)}
        res = rc.locked_harness(ctx, "c03", "^TestC03$", env=env, timeout=3000)
        if res.get("fatal") or res.get("mismatches"):
            return (res, 0, 0)
        n1, n2 = rc.run_parallel([
            lambda: rc.validate_trace(ctx, "RingMergeTrace", os.path.join(tdir, "ring_trace.ndjson"),
                                      {"@@N@@": tn, "@@M@@": tm, "@@NREP@@": 3}, "ring trace", "ring:trace"),
            lambda: rc.validate_trace(ctx, "PartitionMergeTrace", os.path.join(tdir, "part_trace.ndjson"),
                                      {"@@NP@@": tnp, "@@NO@@": tno, "@@NREP@@": 3}, "partition trace", "part:trace")], 2)
        return (res, n1, n2)

    # the longest runs first
    jobs = [gen(*g) for g in gen_runs[1:2]] + [law(*l) for l in law_runs] + [gen(*g) for g in gen_runs[:1] + gen_runs[2:]]
    if not quick:
        jobs.append(noproviso)
        jobs += [refuted("RingContract", "MC_contract_neg.cfg", "GCWrongIsGC", "tombstone_limit_boundary_shown_observable"),
                 refuted("PartitionEdit", "MC_pedit_samesecond.cfg", "NegSameSecond", "named_behaviour_SameSecondEditLost_exhibited"),
                 refuted("PartitionEdit", "MC_pedit_lockwitness.cfg", "NegLockWitness", "named_behaviour_LockSurvivesRecreation_exhibited")]
    results = rc.run_parallel([record_and_validate] + jobs, width + 1)
    rec_res, n1, n2 = results[0]
    results = results[1:]
    case_files = [r.out_path for r in results if r is not None and r.emitted]
    expect = sum(r.emitted for r in results if r is not None)
    cases = rc.concat(ctx, "c03_cases.ndjson", case_files)

    # ---- 3. spec -> code: one harness run replays every case ------------------------------------
    env = {"VERIF_IN": cases, "VERIF_REPS": 3,
           "VERIF_CONV_EVERY": 3 if quick else 1}   # quick: every third convergence triple (offset by the seed) is executed
    res = ctx.run_harness("c03", "^TestC03$", env=env, timeout=3000)
    done = int(res.get("cases", 0)) + int((res.get("extra") or {}).get("mismatches_total", 0)) + int((res.get("extra") or {}).get("conv_skipped", 0))
    if not res.get("fatal") and done < expect and not res.get("mismatches"):
        raise verif.Inconclusive("harness executed %s of %d cases" % (done, expect))
    ctx.absorb(res, "replay")

    # ---- 4. code -> spec (ran beside steps 1-2) ---------------------------------------------------
    ctx.absorb(rec_res, "record")
    ctx.extra["trace_events_validated"] = n1 + n2
    return "model_checking"
