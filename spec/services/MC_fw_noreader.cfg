CONSTANTS
  NS = 2
  Modes = {"services", "manager"}
  ReaderFair = FALSE
SPECIFICATION Spec
INVARIANTS TypeOK ReportedAtMostOnce NeverSendOnClosed
PROPERTIES CloseReturns
CHECK_DEADLOCK FALSE
