CONSTANTS
  N = 3
  Graphs <- ConnectedShapes
  Faults = {"start", "exit"}
  AwaitStoppingInner = TRUE
  LateStart = FALSE
SPECIFICATION LiveSpec
INVARIANTS TypeOK StopOrderState FailurePropagates
PROPERTIES StartAfterDeps StopAfterDependants Termination FailurePropagatesLive
CHECK_DEADLOCK TRUE
