\* C04 behaviour generation with state-change locks: 3 nodes, one partition-ring key (partitions 1 and 3 lockable, owner 2), T = 2;
\* about a third of the behaviours start with the lock script (delayed lock update vs. tombstone). Replayed on the partition domain only.
CONSTANTS
  N = 3
  NI = 3
  NK = 1
  MaxClock = 6
  Retention = 2
  T = 2
  MaxCas = 8
  MaxFaults = 2
  LiveStates = {"ACTIVE", "LEAVING", "PENDING"}
  WatchNodes = {1, 2, 3}
  HoldNodes = {1}
  AllowRestart = TRUE
  AllowGarbage = TRUE
  AllowPartition = FALSE
  AllowJunkPP = FALSE
  GateNodes = {}
  InboxCap = 1
  VersionTest = TRUE
  KeyTest = TRUE
  MaxDel = 0
  ObsoleteTimeout = 2
  LockKeys = {1}
  ConsumeNet = FALSE
  Ideal = TRUE
  Ghost = TRUE
  Record = TRUE
  Quiesce = TRUE
  RunDepth = @@RUN@@
  QRounds = 2
INIT Init
NEXT SimNext
INVARIANTS TypeOK TombstonesInvisible NoInventedContent WatcherNeverStale PrefixWatcherNeverStale QuiescentOK EmitDone
PROPERTIES TombstonesForwarded NoResurrection GCOnlyExpired NoExpiredTombstoneStored OnlyChangesForwarded DeletedStaysDeleted RemovedOnlyWhenObsolete DeletedNotRevived
CHECK_DEADLOCK FALSE
