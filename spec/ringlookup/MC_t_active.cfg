\* t_active: successor/boundary: <=4 instances x <=2 tokens on 8 positions, everything ACTIVE
\* (generated from UNIVERSES in checks/ringlookup_common.py: python3 checks/ringlookup_common.py --write-cfgs)
CONSTANTS
  NK = 9
  Gaps = {4}
  N = 4
  MaxTok = 2
  MaxIdle = 1
  Z = 0
  StateSet = {"ACTIVE"}
  HbSet = {"edge"}
  RFMax = 5
  Canon = 2
  WithRemove = FALSE
  Excl = {}
  EmitOn = TRUE
  EmitSets = FALSE
  XMax = 0
INIT Init
NEXT Next
VIEW View
INVARIANTS TypeOK SizeOK ZoneOK ClockwiseFirst SlackExact WalkDefsAgree QuorumIntersection ExpandedOK Emit
PROPERTIES MinimalDisruption
CHECK_DEADLOCK FALSE
