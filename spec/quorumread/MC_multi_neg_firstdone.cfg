CONSTANTS
  WithDone = TRUE
  TrackerBug = "firstDone"
  Shapes <- ShapesDoneQuick
INIT Init
NEXT NextD
INVARIANTS ReturnedNotCancelled CompletedJustified
CHECK_DEADLOCK TRUE
