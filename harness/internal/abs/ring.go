package abs

import (
	"context"
	"fmt"
	"math"
	"math/rand"
	"sort"
	"time"

	"github.com/go-kit/log"
	"github.com/grafana/dskit/kv"
	"github.com/grafana/dskit/ring"
	"github.com/grafana/dskit/services"
)

// StubKV is a kv.Client that serves one fixed value: Get returns it, watches block.
// It lets the drivers build 10^5 real ring.Ring objects per tier cheaply.
type StubKV struct {
	Value any
}

var _ kv.Client = (*StubKV)(nil)

func (s *StubKV) List(context.Context, string) ([]string, error) { return nil, nil }
func (s *StubKV) Get(context.Context, string) (any, error)      { return s.Value, nil }
func (s *StubKV) Delete(context.Context, string) error           { return nil }
func (s *StubKV) CAS(context.Context, string, func(in any) (out any, retry bool, err error)) error {
	return fmt.Errorf("stub kv: CAS not supported")
}
func (s *StubKV) WatchKey(ctx context.Context, _ string, _ func(any) bool) { <-ctx.Done() }
func (s *StubKV) WatchPrefix(ctx context.Context, _ string, _ func(string, any) bool) {
	<-ctx.Done()
}

// NewRing builds and starts a real ring.Ring whose content is desc. Call the returned stop func.
func NewRing(desc *ring.Desc, cfg ring.Config) (*ring.Ring, func(), error) {
	if cfg.HeartbeatTimeout == 0 {
		cfg.HeartbeatTimeout = time.Minute
	}
	var v any
	if desc != nil {
		v = desc
	}
	r, err := ring.NewWithStoreClientAndStrategy(cfg, "verif", "ring", &StubKV{Value: v}, ring.NewDefaultReplicationStrategy(), nil, log.NewNopLogger())
	if err != nil {
		return nil, nil, err
	}
	if err := services.StartAndAwaitRunning(context.Background(), r); err != nil {
		return nil, nil, err
	}
	return r, func() { _ = services.StopAndAwaitTerminated(context.Background(), r) }, nil
}

// Embedding maps abstract positions 0..M-1 to uint32 strictly monotonically.
type Embedding struct {
	Name string
	Pos  []uint32
}

// BoundaryEmbedding puts the low half on 0,1,2,.. and the high half on ..,2^32-2,2^32-1 so that
// tokens 0, 1, 2^32-1, key=token, key=token+-1 and the wrap-around are literally exercised.
func BoundaryEmbedding(m int) Embedding {
	e := Embedding{Name: "boundary", Pos: make([]uint32, m)}
	lo := (m + 1) / 2
	for i := 0; i < m; i++ {
		if i < lo {
			e.Pos[i] = uint32(i)
		} else {
			e.Pos[i] = math.MaxUint32 - uint32(m-1-i)
		}
	}
	return e
}

// SpacedEmbedding spreads positions evenly with gaps (no adjacency, no 0 / MaxUint32).
func SpacedEmbedding(m int) Embedding {
	e := Embedding{Name: "spaced", Pos: make([]uint32, m)}
	step := uint32(math.MaxUint32 / uint32(m+1))
	for i := 0; i < m; i++ {
		e.Pos[i] = step * uint32(i+1)
	}
	return e
}

// RandomEmbedding is a seeded random strictly monotone embedding.
func RandomEmbedding(m int, rnd *rand.Rand) Embedding {
	seen := map[uint32]bool{}
	vals := make([]uint32, 0, m)
	for len(vals) < m {
		v := rnd.Uint32()
		if !seen[v] {
			seen[v] = true
			vals = append(vals, v)
		}
	}
	sort.Slice(vals, func(i, j int) bool { return vals[i] < vals[j] })
	return Embedding{Name: "random", Pos: vals}
}

// Between returns concrete keys strictly between position p and the next position (cyclically
// after the last position means up to MaxUint32 and from 0 to before position 0): the keys that
// the abstract model attributes to "half-rank class p". Returns nil when the two are adjacent.
func (e Embedding) Between(p int) []uint32 {
	var out []uint32
	lo := e.Pos[p]
	var hi uint32
	if p+1 < len(e.Pos) {
		hi = e.Pos[p+1]
		if hi-lo < 2 {
			return nil
		}
		out = append(out, lo+1)
		if hi-lo > 2 {
			out = append(out, hi-1)
		}
		if hi-lo > 4 {
			out = append(out, lo+(hi-lo)/2)
		}
		return out
	}
	// after the last position: up to MaxUint32, and before position 0 starting at 0
	if lo < math.MaxUint32 {
		out = append(out, lo+1)
		if lo+1 != math.MaxUint32 {
			out = append(out, math.MaxUint32)
		}
	}
	if e.Pos[0] > 0 {
		out = append(out, 0)
		if e.Pos[0] > 1 {
			out = append(out, e.Pos[0]-1)
		}
	}
	return out
}

// InstID is the harness name of abstract instance n (lexicographic order = numeric order for n<=9).
func InstID(n int) string { return fmt.Sprintf("i-%d", n) }

// ZoneName maps abstract zone index (0 = no zone) to a zone string.
func ZoneName(z int) string {
	if z == 0 {
		return ""
	}
	return fmt.Sprintf("z%d", z)
}

// StateOf maps the specification's state names to ring.InstanceState.
func StateOf(s string) ring.InstanceState {
	switch s {
	case "ACTIVE":
		return ring.ACTIVE
	case "LEAVING":
		return ring.LEAVING
	case "PENDING":
		return ring.PENDING
	case "JOINING":
		return ring.JOINING
	case "LEFT":
		return ring.LEFT
	}
	panic("unknown state " + s)
}

func StateName(s ring.InstanceState) string { return s.String() }

// KeyClasses turns the specification's key-class layout (nk classes in cyclic order, the ones in
// gaps are not token positions) into concrete uint32 keys: token positions denote exactly one
// value, consecutive positions are literally adjacent, the first position is 0 and the last is
// 2^32-1 unless a gap class sits there; a gap class denotes a few keys strictly between its
// neighbours (first, last, middle).
func KeyClasses(nk int, gaps []int) [][]uint32 {
	isGap := make([]bool, nk)
	for _, g := range gaps {
		isGap[g] = true
	}
	// blocks of consecutive token positions
	type block struct{ from, to int } // classes from..to inclusive
	var blocks []block
	for i := 0; i < nk; {
		if isGap[i] {
			i++
			continue
		}
		j := i
		for j+1 < nk && !isGap[j+1] {
			j++
		}
		blocks = append(blocks, block{i, j})
		i = j + 1
	}
	out := make([][]uint32, nk)
	nb := len(blocks)
	for bi, b := range blocks {
		l := uint32(b.to - b.from + 1)
		var start uint32
		switch {
		case bi == 0 && b.from == 0:
			start = 0
		case bi == nb-1 && b.to == nk-1:
			start = math.MaxUint32 - (l - 1)
		default:
			start = uint32(uint64(math.MaxUint32)/uint64(nb+1))*uint32(bi+1) + 7
		}
		for c := b.from; c <= b.to; c++ {
			out[c] = []uint32{start + uint32(c-b.from)}
		}
	}
	for c := 0; c < nk; c++ {
		if !isGap[c] {
			continue
		}
		// neighbours (non-cyclic): lower bound lo (exclusive) and upper bound hi (exclusive)
		var lo, hi int64 = -1, int64(math.MaxUint32) + 1
		for d := c - 1; d >= 0; d-- {
			if !isGap[d] {
				lo = int64(out[d][0])
				break
			}
		}
		for d := c + 1; d < nk; d++ {
			if !isGap[d] {
				hi = int64(out[d][0])
				break
			}
		}
		if hi-lo < 2 {
			panic("gap class without room")
		}
		ks := []uint32{uint32(lo + 1)}
		if hi-1 != lo+1 {
			ks = append(ks, uint32(hi-1))
		}
		if hi-lo > 4 {
			ks = append(ks, uint32(lo+(hi-lo)/2))
		}
		out[c] = ks
	}
	return out
}
