\* C06 behaviour generation: 2 nodes, no tombstone collection, T = 1, gated workers with channel
\* capacity 2 on both nodes.
CONSTANTS
  N = 2
  NI = 2
  NK = 2
  MaxClock = 3
  Retention = 0
  T = 1
  MaxCas = 8
  MaxFaults = 4
  LiveStates = {"ACTIVE", "LEAVING", "PENDING"}
  WatchNodes = {1, 2}
  HoldNodes = {1, 2}
  AllowRestart = TRUE
  AllowGarbage = TRUE
  AllowPartition = TRUE
  AllowJunkPP = TRUE
  GateNodes = {1, 2}
  InboxCap = 2
  VersionTest = TRUE
  KeyTest = TRUE
  MaxDel = 0
  ObsoleteTimeout = 1
  ConsumeNet = FALSE
  Ideal = TRUE
  Ghost = TRUE
  Record = TRUE
  Quiesce = TRUE
  RunDepth = @@RUN@@
  QRounds = 2
INIT Init
NEXT SimNext
INVARIANTS TypeOK TombstonesInvisible NoInventedContent WatcherNeverStale PrefixWatcherNeverStale QuiescentOK EmitDone
PROPERTIES TombstonesForwarded NoResurrection GCOnlyExpired NoExpiredTombstoneStored OnlyChangesForwarded DeletedStaysDeleted RemovedOnlyWhenObsolete DeletedNotRevived
CHECK_DEADLOCK FALSE
