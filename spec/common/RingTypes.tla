------------------------------ MODULE RingTypes ------------------------------
(***************************************************************************)
(* Vocabulary shared by the ring specifications: instance states, the      *)
(* heartbeat-age classes, the four built-in ring operations and the        *)
(* abstract token circle (DESIGN.md 1.1).                                  *)
(***************************************************************************)
EXTENDS Integers, FiniteSets

(* ring.InstanceState *)
States == {"ACTIVE", "LEAVING", "PENDING", "JOINING", "LEFT"}

(* Age of the last heartbeat relative to the ring's heartbeat timeout.  The *)
(* age is a real duration (clock minus timestamp; timestamps have second   *)
(* granularity, the clock has not), and only its relation to the timeout   *)
(* matters:                                                                *)
(*   "fresh"  age < timeout                                                *)
(*   "edge"   the closed boundary: age = timeout when the clock is on a     *)
(*            whole second, otherwise the largest age <= timeout a         *)
(*            second-granular timestamp can have (timeout - 1 s + f)       *)
(*   "stale"  ANY age > timeout, including timeout + epsilon (a timestamp  *)
(*            exactly timeout seconds behind a clock that is f > 0 into    *)
(*            the current second) as well as timeout + 1 s and beyond      *)
(* Only a stale heartbeat makes an instance unhealthy (the comparison is   *)
(* age <= timeout on the full-resolution age).  The harness concretises    *)
(* every class both for a clock on a whole second and for a clock inside a *)
(* second, and the same expected results must hold for both.               *)
Heartbeats == {"fresh", "edge", "stale"}
HeartbeatOK(hb) == hb # "stale"

(* A ring operation is the pair (states it accepts as healthy, states that *)
(* extend the replica set by one further instance).                        *)
Operation(h, e) == [healthy |-> h, extending |-> e]

Ops == [Write         |-> Operation({"ACTIVE"}, States \ {"ACTIVE"}),
        WriteNoExtend |-> Operation({"ACTIVE"}, {}),
        Read          |-> Operation({"ACTIVE", "LEAVING", "PENDING"}, States \ {"ACTIVE", "LEAVING"}),
        Reporting     |-> Operation(States, {})]
OpNames == DOMAIN Ops

(* The abstract token circle: positions 0..M-1 in cyclic order; keys and   *)
(* tokens are positions.  Clockwise(M, k, t) is the number of steps from   *)
(* key k to token t going clockwise, a token sitting exactly on the key    *)
(* being a full turn away ("first token strictly greater than the key,     *)
(* wrapping around").                                                      *)
Clockwise(M, from, to) == IF to > from THEN to - from ELSE to - from + M

SetMin(S) == CHOOSE x \in S : \A y \in S : x <= y
SetMax(S) == CHOOSE x \in S : \A y \in S : y <= x
Max2(a, b) == IF a >= b THEN a ELSE b
Min2(a, b) == IF a <= b THEN a ELSE b
=============================================================================
