\* C03 replay, partition ring: one partition, all states, timestamps 0..2, full lock register (raw: locked with lts 0)
CONSTANTS
  NP = 1
  NO = 0
  NOwned = 1
  TsSet = {0, 1, 2}
  PStates = {"Pending", "Active", "Inactive"}
  LockTs = {0, 1, 2}
  NowSet = {1, 3}
INIT Init
NEXT Next
INVARIANTS CaseProps Emit
CHECK_DEADLOCK FALSE
