"""C20 - tenant identifiers are validated, normalised and propagated unchanged.

spec/tenant/Tenant.tla       operators for every exported entry point of package tenant (value or
                             error class, with the order of error classes) + the property's clauses
                             as theorems, decided by TLC on every organisation id of a universe.
spec/tenant/TenantTrace.tla  observations recorded from the real code, recomputed by the operators.
spec/tenant/Propagation.tla  the id's way context -> HTTP -> context -> gRPC -> context.

Three bindings per run:
  1. gen/replay    TLC prints the expected outcome of every operator for every enumerated id;
                   harness/c20 TestReplayTenant feeds the same bytes to the real entry points.
  2. record/validate  TestRecordTenant mutates valid multi-tenant headers at byte level (seeded) and
                   logs inputs and outputs; TLC (TenantTrace) rejects records that disagree.
  3. gen/replay    TLC prints hop sequences (one per transition of the state graph; thorough: every
                   path of <= 4 hops as well); TestReplayPropagation runs them through the real
                   inject/extract functions and the auth middlewares.
  4. record/validate  TestRecordPropagation walks seeded random chains of up to 24 hops through the real
                   code; PropagationTrace.tla accepts a chain only if every hop is a step of the
                   specification's own action with the logged post-state.

Development switches (not used by MANIFEST commands):
  VERIF_C20_SELFTEST=expected|log|hop|chain   corrupt one expected outcome / one logged field / one expected hop
                                        state / one logged hop state: the run must end with exit 1.
  VERIF_C20_ONLY=observations           run only the thorough tier's "named deviations" section.
  VERIF_TLC_WORKERS=n                   TLC workers (default 8).
  VERIF_C20_CACHE=dir                   keep / reuse what Tenant.tla and Propagation.tla printed (they do not depend
                                        on the code under test): speeds up mutation testing. Never set by MANIFEST commands.
"""
import json
import os

import verif

PROPERTY = "C20"
META = {
    "level_text": "TLC decides NoSeparatorInAccepted, ResolversAgree, MultiIsNormalised, MetadataIgnoredConsistently (plus the metadata "
                  "grammar and Split/Join laws) of Tenant.tla on every organisation id of the universe: all byte strings of length <= 4 "
                  "(thorough: <= 5) over {a,0,.,|,:,/,=,NUL,0xC3}, all 256 single bytes alone / next to a letter / as two parts, "
                  "run-length families around 149/150/151 bytes with separators and invalid bytes at every position class, lists of "
                  "1..5 parts from a pool (same tenant with different metadata, invalid and empty parts), all metadata strings of length "
                  "<= 6 over {:,=,a,0}, metadata around the 64-byte limit, the empty id and the context without id; and Unchanged / "
                  "NeverDefaulted / UnchangedStep of Propagation.tla on all chains of <= 6 hops over ids {\"\",a,b} with pre-existing "
                  "header/metadata values and stale receiver contexts. Every enumerated id is replayed on every exported entry point of "
                  "package tenant (value and error class, incl. the byte an unsupported-character error names); every transition of the "
                  "propagation graph is replayed through the real inject/extract functions, AuthenticateUser and the four gRPC "
                  "interceptors with 6 families of concrete ids; seeded byte-level mutations of valid multi-tenant headers recorded from "
                  "the real code are recomputed by the specification, and seeded random chains of up to 24 hops recorded from the real code "
                  "are accepted hop by hop by the specification's own actions. Wire level: every transition of the wire configuration "
                  "(ids \"\", two plain ids, a NUL/CRLF id, a high-byte id, an id with an outer blank; <= 3 hops; foreign multi-value "
                  "requests) runs through a real net/http client -> httptest.Server -> AuthenticateUser and a real gRPC client/server pair "
                  "over bufconn with the four interceptors; the transports' refusals are a named outcome; TLC decides the strict Unchanged "
                  "(HTTPTrim = NoTrim), AlteredOnlyByHTTPTrim and TransportRefusalIsNotDelivery and the real stacks are held against "
                  "the strict expectations (the HTTP stack's trimming of outer blanks is open finding F11, Sig wire:http-ows-trim).",
    "level_note": "Exhaustive within the stated bounds only: an input whose misbehaviour needs >= 5 (thorough: >= 6) specific bytes outside "
                  "the families is reached only by the seeded mutation traces (no coverage-guided fuzzing). Wire-level hops use two "
                  "concrete instantiations per id class; the as-is model of HTTP's stripping of blanks (HTTPTrim = OWSTrim) is kept as a "
                  "negative control (MC_prop_wire_strict.cfg refuted, MC_prop_wire_asis.cfg holds). The other hops are "
                  "in-process (http.Header / metadata.MD objects). Error classes are recognised by sentinel errors "
                  "and, for the unexported ones, by their messages. Trusted: TLC, the Json module, the byte-array encoding.",
    "technique": "TLA+ specifications (Tenant.tla, Propagation.tla) model-checked by TLC; TLC-generated cases and behaviours replayed into the "
                 "real code; observations and hop chains recorded from the real code validated by TLC (TenantTrace.tla, PropagationTrace.tla)",
    "design_ref": "DESIGN.md 2 C20",
}

WORKERS = int(os.environ.get("VERIF_TLC_WORKERS", "8"))
NCHUNKS = 32


def incon(why):
    raise verif.Inconclusive(why)


NEED_OUTCOMES = ["single_ok", "single_too_many", "single_unsupported_char", "single_too_long", "single_unsafe", "single_no_org_id",
                 "multi_ok", "multi_unsupported_char", "multi_too_long", "multi_unsafe",
                 "withmeta_ok", "withmeta_too_many", "withmeta_meta_unsupported_char", "withmeta_meta_too_long",
                 "withmeta_meta_no_kv_separator", "withmeta_meta_unsorted_keys"]


def gen_tlc(ctx, module, cfg, **kw):
    """ctx.tlc for the two generating specifications, with the development cache."""
    cache = os.environ.get("VERIF_C20_CACHE")
    if cache:
        base = os.path.join(cache, "%s_%s" % (module, cfg))
        if os.path.exists(base + ".ndjson") and os.path.exists(base + ".meta"):
            meta = json.load(open(base + ".meta"))
            r = verif.TLCResult()
            r.rc, r.out_path = 0, base + ".ndjson"
            r.emitted, r.distinct, r.generated = meta["emitted"], meta["distinct"], meta["generated"]
            ctx.states += r.distinct
            ctx.transitions += r.generated
            ctx.tlc_runs.append({"module": module, "cfg": cfg, "mode": "check (cached output)", "generated": r.generated,
                                 "distinct": r.distinct, "emitted": r.emitted, "wall_s": 0, "rc": 0, "violated": None})
            ctx.log("tlc %s %s: reused cached output (%d emitted)" % (module, cfg, r.emitted))
            return r
    r = ctx.tlc("tenant", module, cfg=cfg, **kw)
    if cache and r.ok and r.emitted:
        import shutil
        os.makedirs(cache, exist_ok=True)
        base = os.path.join(cache, "%s_%s" % (module, cfg))
        shutil.copy(r.out_path, base + ".ndjson")
        json.dump({"emitted": r.emitted, "distinct": r.distinct, "generated": r.generated}, open(base + ".meta", "w"))
    return r


def harness(ctx, tests, env, timeout=1500):
    """One `go test` invocation (one link step) for several drivers of harness/c20; every driver writes
    <kind>.json into a result directory. Returns {kind: result}."""
    ctx._nrun += 1
    outdir = os.path.dirname(ctx.path("go%03d" % ctx._nrun, "x"))
    env = dict(env)
    env["VERIF_OUT_DIR"] = outdir
    rc, out = ctx.go_test("c20", "^(%s)$" % "|".join(t for t, _ in tests), env=env, timeout=timeout)
    if rc != 0:
        if os.environ.get("VERIF_DEBUG"):
            import sys
            sys.stderr.write(out[-6000:])
        incon("harness c20 failed (rc=%s): %s" % (rc, out[-1500:]))
    results = {}
    for _, kind in tests:
        p = os.path.join(outdir, kind + ".json")
        if not os.path.exists(p):
            incon("harness c20 wrote no result for %s: %s" % (kind, out[-800:]))
        try:
            results[kind] = json.load(open(p))
        except Exception as ex:
            incon("harness c20 wrote an unreadable result for %s: %s" % (kind, ex))
    return results


def absorb_tenant_replay(ctx, res, r, cfg):
    if res.get("cases") != r.emitted:
        incon("TestReplayTenant replayed %s of %d cases" % (res.get("cases"), r.emitted))
    # vacuity: every outcome class the theorems talk about occurs in the universe
    oc = (res.get("extra") or {}).get("tenant_outcomes", {})
    missing = [k for k in NEED_OUTCOMES if not oc.get(k)]
    if missing:
        incon("universe is vacuous for outcome classes %s" % missing)
    # ... and every generating action of Tenant.tla produced cases
    fams = (res.get("extra") or {}).get("tenant_cases_by_family", {})
    need = ["edge", "short", "byte", "runs", "parts", "meta", "metalen"] + ([] if ctx.tier == "quick" else ["parts2", "shortx"])
    missing = [f for f in need if not fams.get(f)]
    if missing:
        incon("no cases from the families %s" % missing)
    ctx.absorb(res, "tenant replay " + cfg)


def absorb_propagation(ctx, res, r, cfg):
    if res.get("cases") != r.emitted:
        incon("TestReplayPropagation replayed %s of %d behaviours" % (res.get("cases"), r.emitted))
    acts = (res.get("extra") or {}).get("propagation_hops_by_action", {})
    for a in ("CtxToHTTP", "HTTPToCtx", "CtxToGRPC", "GRPCToCtx"):
        if not acts.get(a):
            incon("no behaviour exercised %s" % a)
    ctx.absorb(res, "propagation replay " + cfg)


def absorb_wire(ctx, res, r):
    if res.get("cases") != r.emitted:
        incon("TestReplayWire replayed %s of %d behaviours" % (res.get("cases"), r.emitted))
    ex = res.get("extra") or {}
    for a in ("HTTPWire", "HTTPWireIn", "GRPCWire", "GRPCWireIn"):
        if not (ex.get("wire_hops_by_action") or {}).get(a):
            incon("no wire behaviour exercised %s" % a)
    for o in ("delivered", "transport", "no_id", "different_id", "too_many_ids"):
        if not (ex.get("wire_outcomes") or {}).get(o):
            incon("no wire hop ended in outcome %s" % o)
    ctx.absorb(res, "wire replay MC_prop_wire.cfg")


def validate_trace(ctx, res, trace):
    ctx.absorb(res, "tenant record")
    nrec = int((res.get("extra") or {}).get("trace_records", 0))
    if nrec == 0:
        incon("TestRecordTenant recorded nothing")
    r = ctx.tlc("tenant", "TenantTrace", extra_files={trace: "trace.ndjson"}, workers=WORKERS,
                timeout=900 if ctx.tier == "quick" else 3000, subst={"NChunks = 32": "NChunks = %d" % NCHUNKS})
    ctx.require_tlc_ok(r, "TenantTrace")
    if r.distinct != nrec + NCHUNKS:
        incon("TenantTrace visited %d states for %d records (+%d seeds)" % (r.distinct, nrec, NCHUNKS))
    rejected = verif.read_ndjson(r.out_path)
    for rej in rejected:
        fields = sorted(rej.get("fields", []))
        got, want = rej.get("got", {}), rej.get("want", {})
        f0 = fields[0] if fields else "?"
        gcls = got.get(f0, {}).get("err") if isinstance(got.get(f0), dict) else "value"
        wcls = want.get(f0, {}).get("err") if isinstance(want.get(f0), dict) else "value"
        ctx.disagreement({"sig": "tenant-trace:%s want=%s got=%s" % (",".join(fields), wcls, gcls),
                          "case": {"has": rej.get("has"), "in": rej.get("in"), "record": rej.get("rejected")},
                          "got": got, "want": want,
                          "note": "recorded from the real code (TestRecordTenant, seed %d), rejected by TenantTrace.tla" % ctx.seed},
                         "tenant trace")
    ctx.traces += nrec - len(rejected)
    ctx.evaluations += nrec
    ctx.nontrivial += int((res.get("extra") or {}).get("trace_records_multi_ok", 0))
    ctx.extra["trace_records_validated"] = ctx.extra.get("trace_records_validated", 0) + nrec - len(rejected)


def validate_ptrace(ctx, res, ptrace):
    ctx.absorb(res, "propagation record")
    ex = res.get("extra") or {}
    nch, nhops = int(ex.get("ptrace_chains", 0)), int(ex.get("ptrace_hops", 0))
    if nch == 0 or nhops == 0:
        incon("TestRecordPropagation recorded nothing")
    r = ctx.tlc("tenant", "PropagationTrace", extra_files={ptrace: "ptrace.ndjson"}, workers=min(WORKERS, 4), timeout=900)
    if r.timed_out or r.error:
        incon("PropagationTrace: TLC %s" % ("timed out" if r.timed_out else r.error[:300]))
    if r.violated:
        # a chain the specification cannot follow: the trace names the chain (k) and the hops consumed (j)
        import re
        txt = "".join(r.trace)
        ks, js = re.findall(r"/\\ k = (\d+)", txt), re.findall(r"/\\ j = (\d+)", txt)
        if not ks:
            incon("PropagationTrace: %s without a readable trace" % r.violated)
        k, j = int(ks[-1]), int(js[-1])
        chain = verif.read_ndjson(ptrace)[k - 1]
        deadlock = r.violated == "Deadlock"
        hop = chain["steps"][j] if deadlock and j < len(chain["steps"]) else (chain["steps"][j - 1] if j > 0 else {"a": "Start", "post": chain["start"]})
        ctx.disagreement({"sig": "propagation-trace:%s/%s %s got=%s/%s" % (chain["chan"], hop.get("a"), "not a step of the specification" if deadlock else r.violated,
                                                                          hop["post"].get("at"), hop["post"].get("err")),
                          "case": {"behaviour": {"chan": chain["chan"], "origin": chain["origin"],
                                                 "hist": [{"a": "Start", "pre": [], "present": False, "stale": -1, "post": chain["start"]}] + chain["steps"][:j + (1 if deadlock else 0)]},
                                   "chain": k, "hop": j + (1 if deadlock else 0), "embedding": chain.get("embedding")},
                          "got": hop["post"], "want": "a step of Propagation.tla satisfying %s" % ("its action" if deadlock else r.violated),
                          "note": "recorded from the real code (TestRecordPropagation, seed %d), rejected by PropagationTrace.tla" % ctx.seed},
                         "propagation trace")
        return
    if r.rc != 0:
        incon("PropagationTrace: TLC rc=%s" % r.rc)
    if r.distinct != nch + nhops:
        incon("PropagationTrace visited %d states for %d chains with %d hops" % (r.distinct, nch, nhops))
    ctx.traces += nch
    ctx.evaluations += nhops
    ctx.extra["propagation_chains_validated"] = ctx.extra.get("propagation_chains_validated", 0) + nch


def observations(ctx):
    """Thorough tier: the two named deviations. The strict statements are EXPECTED to fail on the specification
    (TLC's counterexample is the documentation); what is bound to the code is the deviating behaviour itself."""
    # open finding F11 - HTTP strips blanks around a header value. As-is model (HTTPTrim = OWSTrim): the weaker
    # UnchangedUpToOWS holds, the strict Unchanged is refuted (negative control)
    r = ctx.tlc("tenant", "Propagation", cfg="MC_prop_wire_asis.cfg", workers=1, timeout=600)
    ctx.require_tlc_ok(r, "Propagation MC_prop_wire_asis.cfg")
    r = ctx.tlc("tenant", "Propagation", cfg="MC_prop_wire_strict.cfg", workers=1, timeout=600, count=False)
    if r.timed_out or r.error or r.violated != "Unchanged":
        incon("MC_prop_wire_strict.cfg: expected TLC to refute Unchanged, got violated=%s error=%s" % (r.violated, (r.error or "")[:200]))
    # Metadata.Set/With are unvalidated: the invariant documented on the type holds with validated arguments only
    r = ctx.tlc("tenant", "MetadataMisuse", cfg="MC_metamisuse_checked.cfg", workers=2, timeout=600)
    ctx.require_tlc_ok(r, "MetadataMisuse MC_metamisuse_checked.cfg")
    r = ctx.tlc("tenant", "MetadataMisuse", cfg="MC_metamisuse.cfg", workers=1, timeout=600, count=False)
    if r.timed_out or r.error or r.violated != "TypeInvariant":
        incon("MC_metamisuse.cfg: expected TLC to refute TypeInvariant, got violated=%s error=%s" % (r.violated, (r.error or "")[:200]))
    r = ctx.tlc("tenant", "MetadataMisuse", cfg="MC_metamisuse_emit.cfg", workers=1, timeout=600)
    ctx.require_tlc_ok(r, "MetadataMisuse MC_metamisuse_emit.cfg")
    out = harness(ctx, [("TestReplayMetaMisuse", "metamisuse_replay")], {"VERIF_IN_MISUSE": r.out_path}, timeout=600)
    res = out["metamisuse_replay"]
    if res.get("cases") != r.emitted or r.emitted == 0:
        incon("TestReplayMetaMisuse replayed %s of %d transitions" % (res.get("cases"), r.emitted))
    ctx.absorb(res, "metadata misuse replay")
    ctx.extra["observations"] = [
        "F11 (open): over a real HTTP hop an org id with leading/trailing blanks arrives trimmed; the as-is model (OWSTrim) satisfies "
        "UnchangedUpToOWS and refutes the strict Unchanged (MC_prop_wire_asis.cfg / MC_prop_wire_strict.cfg)",
        "tenant.Metadata.Set/With do not validate: %d of %d replayed Set calls produce metadata ParseMetadata rejects"
        % ((res.get("extra") or {}).get("metadata_set_results_breaking_the_documented_invariant", 0), r.emitted)]


def replay(ctx):
    """bin/check C20 --replay replays/C20-xxxx.json : re-run exactly the recorded disagreement."""
    rep = json.load(open(ctx.replay))
    case = (rep.get("first") or {}).get("case") or {}
    if "behaviour" in case:
        p = ctx.path("replay_behaviour.ndjson")
        open(p, "w").write(json.dumps(case["behaviour"]) + "\n")
        wire = any("Wire" in h.get("a", "") for h in case["behaviour"].get("hist", []))
        test, kind, var = (("TestReplayWire", "wire_replay", "VERIF_IN_WIRE") if wire
                           else ("TestReplayPropagation", "propagation_replay", "VERIF_IN_PROP"))
        out = harness(ctx, [(test, kind)], {var: p}, timeout=600)
        ctx.absorb(out[kind], "replay")
    elif "in" in case:
        p = ctx.path("replay_inputs.ndjson")
        open(p, "w").write(json.dumps({"has": bool(case.get("has", True)), "in": case["in"]}) + "\n")
        trace = ctx.path("tenant_trace.ndjson")
        out = harness(ctx, [("TestRecordTenant", "tenant_record")], {"VERIF_TRACE": trace, "VERIF_INPUTS": p}, timeout=600)
        validate_trace(ctx, out["tenant_record"], trace)
    else:
        incon("replay file has no case this check understands")


def run(ctx):
    ctx.rule = ("tenant: one case per enumerated organisation id (distinct TLC states); non-trivial = single-tenant resolution does anything "
                "else than return the input itself (a separator, metadata, an invalid byte, a length/dot violation or no id at all); "
                "trace records: non-trivial = mutated header still accepted by the multi-tenant resolver; propagation: one case per "
                "transition of the state graph (plus every path of <= 4 hops in the thorough tier), non-trivial = the chain contains a "
                "refusal, a pre-existing header/metadata value or a stale id in the receiving context; recorded chains: one case per "
                "chain, non-trivial = at least 4 hops")
    ctx.assumptions = ["bytes are exchanged as arrays of integers 0..255; strings are compared byte-wise",
                       "unexported error classes of package tenant are recognised by their messages",
                       "HTTP / gRPC hops are in-process: http.Header and metadata.MD objects are handed over without wire encoding",
                       "abstract ids of Propagation.tla are instantiated by 6 families of concrete byte strings (harness/c20 embeddings)"]
    selftest = os.environ.get("VERIF_C20_SELFTEST", "")
    if getattr(ctx, "replay", None):
        replay(ctx)
        return "model_checking"
    ctx.exhaustive = True
    quick = ctx.tier == "quick"
    if os.environ.get("VERIF_C20_ONLY") == "observations":      # development: just that section
        observations(ctx)
        return "model_checking"

    # 1. the specifications decide the property on their universes and print the expected outcomes
    tcfg = "MC_quick.cfg" if quick else "MC_thorough.cfg"
    rt = gen_tlc(ctx, "Tenant", tcfg, timeout=900 if quick else 3000, workers=WORKERS)
    ctx.require_tlc_ok(rt, "Tenant " + tcfg)
    if rt.emitted == 0:
        incon("Tenant.tla emitted no cases")
    rp = gen_tlc(ctx, "Propagation", "MC_prop.cfg", workers=1, timeout=900)
    ctx.require_tlc_ok(rp, "Propagation MC_prop.cfg")
    if rp.emitted == 0:
        incon("Propagation.tla emitted no behaviours")

    rw = gen_tlc(ctx, "Propagation", "MC_prop_wire.cfg", workers=1, timeout=900)
    ctx.require_tlc_ok(rw, "Propagation MC_prop_wire.cfg")
    if rw.emitted == 0:
        incon("Propagation.tla (wire) emitted no behaviours")

    # 2. the real code: replay both, record the mutation trace (one go test invocation)
    n = 1000 if quick else 10000
    trace = ctx.path("tenant_trace.ndjson")
    ptrace = ctx.path("propagation_trace.ndjson")
    env = {"VERIF_IN_TENANT": rt.out_path, "VERIF_IN_PROP": rp.out_path, "VERIF_IN_WIRE": rw.out_path, "VERIF_TRACE": trace, "VERIF_N": n,
           "VERIF_PTRACE": ptrace, "VERIF_NCHAINS": 300 if quick else 5000}
    if selftest == "chain":
        env["VERIF_CORRUPT_PTRACE"] = 1 + (ctx.seed * 13) % 300
    if selftest == "expected":
        env["VERIF_CORRUPT_TENANT"] = 1 + (ctx.seed * 7919) % rt.emitted
    if selftest == "log":
        env["VERIF_CORRUPT_TRACE"] = 1 + (ctx.seed * 104729) % n
    if selftest == "hop":
        env["VERIF_CORRUPT_PROP"] = 1 + (ctx.seed * 31) % rp.emitted
    out = harness(ctx, [("TestReplayTenant", "tenant_replay"), ("TestRecordTenant", "tenant_record"),
                        ("TestReplayPropagation", "propagation_replay"), ("TestRecordPropagation", "propagation_record"),
                        ("TestReplayWire", "wire_replay")], env)
    absorb_tenant_replay(ctx, out["tenant_replay"], rt, tcfg)
    absorb_propagation(ctx, out["propagation_replay"], rp, "MC_prop.cfg")
    absorb_wire(ctx, out["wire_replay"], rw)

    # 3. the specifications validate what was recorded
    validate_ptrace(ctx, out["propagation_record"], ptrace)
    validate_trace(ctx, out["tenant_record"], trace)

    # 4. thorough: every propagation path of <= 4 hops
    if not quick:
        rq = gen_tlc(ctx, "Propagation", "MC_prop_paths.cfg", workers=WORKERS, timeout=2400)
        ctx.require_tlc_ok(rq, "Propagation MC_prop_paths.cfg")
        out = harness(ctx, [("TestReplayPropagation", "propagation_replay")], {"VERIF_IN_PROP": rq.out_path})
        absorb_propagation(ctx, out["propagation_replay"], rq, "MC_prop_paths.cfg")
        observations(ctx)
    return "model_checking"
