\* every topology field (address, zone, tokens, registration time, read-only flag and time) and heartbeats; 3 updates deep;
\* zone-aware; sizes 0 and 1
CONSTANTS
  Inst = {1, 2}
  Ident = {1}
  Sizes = {0, 1}
  Lookbacks = {1}
  Times = {3, 4}
  Readers = {}
  MaxUpd = 3
  ZoneAware = TRUE
  Addrs = {1, 2}
  Zones = {1, 2}
  Toks = {0, 1}
  Stamps = {0, 2, 3}
  States = {"ACTIVE"}
  Beats = {1, 2}
  Compute <- MCCompute
  InitDescs <- NarrowInitDescs
INIT Init
NEXT Next
INVARIANTS TypeOK UnobservableFast PendingSound
