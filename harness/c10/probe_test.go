package c10

import (
	"testing"
	"testing/synctest"
	"fmt"
)

func runBubble(t *testing.T, f func()) (p any) {
	defer func() { p = recover() }()
	synctest.Test(t, func(t *testing.T) { f() })
	return nil
}

func TestProbe(t *testing.T) {
	for i := 0; i < 3; i++ {
		p := runBubble(t, func() {
			ch := make(chan int)
			go func() { ch <- 1 }()
			synctest.Wait()
		})
		fmt.Println("recovered:", p)
	}
}
