CONSTANTS
  Shapes <- AnyShapes
INIT TInit
NEXT TNext
INVARIANTS TypeOK OnlySuccessful QuorumBacked ErrWhenExceeded AtMostOneCall CleanupSafe CleanupExactlyOnce UnusedCancelled ReturnedNotCancelled EmitAccepted
CHECK_DEADLOCK FALSE
