CONSTANTS
  N = 4
  MaxTok = 2
  MaxM = 5
  MaxSize = 5
  MaxEvents = 3
INIT Init
NEXT Next
INVARIANTS TypeOK PSizeFormula PMonotone PConsistency PLookbackSuperset PLookbackMembers
CHECK_DEADLOCK FALSE
