CONSTANTS
  N = 2
  Graphs <- ClosedShapes
  Faults = {"exit"}
  AwaitStoppingInner = FALSE
  LateStart = FALSE
INIT InitAllStarted
NEXT Next
VIEW view
INVARIANTS TypeOK StopOrderState
PROPERTIES StopAfterDependants
CHECK_DEADLOCK TRUE
