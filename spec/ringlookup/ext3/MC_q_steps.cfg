\* q_steps: AddInstance and RemoveInstance steps in every relative token position (ids not ordered by token); every step replayed into a long-lived ring client
\* (generated from UNIVERSES in checks/ringlookup_common.py: python3 checks/ringlookup_common.py --write-cfgs)
CONSTANTS
  NK = 4
  Gaps = {1}
  N = 3
  MaxTok = 1
  MaxIdle = 1
  Z = 1
  StateSet = {"ACTIVE", "JOINING"}
  HbSet = {"edge"}
  RFMax = 2
  Canon = 1
  WithRemove = TRUE
  WithChange = FALSE
  EmitSteps = TRUE
  Excl = {}
  EmitOn = TRUE
  EmitSets = FALSE
  XMax = 0
INIT Init
NEXT Next
VIEW View
INVARIANTS TypeOK SizeOK ZoneOK ClockwiseFirst SlackExact WalkDefsAgree QuorumIntersection ExpandedOK Emit
PROPERTIES MinimalDisruption OneInstanceSteps
ACTION_CONSTRAINT EmitStep
CHECK_DEADLOCK FALSE
