\* thorough tier generation: transition cover of the complete graph of Snappy>LRU (capacity 1,
\* default TTL 2, foreign undecodable backend writes; model-distinct operations only).
CONSTANTS
  StackIds = {8}
  Caps = {1}
  DTTLs = {2}
  Keys = {"k1", "k2"}
  Values = {"a", "b"}
  TTLs = {1, 2}
  Deltas = {1}
  NViews = 2
  PokeTTLs = {1}
  MaxOps = 1000
  Faults = FALSE
  Full = FALSE
  DetOnly = TRUE
  Wrong = "none"
INIT Init
NEXT Next
VIEW View
ACTION_CONSTRAINT EmitStep
INVARIANTS TypeOK
CHECK_DEADLOCK FALSE
