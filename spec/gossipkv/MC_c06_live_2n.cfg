\* C06 thorough (liveness, 2 nodes, 2 faults, blocking watcher on node 1).
CONSTANTS
  N = 2
  NI = 1
  NK = 1
  MaxClock = 1
  Retention = 0
  T = 1
  MaxCas = 2
  MaxFaults = 2
  LiveStates = {"ACTIVE"}
  WatchNodes = {1, 2}
  HoldNodes = {1}
  AllowRestart = TRUE
  AllowGarbage = FALSE
  AllowPartition = TRUE
  AllowJunkPP = FALSE
  GateNodes = {}
  InboxCap = 1
  VersionTest = TRUE
  KeyTest = TRUE
  MaxDel = 0
  ObsoleteTimeout = 1
  LockKeys = {}
  ConsumeNet = TRUE
  Ideal = TRUE
  Ghost = FALSE
  Record = FALSE
  Quiesce = FALSE
  RunDepth = 0
  QRounds = 2
SPECIFICATION FairSpec
INVARIANTS TypeOK
PROPERTIES Convergence
CHECK_DEADLOCK FALSE
