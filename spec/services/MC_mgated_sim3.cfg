CONSTANTS
  NS = 3
  NML = 2
  WH = {1}
  WS = {2}
  ParentCancels = TRUE
  DirectStops = TRUE
INIT MGInit
NEXT MGNext
VIEW MGView
INVARIANTS MTypeOK ViewIsLastDelivered QuiescentViewExact HealthyExact StoppedExact HealthyLatchExact MNoDoubleClose FailureReportedOnce MListenerOrder MNotifierNeverBlocks MWaitersExact StartResultExact MQuiescent MEmitInit
ACTION_CONSTRAINT MEmitTransition
CHECK_DEADLOCK FALSE
