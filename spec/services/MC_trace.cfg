CONSTANTS
  NC = 4
  NL = 2
  WRun = {1}
  WTerm = {2}
  QCap = 4
  MaxIters = 2
  MaxStart = 3
  ParentCancels = TRUE
  Presents = {{"start","run","stop"}}
  RunModes = {"any"}
  GuardNilCancel = @@GUARD@@
  NP = 7
INIT TInit
NEXT TNext
INVARIANTS Accept
CHECK_DEADLOCK FALSE
