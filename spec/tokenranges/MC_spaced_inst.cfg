CONSTANTS
  NK = 9
  Gaps = {0,2,4,6,8}
  N = 3
  Z = 2
  MaxTok = 3
INIT Init
NEXT Next
INVARIANTS TypeOK RangesAreOwnership Tiling Emit
CHECK_DEADLOCK FALSE
