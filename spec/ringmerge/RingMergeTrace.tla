--------------------------- MODULE RingMergeTrace ---------------------------
(***************************************************************************)
(* C03 / C05 binding, code -> spec: validates a log of real Desc.Merge     *)
(* calls (harness/c03 recordRing, harness/c05 record) against              *)
(* RingMerge!Merge.  Every event carries the receiver before the call, the *)
(* argument, localCAS, the clock, the receiver afterwards and the returned *)
(* change; the event is accepted iff the receiver before the call is what  *)
(* the previous events left in that replica and Merge recomputes exactly   *)
(* the logged receiver and change.  The C05 state invariants are checked   *)
(* on every replica after every event.                                     *)
(* A rejected event stops the run with `bad` set; the expected values are  *)
(* printed as JSON for the driver.                                         *)
(***************************************************************************)
EXTENDS RingMerge, Json

CONSTANTS NRep            \* replicas 1..NRep

Trace == ndJsonDeserialize("trace.ndjson")

VARIABLES idx,    \* next event
          st,     \* st[r] = descriptor of replica r
          bad     \* 0, or the index of the rejected event
vars == <<idx, st, bad>>

ToSet(s)   == {s[k] : k \in DOMAIN s}
ToEntry(j) == [ts |-> j.ts, state |-> j.state, toks |-> ToSet(j.toks)]
ToDesc(j)  == [i \in Inst |-> ToEntry(j[i])]
JEntry(e)  == [ts |-> e.ts, state |-> e.state, toks |-> e.toks]
JDesc(d)   == [i \in Inst |-> JEntry(d[i])]

Init == /\ idx = 1
        /\ st = [r \in 1..NRep |-> Empty]
        /\ bad = 0

\* the specification's action for one logged call
MergeEvent(e) ==
    LET mine == ToDesc(e.mine)
        m    == Merge(st[e.r], ToDesc(e.other), e.cas, e.now)
        ok   == /\ mine = st[e.r]                       \* nothing touched the replica between two calls
                /\ m.result = ToDesc(e.result)
                /\ m.change.nil = e.nil
                /\ m.change.d = ToDesc(e.change)
    IN  IF ok
        THEN /\ st' = [st EXCEPT ![e.r] = m.result]
             /\ idx' = idx + 1
             /\ bad' = 0
        ELSE /\ PrintT(ToJson([rejected |-> idx, r |-> e.r,
                               want_pre |-> JDesc(st[e.r]),
                               want_result |-> JDesc(m.result), want_nil |-> m.change.nil, want_change |-> JDesc(m.change.d),
                               resolved |-> m.resolved, cas |-> e.cas]))
             /\ bad' = idx
             /\ UNCHANGED <<idx, st>>

Next == /\ bad = 0
        /\ idx <= Len(Trace)
        /\ MergeEvent(Trace[idx])
Spec == Init /\ [][Next]_vars

Accepted == bad = 0
InvTokenUnique     == \A r \in 1..NRep : TokenUnique(st[r])
InvLeftHasNoTokens == \A r \in 1..NRep : LeftHasNoTokens(st[r])
(* the whole trace was consumed *)
Complete == TLCGet("stats").diameter = Len(Trace) + 1
=============================================================================
