package c05

// A long-lived reader next to the replica, fed exactly as kv/memberlist feeds its watchers: the store
// merges into its value IN PLACE (computeNewValue: oldVal.Merge(incoming)) and hands every reader
// Clone() of the value with the tombstones stripped (KV.get), which a ring.Ring receives through its
// WatchKey callback (Ring.updateRingState). RingReplica.tla states what is checked here:
//
//	SnapshotsImmutable  a clone that was handed out is never changed by a later Merge: every earlier clone
//	                    is deep-compared with the deep copy (codec round trip) taken when it was handed out;
//	ReaderSeesLatest    the long-lived ring answers exactly like a ring built afresh from a deep copy of
//	                    the current value (Get for every key class and operation, token ranges, owner
//	                    index; ErrInconsistentTokensInfo / panics are violations of their own).

import (
	"context"
	"errors"
	"fmt"
	"strings"
	"time"

	"verifharness/internal/abs"

	"github.com/go-kit/log"
	"github.com/grafana/dskit/kv"
	"github.com/grafana/dskit/ring"
	"github.com/grafana/dskit/services"
)

// watchKV is a kv.Client whose only watcher is notified by Push, synchronously.
type watchKV struct {
	abs.StubKV
	f     func(any) bool
	ready chan struct{}
}

var _ kv.Client = (*watchKV)(nil)

func (w *watchKV) Get(context.Context, string) (any, error) { return nil, nil }
func (w *watchKV) WatchKey(ctx context.Context, _ string, f func(any) bool) {
	w.f = f
	close(w.ready)
	<-ctx.Done()
}
func (w *watchKV) Push(v any) {
	<-w.ready
	w.f(v)
}

type snapshot struct {
	clone *ring.Desc // what was handed out (shares storage with the store, by design of Desc.Clone)
	deep  *ring.Desc // what it looked like at that moment
	step  int
}

type watcher struct {
	res    *abs.Result
	emb    abs.Embedding
	n      int
	keys   []uint32
	cfgs   []ring.Config
	rings  []*ring.Ring
	kvs    []*watchKV
	stops  []func()
	handed []snapshot
	steps  int
	bad    bool
}

var watchOps = []ring.Operation{ring.Write, ring.Read, ring.Reporting, allStates}

func newWatcher(res *abs.Result, emb abs.Embedding, n int, keys []uint32) *watcher {
	w := &watcher{res: res, emb: emb, n: n, keys: keys}
	w.cfgs = []ring.Config{
		{ReplicationFactor: 2, ZoneAwarenessEnabled: true, HeartbeatTimeout: time.Hour},
		{ReplicationFactor: 1, HeartbeatTimeout: time.Hour},
	}
	for _, cfg := range w.cfgs {
		k := &watchKV{ready: make(chan struct{})}
		r, err := ring.NewWithStoreClientAndStrategy(cfg, "verif", "ring", k, ring.NewDefaultReplicationStrategy(), nil, log.NewNopLogger())
		if err == nil {
			err = services.StartAndAwaitRunning(context.Background(), r)
		}
		if err != nil {
			res.Fatal = "long-lived ring: " + err.Error()
			return w
		}
		w.rings = append(w.rings, r)
		w.kvs = append(w.kvs, k)
		w.stops = append(w.stops, func() { _ = services.StopAndAwaitTerminated(context.Background(), r) })
	}
	return w
}

func (w *watcher) close() {
	for _, s := range w.stops {
		s()
	}
}

func descEqual(a, b *ring.Desc) string {
	if len(a.Ingesters) != len(b.Ingesters) {
		return fmt.Sprintf("%d instances, had %d", len(a.Ingesters), len(b.Ingesters))
	}
	for id, x := range a.Ingesters {
		y, ok := b.Ingesters[id]
		if !ok {
			return "instance " + id + " appeared"
		}
		if x.Timestamp != y.Timestamp || x.State != y.State || x.Addr != y.Addr || x.Zone != y.Zone {
			return "instance " + id + " changed"
		}
		if len(x.Tokens) != len(y.Tokens) {
			return fmt.Sprintf("tokens of %s: %v, were %v", id, x.Tokens, y.Tokens)
		}
		for i := range x.Tokens {
			if x.Tokens[i] != y.Tokens[i] {
				return fmt.Sprintf("tokens of %s: %v, were %v", id, x.Tokens, y.Tokens)
			}
		}
	}
	return ""
}

// answers asks a ring everything the comparison covers; a panic or ErrInconsistentTokensInfo is reported
// through bad (they are violations whoever is asked).
func (w *watcher) answers(r *ring.Ring, owner []int, bad func(what, got string)) []string {
	var out []string
	guard := func(what string, f func() string) {
		defer func() {
			if rec := recover(); rec != nil {
				bad(what+" panic", fmt.Sprint(rec))
				out = append(out, what+" panic")
			}
		}()
		out = append(out, what+"="+f())
	}
	for oi, op := range watchOps {
		for _, key := range w.keys {
			guard(fmt.Sprintf("Get(%d,op%d)", key, oi), func() string {
				rs, err := r.Get(key, op, nil, nil, nil)
				if err != nil {
					if errors.Is(err, ring.ErrInconsistentTokensInfo) {
						bad("Get inconsistent-tokens", err.Error())
					}
					return "error: " + err.Error()
				}
				ids := make([]string, 0, len(rs.Instances))
				for _, i := range rs.Instances {
					ids = append(ids, fmt.Sprintf("%s/%s", i.Id, i.State))
				}
				return strings.Join(ids, ",")
			})
		}
	}
	for k := 1; k <= w.n; k++ {
		id := abs.MergeID(k, w.n)
		guard("ranges("+id+")", func() string {
			tr, err := r.GetTokenRangesForInstance(id)
			if err != nil {
				if errors.Is(err, ring.ErrInconsistentTokensInfo) {
					bad("GetTokenRangesForInstance inconsistent-tokens", err.Error())
				}
				return "error: " + err.Error()
			}
			return fmt.Sprint(tr)
		})
	}
	return out
}

// after is called after every real Merge into the stored value. owner (optional) is the specification's
// position -> instance map of the stored value.
func (w *watcher) after(stored *ring.Desc, owner []int, c any, note string) bool {
	if w.bad || w.res.Fatal != "" {
		return false
	}
	w.steps++
	// 1. nothing that was handed out earlier has changed
	for _, h := range w.handed {
		if diff := descEqual(h.clone, h.deep); diff != "" {
			w.bad = true
			w.res.Mismatch(abs.Mismatch{Sig: "snapshot:mutated-after-handout " + tokenFeatures(stored), Case: c, Got: diff,
				Want: "a Clone() handed to a reader is never changed by a later Merge",
				Note: fmt.Sprintf("%s: snapshot of step %d found changed after step %d", note, h.step, w.steps)})
			return false
		}
	}
	if len(w.handed) > 64 {
		w.handed = w.handed[len(w.handed)-48:]
	}
	// 2. every reader gets its own Clone() with the tombstones stripped, as KV.get does
	var deep *ring.Desc
	for i := range w.rings {
		clone := stored.Clone().(*ring.Desc)
		clone.RemoveTombstones(time.Time{})
		if deep == nil {
			deep = abs.ViaRingCodec(clone)
		}
		w.handed = append(w.handed, snapshot{clone: clone, deep: deep, step: w.steps})
		func() {
			defer func() {
				if rec := recover(); rec != nil {
					w.bad = true
					w.res.Mismatch(abs.Mismatch{Sig: "lookup:long-lived update panic", Case: c, Got: fmt.Sprint(rec), Want: "no panic", Note: note})
				}
			}()
			w.kvs[i].Push(clone)
		}()
	}
	if w.bad {
		return false
	}
	// 3. the long-lived readers answer like fresh ones built from a deep copy
	for i, cfg := range w.cfgs {
		bad := func(what, got string) {
			w.bad = true
			w.res.Mismatch(abs.Mismatch{Sig: "lookup:" + what + " long-lived " + tokenFeatures(stored), Case: c, Got: got,
				Want: "no ErrInconsistentTokensInfo, no panic", Note: note})
		}
		fresh, stop, err := abs.NewRing(abs.ViaRingCodec(deep), cfg)
		if err != nil {
			w.res.Fatal = "NewRing: " + err.Error()
			return false
		}
		want := w.answers(fresh, owner, bad)
		stop()
		got := w.answers(w.rings[i], owner, bad)
		if w.bad {
			return false
		}
		for k := range want {
			if k >= len(got) || got[k] != want[k] {
				w.bad = true
				w.res.Mismatch(abs.Mismatch{Sig: fmt.Sprintf("lookup:long-lived-reader-differs zoneaware=%t %s", cfg.ZoneAwarenessEnabled, tokenFeatures(stored)),
					Case: c, Got: got[k], Want: want[k], Note: fmt.Sprintf("%s, after step %d: a ring notified after every write vs a ring built from the current value", note, w.steps)})
				return false
			}
		}
	}
	// 4. the long-lived RF=1 reader's index names the specification's owner of every position
	if owner != nil {
		r := w.rings[len(w.rings)-1]
		for pos, o := range owner {
			if o == 0 {
				continue
			}
			want := abs.MergeID(o, w.n)
			rs, err := r.Get(w.emb.Pos[pos]-1, allStates, nil, nil, nil)
			if err != nil || len(rs.Instances) != 1 || rs.Instances[0].Id != want {
				w.bad = true
				got := fmt.Sprint(err)
				if err == nil && len(rs.Instances) == 1 {
					got = rs.Instances[0].Id
				}
				w.res.Mismatch(abs.Mismatch{Sig: "lookup:owner-index long-lived " + tokenFeatures(stored), Case: c, Got: got, Want: want,
					Note: fmt.Sprintf("%s: position %d", note, pos)})
				return false
			}
		}
	}
	return true
}
