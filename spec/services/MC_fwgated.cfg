CONSTANTS
  NS = 3
  Modes = {"services", "manager"}
  ReaderFair = TRUE
INIT FGInit
NEXT FGNext
VIEW FGView
INVARIANTS TypeOK ReportedAtMostOnce NeverSendOnClosed FQuiescent FEmitInit
ACTION_CONSTRAINT FEmitTransition
CHECK_DEADLOCK FALSE
