----------------------------- MODULE SharesArith -----------------------------
(***************************************************************************)
(* C16, numeric clause: the limb arithmetic of TokenGen.tla (CwDist, LAdd, *)
(* LSub, LMul, LLe, Shares, LSum, WithinPct) against plain integer         *)
(* arithmetic, exhaustively, in a token space small enough for TLC's       *)
(* integers (HiCard*LoCard tokens): EVERY ring over that space - every     *)
(* assignment of every token to one of NOwn instances or to nobody - and   *)
(* every prefix 0..m of instances.  In the real system the same operators  *)
(* run on 16-bit limbs where the plain form would overflow.                *)
(* NC_* are negative controls: formulas that are WRONG on purpose (no      *)
(* borrow in the subtraction; the predecessor of the first token taken to  *)
(* be the token itself instead of the ring's last token); TLC must refute  *)
(* them (MC_arith_negctl*.cfg), otherwise the universe is too poor to tell *)
(* right from wrong.                                                       *)
(***************************************************************************)
EXTENDS TokenGen

CONSTANT NOwn          \* instances 0..NOwn-1; owner NOwn = "nobody holds this token"

VARIABLE asg           \* Tok -> 0..NOwn

svars == <<reserve, ring, pool, parts, shrunk, last, asg>>

Val(t)  == t[1] * LoCard + t[2]
Space   == HiCard * LoCard
LVal(a) == a[1] * LoCard + a[2]

RingOf(a) == LET held == {t \in Tok : a[t] < NOwn}
                 srt  == SortSet(held)
             IN  [p \in 1..Len(srt) |-> <<srt[p][1], srt[p][2], a[srt[p]]>>]

(* plain integers: share of k in the ring of the tokens held by instances 0..m *)
IntShare(a, m, k) ==
  LET held == {t \in Tok : a[t] <= m}
      Pred(t) == IF \E u \in held : Val(u) < Val(t)
                 THEN CHOOSE u \in held : Val(u) < Val(t) /\ \A v \in held : Val(v) < Val(t) => Val(v) <= Val(u)
                 ELSE CHOOSE u \in held : \A v \in held : Val(v) <= Val(u)
      D(t)    == IF Pred(t) = t THEN Space ELSE (Val(t) - Val(Pred(t)) + Space) % Space
      mine    == {t \in held : a[t] = k}
      RECURSIVE Sum(_)
      Sum(S)  == IF S = {} THEN 0 ELSE LET t == CHOOSE x \in S : TRUE IN D(t) + Sum(S \ {t})
  IN  Sum(mine)

IntWithin(a, m) == LET S  == {IntShare(a, m, k) : k \in 0..m}
                       mx == CHOOSE x \in S : \A y \in S : y <= x
                       mn == CHOOSE x \in S : \A y \in S : x <= y
                   IN  PCT * (mx - mn) <= mx

SInit == /\ asg \in [Tok -> 0..NOwn]
         /\ reserve = EmptyFcn /\ ring = EmptyFcn /\ pool = {} /\ parts = EmptyFcn /\ shrunk = FALSE /\ last = None
SNext == UNCHANGED svars

Normalised(own) == \A k \in DOMAIN own : own[k][1] >= 0 /\ own[k][2] \in 0..(LoCard - 1)

SharesSound == \A m \in 0..(NOwn - 1) :
                 LET own == Shares(RingOf(asg), m) IN
                 /\ DOMAIN own = 0..m /\ Normalised(own)
                 /\ \A k \in 0..m : LVal(own[k]) = IntShare(asg, m, k)
TileSound   == \A m \in 0..(NOwn - 1) :
                 (LSum(Shares(RingOf(asg), m)) = Whole) <=> (\E t \in Tok : asg[t] <= m)
WithinSound == \A m \in 0..(NOwn - 1) : WithinPct(Shares(RingOf(asg), m)) <=> IntWithin(asg, m)
(* the clause is not vacuous in this universe: some ring with unequal shares satisfies it, some ring violates it *)
W_SomeUnequalWithin == ~ \E m \in 1..(NOwn - 1) :
                           /\ WithinPct(Shares(RingOf(asg), m))
                           /\ \E j, k \in 0..m : IntShare(asg, m, j) # IntShare(asg, m, k)
W_SomeOutside       == \A m \in 1..(NOwn - 1) : WithinPct(Shares(RingOf(asg), m))

(* negative controls *)
BadSub(a, b)    == <<a[1] - b[1], IF a[2] >= b[2] THEN a[2] - b[2] ELSE a[2] + LoCard - b[2]>>     \* borrow forgotten
BadDist(a, b)   == IF a = b THEN Whole ELSE LET d == BadSub(<<b[1] + HiCard, b[2]>>, a) IN <<d[1] % HiCard, d[2]>>
BadShares(rg, m) ==
  LET sub == SelectSeq(rg, LAMBDA e : e[3] <= m)
      L   == Len(sub)
      step(acc, p) == LET e == sub[p]
                          q == IF p = 1 THEN L ELSE p - 1
                      IN  [acc EXCEPT ![e[3]] = LAdd(@, BadDist(<<sub[q][1], sub[q][2]>>, <<e[1], e[2]>>))]
  IN  SX!FoldLeft(step, [k \in 0..m |-> <<0, 0>>], [p \in 1..L |-> p])
NC_NoBorrow == \A m \in 0..(NOwn - 1) : \A k \in 0..m : LVal(BadShares(RingOf(asg), m)[k]) = IntShare(asg, m, k)
NoWrapShares(rg, m) ==
  LET sub == SelectSeq(rg, LAMBDA e : e[3] <= m)
      step(acc, p) == LET e == sub[p]
                          q == IF p = 1 THEN 1 ELSE p - 1
                      IN  [acc EXCEPT ![e[3]] = LAdd(@, CwDist(<<sub[q][1], sub[q][2]>>, <<e[1], e[2]>>))]
  IN  SX!FoldLeft(step, [k \in 0..m |-> <<0, 0>>], [p \in 1..Len(sub) |-> p])
NC_NoWrap == \A m \in 0..(NOwn - 1) : \A k \in 0..m : LVal(NoWrapShares(RingOf(asg), m)[k]) = IntShare(asg, m, k)
=============================================================================
