SPECIFICATION Spec
CONSTANT Direct = FALSE
INVARIANTS TypeOK FileNeverCorrupt Completes Emit
PROPERTIES AbortKeepsOld OnlyOldOrNew
CHECK_DEADLOCK FALSE
