CONSTANTS
  N = 2
  Graphs <- ConnectedShapes
  Faults = {"start", "run", "exit", "stop"}
  AwaitStoppingInner = TRUE
  LateStart = FALSE
SPECIFICATION LiveSpec
INVARIANTS TypeOK StopOrderState FailurePropagates FailureIsReported
PROPERTIES StartAfterDeps StopAfterDependants Termination FailurePropagatesLive
CHECK_DEADLOCK TRUE
