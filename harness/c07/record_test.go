//go:build verif

package c07

import (
	"context"
	"fmt"
	"math/rand"
	"os"
	"runtime"
	"strings"
	"sync"
	"testing"
	"testing/synctest"
	"time"

	"verifharness/internal/abs"
)

// ---------------------------------------------------------------------------------------------
// code -> spec: N callers x M calls on one key of a real store; every caller logs, in its own
// order only, what it observed (value handed to f, f's decision, what the call returned), in the
// shape of KVCas steps. spec/kvcas/KVCasTrace.tla reconstructs the interleaving from the values.

type tstep struct {
	A  string   `json:"a"`
	RF bool     `json:"rf"`
	E  string   `json:"e"`
	In [][3]int `json:"in"`
}

type trace struct {
	ID      int       `json:"id"`
	Mode    string    `json:"mode"` // sched (seeded scheduler at the f gates) | free (no gates, real concurrency)
	Variant string    `json:"variant"`
	Be      string    `json:"be"`
	Limit   int       `json:"limit"` // the store's retry limit in this run
	N       int       `json:"n"`
	M       int       `json:"m"`
	Ev      [][]tstep `json:"ev"`
	Wt      [][]wstep `json:"wt,omitempty"` // watchers: registration, then the values they were called with
	Final   [][3]int  `json:"final"`
}

type wstep struct {
	A    string   `json:"a"`              // watch | deliver
	Kind string   `json:"kind,omitempty"` // key | prefix
	In   [][3]int `json:"in"`
}

// watcher is one WatchKey / WatchPrefix call running on its own goroutine inside the bubble.
type watcher struct {
	mu     sync.Mutex
	log    []wstep
	bad    string // a callback argument that is not a value / not our key
	cancel context.CancelFunc
	done   chan struct{}
}

func (w *watcher) deliver(x interface{}, key, gotKey string) bool {
	in, err := asVal(x)
	w.mu.Lock()
	defer w.mu.Unlock()
	if err != nil {
		w.bad = err.Error()
	}
	if gotKey != key {
		w.bad = fmt.Sprintf("WatchPrefix reported key %q, want %q", gotKey, key)
	}
	w.log = append(w.log, wstep{A: "deliver", In: in})
	return true
}

// watchersOK: variants whose primary store lives inside the bubble (a watcher blocked on the
// process-wide in-memory Consul store would be woken from outside the bubble).
func watchersOK(variant string) bool {
	return variant != "consul/metrics" && variant != "multi/consul+memberlist"
}

func startWatcher(st *store, key string, idx int) (*watcher, error) {
	got, err := st.client.Get(context.Background(), key)
	if err != nil {
		return nil, err
	}
	in, err := asVal(got)
	if err != nil {
		return nil, err
	}
	ctx, cancel := context.WithCancel(context.Background())
	w := &watcher{cancel: cancel, done: make(chan struct{})}
	kind := "key"
	if idx%2 == 0 {
		kind = "prefix"
	}
	w.log = append(w.log, wstep{A: "watch", Kind: kind, In: in})
	go func() {
		defer close(w.done)
		defer func() {
			if p := recover(); p != nil {
				w.mu.Lock()
				w.bad = fmt.Sprint("panic: ", p)
				w.mu.Unlock()
			}
		}()
		if kind == "key" {
			st.client.WatchKey(ctx, key, func(x interface{}) bool { return w.deliver(x, key, key) })
		} else {
			st.client.WatchPrefix(ctx, key, func(k string, x interface{}) bool { return w.deliver(x, key, k) })
		}
	}()
	return w, nil
}

// decide draws f's decision for one entry.
func decide(rng *rand.Rand) decision {
	switch x := rng.Intn(100); {
	case x < 55:
		return decision{a: "put", rf: true}
	case x < 70:
		return decision{a: "put", rf: false}
	case x < 80:
		return decision{a: "decline"}
	case x < 90:
		return decision{a: "err", rf: true}
	case x < 95:
		return decision{a: "err", rf: false}
	default: // a value the store cannot serialise / merge
		return decision{a: "bad", rf: x%2 == 0}
	}
}

// evlog is one caller's private log.
type evlog struct {
	steps   []tstep
	entries int
}

func (l *evlog) enter(in [][3]int) {
	if l.entries == 0 {
		l.steps = append(l.steps, tstep{A: "begin", E: "fin", In: in})
	} else {
		s := &l.steps[len(l.steps)-1]
		s.E, s.In = "fin", in
	}
	l.entries++
}

func (l *evlog) decided(d decision) {
	l.steps = append(l.steps, tstep{A: d.a, RF: d.rf, E: "?", In: [][3]int{}})
}

func (l *evlog) returned(err error) {
	e := "ok"
	if err != nil {
		e = "fail"
	}
	if l.entries == 0 {
		// the call returned without ever calling f: no KVCas step looks like this
		l.steps = append(l.steps, tstep{A: "begin", E: e, In: [][3]int{}})
	} else {
		l.steps[len(l.steps)-1].E = e
	}
	l.entries = 0
}

// recordFree: no gates; f yields the processor so that the stores' reads and writes interleave.
func recordFree(st *store, key string, n, m int, seed int64) ([][]tstep, error) {
	ctx := context.Background()
	logs := make([]*evlog, n)
	var wg sync.WaitGroup
	var pan interface{}
	var pmu sync.Mutex
	for c := 1; c <= n; c++ {
		lg := &evlog{}
		logs[c-1] = lg
		rng := rand.New(rand.NewSource(seed*1000 + int64(c)))
		wg.Add(1)
		go func(c int) {
			defer wg.Done()
			defer func() {
				if p := recover(); p != nil {
					pmu.Lock()
					pan = p
					pmu.Unlock()
				}
			}()
			for k := 1; k <= m; k++ {
				err := st.client.CAS(ctx, key, func(x interface{}) (interface{}, bool, error) {
					in, _ := asVal(x)
					lg.enter(in)
					d := decide(rng)
					lg.decided(d)
					for y := rng.Intn(3); y > 0; y-- {
						runtime.Gosched()
					}
					switch d.a {
					case "put":
						var inv *Val
						if x != nil {
							inv, _ = x.(*Val)
						}
						return WithTag(inv, c, k), d.rf, nil
					case "decline":
						return nil, d.rf, nil
					case "bad":
						return unstorable{}, d.rf, nil
					}
					return nil, d.rf, errF
				})
				lg.returned(err)
			}
		}(c)
	}
	wg.Wait()
	if pan != nil {
		return nil, fmt.Errorf("panic in CAS: %v", pan)
	}
	out := make([][]tstep, n)
	for i, lg := range logs {
		out[i] = lg.steps
	}
	return out, nil
}

// recordSched: inside a synctest bubble; all callers park in f; a seeded scheduler decides who
// starts a call and whose f returns next. Deterministic for a seed.
func recordSched(st *store, key string, n, m int, seed int64, nwatch int) ([][]tstep, [][]wstep, error) {
	ctx := context.Background()
	rng := rand.New(rand.NewSource(seed))
	cs := make([]*caller, n+1)
	logs := make([]*evlog, n+1)
	for c := 1; c <= n; c++ {
		cs[c] = &caller{id: c, gate: make(chan decision), alias: aliasMode(c)}
		logs[c] = &evlog{}
	}
	onEnter := func(c *caller, in [][3]int) { logs[c.id].enter(in) }
	onReturn := func(c *caller, err error) { logs[c.id].returned(err) }
	inCall := make([]bool, n+1)
	var ws []*watcher
	stopWatchers := func() {
		for _, w := range ws {
			w.cancel()
		}
		// the Consul mock's long poll only notices the cancellation at its next 100 ms wake-up
		time.Sleep(300 * time.Millisecond)
		synctest.Wait()
	}
	defer stopWatchers()
	for guard := 0; guard < 1000000; guard++ {
		var canBegin, parked, asleep []int
		for c := 1; c <= n; c++ {
			stt, _, _, _, pan := cs[c].snapshot()
			if pan != nil {
				return nil, nil, fmt.Errorf("panic in CAS: %v", pan)
			}
			if inCall[c] && stt == stReturned {
				inCall[c] = false
			}
			if !inCall[c] && cs[c].op < m {
				canBegin = append(canBegin, c)
			}
			if inCall[c] && stt == stInF {
				parked = append(parked, c)
			}
			if inCall[c] && stt == stLeftF { // sleeping inside CAS before a retry (memberlist: no change detected)
				asleep = append(asleep, c)
			}
			if inCall[c] && stt == stIdle {
				return nil, nil, fmt.Errorf("caller %d neither entered f nor returned", c)
			}
		}
		if len(canBegin) == 0 && len(parked) == 0 && len(asleep) == 0 {
			break
		}
		if len(asleep) > 0 && (len(canBegin)+len(parked) == 0 || rng.Intn(100) < 20) {
			time.Sleep(time.Second) // let the second pass on the bubble clock
			synctest.Wait()
			continue
		}
		if len(canBegin)+len(parked) == 0 {
			continue
		}
		if len(ws) < nwatch && rng.Intn(100) < 12 { // register a watcher at a random point of the run
			w, err := startWatcher(st, key, len(ws)+1)
			if err != nil {
				return nil, nil, err
			}
			ws = append(ws, w)
			synctest.Wait()
			continue
		}
		// bias towards starting calls so that several callers hold the same snapshot
		if len(canBegin) > 0 && (len(parked) == 0 || rng.Intn(100) < 45) {
			c := canBegin[rng.Intn(len(canBegin))]
			inCall[c] = true
			cs[c].begin(ctx, st.client, key, onEnter, onReturn)
		} else {
			c := parked[rng.Intn(len(parked))]
			d := decide(rng)
			logs[c].decided(d)
			cs[c].gate <- d
		}
		synctest.Wait()
	}
	for len(ws) < nwatch { // late watchers: registered after the last write
		w, err := startWatcher(st, key, len(ws)+1)
		if err != nil {
			return nil, nil, err
		}
		ws = append(ws, w)
		synctest.Wait()
	}
	out := make([][]tstep, n)
	for c := 1; c <= n; c++ {
		out[c-1] = logs[c].steps
	}
	var wout [][]wstep
	for i, w := range ws {
		w.mu.Lock()
		if w.bad != "" {
			w.mu.Unlock()
			return nil, nil, fmt.Errorf("watcher %d: %s", i+1, w.bad)
		}
		wout = append(wout, append([]wstep{}, w.log...))
		w.mu.Unlock()
	}
	return out, wout, nil
}

// shapes of the recorded runs: callers x calls (their product bounds the size of the values)
var shapesQuick = [][2]int{{2, 6}, {3, 4}, {5, 3}, {8, 2}, {16, 1}, {2, 1}}
var shapesThorough = [][2]int{{2, 50}, {4, 25}, {8, 12}, {16, 6}, {16, 1}, {3, 7}, {5, 5}, {12, 3}, {2, 1}, {7, 9}}

func TestRecord(t *testing.T) {
	if os.Getenv("VERIF_TRACE") == "" {
		t.Skip("VERIF_TRACE not set")
	}
	res := &abs.Result{}
	doRecord(t, res)
	res.Write(t)
}

func doRecord(t *testing.T, res *abs.Result) {
	path := os.Getenv("VERIF_TRACE")
	if _, err := initInMemory(); err != nil {
		res.Fatal = err.Error()
		return
	}
	w, err := abs.NewNDJSONWriter(path)
	if err != nil {
		res.Fatal = err.Error()
		return
	}
	defer w.Close()
	seed := abs.Seed()
	rng := rand.New(rand.NewSource(seed))
	shapes := shapesQuick
	rounds := abs.EnvInt("VERIF_ROUNDS", 1)
	if abs.Tier() == "thorough" {
		shapes = shapesThorough
	}
	corrupt := os.Getenv("VERIF_CORRUPT_TRACE")
	var variants []string
	for _, k := range []string{"consul/none", "etcd/none", "memberlist/none", "consul/memberlist", "memberlist/consul"} {
		variants = append(variants, variantsOf[k]...)
	}
	id := 0
	corrupted := false
	perMode := map[string]int{}
	for round := 0; round < rounds; round++ {
		for _, variant := range variants {
			for _, mode := range []string{"sched", "free"} {
				sh := shapes[rng.Intn(len(shapes))]
				n, m := sh[0], sh[1]
				id++
				key := fmt.Sprintf("rec-%s-%d-%d", strings.ReplaceAll(variant, "/", "_"), seed, id)
				tr := trace{ID: id, Mode: mode, Variant: variant, N: n, M: m}
				tr.Be = strings.SplitN(variant, "/", 2)[0]
				if tr.Be == "multi" {
					tr.Be = strings.SplitN(strings.TrimPrefix(variant, "multi/"), "+", 2)[0]
				}
				tr.Limit = 10
				if !fixedLimit(variant) { // a small limit: calls do exhaust their retries on conflicts alone
					tr.Limit = 2 + id%2
				}
				tseed := rng.Int63n(1 << 40)
				var rerr error
				run := func() {
					st, err := openStore(context.Background(), variant, tr.Limit)
					if err != nil {
						rerr = err
						return
					}
					defer st.close()
					if mode == "sched" {
						nwatch := 0
						if watchersOK(variant) {
							nwatch = 1 + rng.Intn(3)
						}
						tr.Ev, tr.Wt, rerr = recordSched(st, key, n, m, tseed, nwatch)
					} else {
						tr.Ev, rerr = recordFree(st, key, n, m, tseed)
					}
					if rerr != nil {
						return
					}
					got, gerr := st.client.Get(context.Background(), key)
					if gerr != nil {
						rerr = gerr
						return
					}
					tr.Final, rerr = asVal(got)
				}
				if mode == "sched" {
					synctest.Test(t, func(t *testing.T) { run() })
				} else {
					run()
				}
				if rerr != nil {
					res.Mismatch(abs.Mismatch{Sig: fmt.Sprintf("record %s %s: run failed", variant, mode),
						Case: map[string]interface{}{"variant": variant, "n": n, "m": m, "seed": tseed}, Got: rerr.Error(), Want: "all calls return"})
					continue
				}
				if corrupt != "" && !corrupted && id >= 3 {
					corrupted = corruptTrace(&tr, corrupt)
				}
				if err := w.Write(tr); err != nil {
					res.Fatal = err.Error()
					return
				}
				res.Cases++
				perMode[mode]++
				if mode == "sched" && traceNontrivial(tr) { // free runs are not reproducible: not counted
					res.Nontrivial++
				}
				if mode == "sched" && id%7 == 1 {
					res.Sample(map[string]interface{}{"variant": variant, "mode": mode, "n": n, "m": m, "final": tr.Final})
				}
			}
		}
	}
	res.AddExtra("recorded_per_mode", perMode)
	res.AddExtra("recorded", w.N)
}

func traceNontrivial(tr trace) bool {
	for _, ev := range tr.Ev {
		for _, s := range ev {
			if s.A == "put" && s.E != "ok" {
				return true // a write lost the race at least once
			}
		}
	}
	return false
}

// corruptTrace changes one logged field (self-test: the validator must reject the line).
func corruptTrace(tr *trace, how string) bool {
	switch how {
	case "final":
		tr.Final = append(tr.Final, [3]int{99, 1, len(tr.Final) + 1})
		return true
	case "in":
		for c := range tr.Ev {
			for i := range tr.Ev[c] {
				// the input of an attempt that went on to write (dropping it from an attempt that
				// declined or failed can still be a behaviour of the specification)
				if len(tr.Ev[c][i].In) > 0 && i+1 < len(tr.Ev[c]) && tr.Ev[c][i+1].A == "put" && tr.Ev[c][i+1].E == "ok" {
					tr.Ev[c][i].In = tr.Ev[c][i].In[1:]
					return true
				}
			}
		}
	case "deliver": // a watcher misses its last call
		for w := range tr.Wt {
			if n := len(tr.Wt[w]); n > 1 {
				tr.Wt[w] = tr.Wt[w][:n-1]
				return true
			}
		}
	case "ok":
		for c := range tr.Ev {
			for i := range tr.Ev[c] {
				if tr.Ev[c][i].A == "put" && tr.Ev[c][i].E == "ok" {
					tr.Ev[c][i].E = "fail"
					return true
				}
			}
		}
	}
	return false
}
