\* exchanges between two instances (tokens, zones, read-only flag + time, registration time) and hand-overs, from every
\* combination of those fields; the aggregates the indexes are built from stay while the assignment moves
CONSTANTS
  Inst = {1, 2}
  Ident = {1}
  Sizes = {1}
  Lookbacks = {1}
  Times = {3, 4}
  Readers = {}
  MaxUpd = 1
  ZoneAware = TRUE
  Addrs = {1}
  Zones = {1, 2}
  Toks = {0, 1}
  Stamps = {0, 2}
  States = {"ACTIVE"}
  Beats = {1, 2}
  Compute <- MCCompute
  InitDescs <- SwapInitDescs
INIT Init
NEXT NextSwap
INVARIANTS TypeOK UnobservableFast PendingSound
