\* C03 partition ring, thorough: all pairs of descriptors with one partition and one owner, pair laws
CONSTANTS
  NP = 1
  NO = 1
  NOwned = 2
  TsSet = {1, 2}
  PStates = {"Active"}
  LockTs = {0, 1}
  Arity = 2
  EmitConv = FALSE
INIT Init
NEXT Next
INVARIANTS PairLaws TripleLaws RawLaws EmitConvergence
CHECK_DEADLOCK FALSE
