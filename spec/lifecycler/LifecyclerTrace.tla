-------------------------- MODULE LifecyclerTrace --------------------------
(***************************************************************************)
(* Validation of behaviours recorded from the real lifecyclers             *)
(* (harness/c08) against Lifecycler.tla / BasicLifecycler.tla.             *)
(*                                                                         *)
(* trace.ndjson holds many traces, each opened by a "reset" event.  Every  *)
(* store operation of a lifecycler is one event (cas / casfail) and must   *)
(* be ONE enabled action of its writer applied to the logged input; TLC    *)
(* infers which action it was and the lifecycler's unlogged local state    *)
(* (timers, remembered tokens and registration time).  Steps of the code   *)
(* that touch no store (refused calls, expired join timer, end of          *)
(* shutdown) are silent steps.  The invariants and action properties of    *)
(* C08 / C09 are checked on every state, i.e. on every ring version ever   *)
(* written.                                                                *)
(***************************************************************************)
EXTENDS BasicLifecycler, Json

VARIABLES idx      \* events consumed so far

tvars == <<ring, rnil, clock, file, kvok, cfg, L, okSince, bud, actor, idx>>

Trace == ndJsonDeserialize("trace.ndjson")
NEv   == Len(Trace)

SetOf(seq) == {seq[k] : k \in DOMAIN seq}
StrictlySorted(seq) == \A k \in DOMAIN seq : k > 1 => seq[k-1] < seq[k]

ToEntry(j) == [st |-> j.st, toks |-> SetOf(j.toks), ts |-> j.ts, reg |-> j.reg, ro |-> j.ro]
RingOf(r)  == [i \in Inst |-> ToEntry(r.e[i])]
\* a well-formed ring version: tokens strictly sorted (sorted and distinct), address / zone / id of
\* every entry the instance's own, no entry of an unknown identity
WellFormed(r) == /\ "bad" \notin DOMAIN r
                 /\ \A i \in Inst : StrictlySorted(r.e[i].toks) /\ "bad" \notin DOMAIN r.e[i]

DefaultCfg == [kind |-> "classic", join |-> 0, obs |-> 0, hb |-> 1, unreg |-> FALSE, file |-> FALSE, health |-> FALSE,
               fsleep |-> 0, regst |-> "ACTIVE", forget |-> 0, keep |-> FALSE]

Reset == /\ ring' = [j \in Inst |-> Absent] /\ rnil' = TRUE /\ clock' = 0
         /\ file' = [j \in Inst |-> {}] /\ kvok' = [j \in Inst |-> TRUE]
         /\ cfg' = [j \in Inst |-> DefaultCfg] /\ L' = [j \in Inst |-> L0]
         /\ okSince' = [j \in Inst |-> 0] /\ bud' = Bud0 /\ actor' = 0

TInit == /\ ring = [j \in Inst |-> Absent] /\ rnil = TRUE /\ clock = 0
         /\ file = [j \in Inst |-> {}] /\ kvok = [j \in Inst |-> TRUE]
         /\ cfg = [j \in Inst |-> DefaultCfg] /\ L = [j \in Inst |-> L0]
         /\ okSince = [j \in Inst |-> 0] /\ bud = Bud0 /\ actor = 0
         /\ idx = 0

(***************************************************************************)
(* Actions by the kind of footprint they leave in the log.                 *)
(***************************************************************************)
\* candidates for the token-generator choice, read off the logged output
Cands(i, out) == LET o == ToEntry(out.e[i]).toks IN
                 {{}, o, o \ ring[i].toks, o \ BRegToks0(i), o \ BBase(i).toks}

\* steps that call CAS (the store accepts: kvok)
CasStep(i, out) ==
    \/ \E X \in Cands(i, out) : InitRingT(i, X) \/ AutoJoinT(i, X) \/ ObserveT(i, X) \/ BRegisterT(i, X)
                                 \/ BVerifyT(i, X) \/ BRegisterCrashT(i, X)
    \/ (Activate(i) /\ Allowed(L[i].st, "ACTIVE"))
    \/ Heartbeat(i)
    \/ (DoChangeState(i) /\ Allowed(L[i].st, L[i].arg))
    \/ (DoReadOnly(i) /\ L[i].ro # (L[i].arg = "true"))
    \/ \E j \in Inst : DoClaim(i, j)
    \/ StopLeaving(i) \/ Unregister(i)
    \/ BHeartbeat(i) \/ BDoChangeState(i) \/ BDoReadOnly(i) \/ BLeave(i)

\* the same steps when the store rejects the call
FailStep(i) ==
    \/ InitFail(i) \/ AutoJoinFail(i) \/ ObserveT(i, {}) \/ BVerifyT(i, {})
    \/ (Activate(i) /\ Allowed(L[i].st, "ACTIVE"))
    \/ Heartbeat(i)
    \/ (DoChangeState(i) /\ Allowed(L[i].st, L[i].arg))
    \/ (DoReadOnly(i) /\ L[i].ro # (L[i].arg = "true"))
    \/ \E j \in Inst : DoClaim(i, j)
    \/ StopLeaving(i) \/ Unregister(i)
    \/ BHeartbeat(i) \/ BDoChangeState(i) \/ BDoReadOnly(i) \/ BLeave(i)

\* steps of the code that do not touch the store
SilentStep(i) ==
    \/ AutoJoinSkip(i)
    \/ (Activate(i) /\ ~Allowed(L[i].st, "ACTIVE"))
    \/ (DoChangeState(i) /\ ~Allowed(L[i].st, L[i].arg))
    \/ (DoReadOnly(i) /\ L[i].ro = (L[i].arg = "true"))
    \/ FinishStop(i)

SampleOK(e) ==
    LET l == L[e.i] IN
    /\ l.phase \in {"run", "observing", "stopping", "stopreq"}
    /\ l.st = e.st /\ l.ro = e.ro
    /\ "toks" \in DOMAIN e => (StrictlySorted(e.toks) /\ l.toks = SetOf(e.toks) /\ l.reg = e.reg)

\* obligation at the quiesced end of a C09 trace: whoever runs has recovered
SettledAll == \A i \in Inst : (L[i].phase \in {"run", "observing"} /\ kvok[i]) => (L[i].phase = "run" /\ Settled(i))

Event(e) ==
    CASE e.k = "reset"   -> Reset
      [] e.k = "start"   -> Start(e.i, e.cfg)
      [] e.k = "stall"   -> Stall(e.i)
      [] e.k = "unstall" -> Unstall(e.i)
      [] e.k = "cas"     -> /\ clock = e.now /\ kvok[e.i] /\ ~L[e.i].stall
                            /\ WellFormed(e.in) /\ WellFormed(e.out)
                            /\ ring = RingOf(e.in) /\ rnil = e.in.nil     \* the store is a register: nothing unlogged
                            /\ CasStep(e.i, e.out)
                            /\ ring' = RingOf(e.out) /\ (e.ok => rnil' = FALSE)
                            /\ (~e.ok => ring' = ring)
      [] e.k = "casfail" -> clock = e.now /\ ~kvok[e.i] /\ ~L[e.i].stall /\ FailStep(e.i)
      [] e.k = "req"     -> Request(e.i, e.op, e.arg)
      [] e.k = "ret"     -> L[e.i].res = e.res /\ Return(e.i)
      [] e.k = "ready"   -> CheckReady(e.i) /\ L'[e.i].ready = e.res
      [] e.k = "stop"    -> StopReq(e.i) \/ BStopReq(e.i)
      [] e.k = "term"    -> L[e.i].phase = "off" /\ UNCHANGED vars
      [] e.k = "tick"    -> Tick /\ clock' = e.now
      [] e.k = "wipe"    -> Wipe
      [] e.k = "kv"      -> SetKV(e.i, e.ok)
      [] e.k = "crash"   -> /\ e.fstate # "bad" /\ StrictlySorted(e.file)
                            /\ IF L[e.i].phase \in {"dead", "off"} THEN UNCHANGED vars   \* died after its last step
                               ELSE Crash(e.i) \/ \E F \in MidFiles(e.i) : CrashMid(e.i, F)
                            /\ file'[e.i] = SetOf(e.file)
      [] e.k = "sample"  -> SampleOK(e) /\ UNCHANGED vars
      [] e.k = "file"    -> /\ file' = [file EXCEPT ![e.i] = SetOf(e.toks)] /\ actor' = 0
                            /\ UNCHANGED <<ring, rnil, clock, kvok, cfg, L, okSince, bud>>
      [] e.k = "settled" -> SettledAll /\ UNCHANGED vars
      [] OTHER           -> UNCHANGED vars   \* "end"

Consume == /\ idx < NEv
           /\ Event(Trace[idx + 1])
           /\ idx' = idx + 1
           /\ TLCSet(1, Max(TLCGet(1), idx + 1))
Silent  == /\ idx < NEv /\ \E i \in Inst : ~L[i].stall /\ SilentStep(i) /\ UNCHANGED idx

TNext == Consume \/ Silent
TSpec == TInit /\ [][TNext]_tvars

TPos  == 0..15
TBud  == [start |-> 1000000, ext |-> 1000000, stop |-> 1000000, ready |-> 1000000, wipe |-> 1000000,
          kv |-> 1000000, crash |-> 1000000, envBy |-> 1000000, stall |-> 1000000]
TCfgs == {DefaultCfg}
TCfg0 == {[j \in 1..N |-> DefaultCfg]}

ASSUME TLCSet(1, 0)
\* accepted iff some execution of the specification consumes every event
Accepted == IF TLCGet(1) = NEv THEN TRUE ELSE PrintT(<<"HWM", TLCGet(1), NEv>>) /\ FALSE
=============================================================================
