\* C04 thorough: as quick (ACTIVE only) plus one restart of any node (a restarted node has forgotten
\* the tombstone).
CONSTANTS
  N = 2
  NI = 1
  MaxClock = 3
  Retention = 2
  T = 1
  MaxCas = 3
  MaxFaults = 1
  LiveStates = {"ACTIVE"}
  WatchNodes = {1, 2}
  HoldNodes = {}
  AllowRestart = TRUE
  AllowGarbage = FALSE
  AllowPartition = FALSE
  AllowJunkPP = FALSE
  ConsumeNet = FALSE
  Ideal = TRUE
  Ghost = TRUE
  Record = FALSE
  Quiesce = FALSE
  RunDepth = 0
  QRounds = 2
SPECIFICATION Spec
VIEW view
INVARIANTS TypeOK TombstonesInvisible InvalidationSafe NoInventedContent SentIsWritten WatcherNeverStale VersionCountsChanges
PROPERTIES TombstonesForwarded NoResurrection GCOnlyExpired NoExpiredTombstoneStored OnlyChangesForwarded
CHECK_DEADLOCK FALSE
