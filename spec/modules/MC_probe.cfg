CONSTANTS
  N = 2
  Graphs <- ClosedShapes
  Faults = {"start", "run", "exit", "stop"}
  AwaitStoppingInner = FALSE
  LateStart = FALSE
INIT InitMain
NEXT Next
VIEW view
INVARIANTS TypeOK FailurePropagates StopOrderState
PROPERTIES StartAfterDeps StopAfterDependantsW StopAfterDependants
CHECK_DEADLOCK TRUE
