\* C03 partition ring, thorough: the Mergeable contract laws on ALL pairs (stored, incoming) x localCAS of the quick universe (SeedLaws)
CONSTANTS
  NP = 1
  NO = 1
  NOwned = 2
  TsSet = {1, 2}
  PStates = {"Active"}
  LockTs = {0, 1}
  Lim2Set = {0, 1, 2, 3, 4, 5}
  NowSet = {2, 3}
  NSlices = 1
  Slice = 0
INIT Init
NEXT Next
INVARIANTS SeedLaws CaseLaws
CHECK_DEADLOCK FALSE
