----------------------------- MODULE JumpHashTrace -----------------------------
(***************************************************************************)
(* Validates placements recorded from the real MemcachedJumpHashSelector   *)
(* (harness/c19 TestPlacement) against JumpHash.tla.                       *)
(*                                                                         *)
(* trace.ndjson, one event per line:                                       *)
(*   {"t":"reset","nkeys":K}            a new universe of servers and keys *)
(*   {"t":"pick","servers":[m,...],     the list given to SetServers       *)
(*    "internal":[m,...],               the selector's list (Each)         *)
(*    "picks":[m,...]}                  PickServer(key_i), i = 1..K        *)
(* Server name number m is the integer the harness built the name from     *)
(* ("10.0.0.<m>:11211", "/run/memcached-<m>.sock", ...).                   *)
(*                                                                         *)
(* The validator keeps, per key, the jump destinations J it has learnt so  *)
(* far (`jumps`) and the longest sorted server list seen (`univ`).  An     *)
(* event is accepted iff                                                   *)
(*   - internal = NatSort(servers)                       (natural sort)    *)
(*   - its sorted list is a prefix of univ and every pick equals           *)
(*     JumpHash!Pick(jumps[key], servers)    (Deterministic,               *)
(*                                            OrderInsensitive), or        *)
(*   - its sorted list is univ plus one server at the end and every pick   *)
(*     is explained by J or by J plus the new bucket    (AppendStable), or *)
(*   - it is any other list of at most Len(univ) names (subset, duplicates,*)
(*     empty) given to a long-lived selector in a SetServers sequence and  *)
(*     every pick equals JumpHash!PickIn(jumps[key], NatSort(servers)).    *)
(***************************************************************************)
EXTENDS Integers, Sequences, FiniteSets, TLC, Json

Events == ndJsonDeserialize("trace.ndjson")

VARIABLES i,        \* events consumed
          univ,     \* longest naturally sorted server list of the current universe
          jumps,    \* jumps[key] = jump destinations learnt for the key
          verdict   \* "ok", or why event i was rejected

JH == INSTANCE JumpHash WITH N <- 0, Dups <- TRUE, Wrong <- "none", jumps <- {0}, a <- <<>>, b <- <<>>

IsPrefix(s, t) == Len(s) <= Len(t) /\ \A j \in 1..Len(s) : s[j] = t[j]

Judge(e) ==
  LET sorted == JH!NatSort(e.servers)
      n      == Len(e.servers)
      K      == Len(e.picks)
  IN IF K # Len(jumps) THEN "malformed"
     ELSE IF e.internal # sorted THEN "NaturalSort"
     ELSE IF n = 0 THEN IF \A k \in 1..K : e.picks[k] = 0 THEN "ok" ELSE "NoServers"   \* 0 = PickServer returned an error and no address
     ELSE IF \E k \in 1..K : e.picks[k] \notin JH!Range(e.servers) THEN "PickInList"
     ELSE IF IsPrefix(sorted, univ)
          THEN IF \A k \in 1..K : e.picks[k] = JH!PickIn(jumps[k], sorted) THEN "ok" ELSE "Deterministic/OrderInsensitive"
     ELSE IF IsPrefix(univ, sorted) /\ n = Len(univ) + 1 /\ Cardinality(JH!Range(e.servers)) = n
          THEN IF \A k \in 1..K : \/ n > 1 /\ e.picks[k] = JH!PickIn(jumps[k], sorted)
                                  \/ e.picks[k] = sorted[n]
               THEN "ok" ELSE "AppendStable"
     \* ANY list of at most Len(univ) names (a subset of the universe in any order - servers removed from the middle -
     \* or names listed several times): the jump destinations below Len(univ) of every key are known by now, and
     \* the placement is the bucket's entry of the naturally sorted list whatever the names are
     ELSE IF n <= Len(univ)
          THEN IF \A k \in 1..K : e.picks[k] = JH!PickIn(jumps[k], sorted) THEN "ok" ELSE "SetServersSequence"
     ELSE "malformed"

Init == i = 0 /\ univ = <<>> /\ jumps = <<>> /\ verdict = "ok"

Next ==
  /\ i < Len(Events)
  /\ verdict = "ok"
  /\ i' = i + 1
  /\ LET e == Events[i + 1] IN
     IF e.t = "reset"
     THEN univ' = <<>> /\ jumps' = [k \in 1..e.nkeys |-> {}] /\ verdict' = "ok"
     ELSE LET sorted == JH!NatSort(e.servers)
              n      == Len(e.servers)
          IN /\ verdict' = Judge(e)
             /\ IF verdict' = "ok" /\ n = Len(univ) + 1
                THEN /\ univ' = sorted
                     /\ jumps' = [k \in 1..Len(jumps) |->
                                    IF e.picks[k] = sorted[n] THEN jumps[k] \cup {n - 1} ELSE jumps[k]]
                ELSE UNCHANGED <<univ, jumps>>

Accepted == verdict = "ok"      \* INVARIANT: violated at the first event the specification rejects
Consumed == i = Len(Events)     \* checked by the driver on the final state (POSTCONDITION-like)
Done     == i < Len(Events) \/ PrintT(ToJson([consumed |-> i]))
=============================================================================
