package c17

// Replay of ManagerGated.tla behaviours on a real services.Manager over real BasicServices.
// Gates: the three functions of every service and the callbacks of the manager's own per-service
// listener (NewManager is handed services whose AddListener wraps the listener in a gate).

import (
	"context"
	"encoding/json"
	"fmt"
	"reflect"
	"regexp"
	"strconv"
	"strings"
	"testing"
	"testing/synctest"

	"verifharness/internal/abs"

	"github.com/grafana/dskit/services"
)

type msvc struct {
	*services.BasicService
	h      *mgrHarness
	idx    int
	fn     map[string]chan string
	inGate string
	dgate  chan struct{} // gate of the manager's listener on this service
	pend   bool          // the manager's listener goroutine is parked with one notification
}

// AddListener wraps the listener (the manager's) so that each callback waits for the harness.
func (s *msvc) AddListener(l services.Listener) func() {
	return s.BasicService.AddListener(&gatedMgrListener{s: s, inner: l})
}

type gatedMgrListener struct {
	s     *msvc
	inner services.Listener
}

func (g *gatedMgrListener) wait() {
	g.s.pend = true
	<-g.s.dgate
	g.s.pend = false
}
func (g *gatedMgrListener) Starting()                           { g.wait(); g.inner.Starting() }
func (g *gatedMgrListener) Running()                            { g.wait(); g.inner.Running() }
func (g *gatedMgrListener) Stopping(from services.State)        { g.wait(); g.inner.Stopping(from) }
func (g *gatedMgrListener) Terminated(from services.State)      { g.wait(); g.inner.Terminated(from) }
func (g *gatedMgrListener) Failed(from services.State, e error) { g.wait(); g.inner.Failed(from, e) }

type mgrHarness struct {
	m       *services.Manager
	svcs    []*msvc
	parent  context.Context
	pcancel context.CancelFunc
	start   string
	ml      [][]any
	mlrm    []func()
	wh      map[int]bool
	wcalled []bool
	wres    [][]any
	wcancel []context.CancelFunc
	wctx    []context.Context
}

func newMgrHarness(jb job) (*mgrHarness, error) {
	h := &mgrHarness{start: "none", wh: map[int]bool{}}
	h.parent, h.pcancel = context.WithCancel(context.Background())
	var list []services.Service
	for i := 0; i < jb.NS; i++ {
		s := &msvc{h: h, idx: i, inGate: "none", dgate: make(chan struct{}),
			fn: map[string]chan string{"start": make(chan string), "run": make(chan string), "stop": make(chan string)}}
		gate := func(name string) error {
			s.inGate = name
			e := <-s.fn[name]
			s.inGate = "none"
			return errOf(e)
		}
		s.BasicService = services.NewBasicService(
			func(context.Context) error { return gate("start") },
			func(context.Context) error { return gate("run") },
			func(error) error { return gate("stop") })
		h.svcs = append(h.svcs, s)
		list = append(list, s)
	}
	m, err := services.NewManager(list...)
	if err != nil {
		return nil, err
	}
	h.m = m
	h.ml = make([][]any, jb.NML)
	h.mlrm = make([]func(), jb.NML)
	nw := len(jb.WH) + len(jb.WS)
	for _, w := range jb.WH {
		h.wh[w-1] = true
	}
	h.wcalled = make([]bool, nw)
	h.wres = make([][]any, nw)
	h.wcancel = make([]context.CancelFunc, nw)
	h.wctx = make([]context.Context, nw)
	for i := 0; i < nw; i++ {
		h.wctx[i], h.wcancel[i] = context.WithCancel(context.Background())
	}
	return h, nil
}

var notHealthyRe = regexp.MustCompile(`^not healthy, (\d+) terminated, (\d+) failed: \[(.*)\]$`)

func (h *mgrHarness) index(s services.Service) int {
	for i, x := range h.svcs {
		if services.Service(x) == s {
			return i + 1
		}
	}
	return -1
}

func (h *mgrHarness) apply(label string, n int, e string) error {
	switch label {
	case "MStart":
		err := h.m.StartAsync(h.parent)
		if err == nil {
			h.start = "ok"
		} else if m := invalidStateRe.FindStringSubmatch(err.Error()); m != nil && m[2] == "New" {
			h.start = m[1]
		} else {
			h.start = "?" + err.Error()
		}
	case "MStop":
		h.m.StopAsync()
	case "SvcStop":
		h.svcs[n-1].StopAsync()
	case "PCancel":
		h.pcancel()
	case "StartRet":
		return sendTo(h.svcs[n-1].fn["start"], e, "start function")
	case "RunRet":
		return sendTo(h.svcs[n-1].fn["run"], e, "running function")
	case "StopRet":
		return sendTo(h.svcs[n-1].fn["stop"], e, "stopping function")
	case "Deliver":
		return sendTo(h.svcs[n-1].dgate, struct{}{}, "manager's service listener")
	case "AddML":
		l := n - 1
		h.mlrm[l] = h.m.AddListener(services.NewManagerListener(
			func() { h.ml[l] = append(h.ml[l], []any{"Healthy", 0}) },
			func() { h.ml[l] = append(h.ml[l], []any{"Stopped", 0}) },
			func(s services.Service) { h.ml[l] = append(h.ml[l], []any{"Failure", h.index(s)}) }))
	case "RemoveML":
		done := false
		go func() { h.mlrm[n-1](); done = true }()
		synctest.Wait()
		if !done {
			return fmt.Errorf("remove-function-of-manager-listener-blocked")
		}
	case "Await":
		w := n - 1
		h.wcalled[w] = true
		go func() {
			var err error
			if h.wh[w] {
				err = h.m.AwaitHealthy(h.wctx[w])
			} else {
				err = h.m.AwaitStopped(h.wctx[w])
			}
			switch {
			case err == nil:
				h.wres[w] = []any{"ok"}
			case h.wctx[w].Err() != nil:
				h.wres[w] = []any{"ctx"}
			default:
				if m := notHealthyRe.FindStringSubmatch(err.Error()); m != nil {
					nt, _ := strconv.Atoi(m[1])
					nf, _ := strconv.Atoi(m[2])
					reasons := []any{}
					for _, r := range strings.Fields(m[3]) {
						reasons = append(reasons, r)
					}
					if nf != len(reasons) {
						reasons = append(reasons, fmt.Sprintf("?count=%d", nf))
					}
					h.wres[w] = []any{"nothealthy", nt, reasons}
				} else {
					h.wres[w] = []any{"?" + err.Error()}
				}
			}
		}()
	default:
		return fmt.Errorf("unknown step %s", label)
	}
	return nil
}

func (h *mgrHarness) observe() map[string]any {
	svc := []any{}
	for _, s := range h.svcs {
		ctx := "nil"
		if c := s.ServiceContext(); c != nil {
			ctx = "live"
			if c.Err() != nil {
				ctx = "done"
			}
		}
		svc = append(svc, map[string]any{"st": s.State().String(), "fail": nameOf(s.FailureCase()), "gate": s.inGate, "ctx": ctx, "pend": s.pend})
	}
	by := map[string]any{}
	for _, st := range []services.State{services.New, services.Starting, services.Running, services.Stopping, services.Terminated, services.Failed} {
		by[st.String()] = []any{}
	}
	for st, list := range h.m.ServicesByState() {
		ids := []any{}
		for _, s := range list {
			ids = append(ids, h.index(s))
		}
		by[st.String()] = ids
	}
	ml := []any{}
	for _, l := range h.ml {
		ml = append(ml, append([]any{}, l...))
	}
	w := []any{}
	for i := range h.wres {
		switch {
		case h.wres[i] != nil:
			w = append(w, map[string]any{"pc": "returned", "r": h.wres[i]})
		case h.wcalled[i]:
			w = append(w, map[string]any{"pc": "waiting", "r": []any{}})
		default:
			w = append(w, map[string]any{"pc": "idle", "r": []any{}})
		}
	}
	return map[string]any{"svc": svc, "healthy": h.m.IsHealthy(), "stopped": h.m.IsStopped(), "by": by, "start": h.start, "ml": ml, "w": w}
}

func (h *mgrHarness) cleanup() string {
	for _, s := range h.svcs {
		for _, ch := range s.fn {
			close(ch)
		}
		close(s.dgate)
	}
	for _, c := range h.wcancel {
		c()
	}
	h.pcancel()
	h.m.StopAsync()
	synctest.Wait()
	if !h.m.IsStopped() {
		return "manager not stopped after cleanup"
	}
	return ""
}

func generic(v any) any {
	b, _ := json.Marshal(v)
	var out any
	_ = json.Unmarshal(b, &out)
	return out
}

func diffKeys(got, want any) string {
	g, _ := got.(map[string]any)
	w, _ := want.(map[string]any)
	var d []string
	for _, k := range []string{"svc", "healthy", "stopped", "by", "start", "ml", "w"} {
		if !reflect.DeepEqual(g[k], w[k]) {
			d = append(d, k)
		}
	}
	return strings.Join(d, ",")
}

func replayManager(t *testing.T, tr *trie, leaf string, jb job) (mis []abs.Mismatch, nontrivial bool) {
	raws := tr.steps[leaf]
	report := func(sig string, upto int, got, want any, note string) {
		mis = append(mis, abs.Mismatch{Sig: sig, Case: map[string]any{"job": jb.Name, "steps": raws[:upto+1]}, Got: got, Want: want, Note: note})
	}
	synctest.Test(t, func(t *testing.T) {
		services.VerifYield = nil
		h, err := newMgrHarness(jb)
		if err != nil {
			report("harness:NewManager:"+err.Error(), 0, nil, nil, "")
			return
		}
		for i, raw := range raws {
			var parts []any
			if err := json.Unmarshal(raw, &parts); err != nil || len(parts) != 3 {
				report("harness:bad-step", i, string(raw), nil, "")
				break
			}
			label, _ := parts[0].(string)
			n, _ := parts[1].(float64)
			e, _ := parts[2].(string)
			if i > 0 {
				if err := h.apply(label, int(n), e); err != nil {
					report("manager:"+err.Error()+" at "+label, i, nil, nil, "")
					break
				}
			}
			synctest.Wait()
			rawWant, ok := tr.obs[rawKey(raws[:i+1])]
			if !ok {
				continue
			}
			var want any
			_ = json.Unmarshal(rawWant, &want)
			got := generic(h.observe())
			if gm, ok := got.(map[string]any); ok && (gm["healthy"] == true || gm["stopped"] == true) {
				nontrivial = true
			}
			if !reflect.DeepEqual(got, want) {
				report("manager:obs:"+diffKeys(got, want)+" after "+label, i, got, want, "")
				break
			}
		}
		if msg := h.cleanup(); msg != "" {
			report("manager:cleanup:"+msg, len(raws)-1, msg, nil, "")
		}
	})
	return mis, nontrivial
}
