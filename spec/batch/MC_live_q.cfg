CONSTANTS
  MinKeys = 0
  MaxKeys = 1
  NI = 3
  MaxRF = 2
  Shape = "any"
  Grain = "atomic"
  Gate = FALSE
  EmptyFix = TRUE
  AllowCancel = TRUE
  EarlyExits = FALSE
  MaxConc = 3
  Spawn = "go"
  Record = FALSE
SPECIFICATION FairSpec
INVARIANTS TypeOK SingleSend ReturnsOnce SuccessMeansQuorum ErrorMeansNoQuorum ErrorIsReal ChannelErrorIsReal
           EarlyError LastAnswerError DecidedIsDelivered SuccessDelivered NoHang CalledExactly CleanupOnceAfterAll
PROPERTIES Termination
CHECK_DEADLOCK TRUE
