------------------------- MODULE PartitionClientTrace -------------------------
(***************************************************************************)
(* Code -> specification direction of C13 (partition ring).                *)
(*                                                                         *)
(* trace.ndjson: partition-ring descriptors pushed through the store to a  *)
(* long-lived PartitionRingWatcher (PU), and after every update the        *)
(* watcher's PartitionRing (PD) and shuffle shards with / without          *)
(* look-back (PS) asked to the long-lived side (lp, lo, lx) and to a       *)
(* PartitionRing freshly built from the store content (fp, fo, fx).        *)
(* Partitions are logged as [id, state, stateTimestamp, tokens], owners as *)
(* [owner, partition, ...].                                                *)
(*                                                                         *)
(* Updates are replayed through PartitionClient's PUpdate, shard queries   *)
(* through PQueryPlain / PQueryLb with the shard function instantiated by  *)
(* the fresh answer and the cache capacity by the history's option.        *)
(* Checks per event: answer (long-lived = fresh: the property), faithful   *)
(* (answers consist of the latest descriptor's partitions and owners; the  *)
(* watcher's ring IS the latest descriptor), replay (long-lived = what the *)
(* specified cache serves), hit (a cached subring was served only where    *)
(* the specified cache holds a valid entry).                               *)
(***************************************************************************)
EXTENDS PartitionClient, Json

Trace == ndJsonDeserialize("trace.ndjson")

VARIABLES l, bad

Ev == Trace[l]

StateName(c) == CASE c = 1 -> "PENDING" [] c = 2 -> "ACTIVE" [] c = 3 -> "INACTIVE" [] OTHER -> "OTHER"

PartsOf(ps) == {ps[j][1] : j \in DOMAIN ps}
DescOf(ps, os) ==
    [parts  |-> [p \in PartsOf(ps) |-> LET j == CHOOSE j \in DOMAIN ps : ps[j][1] = p
                                       IN [state |-> StateName(ps[j][2]), sts |-> ps[j][3], tok |-> ps[j][4]]],
     owners |-> [o \in {os[j][1] : j \in DOMAIN os} |-> LET j == CHOOSE j \in DOMAIN os : os[j][1] = o IN os[j][2]]]

TracePCompute(d, id, size, L, W) == PartsOf(Ev.fp)

Note(S) == bad' = IF S = {} \/ Len(bad) >= 40 THEN bad ELSE Append(bad, [l |-> l, why |-> S])
If(c, s) == IF c THEN {s} ELSE {}

Reset ==
    /\ pdesc' = NoPDesc /\ ring' = NoPDesc
    /\ pc' = EmptyPC /\ lc' = EmptyLC /\ pu' = <<>> /\ lu' = <<>> /\ pnupd' = 0
    /\ cap' = Ev.lru
    /\ UNCHANGED bad

\* the watcher tells its delegate (PartitionRingWatcherDelegate) exactly once per delivered value: (the descriptor of
\* the ring it held, the delivered descriptor)
DoUpdate ==
    LET d == DescOf(Ev.parts, Ev.owners) IN
    /\ Note(If(Ev.dn >= 0 /\ (Ev.dn # 1 \/ DescOf(Ev.dop, Ev.doo) # ring \/ DescOf(Ev.dnp, Ev.dno) # d), "delegate"))
    /\ PUpdate(d)

DoConcurrent ==
    /\ Note(If(Ev.ans # Ev.before /\ Ev.ans # Ev.after, "concurrent"))
    /\ UNCHANGED pvars

DoDirect ==
    /\ Note(If(Ev.lp # Ev.fp \/ Ev.lo # Ev.fo \/ Ev.lx # Ev.fx, "answer")
            \cup If(DescOf(Ev.fp, Ev.fo) # SubDesc(pdesc, DOMAIN pdesc.parts), "faithful"))   \* (owners of unknown partitions are not listed)
    /\ UNCHANGED pvars

DoShard ==
    LET la == DescOf(Ev.lp, Ev.lo)
        fa == DescOf(Ev.fp, Ev.fo)
        k2 == <<Ev.id, Ev.size>>
        k3 == <<Ev.id, Ev.size, Ev.L>>
        hitOK == IF Ev.L = 0 THEN pc[k2] # None ELSE LValid(lc[k3], Ev.now - Ev.L)
        want  == IF Ev.L = 0 THEN ClientPlainP(Ev.id, Ev.size) ELSE ClientLbP(Ev.id, Ev.size, Ev.L, Ev.now)
    IN /\ Note(If(Ev.lp # Ev.fp \/ Ev.lo # Ev.fo \/ Ev.lx # Ev.fx, "answer")
               \cup If(fa # SubDesc(pdesc, PartsOf(Ev.fp) \cap DOMAIN pdesc.parts), "faithful")
               \cup If(la # want, "replay")
               \cup If(Ev.hit /\ ~hitOK, "hit"))
       /\ IF Ev.L = 0 THEN PQueryPlain(Ev.id, Ev.size) ELSE PQueryLb(Ev.id, Ev.size, Ev.L, Ev.now)

TraceInit == PInit /\ l = 1 /\ bad = <<>>

TraceNext ==
    /\ l <= Len(Trace)
    /\ l' = l + 1
    /\ CASE Ev.e = "R"  -> Reset
         [] Ev.e = "PU" -> DoUpdate
         [] Ev.e = "PD" -> DoDirect
         [] Ev.e = "PS" -> DoShard
         [] Ev.e = "PCQ" -> DoConcurrent

TraceView == l
Report == l = Len(Trace) + 1 => PrintT(ToJson([n |-> Len(Trace), bad |-> bad]))
=============================================================================
