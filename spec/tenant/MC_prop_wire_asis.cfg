\* AS-IS model of the real stacks (HTTPTrim = OWSTrim: net/http strips blanks around a header value): the weaker
\* UnchangedUpToOWS holds. The property itself is MC_prop_wire.cfg (NoTrim, strict Unchanged). C20 propagation over the real stacks (net/http, gRPC over bufconn): ids "" (0), two plain ids (1, 2),
\* an id with NUL/CR/LF (3: refused by both transports), an id with a high byte (4: refused by gRPC
\* only), id 1 with a blank appended (5: HTTP delivers it trimmed, i.e. as id 1).
CONSTANTS
  Ids = {0, 1, 2, 3, 4, 5}
  Channels = {"org"}
  MaxHops = 3
  InProc = FALSE
  WireHops = TRUE
  HTTPRefused = {3}
  GRPCRefused = {3, 4}
  HTTPTrim <- OWSTrim
INIT Init
NEXT Next
VIEW view
INVARIANTS TypeOK UnchangedUpToOWS NeverDefaulted RefusalHasReason
PROPERTIES AlteredOnlyByHTTPTrim TransportRefusalIsNotDelivery RefusalIsFinal
CHECK_DEADLOCK FALSE
