\* t_changez: ChangeInstance steps incl. zone changes into / out of an excluded zone: 3 single-token instances, zones 0..2 (zone 2 excluded), 3 states x {edge,stale}
\* (generated from UNIVERSES in checks/ringlookup_common.py: python3 checks/ringlookup_common.py --write-cfgs)
CONSTANTS
  NK = 4
  Gaps = {1}
  N = 3
  MaxTok = 1
  MaxIdle = 1
  Z = 2
  StateSet = {"ACTIVE", "LEAVING", "JOINING"}
  HbSet = {"edge", "stale"}
  RFMax = 3
  Canon = 1
  WithRemove = TRUE
  WithChange = TRUE
  EmitSteps = TRUE
  Excl = {2}
  EmitOn = TRUE
  EmitSets = FALSE
  XMax = 0
INIT Init
NEXT Next
VIEW View
INVARIANTS TypeOK SizeOK ZoneOK ClockwiseFirst SlackExact WalkDefsAgree QuorumIntersection ExpandedOK Emit
PROPERTIES MinimalDisruption OneInstanceSteps
ACTION_CONSTRAINT EmitStep
CHECK_DEADLOCK FALSE
