"""C13 - a ring client's answers depend only on the latest ring content, not on history.

spec/ringclient/RingClient.tla (instance ring: RingCompare classification, kept indexes, the two subring
caches, the lastTopologyChange guard) and PartitionClient.tla (watcher + map/LRU shard cache): TLC checks
`Unobservable` (client answer = fresh answer for every query at every query time) in every reachable state
of the tier's configurations. Binding (record/validate, differential): harness/c13 pushes seeded update
histories through the in-memory Consul store's watch path to a long-lived ring.Ring with caches enabled and
a PartitionRingWatcher, asks the long-lived and a fresh cache-less client the same queries after every step
(plus concurrent readers during updates) and logs everything; RingClientTrace.tla / PartitionClientTrace.tla
replay the updates through the specification's own actions (classification derived by the specification,
cache rules replayed with the fresh answer as the shard function) and compare every answer.
"""
import json
import os
import threading

import verif

PROPERTY = "C13"
META = {
    "level_text": "TLC checks on RingClient.tla / PartitionClient.tla that in every reachable state of bounded universes (2-3 instances or "
                  "partitions; every combination of registration / read-only / state-time fields; every update kind of the quantifier incl. "
                  "equal and heartbeat-only; 1-2 identifiers x 1-2 sizes x 1-2 look-back periods; query times in any order; 2 concurrent "
                  "readers whose cache fills interleave with updates; LRU capacity 1) the client's answer to every query at every query time "
                  "equals the answer of a client built from the latest descriptor alone. Seeded histories recorded from the real "
                  "ring.Ring (caches on, updates through the Consul mock's watch path, synctest clock) and PartitionRingWatcher are validated "
                  "by TLC against the same actions: the update class is derived by the specification, cache hits/fills are replayed with the "
                  "real fresh answer as shard function, and every long-lived answer must equal the fresh one (concurrent readers: one of the "
                  "two adjacent versions). Gated histories (hook ring.VerifYield between computing a shard and filling the cache) park a "
                  "reader, deliver an update of every kind, release it and re-ask: bound to QueryPlain/QueryLb, Update, Fill, so that the "
                  "cache fill is refused exactly when lastTopologyChange moved. Gossip histories feed the long-lived ring from a detached "
                  "memberlist KV (local CAS, NotifyMsg, MergeRemoteState; values share token storage) and compare with a deep-copied fresh client. "
                  "Extension 3: update classes that keep every aggregate an index could be keyed on while the assignment moves (two instances "
                  "exchange tokens / zones / read-only flag+time / registration time, a zone is renamed, an instance hands its tokens to another, "
                  "time stamps go backwards, to 0 or into the future; partitions exchange state+time or tokens, owners exchange partitions, "
                  "several partition changes at once) - as named actions UpdSwap / UpdHandover checked exhaustively (MC_swap_*) with the negative "
                  "control MC_neg_aggcompare (a RingCompare over the collection of records must be refuted) and as generator kinds of every "
                  "history type incl. the gated ones; ring.Config.ExcludedZones (RingClientExcl.tla: the client holds Exclude(store), updates "
                  "confined to excluded zones keep indexes and caches; negative control MC_neg_exclfast, witness MC_witness_hidden; one history "
                  "in three runs with 1-2 excluded zones on the long-lived and the fresh client, the trace specification filters every "
                  "delivered descriptor itself); clients started on a store that already has content (Get in starting); the watcher's "
                  "delegate must be told exactly once per delivered value (ring held before, delivered descriptor); concurrent readers of the "
                  "PartitionRingWatcher (ring, shards with/without look-back: the answer of the descriptor before or after the racing update) "
                  "and more single-call concurrent instance-ring queries (GetInstance, GetInstanceState, token ranges, writable / zone counters, "
                  "GetSubringForOperationStates, GetWithOptions); queries for absent identifiers, per-call RF below the configured one, buffers.",
    "level_note": "Exhaustive only within the small universes; the shard walk in the exhaustive configurations is an abstract model (one token "
                  "per instance, fixed start positions), real shards enter through the recorded traces. Trusted: TLC, the projection of "
                  "answers (harness/c13: instance records interned into a table; everything else compared as canonical strings), pointer "
                  "identity as the observation of a cache hit, uniqueness of lastTopologyChange stamps (the bubble clock is advanced between "
                  "updates). InstanceDesc.Versions is outside the quantifier (DESIGN.md). A mistake in the ExcludedZones filter that the long-lived "
                  "and the fresh client share is seen only as a drift from the specification's counters / records (exit 2, not a violation). Not "
                  "bound: a nil value delivered by the watch (key deleted: the clients keep their old ring - outside the quantifier), more than "
                  "5 zones (heap path of findInstancesForKey), the test-only nil-cache branches.",
    "technique": "TLA+ specifications (RingClient.tla, PartitionClient.tla) model-checked by TLC; traces recorded from the real code validated "
                 "by TLC against the specifications' own actions (RingClientTrace.tla, PartitionClientTrace.tla)",
    "design_ref": "DESIGN.md 2 C13",
}

QUICK_I = ["MC_window_quick", "MC_live_quick"]
QUICK_I2 = ["MC_topo_quick", "MC_keys_quick", "MC_conc_quick", "MC_swap_quick"]
QUICK_X = ["MC_excl_quick"]
QUICK_P = ["MC_part_quick", "MC_partupd_quick"]
THOROUGH_I = ["MC_window_thorough", "MC_live_thorough"]
THOROUGH_I2 = ["MC_topo_thorough", "MC_keys_thorough", "MC_conc_thorough", "MC_swap_thorough"]
THOROUGH_X = ["MC_excl_thorough"]
THOROUGH_P = ["MC_part_thorough", "MC_partupd_thorough"]

VIOLATION_CLASSES = {"answer", "concurrent", "delegate"}   # the property itself, observed on the real code
# everything else ("counts", "faithful", "replay", "hit", "kind") means the specification, the projection or the
# generator no longer describe the code: inconclusive, never a violation


def _tmo(t):
    """TLC timeouts; VERIF_C13_TLC_TIMEOUT overrides them on an oversubscribed development machine"""
    return int(os.environ.get("VERIF_C13_TLC_TIMEOUT", "0")) or t


# configurations TLC must REFUTE: non-vacuity witnesses (the situation an invariant is about is reachable) and negative
# controls (a deliberately wrong model violates the property), per chain of configurations
WITNESSES = {
    "RingClientMC": {"MC_witness_stalehit": "NeverStaleHit", "MC_witness_refused": "NeverRefusedFill",
                     "MC_witness_window": "NeverLbHitAtOtherTime"},
    # RingCompare over the collection of topology records: only the exchange updates (UpdSwap) can show it
    "RingClientMCb": {"MC_neg_aggcompare": "UnobservableFast"},
    # ExcludedZones filter skipped on the fast path; an excluded instance in the store while a cache is filled
    "RingClientExcl": {"MC_neg_exclfast": "ClientHoldsFiltered", "MC_witness_hidden": "NeverHiddenWhileCached"},
}


def _model_check(ctx, module, cfgs, out):
    try:
        # non-vacuity: the situations the invariants are about (a cached subring with outdated states, a refused
        # cache fill, a look-back entry valid at another query time, ...) are reachable and the negative controls are
        # wrong: TLC must find a "violation"
        for cfg, inv in WITNESSES.get(module, {}).items():
            r = ctx.tlc("ringclient", module, cfg=cfg + ".cfg", timeout=_tmo(300), count=False, workers=2)
            out.append(("witness:" + inv, r))
        for cfg in cfgs:
            r = ctx.tlc("ringclient", module, cfg=cfg + ".cfg", timeout=_tmo(1500 if ctx.tier == "thorough" else 400),
                        coverage=(ctx.tier == "thorough"), count=False,
                        workers=int(os.environ.get("VERIF_C13_WORKERS", "0")) or min(8, verif.default_workers()))
            out.append((cfg, r))
            if not r.ok:
                return
    except Exception as ex:  # reported by the caller
        out.append(("exception", ex))


def _validate(ctx, module, trace, recs, n_expected, what):
    files = {trace: "trace.ndjson"}
    if recs:
        files[recs] = "recs.ndjson"
    r = ctx.tlc("ringclient", module, cfg=module + ".cfg", extra_files=files, workers=1, deadlock=False,
                timeout=_tmo(1500 if ctx.tier == "thorough" else 600), count=False)
    ctx.require_tlc_ok(r, what)
    rep = verif.read_ndjson(r.out_path)
    if len(rep) != 1 or rep[0].get("n") != n_expected:
        raise verif.Inconclusive("%s: the trace was not consumed completely (%s of %d lines)" % (
            what, rep[0].get("n") if rep else None, n_expected))
    return rep[0]["bad"]


def _corrupt(path, how):
    """self-test: 'answer' bumps one record id of a long-lived shard answer served from the cache; 'hit' claims a
    cache hit where there was none; 'kind' relabels a token update as a heartbeat"""
    lines = open(path).read().split("\n")
    cleared = False
    for i, line in enumerate(lines):
        if not line:
            continue
        ev = json.loads(line)
        if ev.get("e") == "U":
            cleared = ev.get("kind") in ("token", "addr", "zone", "add", "remove")
        if how == "answer" and ev.get("e") == "S" and ev.get("hit") and ev.get("lm"):
            ev["lm"][0][1] += 1
        elif how == "hit" and cleared and ev.get("e") == "S" and not ev.get("hit") and not ev.get("self"):
            ev["hit"] = True
        elif how == "kind" and ev.get("e") == "U" and ev.get("kind") == "token":
            ev["kind"] = "heartbeat"
        else:
            continue
        lines[i] = json.dumps(ev)
        break
    open(path, "w").write("\n".join(lines))


def _line(path, no):
    with open(path) as f:
        for i, line in enumerate(f, 1):
            if i == no:
                return json.loads(line)
    return None


def _context(path, no):
    """the history reset and the last update before trace line no"""
    reset = upd = None
    with open(path) as f:
        for i, line in enumerate(f, 1):
            if i >= no:
                break
            if line.startswith('{"conc"') or '"e":"R"' in line:
                reset, upd = json.loads(line), None
            elif '"e":"U"' in line or '"e":"CU"' in line or '"e":"PU"' in line:
                upd = json.loads(line)
    return reset, upd


def run(ctx):
    ctx.rule = ("one case = one query asked to the long-lived and to a fresh client (or one distinct answer of a concurrent reader) and "
                "validated by TLC; non-trivial = served through a shortcut: an observed subring-cache hit, any query while the indexes "
                "predate the latest descriptor (after an equal / heartbeat / state update), or a concurrent read racing an update that "
                "changes the answer")
    ctx.assumptions = ["answer projection and record interning of harness/c13", "pointer identity observes a cache hit",
                       "lastTopologyChange stamps of different updates differ (bubble clock advanced between updates)",
                       "instance tokens unique across instances; InstanceDesc.Versions not varied"]
    quick = ctx.tier == "quick"
    mc_i, mc_i2, mc_p, mc_x = [], [], [], []
    threads = [threading.Thread(target=_model_check, args=(ctx, "RingClientMC", QUICK_I if quick else THOROUGH_I, mc_i)),
               threading.Thread(target=_model_check, args=(ctx, "RingClientMCb", QUICK_I2 if quick else THOROUGH_I2, mc_i2)),
               threading.Thread(target=_model_check, args=(ctx, "PartitionClientMC", QUICK_P if quick else THOROUGH_P, mc_p)),
               threading.Thread(target=_model_check, args=(ctx, "RingClientExcl", QUICK_X if quick else THOROUGH_X, mc_x))]
    if os.environ.get("VERIF_C13_SKIP_MC"):   # development only (mutation runs): never gives exit 0
        threads = []
        ctx.inconclusive_note("model checking skipped (VERIF_C13_SKIP_MC)")
    for t in threads:
        t.start()
    try:
        # record from the real code while TLC checks the specification
        ti, tp, recs = ctx.path("trace_i.ndjson"), ctx.path("trace_p.ndjson"), ctx.path("recs.ndjson")
        env = {"VERIF_TRACE_I": ti, "VERIF_TRACE_P": tp, "VERIF_RECS": recs}
        if quick:
            env.update({"VERIF_SYSCFGS": 1, "VERIF_RANDOM": 3, "VERIF_CONC": 2, "VERIF_ROUNDS": 10, "VERIF_GATED": 2, "VERIF_GOSSIP": 2})
        else:
            env.update({"VERIF_SYSCFGS": 4, "VERIF_RANDOM": 40, "VERIF_CONC": 10, "VERIF_ROUNDS": 25, "VERIF_GATED": 12, "VERIF_GOSSIP": 10})
        res = ctx.run_harness("c13", "^TestRecord$", env=env, timeout=int(os.environ.get("VERIF_C13_HARNESS_TIMEOUT", "900")))
    finally:
        for t in threads:
            t.join()
    mc_i = mc_i + mc_i2
    for cfg, r in mc_i + mc_p + mc_x:
        if cfg == "exception":
            raise verif.Inconclusive("model checking failed: %r" % (r,))
        if cfg.startswith("witness:"):
            if r.violated != cfg[8:]:
                raise verif.Inconclusive("vacuity: TLC did not reach a state refuting %s (%s)" % (cfg[8:], r.error or r.violated or "no error"))
            continue
        ctx.states += r.distinct
        ctx.transitions += r.generated
        ctx.require_tlc_ok(r, cfg)
    # vacuity guard (thorough tier runs with -coverage): an action that no configuration of its module ever took
    for module, runs in (("RingClientMC", mc_i), ("PartitionClientMC", mc_p)):
        if runs and ctx.tier == "thorough":
            never = set.intersection(*[set(r.coverage_zero) for _cfg, r in runs if not _cfg.startswith("witness:")])
            if never:
                raise verif.Inconclusive("%s: actions with zero coverage in every configuration: %s" % (module, sorted(never)))
    ctx.exhaustive = bool(mc_i) and bool(mc_p)
    if res.get("fatal"):
        raise verif.Inconclusive("harness reported: %s" % res["fatal"])
    extra = res.get("extra") or {}
    if os.environ.get("VERIF_C13_CORRUPT"):   # development self-test: corrupt one logged answer, the run must fail
        _corrupt(ti, os.environ["VERIF_C13_CORRUPT"])
    # the two traces are validated side by side
    out = {}

    def val(key, *a):
        try:
            out[key] = _validate(ctx, *a)
        except Exception as ex:
            out[key] = ex
    tv = [threading.Thread(target=val, args=("i", "RingClientTrace", ti, recs, extra.get("trace_lines_instance"), "instance-ring trace")),
          threading.Thread(target=val, args=("p", "PartitionClientTrace", tp, None, extra.get("trace_lines_partition"), "partition-ring trace"))]
    for t in tv:
        t.start()
    for t in tv:
        t.join()
    for k in ("i", "p"):
        if isinstance(out.get(k), Exception):
            raise out[k]
    bad_i, bad_p = out["i"], out["p"]
    ctx.absorb(res, "record")
    drift = []
    for path, bad, side in ((ti, bad_i, "instance"), (tp, bad_p, "partition")):
        for b in bad:
            ev = _line(path, b["l"]) or {}
            reset, upd = _context(path, b["l"])
            why = set(b["why"])
            kind = ev.get("kind") if ev.get("e") == "PU" else (upd or {}).get("kind", "-")
            q = ev.get("q") or {"S": "shard", "PS": "pshard", "C": "counts", "PD": "pring", "U": "update", "CU": "update",
                                "PU": "delegate"}.get(ev.get("e"), ev.get("e"))
            if ev.get("e") in ("S", "PS"):
                q += ":lookback" if ev.get("L") else ":plain"
                q += ":hit" if ev.get("hit") else ":miss"
            if why & VIOLATION_CLASSES:
                ctx.disagreement({"sig": "%s:%s after %s update" % (side, q, kind),
                                  "case": {"history": reset, "last_update": upd, "trace_line": b["l"], "event": ev, "failed_checks": sorted(why)},
                                  "got": {k: ev.get(k) for k in ("lm", "lx", "lxfull", "lc", "lp", "lo", "ans", "ansfull", "dn", "dop", "doo", "dnp", "dno") if k in ev},
                                  "want": {k: ev.get(k) for k in ("fm", "fx", "fxfull", "fc", "fp", "fo", "before", "after", "beforefull", "afterfull", "parts", "owners") if k in ev}},
                                 "trace")
            else:
                drift.append("%s line %d %s %s (after %s)" % (side, b["l"], q, sorted(why), kind))
    if drift and not ctx.violations:
        raise verif.Inconclusive("the recorded trace is outside the specification without any answer differing "
                                 "(specification / projection drift): " + "; ".join(drift[:6]))
    return "model_checking"
