------------------------------- MODULE Manager -------------------------------
(***************************************************************************)
(* C17 - services.Manager (services/manager.go) over NS services.          *)
(*                                                                         *)
(* Each service is the abstract machine of AbsService.tla (shown by TLC to *)
(* simulate the detailed Service.tla at gate granularity).  What is        *)
(* detailed here is the manager: its per-service listener (an ordinary     *)
(* service listener: ordered queue mq[s], one delivery at a time), the     *)
(* critical section serviceStateChanged, the byState lists, the state      *)
(* unknown/healthy/stopped, the latches healthyCh/stoppedCh/healthyClosed, *)
(* manager listeners with their queues of capacity NS+2, AwaitHealthy (two *)
(* steps: woken by the latch, then reads the state under the lock) and     *)
(* AwaitStopped, and the loops of Manager.StartAsync / Manager.StopAsync.  *)
(* As in Service.tla the state is one record `mv` and every critical       *)
(* section is an operator on records; ManagerGated.tla composes them.      *)
(***************************************************************************)
EXTENDS Integers, Sequences, FiniteSets, TLC, AbsService

CONSTANTS NS,        \* services 1..NS
          NML,       \* manager listeners 1..NML
          WH, WS,    \* ids of AwaitHealthy / AwaitStopped callers
          ParentCancels, DirectStops   \* BOOLEAN: environment may cancel the parent context / stop single services

Svc == 1..NS
MLis == 1..NML
MWaiters == WH \cup WS
States == {"New", "Starting", "Running", "Stopping", "Terminated", "Failed"}
Terminal == {"Terminated", "Failed"}
MLCap == NS + 2

VARIABLE mv
mvars == <<mv>>

MInitRec ==
  [ svc |-> [s \in Svc |-> AbsInit], pdone |-> FALSE,
    mq |-> [s \in Svc |-> <<>>],                       \* queue of the manager's listener on service s
    thist |-> [s \in Svc |-> <<>>],                    \* transitions service s made
    ndeliv |-> [s \in Svc |-> 0],                      \* how many of them the manager has processed
    by |-> [st \in States |-> IF st = "New" THEN [i \in 1..NS |-> i] ELSE <<>>],   \* byState lists
    mstate |-> "unknown", healthyCh |-> 0, stoppedCh |-> 0, healthyClosed |-> FALSE,
    wasHealthy |-> FALSE, sendClosed |-> FALSE,
    startPc |-> 0, startRes |-> "none", stopPc |-> 0,  \* loops of Manager.StartAsync / StopAsync: next index
    mlst |-> [l \in MLis |-> "none"], mlq |-> [l \in MLis |-> <<>>], mlclosed |-> [l \in MLis |-> FALSE],
    mldeliv |-> [l \in MLis |-> <<>>], mlknown |-> [l \in MLis |-> {}],
    wpc |-> [w \in MWaiters |-> "idle"], wres |-> [w \in MWaiters |-> <<>>] ]

-----------------------------------------------------------------------------
SeqRemove(q, x) == SelectSeq(q, LAMBDA y : y # x)
InSeq(q, x) == \E i \in DOMAIN q : q[i] = x
AllTerminal(m) == \A s \in Svc : m.svc[s].state \in Terminal

\* apply the result r of an AbsService operator to service s: new record, events queued for the manager
SvcApply(m, s, r) == [m EXCEPT !.svc[s] = r.a, !.mq[s] = @ \o r.evs, !.thist[s] = @ \o r.evs]

\* notifyListeners of the manager (with m.mu held)
MNotify(m, ev, close) ==
  [m EXCEPT !.mlq = [l \in MLis |-> IF m.mlst[l] = "active" THEN Append(m.mlq[l], ev) ELSE m.mlq[l]],
            !.sendClosed = m.sendClosed \/ (\E l \in MLis : m.mlst[l] = "active" /\ m.mlclosed[l]),
            !.mlclosed = [l \in MLis |-> m.mlclosed[l] \/ (close /\ m.mlst[l] = "active")]]

\* serviceStateChanged(s, from, to) - one critical section under m.mu
StateChanged(m0, s, from, to) ==
  LET m1 == [m0 EXCEPT !.by = [st \in States |->
                   IF st = to THEN Append(IF st = from THEN SeqRemove(m0.by[st], s) ELSE m0.by[st], s)
                   ELSE IF st = from THEN SeqRemove(m0.by[st], s) ELSE m0.by[st]]]
      m2 == IF to = "Failed" THEN MNotify(m1, <<"Failure", s>>, FALSE) ELSE m1
      running  == Len(m2.by["Running"])
      stopping == Len(m2.by["Stopping"])
      done     == Len(m2.by["Terminated"]) + Len(m2.by["Failed"])
  IN CASE running = NS ->
            MNotify([m2 EXCEPT !.healthyCh = @ + 1, !.mstate = "healthy", !.healthyClosed = TRUE, !.wasHealthy = TRUE],
                    <<"Healthy", 0>>, FALSE)
       [] running # NS /\ done = NS ->
            MNotify([m2 EXCEPT !.healthyCh = IF m2.healthyClosed THEN @ ELSE @ + 1, !.healthyClosed = TRUE,
                               !.stoppedCh = @ + 1, !.mstate = "stopped"],
                    <<"Stopped", 0>>, TRUE)
       [] OTHER ->
            IF ~m2.healthyClosed /\ (done > 0 \/ stopping > 0)
            THEN [m2 EXCEPT !.healthyCh = @ + 1, !.healthyClosed = TRUE, !.mstate = "unknown"]
            ELSE [m2 EXCEPT !.mstate = "unknown"]

\* the manager's listener goroutine on service s runs one callback
DeliverEn(m, s) == m.mq[s] # <<>>
Deliver(m, s) ==
  LET ev == Head(m.mq[s])
  IN StateChanged([m EXCEPT !.mq[s] = Tail(@), !.ndeliv[s] = @ + 1], s, ev[2], ev[1])

\* Manager.StartAsync(ctx): for each service in order StartAsync(ctx); stop at the first error
MStartCallEn(m) == m.startPc = 0
MStartCall(m) == [m EXCEPT !.startPc = 1]
MStartNextEn(m) == m.startPc \in 1..NS
MStartNext(m) ==
  LET s == m.startPc
  IN IF m.svc[s].state = "New"
     THEN [SvcApply(m, s, AStart(m.svc[s], m.pdone)) EXCEPT !.startPc = s + 1, !.startRes = IF s = NS THEN "ok" ELSE @]
     ELSE [m EXCEPT !.startPc = NS + 1, !.startRes = m.svc[s].state]

\* Manager.StopAsync(): StopAsync on each service in order
MStopCallEn(m) == m.stopPc = 0
MStopCall(m) == [m EXCEPT !.stopPc = 1]
MStopNextEn(m) == m.stopPc \in 1..NS
MStopNext(m) == [SvcApply(m, m.stopPc, AStop(m.svc[m.stopPc])) EXCEPT !.stopPc = m.stopPc + 1]

\* a single service stopped from outside the manager
SvcStopEn(m, s) == DirectStops /\ m.svc[s].state \notin Terminal
SvcStop(m, s) == SvcApply(m, s, AStop(m.svc[s]))

PCancelEn(m) == ParentCancels /\ ~m.pdone
PCancel(m) == [m EXCEPT !.pdone = TRUE, !.svc = [s \in Svc |-> AParentCancel(m.svc[s]).a]]

StartRetEn(m, s) == AStartRetEn(m.svc[s])
StartRet(m, s, e) == SvcApply(m, s, AStartRet(m.svc[s], e))
RunRetEn(m, s) == ARunRetEn(m.svc[s])
RunRet(m, s, e) == SvcApply(m, s, ARunRet(m.svc[s], e))
StopRetEn(m, s) == AStopRetEn(m.svc[s])
StopRet(m, s, e) == SvcApply(m, s, AStopRet(m.svc[s], e))

\* manager listeners
AddMLEn(m, l) == m.mlst[l] = "none"
AddML(m, l) == IF m.mstate = "stopped" THEN [m EXCEPT !.mlst[l] = "nop"]
               ELSE [m EXCEPT !.mlst[l] = "active", !.mlknown[l] = {s \in Svc : InSeq(m.by["Failed"], s)}]
MLRecvEn(m, l) == m.mlq[l] # <<>>
MLRecv(m, l) == [m EXCEPT !.mldeliv[l] = Append(@, Head(m.mlq[l])), !.mlq[l] = Tail(@)]
\* the function returned by AddListener: stop the goroutine, take the channel off the manager's list, wait for
\* the goroutine.  What is still queued may or may not be delivered (select between stop and the channel).
RemoveMLEn(m, l) == m.mlst[l] = "active"
RemoveML(m, l) == [m EXCEPT !.mlst[l] = "removed"]
MLDropEn(m, l) == m.mlst[l] = "removed" /\ m.mlq[l] # <<>>
MLDrop(m, l) == [m EXCEPT !.mlq[l] = <<>>]

\* AwaitHealthy / AwaitStopped
MAwaitEn(m, w) == m.wpc[w] = "idle"
MAwait(m, w) == [m EXCEPT !.wpc[w] = "waiting"]
MWakeEn(m, w) == m.wpc[w] = "waiting" /\ (IF w \in WH THEN m.healthyCh > 0 ELSE m.stoppedCh > 0)
MWake(m, w) == IF w \in WS THEN [m EXCEPT !.wpc[w] = "returned", !.wres[w] = <<"ok">>]
               ELSE [m EXCEPT !.wpc[w] = "woken"]
MReadEn(m, w) == m.wpc[w] = "woken"
MRead(m, w) == [m EXCEPT !.wpc[w] = "returned",
                         !.wres[w] = IF m.mstate = "healthy" THEN <<"ok">>
                                     ELSE <<"nothealthy", Len(m.by["Terminated"]),
                                            [i \in DOMAIN m.by["Failed"] |-> m.svc[m.by["Failed"][i]].fail]>>]

-----------------------------------------------------------------------------
aDeliver(s)     == DeliverEn(mv, s) /\ mv' = Deliver(mv, s)
aMStartCall     == MStartCallEn(mv) /\ mv' = MStartCall(mv)
aMStartNext     == MStartNextEn(mv) /\ mv' = MStartNext(mv)
aMStopCall      == MStopCallEn(mv) /\ mv' = MStopCall(mv)
aMStopNext      == MStopNextEn(mv) /\ mv' = MStopNext(mv)
aSvcStop(s)     == SvcStopEn(mv, s) /\ mv' = SvcStop(mv, s)
aPCancel        == PCancelEn(mv) /\ mv' = PCancel(mv)
aStartRet(s, e) == StartRetEn(mv, s) /\ mv' = StartRet(mv, s, e)
aRunRet(s, e)   == RunRetEn(mv, s) /\ mv' = RunRet(mv, s, e)
aStopRet(s, e)  == StopRetEn(mv, s) /\ mv' = StopRet(mv, s, e)
aAddML(l)       == AddMLEn(mv, l) /\ mv' = AddML(mv, l)
aMLRecv(l)      == MLRecvEn(mv, l) /\ mv' = MLRecv(mv, l)
aRemoveML(l)    == RemoveMLEn(mv, l) /\ mv' = RemoveML(mv, l)
aMLDrop(l)      == MLDropEn(mv, l) /\ mv' = MLDrop(mv, l)
aMAwait(w)      == MAwaitEn(mv, w) /\ mv' = MAwait(mv, w)
aMWake(w)       == MWakeEn(mv, w) /\ mv' = MWake(mv, w)
aMRead(w)       == MReadEn(mv, w) /\ mv' = MRead(mv, w)

FnRet == \E s \in Svc : \/ \E e \in {"none", "estart"} : aStartRet(s, e)
                        \/ \E e \in {"none", "erun"} : aRunRet(s, e)
                        \/ \E e \in {"none", "estop"} : aStopRet(s, e)

MInit == mv = MInitRec
MNext == \/ aMStartCall \/ aMStartNext \/ aMStopCall \/ aMStopNext \/ aPCancel \/ FnRet
         \/ \E s \in Svc : aDeliver(s) \/ aSvcStop(s)
         \/ \E l \in MLis : aAddML(l) \/ aMLRecv(l) \/ aRemoveML(l) \/ aMLDrop(l)
         \/ \E w \in MWaiters : aMAwait(w) \/ aMWake(w) \/ aMRead(w)

MFairness == /\ WF_mvars(aMStartNext) /\ WF_mvars(aMStopNext) /\ WF_mvars(FnRet)
             /\ \A s \in Svc : WF_mvars(aDeliver(s))
             /\ \A l \in MLis : WF_mvars(aMLRecv(l) \/ aMLDrop(l))
             /\ \A w \in MWaiters : WF_mvars(aMWake(w) \/ aMRead(w))
MSpec == MInit /\ [][MNext]_mvars /\ MFairness

-----------------------------------------------------------------------------
(* Properties *)

Range(f) == {f[i] : i \in DOMAIN f}
View(s) == CHOOSE st \in States : InSeq(mv.by[st], s)        \* where the manager files service s
Count(q, x) == Cardinality({i \in DOMAIN q : q[i] = x})

MTypeOK ==
  /\ mv.mstate \in {"unknown", "healthy", "stopped"} /\ mv.healthyCh \in 0..2 /\ mv.stoppedCh \in 0..2
  /\ \A s \in Svc : mv.svc[s].state \in States
  /\ \A st \in States : Range(mv.by[st]) \subseteq Svc

\* byState is a partition of the services and files each under the last state delivered for it
ViewIsLastDelivered ==
  /\ \A s \in Svc : Cardinality({st \in States : InSeq(mv.by[st], s)}) = 1
  /\ \A st \in States : \A s \in Svc : Count(mv.by[st], s) <= 1
  /\ \A s \in Svc : View(s) = (IF mv.ndeliv[s] = 0 THEN "New" ELSE mv.thist[s][mv.ndeliv[s]][1])
  /\ \A s \in Svc : mv.mq[s] = SubSeq(mv.thist[s], mv.ndeliv[s] + 1, Len(mv.thist[s]))
\* ... hence, once every notification is delivered, the manager's view is the truth
QuiescentViewExact == (\A s \in Svc : mv.mq[s] = <<>>) => \A s \in Svc : View(s) = mv.svc[s].state

\* healthy exactly while all services run (as delivered to the manager)
HealthyExact ==
  /\ (mv.mstate = "healthy") <=> (\A s \in Svc : View(s) = "Running")
  /\ ((\A s \in Svc : mv.mq[s] = <<>>) => ((mv.mstate = "healthy") <=> (\A s \in Svc : mv.svc[s].state = "Running")))
\* stopped exactly when all are terminal
StoppedExact ==
  /\ (mv.mstate = "stopped") <=> (\A s \in Svc : View(s) \in Terminal)
  /\ (mv.stoppedCh > 0) <=> (mv.mstate = "stopped")
  /\ ((\A s \in Svc : mv.mq[s] = <<>>) => ((mv.mstate = "stopped") <=> AllTerminal(mv)))
\* the healthy latch: closed exactly when healthy was reached or can no longer be reached
HealthyLatchExact ==
  /\ (mv.healthyCh > 0) <=> (mv.wasHealthy \/ \E s \in Svc : View(s) \in {"Stopping", "Terminated", "Failed"})
  /\ (mv.healthyCh > 0) <=> mv.healthyClosed
MNoDoubleClose == mv.healthyCh <= 1 /\ mv.stoppedCh <= 1 /\ ~mv.sendClosed

\* each failed service is reported exactly once to every listener registered before the failure was processed
\* (a listener added late is not told about earlier failures; a removed one gets nothing new and nothing twice)
FailureReportedOnce ==
  \A l \in MLis :
     LET all == mv.mldeliv[l] \o mv.mlq[l]
         due(s) == IF View(s) = "Failed" /\ s \notin mv.mlknown[l] THEN 1 ELSE 0
     IN /\ mv.mlst[l] = "active" => \A s \in Svc : Count(all, <<"Failure", s>>) = due(s)
        /\ mv.mlst[l] = "removed" => \A s \in Svc : Count(all, <<"Failure", s>>) <= due(s)
        /\ mv.mlst[l] \in {"none", "nop"} => all = <<>>
\* Healthy at most once, Stopped at most once and last, in the order things happened
MListenerOrder ==
  \A l \in MLis :
     LET all == mv.mldeliv[l] \o mv.mlq[l]
     IN /\ Count(all, <<"Healthy", 0>>) <= 1 /\ Count(all, <<"Stopped", 0>>) <= 1
        /\ (Count(all, <<"Stopped", 0>>) = 1) => (all[Len(all)] = <<"Stopped", 0>> /\ mv.mlclosed[l])
        /\ (Count(all, <<"Healthy", 0>>) = 1) => mv.wasHealthy
        /\ mv.mlst[l] = "nop" => mv.mstate = "stopped"
MNotifierNeverBlocks == \A l \in MLis : Len(mv.mlq[l]) <= MLCap

MWaitersExact ==
  /\ \A w \in WS : mv.wpc[w] = "returned" => mv.mstate = "stopped"
  /\ \A w \in WH : mv.wpc[w] \in {"woken", "returned"} => mv.healthyCh > 0
  /\ \A w \in WH : mv.wres[w] = <<"ok">> => mv.wasHealthy
  /\ \A w \in WH : Len(mv.wres[w]) = 3 => "none" \notin Range(mv.wres[w][3])    \* a failed service has a failure case

StartResultExact == mv.startRes = "ok" => \A s \in Svc : mv.svc[s].state # "New"

\* Liveness
EventuallyStopped == (\A s \in Svc : mv.svc[s].state \in Terminal) ~> (mv.mstate = "stopped")
StopAllLeadsToStopped == (mv.stopPc = NS + 1) ~> (mv.mstate = "stopped")
=============================================================================
