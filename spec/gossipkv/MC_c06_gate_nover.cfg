\* Negative control: Invalidates WITHOUT the version test lets a delayed older broadcast supersede a
\* newer one that it does not contain. This configuration is EXPECTED to violate InvalidationSafe.
CONSTANTS
  N = 2
  NI = 2
  NK = 1
  MaxClock = 1
  Retention = 0
  T = 1
  MaxCas = 3
  MaxFaults = 0
  LiveStates = {"ACTIVE"}
  WatchNodes = {1, 2}
  HoldNodes = {}
  AllowRestart = FALSE
  AllowGarbage = FALSE
  AllowPartition = FALSE
  AllowJunkPP = FALSE
  GateNodes = {1}
  InboxCap = 1
  VersionTest = FALSE
  KeyTest = TRUE
  MaxDel = 0
  ObsoleteTimeout = 1
  LockKeys = {}
  ConsumeNet = FALSE
  Ideal = TRUE
  Ghost = TRUE
  Record = FALSE
  Quiesce = FALSE
  RunDepth = 0
  QRounds = 2
SPECIFICATION Spec
VIEW view
INVARIANTS InvalidationSafe
CHECK_DEADLOCK FALSE
