\* C20 observation: every Set transition (validated or not) printed for replay on the real Metadata.With.
CONSTANTS
  GoodKeys <- GoodKeysDef
  GoodVals <- GoodValsDef
  BadKeys <- BadKeysDef
  BadVals <- BadValsDef
  AllowUnchecked = TRUE
  MaxSets = 3
  Alphabet = {}
  MaxShort = 0
  Alphabet2 = {}
  MaxShort2 = 0
  RunBytes = {}
  RunCounts = {}
  SepBytes = {}
  MaxSegs = 0
  Pool <- PoolNone
  MaxParts = 0
  Pool2 <- PoolNone
  MaxParts2 = 0
  MetaAlphabet = {}
  MaxMeta = 0
  MetaRuns = {}
INIT MInit
NEXT MNext
ACTION_CONSTRAINT EmitSet
CHECK_DEADLOCK FALSE
