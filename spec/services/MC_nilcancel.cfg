CONSTANTS
  NC = 2
  NL = 0
  WRun = {}
  WTerm = {}
  QCap = 4
  MaxIters = 2
  MaxStart = 1
  ParentCancels = TRUE
  Presents = {{"start","run","stop"}}
  RunModes = {"any"}
  GuardNilCancel = FALSE
INIT GInit
NEXT GNext
VIEW GView
INVARIANTS NoNilCancelCallEmit
CHECK_DEADLOCK FALSE
