---------------------------- MODULE ManagerGated ----------------------------
(***************************************************************************)
(* Manager.tla at gate granularity (see ServiceGated.tla): gates are the   *)
(* three functions of every service and the callbacks of the manager's own *)
(* per-service listener (the harness hands NewManager services whose       *)
(* AddListener wraps the listener in a gate, so the ORDER in which the     *)
(* manager learns about transitions of different services is the           *)
(* specification's choice).  Environment steps: Manager.StartAsync,        *)
(* Manager.StopAsync, StopAsync of one service, parent-context cancel,     *)
(* function returns, Deliver(s), AddListener, AwaitHealthy/AwaitStopped.   *)
(* A step is  mv' = MSettle(EnvOp(mv)) - a sequence of Manager.tla steps.  *)
(***************************************************************************)
EXTENDS Manager, Json

VARIABLE hist
mgvars == <<mv, hist>>

MIntEn(m) == \/ MStartNextEn(m) \/ MStopNextEn(m)
             \/ \E l \in MLis : MLRecvEn(m, l) \/ MLDropEn(m, l)
             \/ \E w \in MWaiters : MWakeEn(m, w) \/ MReadEn(m, w)
MIntStep(m) ==
  IF MStartNextEn(m) THEN MStartNext(m)
  ELSE IF MStopNextEn(m) THEN MStopNext(m)
  ELSE IF \E l \in MLis : MLRecvEn(m, l) THEN MLRecv(m, CHOOSE l \in MLis : MLRecvEn(m, l))
  ELSE IF \E l \in MLis : MLDropEn(m, l) THEN MLDrop(m, CHOOSE l \in MLis : MLDropEn(m, l))
  ELSE IF \E w \in MWaiters : MWakeEn(m, w) THEN MWake(m, CHOOSE w \in MWaiters : MWakeEn(m, w))
  ELSE MRead(m, CHOOSE w \in MWaiters : MReadEn(m, w))
RECURSIVE MSettle(_)
MSettle(m) == IF MIntEn(m) THEN MSettle(MIntStep(m)) ELSE m

MObs(m) ==
  [ svc |-> [s \in Svc |-> [st |-> m.svc[s].state, fail |-> m.svc[s].fail, gate |-> m.svc[s].gate, ctx |-> m.svc[s].ctx,
                           pend |-> m.mq[s] # <<>>]],
    healthy |-> m.mstate = "healthy", stopped |-> m.mstate = "stopped",
    by |-> m.by, start |-> m.startRes,
    ml |-> [l \in MLis |-> m.mldeliv[l]],
    w  |-> [w \in MWaiters |-> [pc |-> m.wpc[w], r |-> m.wres[w]]] ]

MEnvEn(m, a) ==
  CASE a[1] = "MStart"   -> MStartCallEn(m)
    [] a[1] = "MStop"    -> MStopCallEn(m)
    [] a[1] = "SvcStop"  -> SvcStopEn(m, a[2])
    [] a[1] = "PCancel"  -> PCancelEn(m)
    [] a[1] = "StartRet" -> StartRetEn(m, a[2])
    [] a[1] = "RunRet"   -> RunRetEn(m, a[2])
    [] a[1] = "StopRet"  -> StopRetEn(m, a[2])
    [] a[1] = "Deliver"  -> DeliverEn(m, a[2])
    [] a[1] = "AddML"    -> AddMLEn(m, a[2])
    [] a[1] = "RemoveML" -> RemoveMLEn(m, a[2]) /\ m.mlq[a[2]] = <<>>
    [] a[1] = "Await"    -> MAwaitEn(m, a[2])
MEnvOp(m, a) ==
  CASE a[1] = "MStart"   -> MStartCall(m)
    [] a[1] = "MStop"    -> MStopCall(m)
    [] a[1] = "SvcStop"  -> SvcStop(m, a[2])
    [] a[1] = "PCancel"  -> PCancel(m)
    [] a[1] = "StartRet" -> StartRet(m, a[2], a[3])
    [] a[1] = "RunRet"   -> RunRet(m, a[2], a[3])
    [] a[1] = "StopRet"  -> StopRet(m, a[2], a[3])
    [] a[1] = "Deliver"  -> Deliver(m, a[2])
    [] a[1] = "AddML"    -> AddML(m, a[2])
    [] a[1] = "RemoveML" -> RemoveML(m, a[2])
    [] a[1] = "Await"    -> MAwait(m, a[2])

MGInit == mv = MInitRec /\ hist = << <<"New", NS, "">> >>
MGStep(a) == MEnvEn(mv, a) /\ mv' = MSettle(MEnvOp(mv, a)) /\ hist' = Append(hist, a)
MGNext == \/ MGStep(<<"MStart", 0, "">>) \/ MGStep(<<"MStop", 0, "">>) \/ MGStep(<<"PCancel", 0, "">>)
          \/ \E s \in Svc : \/ MGStep(<<"SvcStop", s, "">>) \/ MGStep(<<"Deliver", s, "">>)
                            \/ \E e \in {"none", "estart"} : MGStep(<<"StartRet", s, e>>)
                            \/ \E e \in {"none", "erun"} : MGStep(<<"RunRet", s, e>>)
                            \/ \E e \in {"none", "estop"} : MGStep(<<"StopRet", s, e>>)
          \/ \E l \in MLis : MGStep(<<"AddML", l, "">>) \/ MGStep(<<"RemoveML", l, "">>)
          \/ \E w \in MWaiters : MGStep(<<"Await", w, "">>)
\* terminating model: stutter at the end so that -simulate traces reach the requested depth
MGDone == ~(ENABLED MGNext) /\ UNCHANGED mgvars
MGView == mv

MEmitTransition == PrintT(ToJson([h |-> hist', o |-> MObs(mv')]))
MEmitInit == Len(hist) > 1 \/ PrintT(ToJson([h |-> hist, o |-> MObs(mv)]))
MQuiescent == ~MIntEn(mv)
=============================================================================
