CONSTANTS
  WithDone = TRUE
  TrackerBug = "none"
  Shapes <- ShapesDoneQuick
INIT Init
NEXT NextD
INVARIANTS NeverCompletedByCallback
CHECK_DEADLOCK TRUE
