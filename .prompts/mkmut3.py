#!/usr/bin/env python3
# mkmut3.py <Cxx> <tag> [n]: creates the scratch worktree /tmp/mut_<cxx>_<tag> and prints the prompt for an independent
# mutant writer; lists the one-line summaries of ALL earlier seeded changes of the property (any tag) as "already tried".
import json, subprocess, sys, glob, os
pid=sys.argv[1]; tag=sys.argv[2]; n=sys.argv[3] if len(sys.argv)>3 else '3'
props={json.loads(l)['id']:json.loads(l) for l in open('/verif/properties.jsonl')}
p=props[pid]
wt='/tmp/mut_%s_%s'%(pid.lower(),tag)
subprocess.run(['git','-C','/repo','worktree','add','--detach',wt,'HEAD'],check=True,capture_output=True)
t=open('/verif/.prompts/mutant_tmpl.txt').read()
out=t.format(wt=wt,pid=pid,title=p['title'],statement=p['statement'],quant=p['quantifier']['text'],files=', '.join(p['anchors']['files']),n=n)
prev=[]
for d in sorted(glob.glob('/verif/seeded/%s-*'%pid)):
    try:
        r=open(os.path.join(d,'README.md')).read().strip().splitlines()
        s=r[0].lstrip('# ').strip()
        s=s.split(' - ',1)[1] if ' - ' in s else s
        prev.append('  - '+s[:200])
    except Exception: pass
out+='''
ALREADY TRIED BY OTHERS for this property (do NOT repeat these or trivial variants of them; go for different clauses, different code sites, and especially for defects that need an interaction between two components, a particular interleaving or fault timing, or a particular multi-step history):
%s

PRACTICAL NOTES. Other jobs share the machine: the full `go test ./ring/` takes 3-15 minutes - always pass `-timeout 60m`, run it once per mutant at the end rather than repeatedly, and use `-run <regex>` subsets while iterating. A few wall-clock-sensitive existing tests (e.g. TestCheckReady*, TestLifecycler_*, *_StartMinimumRequests_*, TestWatchKey*, TestPartitionInstanceLifecycler, TestMultiKV*, memberlist tests with real sockets) can fail under load even on the unchanged tree: if one fails, re-run that test alone (`-run '^TestName$' -count=3`) with and without your change before concluding anything. `signal: terminated/killed` is infrastructure trouble: re-run. Never use pkill/killall. The package dns/miekgdns needs a network and always fails here; ignore it. Be done within about 60 minutes.
''' % ('\n'.join(prev) or '  (none)')
print(out)
