"""C05 - one owner per token on every replica; lookups never see a broken index.

spec/ringmerge/RingReplica.tla: one replica whose descriptor changes only through RingMerge!Merge (peer updates,
local CAS writes, token re-claims), instances drawing tokens from one tiny shared pool.  TLC decides TokenUnique /
LeftHasNoTokens over every reachable descriptor and, on every transition, CollisionRule + ResolveDeterministic
(action property StepRules).  Binding: the path to every reachable state is executed with real Desc.Merge calls
(receiver and change compared after every step) and the resulting real descriptor is queried through real ring.Ring
clients; a long-lived ring client watches the replica the way memberlist's watchers do (clones handed out are never
mutated; it answers like a fresh client after every step); random merge sequences over a shared pool are recorded,
watched, queried and validated by RingMergeTrace.tla.
"""
import os

import ringmerge_common as rc
import verif

PROPERTY = "C05"
META = {
    "level_text": "One replica of the gossiped ring is a TLA+ state machine whose only way to change is the specification's Merge "
                  "(peer updates of <= MaxUpd entries, local CAS rewriting/removing one entry, an owner re-claiming free tokens), with "
                  "3 instances sharing 2 token positions (and 2 sharing 3) so that collisions are the norm. TLC explores every reachable "
                  "descriptor and decides, as invariants, that no position is held by two instances that have not left and that LEFT "
                  "entries hold nothing, and, on every transition, that a fresh collision is always resolved (never skipped by the "
                  "tokens-unchanged shortcut), goes to the claimant the rule names (non-LEAVING beats LEAVING, then smaller id) with "
                  "every loser lacking the token, and that the code-shaped pairwise tournament gives that outcome for every map order. "
                  "For every reachable state the BFS path is replayed with real Desc.Merge calls (unsorted / duplicated incoming lists, "
                  "3 repetitions for map order; receiver and change compared after each step) and the real merged descriptor, stored "
                  "and as clients see it, is queried through real ring.Ring clients (zone-aware and not: Get for every key class and "
                  "operation, ShuffleShard, ShuffleShardWithLookback, GetTokenRangesForInstance, GetReplicationSetForOperation) under "
                  "recover; the token index must name the specification's owner for every position. Along every replayed path (and "
                  "next to every recorded replica) a LONG-LIVED ring.Ring is fed, after every real Merge, Clone() of the in-place merged "
                  "value with tombstones stripped through its WatchKey callback (exactly kv/memberlist's KV.get -> watcher), and must "
                  "answer like a ring built afresh from a deep copy of the same value; every clone handed out earlier is deep-compared "
                  "with the copy taken at hand-out time (RingReplica.tla: SnapshotsImmutable, ReaderSeesLatest).",
    "level_note": "Exhaustive for the stated tiny universes; larger rings only through recorded random traces (5 instances / 3 positions) "
                  "validated by TLC. Lookups are checked for absence of ErrInconsistentTokensInfo / panics and for the owner index, "
                  "not against a full lookup oracle (that is C01's RingLookup specification). Deliberately not demanded (DESIGN 2 C05): "
                  "replicas that received the same colliding updates in different orders may differ until the owners' next heartbeat - "
                  "the specification names this ResolveWithoutTimestamp and MC_diverge.cfg makes TLC exhibit it.",
    "technique": "TLA+ specification (RingReplica.tla over RingMerge.tla) model-checked by TLC; TLC-generated behaviours replayed into the "
                 "real code; traces recorded from the real code validated by TLC",
    "design_ref": "DESIGN.md 2 C05",
}


# of the transitions that resolve a collision every ThinK-th and of all transitions every ThinA-th (residue chosen
# by the seed) are replayed in addition to the BFS path of every reachable state: config -> (ThinK, ThinA, M, TLC workers share)
CFG = {"MC_replica_quick.cfg": (32, 300, 2), "MC_replica_n3m2.cfg": (32, 300, 2), "MC_replica_upd2.cfg": (32, 300, 2),
       "MC_replica_m3.cfg": (32, 300, 3), "MC_replica_full.cfg": (400, 3000, 2)}


def run(ctx):
    quick = ctx.tier == "quick"
    ctx.rule = ("one case = one reachable replica state (its BFS path) or one sampled collision-resolving transition (the path to its "
                "source + the step), executed on a real *ring.Desc (every step compared) with the final descriptor queried through "
                "real ring clients, or one recorded Merge call accepted by the trace specification; "
                "non-trivial = some step of the path resolved a token collision / the recorded call changed the receiver; "
                "distinct = distinct <<descriptor, clock>> states of RingReplica")
    ctx.assumptions = ["the receiver of Merge is only ever produced by Merge starting from the empty descriptor (kv/memberlist usage)",
                       "timestamps are unix seconds on the synctest clock; every path is replayed time-shifted (Merge depends on the "
                       "order of timestamps only)",
                       "ring clients are built over a stub kv.Client serving the merged descriptor (harness/internal/abs.NewRing)"]
    ctx.exhaustive = True

    # ---- 1. TLC: invariants over all reachable descriptors, step rules on all transitions ------
    cfgs = ["MC_replica_quick.cfg"] if quick else ["MC_replica_full.cfg", "MC_replica_n3m2.cfg", "MC_replica_upd2.cfg", "MC_replica_m3.cfg"]
    wk = rc.par_workers(min(len(cfgs), 3))

    def model(cfg):
        def f():
            think, thina, m = CFG[cfg]
            r = rc.tlc_ok(ctx, "RingReplica", cfg, coverage=(cfg == "MC_replica_upd2.cfg"),
                          workers=(None if len(cfgs) == 1 else (2 * wk if cfg == "MC_replica_full.cfg" else wk)) or rc.WORKERS,
                          subst={"@@THINK@@": think, "@@THINA@@": thina, "@@THINR@@": ctx.seed % (think * thina)})
            if rc.zero_coverage(r):
                raise verif.Inconclusive("actions with zero coverage in %s: %s" % (cfg, rc.zero_coverage(r)))
            if r.emitted == 0:
                raise verif.Inconclusive("%s emitted no paths" % cfg)
            return (r.out_path, m, r.emitted, cfg)
        return f
    # code -> spec runs beside the model checking: record random merges over a shared pool (every receiver also watched by
    # a long-lived ring client), then let TLC recompute every call
    tdir = os.path.dirname(ctx.path("traces", "x"))
    tn, tm = 5, 3
    steps = 400 if quick else 4000

    def record_and_validate():
        env = {"VERIF_TRACE_DIR": tdir, "VERIF_TN": tn, "VERIF_TM": tm, "VERIF_TSTEPS": steps,
               "VERIF_TMAXNOW": max(60, steps // 4), "VERIF_TPROBE_EVERY": 4 if quick else 8}
        res = rc.locked_harness(ctx, "c05", "^TestC05$", env=env, timeout=3000)
        n = rc.validate_trace(ctx, "RingMergeTrace", os.path.join(tdir, "ring_trace.ndjson"),
                              {"@@N@@": tn, "@@M@@": tm, "@@NREP@@": 3}, "ring trace (shared pool)", "ring:trace")
        return ("rec", res, n)
    out = rc.run_parallel([record_and_validate] + [model(c) for c in cfgs], 4)
    rec_res, ntrace = out[0][1], out[0][2]
    path_files = out[1:]

    # the deliberate non-demand must still be a real behaviour of the specification (thorough tier only: one JVM start less)
    r = None if quick else rc.locked_tlc(ctx, rc.FAMILY, "RingReplica", cfg="MC_diverge.cfg", workers=rc.WORKERS or 2, timeout=rc.TLC_TIMEOUT, count=False)
    if r is not None:
        if r.timed_out or r.error or r.violated != "NeverResolveWithoutTimestamp":
            raise verif.Inconclusive("MC_diverge.cfg: expected TLC to exhibit ResolveWithoutTimestamp, got violated=%s error=%s" % (
                r.violated, (r.error or "")[:200]))
        ctx.extra["deviation_ResolveWithoutTimestamp_exhibited"] = True

    # ---- 2. spec -> code: replay every path, query real rings; record random merges -------------
    emitted = sum(pf[2] for pf in path_files)
    env = {"VERIF_IN": rc.concat(ctx, "c05_paths.ndjson", [pf[0] for pf in path_files]), "VERIF_REPS": 3}
    res = ctx.run_harness("c05", "^TestC05$", env=env, timeout=3000)
    if not res.get("fatal") and int((res.get("extra") or {}).get("paths", 0)) != emitted:
        raise verif.Inconclusive("harness replayed %s of %d paths" % ((res.get("extra") or {}).get("paths"), emitted))
    ctx.absorb(res, "replay")

    # ---- 3. code -> spec (ran beside step 1) ------------------------------------------------------
    ctx.absorb(rec_res, "record")
    ctx.extra["trace_events_validated"] = ntrace
    return "model_checking"
