package c03

// code -> spec, partition ring (the instance-ring recorder is abs.RecordRingMerges): random descriptors
// with 8 partitions / 6 owners, random merge sequences on three replicas (fresh updates, re-delivered and
// relayed changes, full-state pushes, local CAS writes through the descriptor's own mutators), every
// Merge call logged with the receiver before and after, the argument and the returned change.
// PartitionMergeTrace.tla recomputes every call with the specification's Merge.

import (
	"fmt"
	"math/rand"
	"path/filepath"
	"time"

	"verifharness/internal/abs"

	"github.com/grafana/dskit/ring"
)

// ------------------------------------------------------------------------------------------- partition ring

type partEvent struct {
	R      int       `json:"r"`
	Mine   abs.PDesc `json:"mine"`
	Other  abs.PDesc `json:"other"`
	Cas    bool      `json:"cas"`
	Now    int       `json:"now"`
	Result abs.PDesc `json:"result"`
	Nil    bool      `json:"nil"`
	Change abs.PDesc `json:"change"`
}

var pstates = []string{"Pending", "Active", "Inactive", "Deleted", "Active", "Active"}

func recordPart(dr *driver, dir string) {
	np := abs.EnvInt("VERIF_TNP", 8)
	no := abs.EnvInt("VERIF_TNO", 6)
	steps := abs.EnvInt("VERIF_TSTEPS", 400)
	maxNow := abs.EnvInt("VERIF_TMAXNOW", 60)
	const nrep = 3
	rnd := rand.New(rand.NewSource(abs.Seed()*104729 + 13))
	w, err := abs.NewNDJSONWriter(filepath.Join(dir, "part_trace.ndjson"))
	if err != nil {
		dr.res.Fatal = err.Error()
		return
	}
	defer w.Close()
	replicas := make([]*ring.PartitionRingDesc, nrep)
	for i := range replicas {
		replicas[i] = ring.NewPartitionRingDesc()
	}
	var msgs []*ring.PartitionRingDesc
	now := 1
	abs.SleepUntil(now)
	recentTs := func() int {
		ts := now
		if rnd.Intn(3) == 0 {
			ts = now - 1 - rnd.Intn(2)
		}
		if ts < 0 || rnd.Intn(50) == 0 {
			ts = 0
		}
		return ts
	}
	empty := func() abs.PDesc {
		d := abs.PDesc{Parts: make([]abs.PEntry, np), Owners: make([]abs.OEntry, no)}
		for k := range d.Parts {
			d.Parts[k].State = "ABSENT"
		}
		for k := range d.Owners {
			d.Owners[k].State = "ABSENT"
		}
		return d
	}
	deliver := func(r int, other *ring.PartitionRingDesc, cas bool) {
		ev := partEvent{R: r + 1, Cas: cas, Now: abs.UnixToTs(time.Now().Unix())}
		var p1, p2, p3, p4 []string
		ev.Mine, _, p1 = abs.ProjectPDesc(replicas[r], np, no)
		ev.Other, _, p2 = abs.ProjectPDesc(other, np, no)
		ch, err, pan := safeMerge(replicas[r], other, cas)
		if pan != "" || err != nil {
			dr.res.Mismatch(abs.Mismatch{Sig: "part:trace panic-or-error", Case: ev, Got: fmt.Sprint(pan, err), Want: "no panic, no error"})
			return
		}
		ev.Result, _, p3 = abs.ProjectPDesc(replicas[r], np, no)
		ev.Nil = abs.IsNilMergeable(ch)
		ev.Change = empty()
		if !ev.Nil {
			chd := ch.(*ring.PartitionRingDesc)
			ev.Change, _, p4 = abs.ProjectPDesc(chd, np, no)
			msgs = append(msgs, pViaCodec(chd))
		}
		if problems := append(append(append(p1, p2...), p3...), p4...); len(problems) > 0 {
			dr.res.Mismatch(abs.Mismatch{Sig: "part:trace malformed descriptor", Case: ev, Got: problems, Want: "well-formed descriptor"})
		}
		if corruptTrace > 0 && w.N+1 == corruptTrace {
			ev.Nil = !ev.Nil
		}
		if err := w.Write(ev); err != nil {
			dr.res.Fatal = err.Error()
		}
	}
	for s := 0; s < steps && dr.res.Fatal == ""; s++ {
		switch c := rnd.Intn(100); {
		case c < 20:
			if now < maxNow {
				now++
				abs.SleepUntil(now)
			}
		case c < 60:
			u := empty()
			for c := 1 + rnd.Intn(3); c > 0; c-- {
				if rnd.Intn(2) == 0 && np > 0 {
					lts := recentTs()
					u.Parts[rnd.Intn(np)] = abs.PEntry{State: pstates[rnd.Intn(len(pstates))], Sts: recentTs(), Locked: rnd.Intn(2) == 0 && lts > 0, Lts: lts}
				} else if no > 0 {
					st := "Active"
					if rnd.Intn(4) == 0 {
						st = "Deleted"
					}
					u.Owners[rnd.Intn(no)] = abs.OEntry{State: st, Ts: recentTs(), Part: 1 + rnd.Intn(np)}
				}
			}
			deliver(rnd.Intn(nrep), abs.BuildPDesc(u, tagMine), false)
		case c < 70:
			if len(msgs) > 0 {
				deliver(rnd.Intn(nrep), pViaCodec(msgs[rnd.Intn(len(msgs))]), false)
			}
		case c < 77:
			a, b := rnd.Intn(nrep), rnd.Intn(nrep)
			if a != b {
				deliver(b, pViaCodec(replicas[a]), false)
			}
		default: // local CAS through the descriptor's own mutators
			r := rnd.Intn(nrep)
			out := pViaCodec(replicas[r])
			out.RemoveTombstones(time.Time{})
			for c := 1 + rnd.Intn(2); c > 0; c-- {
				p := int32(1 + rnd.Intn(np))
				oid := abs.OwnerID(1+rnd.Intn(no), no)
				switch rnd.Intn(6) {
				case 0:
					if !out.HasPartition(p) {
						out.Partitions[p] = ring.PartitionDesc{Id: p, Tokens: abs.PartTokens(int(p), tagMine), State: ring.PartitionPending, StateTimestamp: time.Now().Unix()}
					}
				case 1:
					_, _ = out.UpdatePartitionState(p, abs.PStateOf(pstates[rnd.Intn(3)]), time.Now())
				case 2:
					out.UpdatePartitionStateChangeLock(p, rnd.Intn(2) == 0, time.Now())
				case 3:
					out.RemovePartition(p)
				case 4:
					out.AddOrUpdateOwner(oid, ring.OwnerActive, p, time.Now())
				case 5:
					out.RemoveOwner(oid)
				}
			}
			deliver(r, out, true)
		}
	}
	dr.res.AddExtra("part_trace_events", w.N)
}
