// Package abs holds what every conformance driver shares: the result protocol towards
// bin/check, ndjson I/O, the position->uint32 embeddings of DESIGN.md 1.1 and a cheap way to
// build a real ring.Ring from a descriptor.
package abs

import (
	"bufio"
	"encoding/json"
	"fmt"
	"os"
	"strconv"
	"testing"
)

// Mismatch is one disagreement between the real code and the specification, reproduced on the
// real code. Sig identifies the *class* of failing input (known findings are matched on it).
type Mismatch struct {
	Sig  string `json:"sig"`
	Case any    `json:"case"`
	Got  any    `json:"got"`
	Want any    `json:"want"`
	Note string `json:"note,omitempty"`
}

// Result is what a driver writes to $VERIF_OUT.
type Result struct {
	Cases      int            `json:"cases"`
	Nontrivial int            `json:"nontrivial"`
	Mismatches []Mismatch     `json:"mismatches"`
	Samples    []any          `json:"samples"`
	Extra      map[string]any `json:"extra,omitempty"`
	Fatal      string         `json:"fatal,omitempty"`
	nmis       int
	perSig     map[string]int
}

// At most maxPerSig mismatches are kept per signature and maxSigs signatures per run; the
// total is still counted (Extra["mismatches_total"], Extra["mismatches_by_sig"]).
const (
	maxPerSig = 4
	maxSigs   = 60
)

func (r *Result) Mismatch(m Mismatch) {
	r.nmis++
	if r.perSig == nil {
		r.perSig = map[string]int{}
	}
	n, seen := r.perSig[m.Sig]
	if !seen && len(r.perSig) >= maxSigs {
		m.Sig = "(more signatures)"
		n = r.perSig[m.Sig]
	}
	r.perSig[m.Sig] = n + 1
	if n < maxPerSig {
		r.Mismatches = append(r.Mismatches, m)
	}
}

func (r *Result) NumMismatches() int { return r.nmis }

func (r *Result) Sample(s any) {
	if len(r.Samples) < 3 {
		r.Samples = append(r.Samples, s)
	}
}

func (r *Result) AddExtra(k string, v any) {
	if r.Extra == nil {
		r.Extra = map[string]any{}
	}
	r.Extra[k] = v
}

func (r *Result) Write(t testing.TB) {
	p := os.Getenv("VERIF_OUT")
	if p == "" {
		b, _ := json.MarshalIndent(r, "", " ")
		t.Logf("VERIF_OUT not set; result:\n%s", b)
		if r.nmis > 0 {
			t.Fatalf("%d mismatches", r.nmis)
		}
		return
	}
	if r.Extra == nil {
		r.Extra = map[string]any{}
	}
	r.Extra["mismatches_total"] = r.nmis
	if len(r.perSig) > 0 {
		r.Extra["mismatches_by_sig"] = r.perSig
	}
	b, err := json.Marshal(r)
	if err != nil {
		t.Fatalf("marshal result: %v", err)
	}
	if err := os.WriteFile(p, b, 0o644); err != nil {
		t.Fatalf("write result: %v", err)
	}
}

// Seed returns $VERIF_SEED (default 1).
func Seed() int64 {
	s, err := strconv.ParseInt(os.Getenv("VERIF_SEED"), 10, 64)
	if err != nil {
		return 1
	}
	return s
}

func Tier() string {
	if os.Getenv("VERIF_TIER") == "thorough" {
		return "thorough"
	}
	return "quick"
}

func EnvInt(name string, def int) int {
	v, err := strconv.Atoi(os.Getenv(name))
	if err != nil {
		return def
	}
	return v
}

// ReadNDJSON calls f for every line of the file named by env (one JSON value per line).
func ReadNDJSON(path string, f func(line []byte) error) error {
	fh, err := os.Open(path)
	if err != nil {
		return err
	}
	defer fh.Close()
	sc := bufio.NewScanner(fh)
	sc.Buffer(make([]byte, 1<<20), 1<<28)
	n := 0
	for sc.Scan() {
		n++
		b := sc.Bytes()
		if len(b) == 0 {
			continue
		}
		if err := f(b); err != nil {
			return fmt.Errorf("line %d: %w", n, err)
		}
	}
	return sc.Err()
}

// NDJSONWriter writes one JSON value per line.
type NDJSONWriter struct {
	f *os.File
	w *bufio.Writer
	N int
}

func NewNDJSONWriter(path string) (*NDJSONWriter, error) {
	f, err := os.Create(path)
	if err != nil {
		return nil, err
	}
	return &NDJSONWriter{f: f, w: bufio.NewWriterSize(f, 1<<20)}, nil
}

func (w *NDJSONWriter) Write(v any) error {
	b, err := json.Marshal(v)
	if err != nil {
		return err
	}
	w.N++
	w.w.Write(b)
	return w.w.WriteByte('\n')
}

func (w *NDJSONWriter) Close() error {
	if err := w.w.Flush(); err != nil {
		return err
	}
	return w.f.Close()
}
