SPECIFICATION Spec
CONSTANTS
  K = 4
  Size <- Len4
  MaxStores = 3
  Direct = FALSE
  Trunc = TRUE
INVARIANTS TypeOK FileNeverCorrupt Emit
PROPERTIES AbortKeepsOld OnlyOldOrNew
CHECK_DEADLOCK FALSE
