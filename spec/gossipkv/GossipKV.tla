------------------------------ MODULE GossipKV ------------------------------
(***************************************************************************)
(* C04 / C06 - the gossiping memberlist KV (kv/memberlist), one key.       *)
(*                                                                         *)
(* Structured like memberlist_client.go: one action per critical section   *)
(* the harness can separate (the harness IS the network):                  *)
(*   Tick                       virtual clock, 1 s                         *)
(*   Cas(n,f)                   KV.CAS -> trySingleCas -> mergeValueForKey *)
(*                              (localCAS) -> notifyWatchers ->            *)
(*                              broadcastNewValue(localBroadcasts)         *)
(*   Gossip(n)                  GetBroadcasts (local queue first)          *)
(*   Deliver(p,n)               NotifyMsg: with the worker gate of n open  *)
(*                              the per-key worker runs to completion      *)
(*                              (processValueUpdate -> mergeValueForKey -> *)
(*                              notify -> re-broadcast of the change       *)
(*                              only); with the gate closed the update is  *)
(*                              taken by the worker / buffered in its      *)
(*                              channel / dropped when the channel is full *)
(*   Work(n)                    the blocked worker takes one step: the     *)
(*                              merge (store write + notification), or the *)
(*                              QueueBroadcast of an earlier merge         *)
(*   GateClose/GateOpen         harness gates inside the codec             *)
(*   DeliverGarbage(p,n,k)      NotifyMsg of a truncated / bit-flipped /   *)
(*                              unknown-codec / empty-key packet           *)
(*   PushPull(a,b,junk)         LocalState both sides, MergeRemoteState    *)
(*                              both sides (junk: an unknown-codec pair is *)
(*                              put in front of each buffer)               *)
(*   DeleteKey(n) / Cleanup(n)  KV.Delete (key-level tombstone: Deleted    *)
(*                              flag + UpdateTime) / cleanupObsoleteEntries*)
(*   WatcherArm/WatcherRelease  a WatchKey callback that blocks / returns  *)
(*   Partition/Heal/Restart     adversary                                  *)
(* `sent` is the set of all packets ever taken out of any node: never      *)
(* shrinking (ConsumeNet = FALSE), so any earlier message can reach any    *)
(* node at any later time, any number of times, in any order.              *)
(*                                                                         *)
(* Value domain: a map id -> (timestamp, state) with a tombstone state,    *)
(* merged entry-wise: newest timestamp wins, the tombstone wins ties, a    *)
(* local CAS turns entries missing from the new value into tombstones      *)
(* stamped `clock`.  The harness instantiates it twice: ring.Desc          *)
(* (instances, LEFT; every instance id has its own tokens, so there are no *)
(* token conflicts) and ring.PartitionRingDesc (partitions and owners,     *)
(* PartitionDeleted / OwnerDeleted), whose Merge functions coincide on     *)
(* this domain.                                                            *)
(***************************************************************************)
EXTENDS Integers, FiniteSets, Sequences, TLC, Json

CONSTANTS
  N,              \* nodes 1..N
  NI,             \* entry ids 1..NI
  MaxClock,       \* clock runs 0..MaxClock
  Retention,      \* LeftIngestersTimeout in seconds; 0 = tombstones are never collected
  T,              \* transmissions per queued broadcast (RetransmitMult * ceil(log10(N+1)))
  MaxCas,         \* bound on CAS calls
  MaxFaults,      \* bound on adversary actions (garbage, junk push/pull, partition, restart, duplicates)
  LiveStates,     \* states a live entry may be set to, e.g. {"ACTIVE","LEAVING"}
  WatchNodes,     \* nodes with a registered WatchKey watcher
  HoldNodes,      \* watchers whose callback may block (subset of WatchNodes)
  AllowRestart, AllowGarbage, AllowPartition, AllowJunkPP,
  GateNodes,      \* nodes whose per-key worker can be gated (Receive and Work become separate steps)
  InboxCap,       \* capacity of the per-key worker channel (ProcessedMessagesQueueSize)
  VersionTest,    \* TRUE: Invalidates compares versions (the code); FALSE: negative control
  MaxDel,         \* bound on KV.Delete calls; 0 = key deletion not exercised
  ObsoleteTimeout,\* ObsoleteEntriesTimeout in seconds
  ConsumeNet,     \* TRUE: a delivered packet leaves the network unless the adversary pays for a duplicate
  Ideal,          \* TRUE: what the property demands (= the code since the fix of finding F7); FALSE: the code before that fix
  Ghost,          \* maintain the ghost variables inval / fwd
  Record,         \* maintain hist (behaviour generation)
  Quiesce,        \* run phase is followed by the deterministic quiescence suffix
  RunDepth,       \* length of the run phase when Quiesce
  QRounds         \* all-pairs push/pull rounds in the suffix

ASSUME HoldNodes \subseteq WatchNodes /\ WatchNodes \subseteq 1..N /\ GateNodes \subseteq 1..N

Node == 1..N
Inst == 1..NI
LEFT == "LEFT"
Absent == [ts |-> -1, st |-> "ABSENT"]
Entry  == [ts : 0..MaxClock, st : LiveStates \cup {LEFT}]
Desc   == [Inst -> Entry \cup {Absent}]
Empty  == TLCEval([i \in Inst |-> Absent])
Ids(d) == {i \in Inst : d[i] # Absent}
Strip(d) == TLCEval([i \in Inst |-> IF d[i].st = LEFT THEN Absent ELSE d[i]])
NoLeft(d) == \A i \in Inst : d[i].st # LEFT

(* a message (KeyValuePair): the change, the key's Deleted flag and UpdateTime (-1 = zero time) *)
Msg(c, d, u) == [chg |-> c, del |-> d, upd |-> u]
Plain(c) == Msg(c, FALSE, -1)

VARIABLES
  clock,
  store,     \* store[n] = [val : Desc (tombstones included), ver, del, upd]; ver = 0 <=> key not in the store
  queueL,    \* queueL[n] : set of [chg, del, upd, ver, left : 1..T]   (localBroadcasts)
  queueG,    \* queueG[n] : same                                        (gossipBroadcasts)
  watch,     \* watch[n] = [called, last, armed, held, pending]   the WatchKey watcher
  pw,        \* pw[n] = [called, last]   an un-gated WatchPrefix watcher
  gate,      \* gate[n] : the worker of n blocks at its next Decode / Encode
  wk,        \* wk[n] = [st : idle | dec | enc, m : message held, ver]   the per-key worker
  inbox,     \* inbox[n] : sequence of messages in the worker channel
  sent,      \* packets (messages) taken out of the nodes by GetBroadcasts
  cut,       \* isolated nodes
  ncas, nfault, ndel,
  phase, qidx,
  inval,     \* ghost: [o, b] pairs - broadcast o was invalidated by b in the last step
  fwd,       \* ghost: [n, chg, local] - changes produced by the merges of the last step
  written,   \* <<i, entry>> ever produced by a CAS
  hist       \* behaviour so far (Record)

nodev == <<store, queueL, queueG, watch, pw>>
wrk   == <<gate, wk, inbox>>
net   == <<sent, cut>>
bud   == <<ncas, nfault, ndel>>
ctl   == <<phase, qidx>>
vars  == <<clock, nodev, wrk, net, bud, ctl, inval, fwd, written, hist>>

(* The exhaustive configurations identify states that differ only in the ghosts inval/fwd and in hist; and, *)
(* when neither worker gates nor key deletion are exercised, in version numbers: a version is then only     *)
(* ever compared by Invalidates(b, o) with b the broadcast being queued, whose version is larger than every *)
(* queued one (VersionCountsChanges), so versions do not influence any other variable.                      *)
NoVer(q) == {[chg |-> b.chg, left |-> b.left] : b \in q}
view == IF GateNodes = {} /\ MaxDel = 0
        THEN <<clock, [n \in Node |-> <<store[n].val, store[n].ver > 0, NoVer(queueL[n]), NoVer(queueG[n])>>],
               watch, pw, sent, cut, bud, ctl, written>>
        ELSE <<clock, nodev, wrk, net, bud, ctl, written>>

-----------------------------------------------------------------------------
(* TLC re-evaluates LET-bound expressions at every use; values that are used more than once are *)
(* therefore bound through a singleton set (evaluated once).                                     *)
Only(S) == CHOOSE x \in S : TRUE

(* Desc.mergeWithTime (ring.Desc without token conflicts; PartitionRingDesc partitions / owners): *)
(* per entry [r = resulting entry, u = updated]                                                   *)
EntryMerge(me, ot, cas, now) ==
  IF /\ ot # Absent
     /\ \/ me = Absent
        \/ ot.ts > me.ts
        \/ ot.ts = me.ts /\ me.st # LEFT /\ ot.st = LEFT
  THEN [r |-> ot, u |-> TRUE]
  ELSE IF cas /\ ot = Absent /\ me # Absent /\ me.st # LEFT
       THEN [r |-> [ts |-> now, st |-> LEFT], u |-> TRUE]      \* missing from a local CAS result: tombstone stamped now
       ELSE [r |-> me, u |-> FALSE]
Merge(mine, other, cas, now) ==
  Only({ [result |-> TLCEval([i \in Inst |-> pe[i].r]),
          change |-> TLCEval([i \in Inst |-> IF pe[i].u THEN pe[i].r ELSE Absent])]
         : pe \in {TLCEval([i \in Inst |-> EntryMerge(mine[i], other[i], cas, now)])} })

(* RemoveTombstones(now - Retention): strictly older than the limit *)
Expired(e, now) == Retention > 0 /\ e.st = LEFT /\ e.ts < now - Retention
GCd(d, now) == TLCEval([i \in Inst |-> IF Expired(d[i], now) THEN Absent ELSE d[i]])

C0 == [val |-> Empty, ver |-> 0, del |-> FALSE, upd |-> -1]

(* KV.mergeValueForKey.  s: store cell, inc: incoming message, m: Merge outcome, r/c: result/change after *)
(* tombstone collection.  Returns the new cell, the change to broadcast (bc: whether there is one), whether  *)
(* watchers are notified, and a tag for the paths on which everything that came in was an expired tombstone. *)
MVBody(s, inc, m, r, c) ==
  LET no   == [st |-> s, chg |-> Empty, bc |-> FALSE, changed |-> FALSE, silent |-> "-"]
      flip == inc.del /\ inc.upd # -1 /\ inc.upd > s.upd      \* an incoming Deleted flag newer than ours
      nd   == s.del \/ flip
      nu   == IF flip THEN inc.upd ELSE s.upd
      cell(v) == [val |-> v, ver |-> s.ver + 1, del |-> nd, upd |-> nu]
      tag  == IF Strip(r) # Strip(s.val) THEN "silentgc" ELSE "quietgc"
  IN IF s.ver = 0 /\ inc.del THEN no                          \* a deleted key we do not have is not revived
     ELSE IF Ids(m.change) = {} /\ nd = s.del THEN no
     ELSE IF Ids(m.change) = {} \/ (Ids(c) = {} /\ nd # s.del)
          THEN \* only the Deleted flag changes (or what came with it was collected): the whole value is the change
               [st |-> cell(r), chg |-> r, bc |-> TRUE, changed |-> TRUE, silent |-> "-"]
     ELSE IF Ids(c) # {}
          THEN [st |-> cell(r), chg |-> c, bc |-> TRUE, changed |-> TRUE, silent |-> "-"]
     ELSE \* everything that came in was an expired tombstone: Merge has already applied it to the stored value in
          \* place and RemoveTombstones has collected it again (together with every other expired tombstone)
          IF Ideal
          THEN \* new version, watchers notified, nothing to gossip
               [st |-> cell(r), chg |-> Empty, bc |-> FALSE, changed |-> TRUE, silent |-> tag]
          ELSE \* finding F7, the code before its fix: "no change" is returned although the stored value was edited in
               \* place - a live entry can vanish from readers without version bump or notification
               IF s.ver = 0 THEN no
               ELSE [st |-> [s EXCEPT !.val = r], chg |-> Empty, bc |-> FALSE, changed |-> FALSE, silent |-> tag]
MV(s, inc, cas, now) ==
  Only({ Only({ MVBody(s, inc, m, rc[1], rc[2]) : rc \in {<<GCd(m.result, now), GCd(m.change, now)>>} })
         : m \in {IF s.ver = 0 THEN [result |-> inc.chg, change |-> inc.chg] ELSE Merge(s.val, inc.chg, cas, now)} })

ReadOf(s) == Strip(s.val)          \* KV.get: clone + RemoveTombstones(zero time); nil and empty coincide;
Read(n)   == ReadOf(store[n])      \* the Deleted flag does NOT hide the value (observation O2)

(* ringBroadcast.Invalidates / TransmitLimitedQueue.QueueBroadcast *)
Invalidates(b, o) == Ids(o.chg) \subseteq Ids(b.chg) /\ (~VersionTest \/ b.ver >= o.ver)
Enq(q, b)    == {o \in q : ~Invalidates(b, o)} \cup {b}
Killed(q, b) == {o \in q : Invalidates(b, o)}
MsgOf(b) == Msg(b.chg, b.del, b.upd)
BC(chg, cell) == [chg |-> chg, del |-> cell.del, upd |-> cell.upd, ver |-> cell.ver, left |-> T]

(* notifyWatchersSync + the WatchKey loop with its capacity-1 channel *)
Notify(w, rd) == IF w.held THEN [w EXCEPT !.pending = TRUE]
                 ELSE IF w.armed THEN [w EXCEPT !.called = TRUE, !.last = rd, !.armed = FALSE, !.held = TRUE]
                 ELSE [w EXCEPT !.called = TRUE, !.last = rd]
W0  == [called |-> FALSE, last |-> Empty, armed |-> FALSE, held |-> FALSE, pending |-> FALSE]
PW0 == [called |-> FALSE, last |-> Empty]
WK0 == [st |-> "idle", m |-> Plain(Empty), ver |-> 0]

(* the functions handed to CAS *)
Fn == [op : {"hb", "rm"}, i : Inst, s : {"-"}] \cup [op : {"set"}, i : Inst, s : LiveStates]
Apply(f, in, now) ==
  CASE f.op = "hb"  -> [ok |-> TRUE, d |-> [in EXCEPT ![f.i] = IF in[f.i] = Absent THEN [ts |-> now, st |-> "ACTIVE"]
                                                                 ELSE [ts |-> now, st |-> in[f.i].st]]]
    [] f.op = "set" -> IF in[f.i] = Absent THEN [ok |-> FALSE, d |-> in]
                       ELSE [ok |-> TRUE, d |-> [in EXCEPT ![f.i] = [ts |-> now, st |-> f.s]]]
    [] f.op = "rm"  -> [ok |-> TRUE, d |-> [in EXCEPT ![f.i] = Absent]]

-----------------------------------------------------------------------------
(* effect of one merge result r on node n when merge, notification and QueueBroadcast happen in one step *)
After(n, r, local) ==
  LET b == BC(r.chg, r.st)
      q == r.bc
  IN TLCEval([st |-> r.st,
      w  |-> IF r.changed /\ n \in WatchNodes THEN Notify(watch[n], ReadOf(r.st)) ELSE watch[n],
      pw |-> IF r.changed THEN [called |-> TRUE, last |-> ReadOf(r.st)] ELSE pw[n],
      ql |-> IF q /\ local THEN Enq(queueL[n], b) ELSE queueL[n],
      qg |-> IF q /\ ~local THEN Enq(queueG[n], b) ELSE queueG[n],
      kill |-> IF ~q THEN {} ELSE {[o |-> o.chg, od |-> o.del, ou |-> o.upd, b |-> r.chg] : o \in Killed(IF local THEN queueL[n] ELSE queueG[n], b)},
      fwd  |-> IF q THEN {[n |-> n, chg |-> r.chg, local |-> local]} ELSE {}])

Proj(st, ql, qg, w, p, g, k, ib, clk) ==
  [clock |-> clk,
   nodes |-> [n \in Node |-> [val |-> st[n].val, ver |-> st[n].ver, del |-> st[n].del, upd |-> st[n].upd,
                               read |-> ReadOf(st[n]),
                               ql |-> Cardinality(ql[n]), qg |-> Cardinality(qg[n]),
                               called |-> w[n].called, last |-> w[n].last, held |-> w[n].held, pending |-> w[n].pending,
                               pcalled |-> p[n].called, plast |-> p[n].last,
                               gate |-> g[n], wk |-> k[n].st, ib |-> Len(ib[n])]]]

R0 == [a |-> "", n |-> 0, m |-> 0, f |-> [op |-> "-", i |-> 0, s |-> "-"], p |-> Empty, pd |-> FALSE, pu |-> -1, k |-> "-",
       out |-> {}, res |-> "-", note |-> "-"]
WithMsg(rec, msg) == [rec EXCEPT !.p = msg.chg, !.pd = msg.del, !.pu = msg.upd]

Log(rec) == hist' = IF Record
                    THEN Append(hist, rec @@ [post |-> Proj(store', queueL', queueG', watch', pw', gate', wk', inbox', clock')])
                    ELSE hist
GhostStep(k, fw) == /\ inval' = IF Ghost THEN k ELSE {}
                    /\ fwd'   = IF Ghost THEN fw ELSE {}
NoGhost == GhostStep({}, {})

-----------------------------------------------------------------------------
Init ==
  /\ clock = 0
  /\ store  = [n \in Node |-> C0]
  /\ queueL = [n \in Node |-> {}]
  /\ queueG = [n \in Node |-> {}]
  /\ watch  = [n \in Node |-> W0]
  /\ pw     = [n \in Node |-> PW0]
  /\ gate   = [n \in Node |-> FALSE]
  /\ wk     = [n \in Node |-> WK0]
  /\ inbox  = [n \in Node |-> <<>>]
  /\ sent = {}
  /\ cut = {}
  /\ ncas = 0 /\ nfault = 0 /\ ndel = 0
  /\ phase = "run" /\ qidx = 1
  /\ inval = {} /\ fwd = {} /\ written = {}
  /\ hist = <<>>

Tick ==
  /\ clock < MaxClock
  /\ clock' = clock + 1
  /\ UNCHANGED <<nodev, wrk, net, bud, ctl, written>>
  /\ NoGhost
  /\ Log([R0 EXCEPT !.a = "Tick"])

(* Workload proviso (the one of C03): an entry never gets two different live contents with the same  *)
(* timestamp - in dskit an entry is written by its own lifecycler only, and a second write within the *)
(* same second is "no change".  Removals are exempt (the tombstone wins ties).                        *)
OneContentPerSecond(chg) ==
  \A i \in Ids(chg) : \A w \in written :
     (w[1] = i /\ w[2].ts = chg[i].ts /\ w[2].st # LEFT /\ chg[i].st # LEFT) => w[2] = chg[i]

CasN(n, f, note) ==
  /\ ncas < MaxCas
  /\ ncas' = ncas + 1
  /\ UNCHANGED <<nfault, ndel>>
  /\ \E ap \in {Apply(f, Read(n), clock)} :
     \E r \in {MV(store[n], Plain(ap.d), store[n].ver > 0, clock)} :
     \E x \in {After(n, r, TRUE)} :
     LET res == IF ~ap.ok THEN "nil" ELSE IF r.changed THEN "ok" ELSE "nochange"
     IN /\ OneContentPerSecond(r.chg)
        /\ IF ap.ok /\ r.changed
           THEN /\ store'  = [store  EXCEPT ![n] = x.st]
                /\ watch'  = [watch  EXCEPT ![n] = x.w]
                /\ pw'     = [pw     EXCEPT ![n] = x.pw]
                /\ queueL' = [queueL EXCEPT ![n] = x.ql]
                /\ UNCHANGED queueG
                /\ GhostStep(x.kill, x.fwd)
                /\ written' = written \cup {<<i, r.chg[i]>> : i \in Ids(r.chg)}
                /\ UNCHANGED <<clock, wrk, net, ctl>>
                /\ Log(WithMsg([R0 EXCEPT !.a = "Cas", !.n = n, !.f = f, !.res = res, !.note = note], MsgOf(BC(r.chg, r.st))))
           ELSE \* f returned nil, or Merge saw no change: CAS sleeps 1 s and retries; the caller gives up
                /\ UNCHANGED <<clock, nodev, wrk, net, ctl, written>>
                /\ NoGhost
                /\ Log([R0 EXCEPT !.a = "Cas", !.n = n, !.f = f, !.res = res, !.note = note])
Cas(n, f) == CasN(n, f, "-")

Dec(q) == {[b EXCEPT !.left = b.left - 1] : b \in {x \in q : x.left > 1}}

Gossip(n) ==
  /\ queueL[n] \cup queueG[n] # {}
  /\ LET out == {MsgOf(b) : b \in queueL[n] \cup queueG[n]} IN
       /\ sent' = IF n \in cut THEN sent ELSE sent \cup out      \* an isolated node's packets are lost
       /\ queueL' = [queueL EXCEPT ![n] = Dec(queueL[n])]
       /\ queueG' = [queueG EXCEPT ![n] = Dec(queueG[n])]
       /\ UNCHANGED <<clock, store, watch, pw, wrk, cut, bud, ctl, written>>
       /\ NoGhost
       /\ Log([R0 EXCEPT !.a = "Gossip", !.n = n, !.out = out, !.res = IF n \in cut THEN "lost" ELSE "kept"])

(* what the worker of n does after finishing an update: the gate is closed whenever a worker was held *)
NextItem(n) == IF inbox[n] = <<>> THEN [wk |-> WK0, ib |-> <<>>]
               ELSE [wk |-> [st |-> "dec", m |-> Head(inbox[n]), ver |-> 0], ib |-> Tail(inbox[n])]

Deliver(p, n, keep) ==
  /\ p \in sent
  /\ n \notin cut
  /\ IF ConsumeNet
       THEN IF keep THEN nfault < MaxFaults /\ nfault' = nfault + 1 /\ sent' = sent
                    ELSE nfault' = nfault /\ sent' = sent \ {p}
       ELSE ~keep /\ nfault' = nfault /\ sent' = sent
  /\ UNCHANGED <<clock, queueL, cut, ncas, ndel, ctl, written, gate>>
  /\ IF wk[n].st = "idle" /\ ~gate[n]
     THEN \* NotifyMsg and the complete run of the per-key worker
          \E r \in {MV(store[n], p, FALSE, clock)} :
          \E x \in {After(n, r, FALSE)} :
             /\ store'  = [store  EXCEPT ![n] = x.st]
             /\ watch'  = [watch  EXCEPT ![n] = x.w]
             /\ pw'     = [pw     EXCEPT ![n] = x.pw]
             /\ queueG' = [queueG EXCEPT ![n] = x.qg]
             /\ UNCHANGED <<wk, inbox>>
             /\ GhostStep(x.kill, x.fwd)
             /\ Log(WithMsg([R0 EXCEPT !.a = "Deliver", !.n = n, !.res = IF r.changed THEN "ok" ELSE "nochange",
                                       !.note = r.silent], p))
     ELSE /\ UNCHANGED <<store, watch, pw, queueG>>
          /\ NoGhost
          /\ IF wk[n].st = "idle"
             THEN \* the worker takes the update out of its channel and blocks in Decode
                  /\ wk' = [wk EXCEPT ![n] = [st |-> "dec", m |-> p, ver |-> 0]]
                  /\ UNCHANGED inbox
                  /\ Log(WithMsg([R0 EXCEPT !.a = "Deliver", !.n = n, !.res = "taken"], p))
             ELSE IF Len(inbox[n]) < InboxCap
                  THEN /\ inbox' = [inbox EXCEPT ![n] = Append(inbox[n], p)]
                       /\ UNCHANGED wk
                       /\ Log(WithMsg([R0 EXCEPT !.a = "Deliver", !.n = n, !.res = "buffered"], p))
                  ELSE \* "notify queue full, dropping message"
                       /\ UNCHANGED <<wk, inbox>>
                       /\ Log(WithMsg([R0 EXCEPT !.a = "Deliver", !.n = n, !.res = "dropped"], p))

(* one step of a gated worker: processValueUpdate up to its next Decode / Encode *)
WorkBody(n) ==
  /\ wk[n].st # "idle"
  /\ UNCHANGED <<clock, queueL, net, bud, written, gate>>
  /\ IF wk[n].st = "dec"
     THEN \* mergeBytesValueForKey + notifyWatchers; broadcastNewValue then blocks in Encode
          \E r \in {MV(store[n], wk[n].m, FALSE, clock)} :
          \E x \in {After(n, r, FALSE)} :
          \E nx \in {NextItem(n)} :
             /\ store' = [store EXCEPT ![n] = x.st]
             /\ watch' = [watch EXCEPT ![n] = x.w]
             /\ pw'    = [pw    EXCEPT ![n] = x.pw]
             /\ UNCHANGED queueG
             /\ IF r.bc THEN /\ wk' = [wk EXCEPT ![n] = [st |-> "enc", m |-> MsgOf(BC(r.chg, r.st)), ver |-> r.st.ver]]
                             /\ UNCHANGED inbox
                        ELSE /\ wk' = [wk EXCEPT ![n] = nx.wk]
                             /\ inbox' = [inbox EXCEPT ![n] = nx.ib]
             /\ GhostStep({}, x.fwd)
             /\ Log(WithMsg([R0 EXCEPT !.a = "Work", !.n = n, !.res = IF r.changed THEN "merged" ELSE "nochange", !.note = r.silent], wk[n].m))
     ELSE \* QueueBroadcast(gossipBroadcasts) of the change of an earlier merge - possibly after newer ones
          \E b \in {[chg |-> wk[n].m.chg, del |-> wk[n].m.del, upd |-> wk[n].m.upd, ver |-> wk[n].ver, left |-> T]} :
          \E nx \in {NextItem(n)} :
             /\ queueG' = [queueG EXCEPT ![n] = Enq(queueG[n], b)]
             /\ wk' = [wk EXCEPT ![n] = nx.wk]
             /\ inbox' = [inbox EXCEPT ![n] = nx.ib]
             /\ UNCHANGED <<store, watch, pw>>
             /\ GhostStep({[o |-> o.chg, od |-> o.del, ou |-> o.upd, b |-> b.chg] : o \in Killed(queueG[n], b)}, {})
             /\ Log(WithMsg([R0 EXCEPT !.a = "Work", !.n = n, !.res = "queued"], wk[n].m))

Work(n) == WorkBody(n) /\ UNCHANGED ctl

GateClose(n) ==
  /\ n \in GateNodes /\ ~gate[n]
  /\ gate' = [gate EXCEPT ![n] = TRUE]
  /\ UNCHANGED <<clock, nodev, wk, inbox, net, bud, ctl, written>>
  /\ NoGhost
  /\ Log([R0 EXCEPT !.a = "GateClose", !.n = n])

GateOpen(n) ==
  /\ gate[n] /\ wk[n].st = "idle"
  /\ gate' = [gate EXCEPT ![n] = FALSE]
  /\ UNCHANGED <<clock, nodev, wk, inbox, net, bud, ctl, written>>
  /\ NoGhost
  /\ Log([R0 EXCEPT !.a = "GateOpen", !.n = n])

(* Malformed packets.  truncated / badcodec / emptykey are rejected by NotifyMsg itself.  badvalue has an intact *)
(* envelope (key, known codec) around value bytes the codec cannot decode: it travels through the worker channel *)
(* like any update and fails in the worker's Decode - with a closed gate it occupies the worker / a channel slot. *)
GarbageKinds == {"truncated", "badcodec", "emptykey", "badvalue"}
Undecodable == Msg(Empty, FALSE, -2)
DeliverGarbage(p, n, k) ==
  /\ AllowGarbage /\ nfault < MaxFaults
  /\ p \in sent /\ n \notin cut
  /\ nfault' = nfault + 1
  /\ UNCHANGED <<clock, nodev, gate, net, ncas, ndel, ctl, written>>
  /\ NoGhost
  /\ IF k # "badvalue" \/ (wk[n].st = "idle" /\ ~gate[n])
     THEN /\ UNCHANGED <<wk, inbox>>
          /\ Log(WithMsg([R0 EXCEPT !.a = "Garbage", !.n = n, !.k = k], p))
     ELSE IF wk[n].st = "idle"
          THEN /\ wk' = [wk EXCEPT ![n] = [st |-> "dec", m |-> Undecodable, ver |-> 0]]
               /\ UNCHANGED inbox
               /\ Log(WithMsg([R0 EXCEPT !.a = "Garbage", !.n = n, !.k = k, !.res = "taken"], p))
          ELSE IF Len(inbox[n]) < InboxCap
               THEN /\ inbox' = [inbox EXCEPT ![n] = Append(inbox[n], Undecodable)]
                    /\ UNCHANGED wk
                    /\ Log(WithMsg([R0 EXCEPT !.a = "Garbage", !.n = n, !.k = k, !.res = "buffered"], p))
               ELSE /\ UNCHANGED <<wk, inbox>>
                    /\ Log(WithMsg([R0 EXCEPT !.a = "Garbage", !.n = n, !.k = k, !.res = "dropped"], p))

(* memberlist push/pull: both sides take LocalState first, then both merge (MergeRemoteState is synchronous) *)
LocalStateOf(n) == Msg(store[n].val, store[n].del, store[n].upd)
PPStep(a, b, junk, name) ==
  /\ UNCHANGED <<clock, queueL, wrk, net, ncas, ndel, written>>
  /\ \E ra \in {IF store[b].ver = 0 THEN MV(store[a], Plain(Empty), FALSE, clock) ELSE MV(store[a], LocalStateOf(b), FALSE, clock)} :
     \E rb \in {IF store[a].ver = 0 THEN MV(store[b], Plain(Empty), FALSE, clock) ELSE MV(store[b], LocalStateOf(a), FALSE, clock)} :
     \E xa \in {After(a, ra, FALSE)} :
     \E xb \in {After(b, rb, FALSE)} :
        /\ store'  = [store  EXCEPT ![a] = xa.st, ![b] = xb.st]
        /\ watch'  = [watch  EXCEPT ![a] = xa.w,  ![b] = xb.w]
        /\ pw'     = [pw     EXCEPT ![a] = xa.pw, ![b] = xb.pw]
        /\ queueG' = [queueG EXCEPT ![a] = xa.qg, ![b] = xb.qg]
        /\ GhostStep(xa.kill \cup xb.kill, xa.fwd \cup xb.fwd)
        /\ Log([R0 EXCEPT !.a = name, !.n = a, !.m = b, !.k = IF junk THEN "junk" ELSE "-",
                          !.note = IF "silentgc" \in {ra.silent, rb.silent} THEN "silentgc" ELSE IF "quietgc" \in {ra.silent, rb.silent} THEN "quietgc" ELSE "-"])

PushPull(a, b, junk) ==
  /\ a < b /\ a \notin cut /\ b \notin cut
  /\ IF junk THEN AllowJunkPP /\ nfault < MaxFaults /\ nfault' = nfault + 1 ELSE nfault' = nfault
  /\ PPStep(a, b, junk, "PushPull")
  /\ UNCHANGED ctl

(* KV.Delete: marks the key deleted (key-level tombstone stamped now), notifies, gossips the whole value *)
DeleteKey(n) ==
  /\ ndel < MaxDel
  /\ ndel' = ndel + 1
  /\ UNCHANGED <<clock, queueL, wrk, net, ncas, nfault, ctl, written>>
  /\ IF store[n].ver = 0 \/ store[n].del
     THEN /\ UNCHANGED <<store, watch, pw, queueG>>
          /\ NoGhost
          /\ Log([R0 EXCEPT !.a = "Delete", !.n = n, !.res = "noop"])
     ELSE \E r \in {MV(store[n], Msg(store[n].val, TRUE, clock), FALSE, clock)} :
          \E x \in {After(n, r, FALSE)} :
             /\ store'  = [store  EXCEPT ![n] = x.st]
             /\ watch'  = [watch  EXCEPT ![n] = x.w]
             /\ pw'     = [pw     EXCEPT ![n] = x.pw]
             /\ queueG' = [queueG EXCEPT ![n] = x.qg]
             /\ GhostStep(x.kill, {})
             /\ Log([R0 EXCEPT !.a = "Delete", !.n = n, !.res = "ok"])

(* cleanupObsoleteEntries: the key leaves the store once its deletion is older than the timeout; watchers *)
(* are not told (observation O3).  Only modelled while the worker of n is idle.                           *)
Obsolete(s, now) == s.ver # 0 /\ s.del /\ now - s.upd > ObsoleteTimeout
Cleanup(n) ==
  /\ MaxDel > 0
  /\ wk[n].st = "idle"
  /\ store' = [store EXCEPT ![n] = IF Obsolete(store[n], clock) THEN C0 ELSE store[n]]
  /\ UNCHANGED <<clock, queueL, queueG, watch, pw, wrk, net, bud, ctl, written>>
  /\ NoGhost
  /\ Log([R0 EXCEPT !.a = "Cleanup", !.n = n, !.res = IF Obsolete(store[n], clock) THEN "removed" ELSE "kept"])

WatcherArm(n) ==
  /\ n \in HoldNodes /\ ~watch[n].held /\ ~watch[n].armed
  /\ watch' = [watch EXCEPT ![n].armed = TRUE]
  /\ UNCHANGED <<clock, store, queueL, queueG, pw, wrk, net, bud, ctl, written>>
  /\ NoGhost
  /\ Log([R0 EXCEPT !.a = "Arm", !.n = n])

Released(n) == IF watch[n].pending
               THEN [watch[n] EXCEPT !.held = FALSE, !.pending = FALSE, !.last = Read(n)]
               ELSE [watch[n] EXCEPT !.held = FALSE]
WatcherRelease(n) ==
  /\ watch[n].held
  /\ watch' = [watch EXCEPT ![n] = Released(n)]
  /\ UNCHANGED <<clock, store, queueL, queueG, pw, wrk, net, bud, ctl, written>>
  /\ NoGhost
  /\ Log([R0 EXCEPT !.a = "Release", !.n = n])

Partition(S) ==
  /\ AllowPartition /\ nfault < MaxFaults /\ cut = {} /\ S # {} /\ S # Node
  /\ cut' = S /\ nfault' = nfault + 1
  /\ UNCHANGED <<clock, nodev, wrk, sent, ncas, ndel, ctl, written>>
  /\ NoGhost
  /\ Log([R0 EXCEPT !.a = "Partition", !.out = S])

Heal ==
  /\ cut # {}
  /\ cut' = {}
  /\ UNCHANGED <<clock, nodev, wrk, sent, bud, ctl, written>>
  /\ NoGhost
  /\ Log([R0 EXCEPT !.a = "Heal"])

Restart(n) ==
  /\ AllowRestart /\ nfault < MaxFaults
  /\ nfault' = nfault + 1
  /\ store'  = [store  EXCEPT ![n] = C0]
  /\ queueL' = [queueL EXCEPT ![n] = {}]
  /\ queueG' = [queueG EXCEPT ![n] = {}]
  /\ watch'  = [watch  EXCEPT ![n] = W0]
  /\ pw'     = [pw     EXCEPT ![n] = PW0]
  /\ gate'   = [gate   EXCEPT ![n] = FALSE]
  /\ wk'     = [wk     EXCEPT ![n] = WK0]
  /\ inbox'  = [inbox  EXCEPT ![n] = <<>>]
  /\ UNCHANGED <<clock, net, ncas, ndel, ctl, written>>
  /\ NoGhost
  /\ Log([R0 EXCEPT !.a = "Restart", !.n = n])

-----------------------------------------------------------------------------
(* Quiescence suffix: every gated worker is stepped until idle and its gate opened, heal, QRounds rounds of *)
(* all-pairs push/pull, release of every watcher.                                                          *)
AllPairs == [k \in 1..(N * N) |-> <<((k - 1) \div N) + 1, ((k - 1) % N) + 1>>]
PairSeq  == SelectSeq(AllPairs, LAMBDA pr : pr[1] < pr[2])
RECURSIVE Rep(_, _)
Rep(s, k) == IF k = 0 THEN <<>> ELSE s \o Rep(s, k - 1)
GateSeq  == SelectSeq([n \in 1..N |-> n], LAMBDA n : n \in GateNodes)
DrainOne(n) == Rep(<<<<"work", n, 0>>>>, 2 * (InboxCap + 1)) \o <<<<"open", n, 0>>>>
RECURSIVE DrainAll(_)
DrainAll(s) == IF s = <<>> THEN <<>> ELSE DrainOne(Head(s)) \o DrainAll(Tail(s))
QPlan == DrainAll(GateSeq) \o <<<<"heal", 0, 0>>>>
         \o Rep([k \in 1..Len(PairSeq) |-> <<"pp", PairSeq[k][1], PairSeq[k][2]>>], QRounds)
         \o [n \in 1..N |-> <<"rel", n, 0>>]

StartQuiesce ==
  /\ Quiesce /\ phase = "run" /\ Len(hist) >= RunDepth
  /\ phase' = "quiesce"
  /\ UNCHANGED <<clock, nodev, wrk, net, bud, qidx, written, hist>>
  /\ NoGhost

QStep ==
  /\ phase = "quiesce"
  /\ IF qidx > Len(QPlan)
       THEN /\ phase' = "done"
            /\ UNCHANGED <<clock, nodev, wrk, net, bud, qidx, written, hist>>
            /\ NoGhost
       ELSE LET s == QPlan[qidx] IN
            /\ qidx' = qidx + 1
            /\ phase' = phase
            /\ CASE s[1] = "work" /\ wk[s[2]].st # "idle" -> WorkBody(s[2])
                 [] s[1] = "open" /\ gate[s[2]] /\ wk[s[2]].st = "idle" ->
                      /\ gate' = [gate EXCEPT ![s[2]] = FALSE]
                      /\ UNCHANGED <<clock, nodev, wk, inbox, net, bud, written>>
                      /\ NoGhost
                      /\ Log([R0 EXCEPT !.a = "GateOpen", !.n = s[2]])
                 [] s[1] = "heal" /\ cut # {} ->
                      /\ cut' = {}
                      /\ UNCHANGED <<clock, nodev, wrk, sent, bud, written>>
                      /\ NoGhost
                      /\ Log([R0 EXCEPT !.a = "Heal"])
                 [] s[1] = "pp" /\ cut = {} ->
                      /\ PPStep(s[2], s[3], FALSE, "PushPull")
                      /\ UNCHANGED nfault
                 [] s[1] = "rel" /\ watch[s[2]].held ->
                      /\ watch' = [watch EXCEPT ![s[2]] = Released(s[2])]
                      /\ UNCHANGED <<clock, store, queueL, queueG, pw, wrk, net, bud, written>>
                      /\ NoGhost
                      /\ Log([R0 EXCEPT !.a = "Release", !.n = s[2]])
                 [] OTHER ->
                      /\ UNCHANGED <<clock, nodev, wrk, net, bud, written, hist>>
                      /\ NoGhost

RunG == phase = "run" /\ (~Quiesce \/ Len(hist) < RunDepth)
(* one named disjunct per action so that TLC's coverage report lists every action separately *)
ATick      == RunG /\ Tick
ACas       == RunG /\ \E n \in Node, f \in Fn : Cas(n, f)
AGossip    == RunG /\ \E n \in Node : Gossip(n)
ADeliver   == RunG /\ \E p \in sent, n \in Node, keep \in BOOLEAN : Deliver(p, n, keep)
AWork      == RunG /\ \E n \in Node : Work(n)
AGateClose == RunG /\ \E n \in Node : GateClose(n)
AGateOpen  == RunG /\ \E n \in Node : GateOpen(n)
AGarbage   == RunG /\ \E p \in sent, n \in Node, k \in GarbageKinds : DeliverGarbage(p, n, k)
APushPull  == RunG /\ \E a, b \in Node, junk \in BOOLEAN : PushPull(a, b, junk)
ADelete    == RunG /\ \E n \in Node : DeleteKey(n)
ACleanup   == RunG /\ \E n \in Node : Cleanup(n)
AArm       == RunG /\ \E n \in Node : WatcherArm(n)
ARelease   == RunG /\ \E n \in Node : WatcherRelease(n)
ARestart   == RunG /\ \E n \in Node : Restart(n)
APartition == RunG /\ \E S \in SUBSET Node : Partition(S)
AHeal      == RunG /\ Heal
Next == \/ ATick \/ ACas \/ AGossip \/ ADeliver \/ AWork \/ AGateClose \/ AGateOpen \/ AGarbage \/ APushPull
        \/ ADelete \/ ACleanup \/ AArm \/ ARelease \/ ARestart \/ APartition \/ AHeal
        \/ StartQuiesce
        \/ QStep

Spec == Init /\ [][Next]_vars

-----------------------------------------------------------------------------
(* Behaviour generation (-simulate): the parameters of every action are drawn with RandomElement, *)
(* so that one step costs one successor instead of the whole fan-out.                             *)
RE(S) == RandomElement(S)
RunOK == phase = "run" /\ Len(hist) < RunDepth
OpMix == <<"hb", "hb", "rm", "rm", "set">>
MkFn(k, i, st) == IF OpMix[k] = "set" THEN [op |-> "set", i |-> i, s |-> st] ELSE [op |-> OpMix[k], i |-> i, s |-> "-"]
(* The relay script (needs N >= 3, NI >= 2): eight forced steps after which node b, which already knows entry *)
(* i, is handed a relayed packet that carries i AND j; b may forward only what changed (j), and the next    *)
(* Gossip(b) shows it.  A behaviour that starts with the marked CAS follows the script, then continues       *)
(* freely.  Without it a multi-entry relayed packet meeting a partially informed node is rare in a walk.     *)
Hb(i) == [op |-> "hb", i |-> i, s |-> "-"]
InRelay == Len(hist) >= 1 /\ Len(hist) < 8 /\ hist[1].note = "relay"
RelayStart == N >= 3 /\ NI >= 2 /\ phase = "run" /\ Len(hist) = 0
              /\ \E a \in {RE(Node)}, i \in {RE(Inst)} : CasN(a, Hb(i), "relay")
RelayStep ==
  /\ phase = "run" /\ InRelay
  /\ LET k == Len(hist)
         a == hist[1].n
         i == hist[1].f.i
     IN CASE k = 1 -> Gossip(a)
          [] k = 2 -> \E b \in {RE(Node \ {a})} : Deliver(Plain(hist[1].p), b, FALSE)
          [] k = 3 -> \E j \in {RE(Inst \ {i})} : Cas(a, Hb(j))
          [] k = 4 -> \E c \in Node \ {a, hist[3].n} : PushPull(IF a < c THEN a ELSE c, IF a < c THEN c ELSE a, FALSE)
          [] k = 5 -> \E c \in Node \ {a, hist[3].n} : Gossip(c)
          [] k = 6 -> \E p \in {x \in sent : Cardinality(Ids(x.chg)) = 2} : Deliver(p, hist[3].n, FALSE)
          [] k = 7 -> Gossip(hist[3].n)
(* The reorder script (needs a gated node g and another node a): g's worker merges {i@0} and is held before its *)
(* QueueBroadcast; a push/pull then brings {i@1}, which is merged and queued at once with a higher version; only *)
(* then the worker queues its older change.  It must not supersede the newer one: this is where the version test  *)
(* of Invalidates is observable.                                                                                  *)
InReorder == Len(hist) >= 1 /\ Len(hist) < 9 /\ hist[1].note = "reorder"
ReorderStart == GateNodes # {} /\ N >= 2 /\ MaxClock >= 1 /\ phase = "run" /\ Len(hist) = 0
                /\ \E a \in {RE({x \in Node : GateNodes \ {x} # {}})}, i \in {RE(Inst)} : CasN(a, Hb(i), "reorder")
ReorderStep ==
  /\ phase = "run" /\ InReorder
  /\ LET k == Len(hist)
         a == hist[1].n
         i == hist[1].f.i
     IN CASE k = 1 -> Gossip(a)
          [] k = 2 -> \E g \in {RE(GateNodes \ {a})} : GateClose(g)
          [] k = 3 -> Deliver(Plain(hist[1].p), hist[3].n, FALSE)
          [] k = 4 -> Work(hist[3].n)
          [] k = 5 -> Tick
          [] k = 6 -> Cas(a, Hb(i))
          [] k = 7 -> LET g == hist[3].n IN PushPull(IF a < g THEN a ELSE g, IF a < g THEN g ELSE a, FALSE)
          [] k = 8 -> Work(hist[3].n)
Free == RunOK /\ ~InRelay /\ ~InReorder
SimNext ==
  \/ RelayStart
  \/ RelayStart
  \/ RelayStart
  \/ RelayStep
  \/ ReorderStart
  \/ ReorderStart
  \/ ReorderStep
  \/ Free /\ Tick
  \/ Free /\ sent # {} /\ \E p \in {RE(sent)}, n \in {RE(Node)} : Deliver(p, n, FALSE)
  \/ Free /\ sent # {} /\ \E p \in {RE(sent)}, n \in {RE(Node)} : Deliver(p, n, FALSE)
  \/ Free /\ sent # {} /\ \E p \in {RE(sent)}, n \in {RE(Node)} : Deliver(p, n, FALSE)
  \/ Free /\ sent # {} /\ \E p \in {RE(sent)}, n \in {RE(Node)} : Deliver(p, n, FALSE)
  \/ Free /\ sent # {} /\ \E p \in {RE(sent)}, n \in {RE(Node)}, k \in {RE(GarbageKinds)} : DeliverGarbage(p, n, k)
  \/ Free /\ \E n \in {RE(Node)} : Gossip(n)
  \/ Free /\ \E n \in {RE(Node)} : Gossip(n)
  \/ Free /\ \E n \in {RE(Node)}, k \in {RE(1..Len(OpMix))}, i \in {RE(Inst)}, st \in {RE(LiveStates)} : Cas(n, MkFn(k, i, st))
  \/ Free /\ \E n \in {RE(Node)}, k \in {RE(1..Len(OpMix))}, i \in {RE(Inst)}, st \in {RE(LiveStates)} : Cas(n, MkFn(k, i, st))
  \/ Free /\ \E pr \in {RE({x \in Node \X Node : x[1] < x[2]})} : PushPull(pr[1], pr[2], FALSE)
  \/ Free /\ \E pr \in {RE({x \in Node \X Node : x[1] < x[2]})} : PushPull(pr[1], pr[2], TRUE)
  \/ Free /\ \E n \in {RE(Node)} : WatcherArm(n) \/ WatcherRelease(n)
  \/ Free /\ \E n \in {RE(Node)} : Restart(n)
  \/ Free /\ \E S \in {RE((SUBSET Node) \ {{}, Node})} : Partition(S)
  \/ Free /\ Heal
  \/ Free /\ GateNodes # {} /\ \E n \in {RE(GateNodes)} : GateClose(n)
  \/ Free /\ GateNodes # {} /\ RE(1..3) = 1 /\ \E n \in {RE(GateNodes)} : GateOpen(n)
  \/ Free /\ GateNodes # {} /\ sent # {} /\ \E p \in {RE(sent)}, n \in {RE(GateNodes)} : gate[n] /\ Deliver(p, n, FALSE)
  \/ Free /\ GateNodes # {} /\ \E n \in {RE(GateNodes)} : Work(n)
  \/ Free /\ GateNodes # {} /\ \E n \in {RE(GateNodes)} : Work(n)
  \/ Free /\ \E n \in {RE(Node)} : DeleteKey(n)
  \/ Free /\ \E n \in {RE(Node)} : store[n].del /\ Cleanup(n)
  \/ Free /\ \E n \in {RE(Node)} : store[n].del /\ Cleanup(n)
  \/ StartQuiesce
  \/ QStep
SimSpec == Init /\ [][SimNext]_vars

-----------------------------------------------------------------------------
(* Invariants and action properties *)
QEntry(b) == /\ b.chg \in Desc /\ b.left \in 1..T /\ b.ver \in Nat /\ b.ver >= 1
             /\ b.del \in BOOLEAN /\ b.upd \in -1..MaxClock
TypeOK ==
  /\ clock \in 0..MaxClock
  /\ \A n \in Node : /\ store[n].val \in Desc /\ store[n].ver \in Nat
                     /\ store[n].del \in BOOLEAN /\ store[n].upd \in -1..MaxClock
                     /\ (store[n].ver = 0) => store[n] = C0
                     /\ (~store[n].del) => store[n].upd = -1
  /\ \A p \in sent : p.chg \in Desc /\ p.del \in BOOLEAN
  /\ \A n \in Node : \A b \in queueL[n] \cup queueG[n] : QEntry(b) /\ (Ids(b.chg) # {} \/ b.del)
  /\ \A n \in Node : /\ wk[n].st \in {"idle", "dec", "enc"}
                     /\ Len(inbox[n]) <= InboxCap
                     /\ (wk[n].st # "idle") => gate[n]            \* a worker is only ever held behind a closed gate
                     /\ (wk[n].st = "idle") => inbox[n] = <<>>   \* and an idle worker has an empty channel
                     /\ gate[n] => n \in GateNodes

Tomb(n, i)  == store[n].val[i].st = LEFT
Alive(n, i) == store[n].val[i] # Absent /\ ~Tomb(n, i)

(* C04 *)
TombstonesInvisible ==
  \A n \in Node : NoLeft(Read(n)) /\ NoLeft(watch[n].last) /\ NoLeft(pw[n].last)

(* Tokens are not state of the specification: a live entry carries its id's own tokens, a tombstone carries *)
(* none; the projection of the harness checks exactly that on the code.                                      *)

TombstonesForwardedStep ==     \* a step that creates or renews a tombstone on n queues a broadcast that carries it
  \A n \in Node, i \in Inst :    \* (a gated worker holds it until its QueueBroadcast step)
     (store'[n].val[i].st = LEFT /\ store'[n].val[i] # store[n].val[i])
       => \/ \E b \in queueL'[n] \cup queueG'[n] : b.chg[i] = store'[n].val[i] /\ b.left = T
          \/ wk'[n].st = "enc" /\ wk'[n].m.chg[i] = store'[n].val[i]
TombstonesForwarded == [][TombstonesForwardedStep]_vars
(* LocalState carries the tombstones: PushPull hands store[n].val (tombstones included) to the peer, and *)
(* the harness reads store[n].val of the real node out of the very bytes LocalState returns.            *)

NoResurrectionStep ==   \* while a tombstone is in the store nothing that is not strictly newer replaces it
  \A n \in Node, i \in Inst :
     (Tomb(n, i) /\ store'[n].ver # 0 /\ store'[n].val[i] # Absent /\ store'[n].val[i].st # LEFT)
        => store'[n].val[i].ts > store[n].val[i].ts
NoResurrection == [][NoResurrectionStep]_vars

GCOnlyExpiredStep ==    \* a tombstone disappears from a running node only by expiry
  \A n \in Node, i \in Inst :
     (Tomb(n, i) /\ store'[n].ver # 0 /\ store'[n].val[i] = Absent) => Expired(store[n].val[i], clock)
GCOnlyExpired == [][GCOnlyExpiredStep]_vars

NoExpiredTombstoneStored ==   \* what a changing merge leaves behind contains no expired tombstone
  [][\A n \in Node : store'[n] # store[n] => \A i \in Inst : ~Expired(store'[n].val[i], clock')]_vars

(* key-level tombstone (KV.Delete) *)
DeletedStaysDeletedStep ==    \* nothing - no older update, no newer one, no CAS - clears the Deleted flag while the key is kept
  \A n \in Node : (store[n].del /\ store'[n].ver # 0) => (store'[n].del /\ store'[n].upd >= store[n].upd)
DeletedStaysDeleted == [][DeletedStaysDeletedStep]_vars
RemovedOnlyWhenObsoleteStep ==   \* a deleted key leaves a running node only after ObsoleteTimeout (checked where nodes do not restart)
  AllowRestart \/ \A n \in Node : (store[n].ver # 0 /\ store'[n].ver = 0) => Obsolete(store[n], clock)
RemovedOnlyWhenObsolete == [][RemovedOnlyWhenObsoleteStep]_vars
DeletedNotRevivedStep ==      \* a node that does not hold the key never creates it from a message that says "deleted"
  \A n \in Node : (store[n].ver = 0 /\ store'[n].ver # 0) => ~store'[n].del
DeletedNotRevived == [][DeletedNotRevivedStep]_vars

(* C06 *)
RR(s, c) == Merge(s, c, FALSE, 0).result
Contains(b, o) == \A s \in Desc : RR(RR(s, o), b) = RR(s, b)
(* a queued update is superseded only by an update that contains it - up to tombstones that are older  *)
(* than the retention, which every receiver would collect on arrival anyway; and up to broadcasts of a *)
(* key deletion that is itself obsolete (after Cleanup a node's versions restart from 1, so such a     *)
(* left-over broadcast can be superseded by an older update: observation O4)                           *)
InvalidationSafe == \A x \in inval : (x.od /\ (clock - x.ou > ObsoleteTimeout)) \/ Contains(x.b, GCd(x.o, clock))

OnlyChangesForwardedStep ==   \* the change a merge hands on is exactly what changed in the store, as it is now in the store
  \A x \in fwd' :
     \/ store'[x.n].del       \* the whole value travels with the Deleted flag
     \/ /\ \A i \in Ids(x.chg) : x.chg[i] = store'[x.n].val[i] /\ x.chg[i] # store[x.n].val[i]
        /\ \A i \in Inst \ Ids(x.chg) : \/ store'[x.n].val[i] = store[x.n].val[i]
                                         \/ store'[x.n].val[i] = Absent   \* collected, or killed by an expired tombstone
OnlyChangesForwarded == [][OnlyChangesForwardedStep]_vars

NoInventedContent ==
  \A n \in Node, i \in Inst : store[n].val[i] # Absent => <<i, store[n].val[i]>> \in written
SentIsWritten ==
  \A p \in sent : \A i \in Ids(p.chg) : <<i, p.chg[i]>> \in written

(* a watcher that is not blocked in its callback has seen the value readers see - except that the removal *)
(* of an obsolete deleted key (Cleanup) is not announced (observation O3)                                  *)
WatcherNeverStale ==
  \A n \in WatchNodes :
     \/ watch[n].held /\ watch[n].pending
     \/ IF store[n].ver = 0 THEN (~watch[n].called \/ MaxDel > 0) ELSE watch[n].called /\ watch[n].last = Read(n)
PrefixWatcherNeverStale ==
  \A n \in Node : IF store[n].ver = 0 THEN (~pw[n].called \/ MaxDel > 0) ELSE pw[n].called /\ pw[n].last = Read(n)

VersionCountsChanges ==     \* (after a Cleanup versions restart from 1 while older broadcasts are still queued)
  MaxDel > 0 \/ \A n \in Node : \A b \in queueL[n] \cup queueG[n] : b.ver <= store[n].ver

(* convergence: what readers see, a deleted key counting as gone *)
Vis(n) == IF store[n].del THEN Empty ELSE Read(n)
Converged == \A a, b \in Node : Vis(a) = Vis(b)
WatchersCaughtUp == \A n \in WatchNodes : ~watch[n].held /\ (store[n].ver # 0 => watch[n].called /\ watch[n].last = Read(n))
WorkersIdle == \A n \in Node : wk[n].st = "idle" /\ ~gate[n]
QuiescentOK == phase = "done" => Converged /\ WatchersCaughtUp /\ WorkersIdle

Healed == cut = {}
Fairness == /\ \A a, b \in Node : WF_vars(PushPull(a, b, FALSE))
            /\ \A n \in Node : WF_vars(WatcherRelease(n))
FairSpec == Spec /\ Fairness
Convergence == (<>[]Healed) => <>[](Converged /\ WatchersCaughtUp)

(* behaviour emission (simulation): one JSON line per finished behaviour *)
EmitDone == phase = "done" => PrintT(ToJson([hist |-> hist, final |-> Vis(1)]))
=============================================================================
