------------------------- MODULE PartitionMergeLaws -------------------------
(***************************************************************************)
(* C03, partition ring - TLC decides the algebraic laws of                 *)
(* PartitionMerge!Merge on an exhaustively enumerated universe (same       *)
(* layout as RingMergeLaws: Init enumerates a, one Next step adds (b, c)). *)
(***************************************************************************)
EXTENDS PartitionMerge, Json

CONSTANTS TsSet,     \* state / owner timestamps
          PStates,   \* live partition states of the universe
          LockTs,    \* lock timestamps (0 = never locked)
          Arity,     \* 2 or 3
          EmitConv

VARIABLES a, b, c, phase
vars == <<a, b, c, phase>>

U    == DescsOf(TsSet, PStates, LockTs, FALSE)
URaw == DescsOf(TsSet, PStates, LockTs, TRUE)

Init == /\ a \in U
        /\ b = Empty /\ c = Empty
        /\ phase = "seed"
Next == /\ phase = "seed"
        /\ phase' = "case"
        /\ a' = a
        /\ b' \in U
        /\ c' \in IF Arity = 3 THEN U ELSE {Empty}
Spec == Init /\ [][Next]_vars

Case == phase = "case"

PairLaws ==   \* (with Arity = 3 each pair occurs once with c = Empty)
    Case /\ c = Empty =>
            /\ Idem(a, b)
            /\ NilIsNoop(a, b)
            /\ NewestWins(a, b)
            /\ RemovalWinsTies(a, b)
            /\ ChangeShape(a, b, FALSE, 0)
            /\ Provisos({a, b}) => /\ CommB(a, b)
                                   /\ NilConverseB(a, b)
                                   /\ DeltaSelfB(a, b)
TripleLaws ==
    Case /\ Arity = 3 /\ Provisos({a, b, c}) =>
            /\ AssocB(a, b, c)
            /\ DeltaOtherB(a, b, c)
            /\ ConvergenceB(a, b, c)
RawLaws ==
    phase = "seed" => \A o \in URaw : /\ Idem(a, o)
                                      /\ RemovalWinsTies(a, o)
                                      /\ ChangeShape(a, o, TRUE, 3)

JDesc(d) == [parts |-> d.parts, owners |-> d.owners]
EmitConvergence ==
    Case /\ EmitConv /\ Arity = 3 /\ Provisos({a, b, c})
         => PrintT(ToJson([kind |-> "pconv", u |-> <<JDesc(a), JDesc(b), JDesc(c)>>,
                           target |-> JDesc(Canon(Target(a, b, c)))]))
=============================================================================
