--------------------------- MODULE RingLookupTrace ---------------------------
(***************************************************************************)
(* C01 / C02, code -> specification: results recorded from the real ring   *)
(* on seeded random larger rings are accepted iff they are the results the *)
(* operators of RingLookup demand.                                         *)
(*                                                                         *)
(* One line of trace.ndjson = one ring: its descriptor with tokens and     *)
(* keys rank-compressed by the harness (tokens are the odd positions of a  *)
(* circle of m positions, a key is the position of the token it equals or  *)
(* the even position between its neighbours), its replication factor and   *)
(* zone-awareness setting, the logged lookups (per key the four            *)
(* operations) and the logged ring-wide replication sets.  Every line is   *)
(* an initial state; its one step checks the line, so TLC workers check    *)
(* lines in parallel.  A logged result that differs from the specification *)
(* is printed as a JSON rejection; bin/check turns every rejection into a  *)
(* disagreement.  All 2 * Len(Trace) states must be reached.               *)
(***************************************************************************)
EXTENDS RingLookup, Json

Trace == ndJsonDeserialize("trace.ndjson")

VARIABLES l, done
vars == <<l, done>>

Range(s) == {s[i] : i \in 1..Len(s)}

DescOf(t) == TLCEval([i \in 1..Len(t.zone) |->
                 [zone |-> t.zone[i], state |-> t.state[i], hb |-> t.hb[i], toks |-> Range(t.toks[i])]])

SameLookup(r, e) == /\ r.ok = e.ok
                    /\ r.err = e.err
                    /\ r.ok => (r.ids = Range(e.ids) /\ r.maxErrors = e.me)

SameSet(r, e) == /\ SameLookup(r, e)
                 /\ r.ok => (r.maxUnavailableZones = e.muz /\ r.za = e.za)

Reject(t, kind, e, r) ==
    PrintT(ToJson([ring |-> t.ring, kind |-> kind, logged |-> e,
                   want |-> [ok |-> r.ok, err |-> r.err, ids |-> r.ids, me |-> r.maxErrors]]))

RejectSet(t, e, r) ==
    PrintT(ToJson([ring |-> t.ring, kind |-> "rset", logged |-> e,
                   want |-> [ok |-> r.ok, err |-> r.err, ids |-> r.ids, me |-> r.maxErrors,
                             muz |-> r.maxUnavailableZones, za |-> r.za]]))

(* The line is accepted iff every logged result equals the specification's *)
(* (the rejection printer is only reached otherwise; it returns TRUE so    *)
(* that all rejections of a run are reported, not only the first).         *)
CheckLine(t) ==
    LET d == DescOf(t)
    IN /\ \A j \in 1..Len(t.look) :
             LET q   == t.look[j]
                 ord == TLCEval(WalkOrder(t.m, d, q.k))
             IN \A x \in 1..Len(q.res) :
                   LET e == q.res[x]
                       r == LookupOn(d, ord, Ops[e.op], t.rf, t.za)
                   IN IF SameLookup(r, e) THEN TRUE
                      ELSE Reject(t, "lookup", [k |-> q.k, key |-> q.key, res |-> e], r)
       /\ \A j \in 1..Len(t.rset) :
             LET e == t.rset[j]
                 r == ReplicationSetFor(d, Ops[e.op], t.rf, t.za)
             IN IF SameSet(r, e) THEN TRUE ELSE RejectSet(t, e, r)

Init == l \in 1..Len(Trace) /\ done = FALSE

Validate == /\ ~done
            /\ done' = CheckLine(Trace[l])    \* evaluated as a value: TRUE once the line has been checked
            /\ UNCHANGED l

Next == Validate
Spec == Init /\ [][Next]_vars
=============================================================================
