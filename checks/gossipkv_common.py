"""Shared driver code of C04 and C06 (family gossipkv): spec/gossipkv/GossipKV.tla + harness/c06.

Two kinds of TLC runs:
  * exhaustive configs MC_*.cfg - the property's clauses (invariants, action properties, the temporal
    property Convergence) are decided on the specification;
  * behaviour generation Sim_*.cfg (-simulate with SimNext, one JSON behaviour per trace, the
    quiescence suffix included) - every behaviour is replayed on real detached memberlist.KV nodes by
    harness/c06 and the projection of every node is compared with the specification after every step.
"""
import os
import re

import verif

FAMILY = "gossipkv"
MODULE = "GossipKV"

ASSUMPTIONS = [
    "TLC; the projection of harness/c06 (LocalState bytes -> per-entry (ts - bubble epoch, state, tokens), Client.Get, WatchKey/WatchPrefix callbacks, queue lengths)",
    "testing/synctest: virtual clock and quiescence detection; a CAS and a push/pull (both merges) are one atomic step of the harness; a NotifyMsg is "
    "atomic with its per-key worker run unless the node's worker gate is closed (then Receive, merge and QueueBroadcast are separate steps)",
    "value domains: ring.Desc without token conflicts (each instance id has its own tokens) and ring.PartitionRingDesc (partitions + owners, no locks); one key",
    "workload proviso of C03: an instance entry never gets two different live contents with the same timestamp (removals exempt)",
]


def cfg_consts(cfg):
    """Read the constants the harness has to agree on out of a .cfg file."""
    s = open(os.path.join(verif.SPEC, FAMILY, cfg)).read()
    out = {}
    for k in ("Retention", "T", "N", "NI", "NK", "MaxClock", "InboxCap", "ObsoleteTimeout"):
        m = re.search(r"^\s*%s\s*=\s*(\d+)" % k, s, re.M)
        out[k] = int(m.group(1))
    return out


def exhaustive(ctx, cfg, what, timeout, workers=None, coverage=False, expect_violation=None):
    if os.environ.get("VERIF_DEV_SKIP_TLC"):
        # development switch for mutation testing on a loaded machine: the exhaustive runs do not depend on
        # the Go code. The run can then only end with a VIOLATION (exit 1) or INCONCLUSIVE (exit 2), never OK.
        if not any("VERIF_DEV_SKIP_TLC" in x for x in ctx.inconclusive):
            ctx.inconclusive_note("VERIF_DEV_SKIP_TLC set: exhaustive TLC runs skipped")
        return None
    r = ctx.tlc(FAMILY, MODULE, cfg=cfg, timeout=timeout, workers=workers, coverage=coverage, deadlock=False)
    if expect_violation:
        # negative control: the configuration models the code's known deviation and must be rejected
        if r.violated != expect_violation:
            raise verif.Inconclusive("%s: expected TLC to report a violation of %s, got %r / %r" % (
                what, expect_violation, r.violated, (r.error or "")[:200]))
        return r
    ctx.require_tlc_ok(r, what)
    if coverage:
        # vacuity guard: remember which named actions (ATick, ACas, ...) were taken at least once
        cov = ctx.extra.setdefault("action_coverage", {})
        for name, n, _cost in re.findall(r"^<(A[A-Z]\w+) line [^>]*>: (\d+):(\d+)", r.log, re.M):
            cov[name] = cov.get(name, 0) + int(_cost)   # generated successors (first number: new distinct states)
    return r


def require_action_coverage(ctx, actions):
    if os.environ.get("VERIF_DEV_SKIP_TLC"):
        return
    cov = ctx.extra.get("action_coverage", {})
    zero = [a for a in actions if cov.get(a, 0) == 0]
    if zero:
        raise verif.Inconclusive("vacuity guard: actions never taken in the exhaustive runs: %s" % ", ".join(zero))


def generate_and_replay(ctx, prop, cfg, num_per_worker, run_depth, workers=4, timeout=600, corrupt_expected=False, domains=("ring",)):
    """-simulate behaviours (deterministic as a set for a given seed: every worker draws its own
    sequence), sorted, replayed on the real code."""
    k = cfg_consts(cfg)
    depth = run_depth + 40
    r = ctx.tlc(FAMILY, MODULE, cfg=cfg, timeout=timeout, workers=workers, simulate="num=%d" % num_per_worker, depth=depth,
                subst={"@@RUN@@": run_depth}, deadlock=False, count=False)
    ctx.require_tlc_ok(r, "behaviour generation " + cfg)
    if r.emitted == 0:
        raise verif.Inconclusive("%s emitted no behaviours" % cfg)
    lines = sorted(set(l for l in open(r.out_path).read().split("\n") if l.strip()))
    srt = r.out_path + ".sorted"
    with open(srt, "w") as f:
        f.write("\n".join(lines) + "\n")
    res = None
    for dom in domains:
        # the same behaviours on every value domain: ring.Desc, and ring.PartitionRingDesc (partitions + owners)
        env = {"VERIF_IN": srt, "VERIF_RETENTION": k["Retention"], "VERIF_T": k["T"], "VERIF_PROP": prop,
               "VERIF_INBOXCAP": k["InboxCap"], "VERIF_OBSOLETE": k["ObsoleteTimeout"], "VERIF_DOMAIN": dom}
        if corrupt_expected or os.environ.get("VERIF_SELFTEST_CORRUPT"):
            # development-time self-test of the binding: the harness falsifies one expected output
            env["VERIF_CORRUPT_EXPECTED"] = "1"
        res = ctx.run_harness("c06", "^TestReplay$", env=env, timeout=timeout)
        if res.get("cases") != len(lines) and not res.get("fatal"):
            raise verif.Inconclusive("%s: harness replayed %s of %d behaviours" % (cfg, res.get("cases"), len(lines)))
        _fold(ctx, res, cfg + "/" + dom)
    return res


def _fold(ctx, res, label):
    acts = (res.get("extra") or {}).pop("actions_replayed", None) or {}
    tot = ctx.extra.setdefault("actions_replayed", {})
    for a, n in acts.items():
        tot[a] = tot.get(a, 0) + n
    ctx.absorb(res, label)


def _record(ctx, tag, ntraces, steps, timeout, domain="ring"):
    k = cfg_consts("GossipKVTrace.cfg")
    tr = ctx.path("trace_%s.ndjson" % tag)
    res = ctx.run_harness("c06", "^TestRecord$", timeout=timeout, env={
        "VERIF_TRACE": tr, "VERIF_NTRACES": ntraces, "VERIF_STEPS": steps, "VERIF_N": k["N"], "VERIF_NI": k["NI"], "VERIF_NK": k["NK"],
        "VERIF_RETENTION": k["Retention"], "VERIF_T": k["T"], "VERIF_MAXCLOCK": k["MaxClock"],
        "VERIF_INBOXCAP": k["InboxCap"], "VERIF_OBSOLETE": k["ObsoleteTimeout"], "VERIF_DOMAIN": domain})
    if res.get("fatal"):
        raise verif.Inconclusive("recording driver: %s" % res["fatal"])
    return tr, res


def _validate(ctx, tr, timeout):
    r = ctx.tlc(FAMILY, "GossipKVTrace", cfg="GossipKVTrace.cfg", extra_files={tr: "trace.ndjson"}, workers=1,
                deadlock=False, timeout=timeout, count=False)
    m = re.search(r'TRACE-REJECTED-AT-LINE", (\d+)', r.log)
    if m:
        return r, int(m.group(1))
    if r.timed_out or r.rc != 0 or r.violated:
        raise verif.Inconclusive("trace validation: TLC rc=%s violated=%s %s" % (r.rc, r.violated, (r.error or "")[:300]))
    return r, None


def record_and_validate(ctx, ntraces, steps, timeout=900, domain="ring"):
    """code -> spec: traces recorded from real nodes under a seeded adversarial scheduler (4 nodes, 3 ids)
    are validated by TLC against GossipKVTrace.tla. A rejected trace is re-recorded once with the same
    seed; only a rejection that repeats is a disagreement of the code with the specification."""
    import json
    tr, res = _record(ctx, "a" + domain, ntraces, steps, timeout, domain)
    for mm in (res.get("mismatches") or []):
        ctx.disagreement(mm, "record")
    r, line = _validate(ctx, tr, timeout)
    nev = int((res.get("extra") or {}).get("trace_events", 0))
    ctx.extra["trace_events_validated"] = ctx.extra.get("trace_events_validated", 0) + (nev if line is None else line - 1)
    if line is None:
        ctx.traces += ntraces
        ctx.evaluations += nev
        return
    tr2, _ = _record(ctx, "b" + domain, ntraces, steps, timeout, domain)
    r2, line2 = _validate(ctx, tr2, timeout)
    if line2 != line:
        raise verif.Inconclusive("trace rejected at line %s but the re-recorded trace at %s: recording is not deterministic" % (line, line2))
    evs = open(tr).read().split("\n")
    ev = json.loads(evs[line - 1])
    start = max(i for i in range(line) if json.loads(evs[i]).get("a") == "Reset")
    prefix = []
    for i in range(start + 1, line):
        e = json.loads(evs[i])
        prefix.append({k: v for k, v in e.items() if k != "post"})
    ctx.disagreement({"sig": "trace:%s" % ev.get("a"), "case": {"line": line, "events_since_reset": prefix[-40:]},
                      "got": ev.get("post"), "want": "an enabled step of GossipKV.tla whose post-state projects to the logged observation"},
                     "GossipKVTrace")
