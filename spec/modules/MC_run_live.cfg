CONSTANTS
  N = 3
  Graphs <- ConnectedShapes
  Faults = {"start"}
  AwaitStoppingInner = TRUE
  LateStart = FALSE
SPECIFICATION LiveSpecAllStarted
INVARIANTS TypeOK StopOrderState FailurePropagates FailureIsReported
PROPERTIES StartAfterDeps StopAfterDependants Termination FailurePropagatesLive
CHECK_DEADLOCK TRUE
