\* C06 thorough (liveness, 2 nodes, 2 faults): weak fairness of push/pull between connected pairs and of watcher callbacks
\* returning; faults bounded (2: partition, restart, duplicate delivery); (<>[]Healed) => <>[](all
\* nodes read the same value and watchers caught up).
CONSTANTS
  N = 2
  NI = 1
  MaxClock = 1
  Retention = 0
  T = 1
  MaxCas = 2
  MaxFaults = 2
  LiveStates = {"ACTIVE"}
  WatchNodes = {1, 2}
  HoldNodes = {1}
  AllowRestart = TRUE
  AllowGarbage = FALSE
  AllowPartition = TRUE
  AllowJunkPP = FALSE
  ConsumeNet = TRUE
  Ideal = TRUE
  Ghost = FALSE
  Record = FALSE
  Quiesce = FALSE
  RunDepth = 0
  QRounds = 2
SPECIFICATION FairSpec
INVARIANTS TypeOK
PROPERTIES Convergence
CHECK_DEADLOCK FALSE
