------------------------------- MODULE QuorumDo -------------------------------
(***************************************************************************)
(* C11, legacy executor: ReplicationSet.Do(ctx, delay, f)                  *)
(* (ring/replication_set.go).  One goroutine per instance; with delay > 0  *)
(* and no zone-awareness the LAST MaxErrors instances wait for the delay   *)
(* timer, a forceStart token (one is sent per tolerated failure) or the    *)
(* end of the context.  The main loop receives results until               *)
(* tracker.succeeded(), returns the error that makes tracker.failed() true *)
(* or ctx.Err() when the context ends.  The single derived context is      *)
(* cancelled when Do returns.  Results are ALL successes received so far,  *)
(* in arrival order (the legacy executor does not filter by zone).         *)
(* The trackers are the ones of QuorumRead.tla without request release     *)
(* (startAllRequests/startMinimumRequests are never called by Do).         *)
(***************************************************************************)
EXTENDS Integers, FiniteSets, Sequences, TLC

CONSTANTS NSet, MaxZ, Modes, Delays

VARIABLES cfg,        \* [n, zone, nz, mode, tol, delay]
          st,         \* "delayed" | "starting" | "running" | "posted" | "recv" | "gone"
          outcome,    \* "none" | "ok" | "err"
          chan,       \* ch: FIFO of instances
          tokens,     \* forceStart tokens available
          clock,      \* bubble clock in half delays since the call started, saturating at 2: every delayed
                      \* goroutine arms its timer when it starts (= when Do is called), so all fire at clock 2
          ctxDone,    \* "live" | "parent" | "returned": the derived context handed to every f
          numSucc, numErr, waiting, failures,
          results,    \* sequence of instances whose result main appended
          mainPc, ret,
          calls, errRecv

vars == <<cfg, st, outcome, chan, tokens, clock, ctxDone, numSucc, numErr, waiting, failures,
          results, mainPc, ret, calls, errRecv>>

Inst     == 1..cfg.n
Zones    == 1..cfg.nz
ZoneMode == cfg.mode = "zone"            \* MaxUnavailableZones > 0
InstOf(z) == {i \in Inst : cfg.zone[i] = z}
Max2(a, b) == IF a > b THEN a ELSE b
SeqRange(s) == {s[a] : a \in 1..Len(s)}

RGS(n, f) == /\ f[1] = 1
             /\ \A i \in 2..n : \E j \in 1..(i-1) : f[i] <= f[j] + 1
ZoneAssigns(n) == {f \in [1..n -> 1..MaxZ] : RGS(n, f)}
NZ(n, f) == Cardinality({f[i] : i \in 1..n})

\* zone mode needs MaxUnavailableZones >= 1; default mode has MaxErrors 0..n
CfgsFor(n, m, f) == {[n |-> n, zone |-> f, nz |-> NZ(n, f), mode |-> m, tol |-> t, delay |-> d] :
                       t \in (IF m = "zone" THEN 1..NZ(n, f) ELSE 0..n), d \in Delays}
ZoneChoices(n, m) == IF m = "zone" THEN ZoneAssigns(n) ELSE {[i \in 1..n |-> 1]}
Cfgs == UNION {UNION {UNION {CfgsFor(n, m, f) : f \in ZoneChoices(n, m)} : m \in Modes} : n \in NSet}

MinSucceeded == cfg.n - cfg.tol
MinZones     == Max2(cfg.nz - cfg.tol, 0)
Succeeded == IF ZoneMode
             THEN Cardinality({z \in Zones : waiting[z] = 0 /\ failures[z] = 0}) >= MinZones
             ELSE numSucc >= MinSucceeded
Failed    == IF ZoneMode
             THEN Cardinality({z \in Zones : failures[z] > 0}) > cfg.tol
             ELSE numErr > cfg.tol

\* i >= len(r.Instances) - r.MaxErrors (0-based) and delay > 0 and not zone-aware
Delayed(c, i) == c.delay /\ c.mode = "default" /\ i > c.n - c.tol
TimerFired == clock = 2

InitCfg(c) ==
  /\ cfg = c
  /\ st = [i \in 1..c.n |-> IF Delayed(c, i) THEN "delayed" ELSE "starting"]
  /\ outcome = [i \in 1..c.n |-> "none"]
  /\ chan = <<>> /\ tokens = 0 /\ clock = 0 /\ ctxDone = "live"
  /\ numSucc = 0 /\ numErr = 0
  /\ waiting  = [z \in 1..c.nz |-> Cardinality({i \in 1..c.n : c.zone[i] = z})]
  /\ failures = [z \in 1..c.nz |-> 0]
  /\ results = <<>>
  /\ mainPc = "loop"
  /\ ret = [kind |-> "none", seq |-> <<>>, cls |-> "-", inst |-> 0]
  /\ calls = [i \in 1..c.n |-> 0]
  /\ errRecv = {}
Init == \E c \in Cfgs : InitCfg(c)

-----------------------------------------------------------------------------
\* goroutine reaches f(ctx, ing)
Begin(i) ==
  /\ st[i] = "starting"
  /\ st' = [st EXCEPT ![i] = "running"]
  /\ calls' = [calls EXCEPT ![i] = @ + 1]
  /\ UNCHANGED <<cfg, outcome, chan, tokens, clock, ctxDone, numSucc, numErr, waiting, failures,
                 results, mainPc, ret, errRecv>>

\* select { <-ctx.Done(): return | <-forceStart | <-after.C }
Wake(i) ==
  /\ st[i] = "delayed"
  /\ \/ /\ ctxDone # "live" /\ st' = [st EXCEPT ![i] = "gone"] /\ UNCHANGED tokens
     \/ /\ tokens > 0 /\ tokens' = tokens - 1 /\ st' = [st EXCEPT ![i] = "starting"]
     \/ /\ TimerFired /\ st' = [st EXCEPT ![i] = "starting"] /\ UNCHANGED tokens
  /\ UNCHANGED <<cfg, outcome, chan, clock, ctxDone, numSucc, numErr, waiting, failures,
                 results, mainPc, ret, calls, errRecv>>

Finish(i, o) ==
  /\ st[i] = "running" /\ o \in {"ok", "err"}
  /\ st' = [st EXCEPT ![i] = "posted"]
  /\ outcome' = [outcome EXCEPT ![i] = o]
  /\ chan' = Append(chan, i)
  /\ UNCHANGED <<cfg, tokens, clock, ctxDone, numSucc, numErr, waiting, failures,
                 results, mainPc, ret, calls, errRecv>>

\* half a delay passes
Advance ==
  /\ cfg.delay /\ clock < 2 /\ \E i \in Inst : st[i] = "delayed"
  /\ clock' = clock + 1
  /\ UNCHANGED <<cfg, st, outcome, chan, tokens, ctxDone, numSucc, numErr, waiting, failures,
                 results, mainPc, ret, calls, errRecv>>

ParentCancel ==
  /\ ctxDone = "live" /\ mainPc = "loop"
  /\ ctxDone' = "parent"
  /\ UNCHANGED <<cfg, st, outcome, chan, tokens, clock, numSucc, numErr, waiting, failures,
                 results, mainPc, ret, calls, errRecv>>

\* deferred cancel()
AtReturn == ctxDone' = IF ctxDone = "live" THEN "returned" ELSE ctxDone

MainRecv ==
  /\ mainPc = "loop" /\ ~Succeeded /\ chan # <<>>
  /\ UNCHANGED <<cfg, outcome, clock, calls>>
  /\ LET i == Head(chan)
         z == cfg.zone[i]
     IN /\ chan' = Tail(chan)
        /\ st' = [st EXCEPT ![i] = "recv"]
        /\ IF outcome[i] = "ok"
           THEN /\ IF ZoneMode THEN /\ waiting' = [waiting EXCEPT ![z] = @ - 1]
                                    /\ UNCHANGED numSucc
                               ELSE /\ numSucc' = numSucc + 1
                                    /\ UNCHANGED waiting
                /\ results' = Append(results, i)
                /\ UNCHANGED <<numErr, failures, errRecv, tokens, mainPc, ret, ctxDone>>
           ELSE /\ errRecv' = errRecv \cup {i}
                /\ IF ZoneMode THEN /\ waiting'  = [waiting EXCEPT ![z] = @ - 1]
                                    /\ failures' = [failures EXCEPT ![z] = @ + 1]
                                    /\ UNCHANGED numErr
                               ELSE /\ numErr' = numErr + 1
                                    /\ UNCHANGED <<waiting, failures>>
                /\ UNCHANGED <<numSucc, results>>
                /\ IF Failed'
                   THEN /\ mainPc' = "returned"
                        /\ ret' = [kind |-> "err", seq |-> <<>>, cls |-> "inst", inst |-> i]
                        /\ AtReturn
                        /\ UNCHANGED tokens
                   ELSE /\ tokens' = IF cfg.delay /\ ~ZoneMode THEN tokens + 1 ELSE tokens
                        /\ UNCHANGED <<mainPc, ret, ctxDone>>

MainCtxDone ==
  /\ mainPc = "loop" /\ ~Succeeded /\ ctxDone # "live"
  /\ mainPc' = "returned"
  /\ ret' = [kind |-> "err", seq |-> <<>>, cls |-> "cancelled", inst |-> 0]
  /\ UNCHANGED <<cfg, st, outcome, chan, tokens, clock, ctxDone, numSucc, numErr, waiting, failures,
                 results, calls, errRecv>>

ReturnOK ==
  /\ mainPc = "loop" /\ Succeeded
  /\ mainPc' = "returned"
  /\ ret' = [kind |-> "ok", seq |-> results, cls |-> "-", inst |-> 0]
  /\ AtReturn
  /\ UNCHANGED <<cfg, st, outcome, chan, tokens, clock, numSucc, numErr, waiting, failures,
                 results, calls, errRecv>>

EnvNext == (\E i \in Inst : \E o \in {"ok", "err"} : Finish(i, o)) \/ Advance \/ ParentCancel
IntNext == (\E i \in Inst : Begin(i) \/ Wake(i)) \/ MainRecv \/ MainCtxDone \/ ReturnOK
Next == EnvNext \/ IntNext

\* every goroutine has ended (results posted after the return stay in the buffered channel)
Terminated == mainPc = "returned" /\ \A i \in Inst : st[i] \in {"posted", "recv", "gone"}
Done == Terminated /\ UNCHANGED vars
NextD == Next \/ Done

WakeEnabled(i) == st[i] = "delayed" /\ (ctxDone # "live" \/ tokens > 0 \/ TimerFired)
Quiet == /\ \A i \in Inst : st[i] # "starting" /\ ~WakeEnabled(i)
         /\ mainPc = "loop" => (~Succeeded /\ chan = <<>> /\ ctxDone = "live")

Fairness == /\ \A i \in 1..6 : WF_vars(i \in Inst /\ (Begin(i) \/ Wake(i)))
            /\ \A j \in 1..6 : WF_vars(j \in Inst /\ \E o \in {"ok", "err"} : Finish(j, o))
            /\ WF_vars(MainRecv \/ MainCtxDone \/ ReturnOK)
Spec == Init /\ [][Next]_vars /\ Fairness

-----------------------------------------------------------------------------
Called == {i \in Inst : calls[i] > 0}
GoodZones == {z \in Zones : InstOf(z) \subseteq SeqRange(results)}
ExceededH == IF ZoneMode THEN Cardinality({cfg.zone[i] : i \in errRecv}) > cfg.tol
             ELSE Cardinality(errRecv) > cfg.tol

TypeOK == /\ st \in [Inst -> {"delayed", "starting", "running", "posted", "recv", "gone"}]
          /\ tokens \in 0..cfg.n /\ clock \in 0..2
          /\ Cardinality(SeqRange(results)) = Len(results)
          /\ (mainPc = "loop") = (ret.kind = "none")

OnlySuccessful == ret.kind = "ok" => \A a \in 1..Len(ret.seq) : outcome[ret.seq[a]] = "ok" /\ calls[ret.seq[a]] = 1
QuorumBacked ==
  ret.kind = "ok" =>
    IF ZoneMode THEN Cardinality(GoodZones) >= MinZones
    ELSE Len(ret.seq) = Max2(MinSucceeded, 0)
ErrWhenExceeded ==
  /\ mainPc = "loop" => ~ExceededH
  /\ ret.kind = "ok" => ~ExceededH
  /\ ret.kind = "err" => \/ ret.cls = "inst" /\ ret.inst \in errRecv /\ ExceededH
                         \/ ret.cls = "cancelled" /\ ctxDone = "parent"
AtMostOneCall == \A i \in Inst : calls[i] <= 1
\* with a delay the extra requests go out only after a failure or once the delay has elapsed
Minimised == (cfg.delay /\ ~ZoneMode /\ ~TimerFired) =>
                Cardinality(Called) <= Max2(MinSucceeded, 0) + Cardinality(errRecv)
AllCancelledAtReturn == mainPc = "returned" => ctxDone # "live"
Termination == <>Terminated
=============================================================================
