--------------------------- MODULE FailureWatcher ---------------------------
(***************************************************************************)
(* C17 (failure fan-in) - services.FailureWatcher (failure_watcher.go)     *)
(* over NS services, watched either one by one (WatchService: one service  *)
(* listener and goroutine per service) or through a Manager (WatchManager: *)
(* ONE manager listener and goroutine, failures queue up in its channel).  *)
(* The Failed / Failure callback SENDS on the watcher's UNBUFFERED channel,*)
(* so the listener goroutine stays in that send until somebody receives    *)
(* from Chan().  Close takes the watcher's mutex, calls the remove         *)
(* function of every listener in turn (which waits for that listener's     *)
(* goroutine to exit) and only then closes the channel.                    *)
(*                                                                         *)
(* As in Service.tla the state is one record `fw` and every step of the    *)
(* code is an operator on records; FailureWatcherGated.tla composes them   *)
(* for the replay on the real code.                                        *)
(*                                                                         *)
(* Decided here: every failure is reported at most once and only for a     *)
(* failed service, exactly once if a reader keeps reading and the watcher  *)
(* is not closed first; nothing is sent on the closed channel; Close       *)
(* returns PROVIDED somebody is still receiving (CloseReturns under        *)
(* ReaderFair).  Without a reader Close blocks for ever while a report is  *)
(* pending: MC_fw_noreader.cfg is the witness and the gated replay expects *)
(* exactly that (observation blk = "Close-blocked-while-report-pending"),  *)
(* so that a future change of this behaviour is visible.                   *)
(***************************************************************************)
EXTENDS Integers, Sequences, FiniteSets, TLC

CONSTANTS NS,          \* services 1..NS
          Modes,       \* subset of {"services", "manager"}: how the services are watched
          ReaderFair   \* BOOLEAN: somebody keeps receiving from Chan() (fairness of Recv)

Svc == 1..NS
VARIABLE fw
fvars == <<fw>>

Slots(f) == IF f.mode = "services" THEN Svc ELSE {1}      \* listener goroutines of the watcher
SlotOf(f, s) == IF f.mode = "services" THEN s ELSE 1
CloseDone == NS + 1

FInitRec(mode) ==
  [ mode |-> mode, st |-> [s \in Svc |-> "ok"],
    q |-> [k \in Svc |-> <<>>],          \* failures queued in the listener channel of slot k
    go |-> [k \in Svc |-> "idle"],       \* listener goroutine: "idle" | "sending" | "exited"
    cur |-> [k \in Svc |-> 0],           \* the service whose failure slot k is sending
    reg |-> [k \in Svc |-> TRUE],        \* listener still registered
    stopd |-> [k \in Svc |-> FALSE],     \* its stop channel is closed
    sendq |-> <<>>,                      \* slots blocked in w.ch <- err, in the order they arrived (Go serves senders FIFO)
    cpc |-> 0,                           \* Close: 0 not called | k waiting for slot k to exit | CloseDone returned
    closed |-> FALSE, chClosed |-> FALSE, got |-> <<>>, sendOnClosed |-> FALSE, panics |-> 0 ]

\* service s fails: its listener (or the manager's) is notified, if still registered
FailEn(f, s) == f.st[s] = "ok"
Fail(f, s) == LET k == SlotOf(f, s)
              IN [f EXCEPT !.st[s] = "failed", !.q[k] = IF f.reg[k] THEN Append(@, s) ELSE @]
\* the listener goroutine takes a notification and starts w.ch <- err
StartSendEn(f, k) == k \in Slots(f) /\ f.go[k] = "idle" /\ f.q[k] # <<>>
StartSend(f, k) == [f EXCEPT !.go[k] = "sending", !.cur[k] = Head(f.q[k]), !.q[k] = Tail(@),
                             !.sendq = Append(@, k), !.sendOnClosed = @ \/ f.chClosed]
\* somebody receives from Chan(): the oldest blocked send completes
RecvEn(f) == f.sendq # <<>> /\ ~f.chClosed
Recv(f) == LET k == Head(f.sendq)
           IN [f EXCEPT !.go[k] = "idle", !.got = Append(@, f.cur[k]), !.sendq = Tail(@)]
\* the listener goroutine exits: stop closed, or its channel was closed (service / manager terminal) and is drained
ChanClosedBySource(f, k) == IF f.mode = "services" THEN f.st[k] = "failed" ELSE \A s \in Svc : f.st[s] = "failed"
ExitEn(f, k) == k \in Slots(f) /\ f.go[k] = "idle" /\ (f.stopd[k] \/ (f.q[k] = <<>> /\ ChanClosedBySource(f, k)))
Exit(f, k) == [f EXCEPT !.go[k] = "exited"]

\* Close(): w.mu; for each listener stop() = close(stop), unregister, wait for the goroutine; close(w.ch)
StopSlot(f, k) == [f EXCEPT !.stopd[k] = TRUE, !.reg[k] = FALSE, !.cpc = k]
CloseCallEn(f) == f.cpc = 0
CloseCall(f) == StopSlot(f, 1)
CloseNextEn(f) == f.cpc \in Svc /\ f.go[f.cpc] = "exited"
CloseNext(f) == IF f.cpc + 1 \in Slots(f) THEN StopSlot(f, f.cpc + 1)
                ELSE [f EXCEPT !.cpc = CloseDone, !.closed = TRUE, !.chClosed = TRUE]
\* Close() again: nothing; WatchService on a closed watcher: panic(errFailureWatcherClosed)
WatchAfterCloseEn(f) == f.closed /\ f.panics = 0
WatchAfterClose(f) == [f EXCEPT !.panics = @ + 1]

aFail(s) == FailEn(fw, s) /\ fw' = Fail(fw, s)
aStartSend(k) == StartSendEn(fw, k) /\ fw' = StartSend(fw, k)
aRecv == RecvEn(fw) /\ fw' = Recv(fw)
aExit(k) == ExitEn(fw, k) /\ fw' = Exit(fw, k)
aCloseCall == CloseCallEn(fw) /\ fw' = CloseCall(fw)
aCloseNext == CloseNextEn(fw) /\ fw' = CloseNext(fw)
aWatchAfterClose == WatchAfterCloseEn(fw) /\ fw' = WatchAfterClose(fw)

Internal == (\E k \in Svc : aStartSend(k) \/ aExit(k)) \/ aCloseNext
Init == \E m \in Modes : fw = FInitRec(m)
Next == (\E s \in Svc : aFail(s)) \/ aCloseCall \/ aWatchAfterClose \/ Internal \/ aRecv
Spec == Init /\ [][Next]_fvars /\ WF_fvars(Internal) /\ (IF ReaderFair THEN WF_fvars(aRecv) ELSE TRUE)

Range(x) == {x[i] : i \in DOMAIN x}
TypeOK == /\ \A s \in Svc : fw.st[s] \in {"ok", "failed"} /\ fw.go[s] \in {"idle", "sending", "exited"}
          /\ fw.cpc \in 0..CloseDone
ReportedAtMostOnce == /\ \A i, j \in DOMAIN fw.got : i # j => fw.got[i] # fw.got[j]
                      /\ \A s \in Range(fw.got) : fw.st[s] = "failed"
NeverSendOnClosed == ~fw.sendOnClosed /\ (fw.chClosed => \A k \in Slots(fw) : fw.go[k] = "exited")
\* with a reader and no Close, every failure is eventually reported
EveryFailureReported == \A s \in Svc : (fw.st[s] = "failed" /\ fw.cpc = 0) ~> (s \in Range(fw.got) \/ fw.cpc # 0)
\* Close returns - only if somebody keeps receiving
CloseReturns == (fw.cpc # 0) ~> (fw.cpc = CloseDone)
=============================================================================
