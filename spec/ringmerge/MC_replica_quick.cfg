\* C05 quick: 3 instances share 2 token positions; single-entry updates, local CAS, token re-claims; the clock reads 2 (ties with the newest entries).
CONSTANTS
  N = 3
  M = 2
  Shared = TRUE
  TsSet = {1, 2}
  LiveSt = {"ACTIVE", "LEAVING"}
  MaxUpd = 1
  Clock0 = 2
  MaxClock = 2
  CasRaw = FALSE
  ThinK = @@THINK@@
  ThinR = @@THINR@@
  ThinA = @@THINA@@
INIT Init
NEXT Next
VIEW View
INVARIANTS TypeOK InvTokenUnique InvLeftHasNoTokens InvNormal EmitPath
PROPERTIES StepRules SnapshotsImmutable ReaderSeesLatest EmitResolving
CHECK_DEADLOCK FALSE
