------------------------------ MODULE QuorumRead ------------------------------
(***************************************************************************)
(* C11 - ring.DoUntilQuorum / DoUntilQuorumWithoutSuccessfulContext-       *)
(* Cancellation over one replication set (ring/replication_set.go,         *)
(* ring/replication_set_tracker.go), modelled goroutine by goroutine:      *)
(*                                                                         *)
(*   per instance i one goroutine: awaitStart (held / released / not       *)
(*   needed / own context cancelled)  ->  f(ctx_i, i) running  ->  result  *)
(*   posted to resultsChan (FIFO, capacity n, never blocks)                *)
(*   main loop: select { ctx.Done | hedging tick | resultsChan } until     *)
(*   tracker.succeeded(); one critical section per received result         *)
(*   (terminal check, tracker.done, context cancel, failed() exit)         *)
(*   drain goroutine (deferred): consumes what main did not, cleaning      *)
(*   late successes.                                                       *)
(*                                                                         *)
(* Trackers are transcribed as coded: defaultResultTracker (numSucceeded,  *)
(* numErrors, pendingInstances) and zoneAwareResultTracker (waitingByZone, *)
(* failuresByZone, pendingZones).  Contexts: ctx[i] is "live" or the class *)
(* of the cause of the FIRST cancellation (context semantics).             *)
(*                                                                         *)
(* A Go select with several ready cases picks any: every such place is a   *)
(* disjunction of actions here (Begin/Abort of an instance goroutine,      *)
(* MainRecv/MainTick/MainCtxDone of the main loop).                        *)
(***************************************************************************)
EXTENDS Integers, FiniteSets, Sequences, TLC

CONSTANTS MaxN,        \* instances 1..n, n \in NSet
          NSet,
          MaxZ,        \* at most this many zones (zone-aware mode)
          Modes,       \* subset of {"default", "zone"}
          MinHedge,    \* subset of 0..3: bit 0 = MinimizeRequests, bit 1 = HedgingDelay > 0
          Preds,       \* subset of {"nil","never","class","all","nottransient"}: shape of cfg.IsTerminalError
                       \*   nil: no predicate; never: always false; class: true for the "term" error class;
                       \*   all: true for every argument (nil included); nottransient: false only for the
                       \*   ordinary ("err") error class (so true for nil, "term" and context errors)
          NoCancels    \* subset of BOOLEAN : TRUE = ...WithoutSuccessfulContextCancellation called directly,
                       \* FALSE = DoUntilQuorum (differs only in CtxView, so {TRUE} suffices for model checking)

VARIABLES
  cfg,              \* the call's configuration (constant during a behaviour)
  st,               \* st[i]: goroutine of instance i
  outcome,          \* outcome[i] \in {"none","ok","err","term","abort"}: what the goroutine posted
  ctx,              \* ctx[i]: "live" or cause class of the first cancellation of the context handed to f
  parentCancelled,  \* the caller's context has ended
  chan,             \* resultsChan: sequence of instances (the value posted is outcome[i])
  numSucc, numErr,  \* defaultResultTracker
  waiting, failures,\* zoneAwareResultTracker: per zone
  pending,          \* pendingInstances (default) / pendingZones (zone-aware), in release order
  resultsMap,       \* instances whose successful result the main loop holds
  remaining,        \* resultsRemaining
  mainPc,           \* "loop" | "returned"
  ret,              \* what the call returned
  cleaned,          \* cleaned[i] = number of cleanupFunc invocations with i's result
  tickPending,      \* the hedging ticker's channel holds a tick
  phase,            \* bubble clock in half hedging delays since the call started, modulo 2
  \* history variables (used by properties only)
  calls,            \* calls[i] = number of invocations of f for i
  errRecv,          \* instances whose error the main loop received
  termRecv,         \* instances whose terminal error the main loop received
  nTick             \* hedging ticks consumed by the main loop

vars == <<cfg, st, outcome, ctx, parentCancelled, chan, numSucc, numErr, waiting, failures, pending,
          resultsMap, remaining, mainPc, ret, cleaned, tickPending, phase, calls, errRecv, termRecv, nTick>>

-----------------------------------------------------------------------------
Inst     == 1..cfg.n
Zones    == 1..cfg.nz
ZoneMode == cfg.mode = "zone"
InstOf(z) == {i \in Inst : cfg.zone[i] = z}
Max2(a, b) == IF a > b THEN a ELSE b
Min2(a, b) == IF a < b THEN a ELSE b

MinSucceeded == cfg.n - cfg.tol                 \* may be <= 0 (misconfigured set)
MinZones     == Max2(cfg.nz - cfg.tol, 0)       \* minSuccessfulZones

InjSeqs(S, k) == {s \in [1..k -> S] : \A a, b \in 1..k : a # b => s[a] # s[b]}
SeqRange(s) == {s[a] : a \in 1..Len(s)}

\* canonical zone assignments: restricted growth strings (zone names are symmetric)
RGS(n, f) == /\ f[1] = 1
             /\ \A i \in 2..n : \E j \in 1..(i-1) : f[i] <= f[j] + 1
ZoneAssigns(n) == {f \in [1..n -> 1..MaxZ] : RGS(n, f)}
NZ(n, f) == Cardinality({f[i] : i \in 1..n})

CfgsFor(n, m, f) ==
  {[n |-> n, zone |-> f, nz |-> NZ(n, f), mode |-> m, tol |-> t, minimize |-> (mh % 2 = 1),
    hedge |-> (mh \div 2 = 1), pred |-> te, nocancel |-> nc] :
      t \in 0..(IF m = "zone" THEN NZ(n, f) ELSE n),
      mh \in MinHedge, te \in Preds, nc \in NoCancels}
ZoneChoices(n, m) == IF m = "zone" THEN ZoneAssigns(n) ELSE {[i \in 1..n |-> 1]}
\* (takes a dummy parameter so that TLC does not evaluate it eagerly at start-up: the trace
\* specification never needs it, and with NSet = 1..6 it costs a minute)
Cfgs(dummy) == UNION {UNION {UNION {CfgsFor(n, m, f) : f \in ZoneChoices(n, m)} : m \in Modes} : n \in NSet}

-----------------------------------------------------------------------------
(* tracker predicates, as coded *)
Succeeded == IF ZoneMode
             THEN Cardinality({z \in Zones : waiting[z] = 0 /\ failures[z] = 0}) >= MinZones
             ELSE numSucc >= MinSucceeded
Failed    == IF ZoneMode
             THEN Cardinality({z \in Zones : failures[z] > 0}) > cfg.tol
             ELSE numErr > cfg.tol
ShouldInclude(i) == IF ZoneMode THEN failures[cfg.zone[i]] = 0 /\ waiting[cfg.zone[i]] = 0 ELSE TRUE

\* instances blocked in awaitStart that the head of `pending` stands for
HeadInsts == IF pending = <<>> THEN {}
             ELSE IF ZoneMode THEN InstOf(Head(pending)) ELSE {Head(pending)}
PendingInsts == IF ZoneMode THEN UNION {InstOf(z) : z \in SeqRange(pending)} ELSE SeqRange(pending)

\* startAdditionalRequestsDueTo: release the head of pending (a goroutine that already left
\* awaitStart because its context ended is not affected)
ReleaseNext(s) == [i \in Inst |-> IF i \in HeadInsts /\ s[i] = "held" THEN "released" ELSE s[i]]
\* onSucceeded: close the release channels of everything still pending
CloseAll(s)    == [i \in Inst |-> IF i \in PendingInsts /\ s[i] = "held" THEN "notneeded" ELSE s[i]]

CancelIn(c, S, cause) == [i \in Inst |-> IF i \in S /\ c[i] = "live" THEN cause ELSE c[i]]
CleanAll(S) == [i \in Inst |-> cleaned[i] + (IF i \in S THEN 1 ELSE 0)]

NoRet == [kind |-> "none", set |-> {}, cls |-> "-", inst |-> 0]

-----------------------------------------------------------------------------
(* Initial state = state after tracker construction, startAllRequests /     *)
(* startMinimumRequests and the spawning of the n goroutines.  With         *)
(* minimisation the held-back instances / zones (and their release order)   *)
(* are an existential choice: rand.Perm / rand.Shuffle / the ZoneSorter.    *)
\* the possible contents of pendingInstances / pendingZones after startMinimumRequests
HeldChoices(c) ==
  LET zm   == c.mode = "zone"
      minZ == Max2(c.nz - c.tol, 0)
      k    == IF zm THEN c.nz - minZ ELSE Min2(c.tol, c.n)
  IN IF c.minimize THEN InjSeqs(IF zm THEN 1..c.nz ELSE 1..c.n, k) ELSE {<<>>}

InitCfgP(c, p) ==
  LET I    == 1..c.n
      zm   == c.mode = "zone"
      minZ == Max2(c.nz - c.tol, 0)
      already == IF zm THEN minZ = 0 ELSE c.n - c.tol <= 0    \* succeeded() before any result
      heldI == IF zm THEN {i \in I : c.zone[i] \in SeqRange(p)} ELSE SeqRange(p)
  IN /\ cfg = c
     /\ pending = IF already THEN <<>> ELSE p
     /\ st = [i \in I |-> IF i \in heldI THEN (IF already THEN "notneeded" ELSE "held")
                          ELSE "released"]
     /\ outcome = [i \in I |-> "none"]
     /\ ctx = [i \in I |-> "live"]
     /\ parentCancelled = FALSE
     /\ chan = <<>>
     /\ numSucc = 0 /\ numErr = 0
     /\ waiting  = [z \in 1..c.nz |-> Cardinality({i \in I : c.zone[i] = z})]
     /\ failures = [z \in 1..c.nz |-> 0]
     /\ resultsMap = {}
     /\ remaining = c.n
     /\ mainPc = "loop"
     /\ ret = NoRet
     /\ cleaned = [i \in I |-> 0]
     /\ tickPending = FALSE /\ phase = 0
     /\ calls = [i \in I |-> 0]
     /\ errRecv = {} /\ termRecv = {} /\ nTick = 0

InitCfg(c) == \E p \in HeldChoices(c) : InitCfgP(c, p)

Init == \E c \in Cfgs(0) : InitCfg(c)

-----------------------------------------------------------------------------
(* instance goroutines *)

\* awaitStart returns nil: f is invoked (a select with the context also done may still pick this)
Begin(i) ==
  /\ st[i] = "released"
  /\ st' = [st EXCEPT ![i] = "running"]
  /\ calls' = [calls EXCEPT ![i] = @ + 1]
  /\ UNCHANGED <<cfg, outcome, ctx, parentCancelled, chan, numSucc, numErr, waiting, failures, pending,
                 resultsMap, remaining, mainPc, ret, cleaned, tickPending, phase, errRecv, termRecv, nTick>>

\* awaitStart returns an error (context done, or release channel closed): f is never invoked,
\* an error is posted so that the drain goroutine terminates
AbortEnabled(i) == \/ st[i] = "notneeded"
                   \/ st[i] \in {"held", "released"} /\ ctx[i] # "live"
Abort(i) ==
  /\ AbortEnabled(i)
  /\ st' = [st EXCEPT ![i] = "posted"]
  /\ outcome' = [outcome EXCEPT ![i] = "abort"]
  /\ chan' = Append(chan, i)
  /\ UNCHANGED <<cfg, ctx, parentCancelled, numSucc, numErr, waiting, failures, pending, resultsMap,
                 remaining, mainPc, ret, cleaned, tickPending, phase, calls, errRecv, termRecv, nTick>>

\* environment: the invocation of f returns
\* "err" = ordinary (transient) error, "term" = error of the terminal class; the classes only matter
\* to the predicates that tell them apart
Outcomes == IF cfg.pred \in {"class", "nottransient"} THEN {"ok", "err", "term"} ELSE {"ok", "err"}
Finish(i, o) ==
  /\ st[i] = "running"
  /\ o \in Outcomes
  /\ st' = [st EXCEPT ![i] = "posted"]
  /\ outcome' = [outcome EXCEPT ![i] = o]
  /\ chan' = Append(chan, i)
  /\ UNCHANGED <<cfg, ctx, parentCancelled, numSucc, numErr, waiting, failures, pending, resultsMap,
                 remaining, mainPc, ret, cleaned, tickPending, phase, calls, errRecv, termRecv, nTick>>

-----------------------------------------------------------------------------
(* environment: hedging ticker, caller's context *)
\* The bubble clock advances by half a hedging delay.  time.Ticker fires at absolute multiples of the
\* delay since its creation (= since the call started) whatever the loop did in between; its channel
\* has capacity one, a tick that finds it full is dropped.
Advance ==
  /\ cfg.hedge /\ mainPc = "loop"
  /\ \E i \in Inst : st[i] = "held"          \* time passing with nothing to release is unobservable
  /\ phase' = 1 - phase
  /\ tickPending' = (tickPending \/ phase = 1)
  /\ UNCHANGED <<cfg, st, outcome, ctx, parentCancelled, chan, numSucc, numErr, waiting, failures, pending,
                 resultsMap, remaining, mainPc, ret, cleaned, calls, errRecv, termRecv, nTick>>

ParentCancel ==
  /\ ~parentCancelled /\ mainPc = "loop"
  /\ parentCancelled' = TRUE
  /\ ctx' = CancelIn(ctx, Inst, "parent")
  /\ UNCHANGED <<cfg, st, outcome, chan, numSucc, numErr, waiting, failures, pending, resultsMap,
                 remaining, mainPc, ret, cleaned, tickPending, phase, calls, errRecv, termRecv, nTick>>

-----------------------------------------------------------------------------
(* main loop *)

\* every exit with an error: results already received are cleaned; DoUntilQuorum's deferred
\* cancel() (plain variant) finds nothing live after cancelAllContexts / a dead parent
ExitErr(cls, i, cause) ==
  /\ mainPc' = "returned"
  /\ ret' = [kind |-> "err", set |-> {}, cls |-> cls, inst |-> i]
  /\ cleaned' = CleanAll(resultsMap)

\* cfg.IsTerminalError # nil && cfg.IsTerminalError(result.err), consulted for FAILED calls only
\* (result.err # nil).  A goroutine that never called f posts its context's cause; while the main loop
\* still runs that can only be the caller's error (judged terminal by "all" / "nottransient") or a
\* wrapper of a sibling's ordinary error (terminal for no predicate that let the sibling's error pass).
IsTerminal(i) ==
  LET o == outcome[i]
  IN /\ o # "ok"
     /\ CASE cfg.pred = "class" -> o = "term"
          [] cfg.pred = "all" -> o \in {"err", "term"} \/ (o = "abort" /\ ctx[i] = "parent")
          [] cfg.pred = "nottransient" -> o = "term" \/ (o = "abort" /\ ctx[i] = "parent")
          [] OTHER -> FALSE

\* case result := <-resultsChan
MainRecv ==
  /\ mainPc = "loop" /\ ~Succeeded /\ chan # <<>>
  /\ UNCHANGED <<cfg, outcome, parentCancelled, tickPending, phase, calls, nTick>>
  /\ LET i == Head(chan)
         o == outcome[i]
         z == cfg.zone[i]
     IN /\ chan' = Tail(chan)
        /\ remaining' = remaining - 1
        /\ IF IsTerminal(i)
           THEN \* terminate(err, "a terminal error occurred") - before tracker.done
                /\ st' = [st EXCEPT ![i] = "recv"]
                /\ termRecv' = termRecv \cup {i}
                /\ ctx' = CancelIn(ctx, Inst, "terminal")
                /\ IF o = "abort" THEN ExitErr("cancelled", 0, "terminal") ELSE ExitErr("inst", i, "terminal")
                /\ UNCHANGED <<numSucc, numErr, waiting, failures, pending, resultsMap, errRecv>>
           ELSE IF o = "ok"
           THEN \* tracker.done(instance, nil); resultsMap[instance] = result
                /\ resultsMap' = resultsMap \cup {i}
                /\ IF ZoneMode
                   THEN /\ waiting' = [waiting EXCEPT ![z] = @ - 1]
                        /\ UNCHANGED <<numSucc, numErr, failures>>
                   ELSE /\ numSucc' = numSucc + 1
                        /\ UNCHANGED <<numErr, waiting, failures>>
                /\ IF Succeeded'
                   THEN /\ st' = [CloseAll(st) EXCEPT ![i] = "recv"]
                        /\ pending' = <<>>
                   ELSE /\ st' = [st EXCEPT ![i] = "recv"]
                        /\ UNCHANGED pending
                /\ UNCHANGED <<ctx, mainPc, ret, cleaned, errRecv, termRecv>>
           ELSE \* tracker.done(instance, err); cancelContextFor(instance); failed()?
                /\ errRecv' = errRecv \cup {i}
                /\ UNCHANGED <<resultsMap, termRecv, numSucc>>
                /\ IF ZoneMode
                   THEN /\ waiting'  = [waiting EXCEPT ![z] = @ - 1]
                        /\ failures' = [failures EXCEPT ![z] = @ + 1]
                        /\ UNCHANGED numErr
                        /\ IF failures[z] = 0    \* first failure of the zone: release another zone
                           THEN /\ st' = [ReleaseNext(st) EXCEPT ![i] = "recv"]
                                /\ pending' = IF pending = <<>> THEN <<>> ELSE Tail(pending)
                           ELSE /\ st' = [st EXCEPT ![i] = "recv"]
                                /\ UNCHANGED pending
                   ELSE /\ numErr' = numErr + 1
                        /\ UNCHANGED <<waiting, failures>>
                        /\ st' = [ReleaseNext(st) EXCEPT ![i] = "recv"]
                        /\ pending' = IF pending = <<>> THEN <<>> ELSE Tail(pending)
                /\ LET c1 == CancelIn(ctx, IF ZoneMode THEN InstOf(z) ELSE {i}, "instErr")
                   IN IF Failed'
                      THEN \* terminate(err, "quorum cannot be reached")
                           /\ ctx' = CancelIn(c1, Inst, "noQuorum")
                           /\ ExitErr("inst", i, "noQuorum")
                      ELSE /\ ctx' = c1
                           /\ UNCHANGED <<mainPc, ret, cleaned>>

\* case <-hedgingTrigger: resultTracker.startAdditionalRequests()
MainTick ==
  /\ mainPc = "loop" /\ ~Succeeded /\ tickPending
  /\ tickPending' = FALSE
  /\ nTick' = nTick + 1
  /\ st' = ReleaseNext(st)
  /\ pending' = IF pending = <<>> THEN <<>> ELSE Tail(pending)
  /\ UNCHANGED <<cfg, outcome, ctx, parentCancelled, chan, numSucc, numErr, waiting, failures,
                 resultsMap, remaining, mainPc, ret, cleaned, phase, calls, errRecv, termRecv>>

\* case <-ctx.Done(): cleanupResultsAlreadyReceived(); return nil, context.Cause(ctx)
MainCtxDone ==
  /\ mainPc = "loop" /\ ~Succeeded /\ parentCancelled
  /\ ExitErr("cancelled", 0, "parent")
  /\ UNCHANGED <<cfg, st, outcome, ctx, parentCancelled, chan, numSucc, numErr, waiting, failures, pending,
                 resultsMap, remaining, tickPending, phase, calls, errRecv, termRecv, nTick>>

\* loop condition false: build the result slice, clean and cancel what is not included
\* (plain DoUntilQuorum then cancels its derived context: see CtxView)
ReturnOK ==
  /\ mainPc = "loop" /\ Succeeded
  /\ LET inc == {i \in resultsMap : ShouldInclude(i)}
         c1  == CancelIn(ctx, Inst \ inc, "notRequired")
     IN /\ ret' = [kind |-> "ok", set |-> inc, cls |-> "-", inst |-> 0]
        /\ cleaned' = CleanAll(resultsMap \ inc)
        /\ ctx' = c1
  /\ mainPc' = "returned"
  /\ UNCHANGED <<cfg, st, outcome, parentCancelled, chan, numSucc, numErr, waiting, failures, pending,
                 resultsMap, remaining, tickPending, phase, calls, errRecv, termRecv, nTick>>

\* deferred goroutine: for resultsRemaining > 0 { r := <-resultsChan; if r.err == nil { cleanupFunc(r.result) } }
Drain ==
  /\ mainPc = "returned" /\ chan # <<>>
  /\ LET i == Head(chan)
     IN /\ chan' = Tail(chan)
        /\ remaining' = remaining - 1
        /\ st' = [st EXCEPT ![i] = "recv"]
        /\ cleaned' = IF outcome[i] = "ok" THEN [cleaned EXCEPT ![i] = @ + 1] ELSE cleaned
  /\ UNCHANGED <<cfg, outcome, ctx, parentCancelled, numSucc, numErr, waiting, failures, pending,
                 resultsMap, mainPc, ret, tickPending, phase, calls, errRecv, termRecv, nTick>>

-----------------------------------------------------------------------------
EnvNext == \/ \E i \in Inst : \E o \in {"ok", "err", "term"} : Finish(i, o)
           \/ Advance
           \/ ParentCancel
MainNext == MainRecv \/ MainTick \/ MainCtxDone \/ ReturnOK
IntNext == \/ \E i \in Inst : Begin(i) \/ Abort(i)
           \/ MainNext
           \/ Drain
Next == EnvNext \/ IntNext

Terminated == mainPc = "returned" /\ remaining = 0
Done == Terminated /\ UNCHANGED vars      \* lets TLC's deadlock check mean "stuck before termination"
NextD == Next \/ Done

\* The context f received, as the caller sees it.  ctx[] is the view of
\* ...WithoutSuccessfulContextCancellation.  DoUntilQuorum wraps it: `ctx, cancel := WithCancel(ctx);
\* defer cancel()`, so whatever is still live when the call returns ends with cause context.Canceled
\* ("returned").  Nothing reads a context of a returned instance afterwards (its goroutine is
\* gone), so the wrapper is a pure function of the state and costs no extra states.
CtxView(i) == IF ~cfg.nocancel /\ mainPc = "returned" /\ ctx[i] = "live" THEN "returned" ELSE ctx[i]

\* nothing but the environment can move (what synctest.Wait() waits for)
Quiet == /\ \A i \in Inst : st[i] # "released" /\ ~AbortEnabled(i)
         /\ mainPc = "loop" => (~Succeeded /\ chan = <<>> /\ ~tickPending /\ ~parentCancelled)
         /\ mainPc = "returned" => chan = <<>>

Fairness == /\ \A i \in 1..MaxN : WF_vars(i \in Inst /\ (Begin(i) \/ Abort(i)))
            /\ \A i \in 1..MaxN : WF_vars(i \in Inst /\ \E o \in {"ok", "err", "term"} : Finish(i, o))
            /\ WF_vars(MainNext) /\ WF_vars(Drain)
Spec == Init /\ [][Next]_vars /\ Fairness

-----------------------------------------------------------------------------
(* Properties *)
States == {"held", "released", "notneeded", "running", "posted", "recv"}
Causes == {"live", "parent", "instErr", "notRequired", "terminal", "noQuorum", "returned"}

TypeOK ==
  /\ cfg.n \in NSet /\ cfg.mode \in Modes /\ DOMAIN cfg.zone = 1..cfg.n
  /\ st \in [Inst -> States]
  /\ outcome \in [Inst -> {"none", "ok", "err", "term", "abort"}]
  /\ ctx \in [Inst -> Causes]
  /\ parentCancelled \in BOOLEAN /\ tickPending \in BOOLEAN /\ phase \in {0, 1}
  /\ cfg.pred \in Preds
  /\ \A a \in 1..Len(chan) : chan[a] \in Inst /\ st[chan[a]] = "posted"
  /\ Cardinality(SeqRange(chan)) = Len(chan)
  /\ remaining = Cardinality({i \in Inst : st[i] # "recv"})
  /\ resultsMap \subseteq Inst
  /\ mainPc \in {"loop", "returned"}
  /\ (mainPc = "loop") = (ret.kind = "none")
  /\ \A i \in Inst : (outcome[i] = "none") = (st[i] \in {"held", "released", "notneeded", "running"})
  \* tracker counters agree with what the main loop received
  /\ ~ZoneMode => numSucc = Cardinality(resultsMap) /\ numErr = Cardinality(errRecv)
  /\ ZoneMode => \A z \in Zones :
        /\ failures[z] = Cardinality(errRecv \cap InstOf(z))
        /\ waiting[z] = Cardinality(InstOf(z) \ (errRecv \cup resultsMap))

Called == {i \in Inst : calls[i] > 0}

\* results only from calls that succeeded
OnlySuccessful == ret.kind = "ok" => \A i \in ret.set : outcome[i] = "ok" /\ calls[i] = 1

\* ... and only once the success criterion holds; the results are exactly the criterion's witnesses
GoodZones == {z \in Zones : InstOf(z) \subseteq resultsMap}
QuorumBacked ==
  ret.kind = "ok" =>
    IF ZoneMode
    THEN /\ ret.set = UNION {InstOf(z) : z \in GoodZones}
         /\ Cardinality(GoodZones) = MinZones           \* all but the tolerated number of zones
    ELSE /\ ret.set = resultsMap
         /\ Cardinality(ret.set) = Max2(MinSucceeded, 0) \* all but the tolerated number of instances

\* an error is returned once (and only when) tolerated failures are exceeded, a terminal error was
\* received, or the caller's context ended
ExceededH == IF ZoneMode THEN Cardinality({cfg.zone[i] : i \in errRecv}) > cfg.tol
             ELSE Cardinality(errRecv) > cfg.tol
ErrWhenExceeded ==
  /\ mainPc = "loop" => ~ExceededH /\ termRecv = {}
  /\ ret.kind = "ok" => ~ExceededH /\ termRecv = {}
  /\ ret.kind = "err" =>
       \/ ret.cls = "inst" /\ ret.inst \in termRecv /\ outcome[ret.inst] \in {"err", "term"}
            /\ cfg.pred \in {"class", "all", "nottransient"}
       \/ ret.cls = "inst" /\ ret.inst \in errRecv /\ ExceededH /\ termRecv = {}
       \/ ret.cls = "cancelled" /\ parentCancelled

AtMostOneCall == \A i \in Inst : calls[i] <= 1

\* with request minimisation: no more calls than needed + failures seen + hedging ticks
Minimised ==
  cfg.minimize =>
    IF ZoneMode
    THEN Cardinality({cfg.zone[i] : i \in Called}) <= MinZones + Cardinality({cfg.zone[i] : i \in errRecv}) + nTick
    ELSE Cardinality(Called) <= Max2(MinSucceeded, 0) + Cardinality(errRecv) + nTick

\* every successful result that is not returned is handed to cleanup exactly once
CleanupSafe == \A i \in Inst : /\ cleaned[i] <= 1
                               /\ cleaned[i] = 1 => outcome[i] = "ok" /\ i \notin ret.set
CleanupExactlyOnce ==
  Terminated => \A i \in Inst : cleaned[i] = (IF outcome[i] = "ok" /\ i \notin ret.set THEN 1 ELSE 0)

\* the context of every call whose result is not used is cancelled (already when the call returns)
UnusedCancelled == mainPc = "returned" => \A i \in Inst \ ret.set : ctx[i] # "live"
\* ...WithoutSuccessfulContextCancellation leaves the returned calls' contexts alone
ReturnedNotCancelled ==
  (cfg.nocancel /\ ret.kind = "ok" /\ ~parentCancelled) => \A i \in ret.set : ctx[i] = "live"
\* DoUntilQuorum cancels every context before it returns
PlainAllCancelled == (~cfg.nocancel /\ mainPc = "returned") => \A i \in Inst : CtxView(i) # "live"
\* a context is cancelled early only for a stated reason
CancelJustified ==
  \A i \in Inst :
    /\ ctx[i] = "instErr" => \E j \in errRecv : IF ZoneMode THEN cfg.zone[j] = cfg.zone[i] ELSE j = i
    /\ ctx[i] = "parent" => parentCancelled
    /\ ctx[i] = "notRequired" => ret.kind = "ok" /\ i \notin ret.set
    /\ ctx[i] # "returned"
    /\ ctx[i] \in {"terminal", "noQuorum"} => ret.kind = "err"

Termination == <>Terminated
=============================================================================
