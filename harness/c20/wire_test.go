package c20

// Wire-level propagation (C20 extension): the hops of Propagation.tla's wire actions run through
// the real stacks - net/http client -> httptest.Server -> middleware.AuthenticateUser, and a real
// gRPC client/server pair over bufconn with the four user-header interceptors - so that header
// canonicalisation, the transports' own validation of header / metadata values and multi-value
// headers are exercised by the real code.

import (
	"context"
	"encoding/json"
	"fmt"
	"net"
	"net/http"
	"net/http/httptest"
	"strings"
	"sync"
	"testing"

	"verifharness/internal/abs"

	"github.com/grafana/dskit/middleware"
	"github.com/grafana/dskit/user"

	"google.golang.org/grpc"
	"google.golang.org/grpc/codes"
	"google.golang.org/grpc/credentials/insecure"
	"google.golang.org/grpc/health"
	healthpb "google.golang.org/grpc/health/grpc_health_v1"
	"google.golang.org/grpc/metadata"
	"google.golang.org/grpc/status"
	"google.golang.org/grpc/test/bufconn"
)

// what the receiving side saw
type seenID struct {
	mu     sync.Mutex
	called bool
	id     string
	err    error
}

func (s *seenID) set(ctx context.Context) {
	s.mu.Lock()
	defer s.mu.Unlock()
	s.called = true
	s.id, s.err = user.ExtractOrgID(ctx)
}

func (s *seenID) take() (bool, string, error) {
	s.mu.Lock()
	defer s.mu.Unlock()
	c, id, err := s.called, s.id, s.err
	s.called, s.id, s.err = false, "", nil
	return c, id, err
}

type wireRig struct {
	httpSrv  *httptest.Server
	httpSeen *seenID
	grpcSrv  *grpc.Server
	grpcSeen *seenID
	conn     *grpc.ClientConn
	plain    *grpc.ClientConn // no client interceptor: foreign callers with hand-made metadata
}

func newWireRig() (*wireRig, error) {
	w := &wireRig{httpSeen: &seenID{}, grpcSeen: &seenID{}}
	w.httpSrv = httptest.NewServer(middleware.AuthenticateUser.Wrap(http.HandlerFunc(func(rw http.ResponseWriter, r *http.Request) {
		w.httpSeen.set(r.Context())
		rw.WriteHeader(http.StatusOK)
	})))
	lis := bufconn.Listen(1 << 20)
	w.grpcSrv = grpc.NewServer(
		grpc.ChainUnaryInterceptor(middleware.ServerUserHeaderInterceptor,
			func(ctx context.Context, req interface{}, _ *grpc.UnaryServerInfo, h grpc.UnaryHandler) (interface{}, error) {
				w.grpcSeen.set(ctx)
				return h(ctx, req)
			}),
		grpc.ChainStreamInterceptor(middleware.StreamServerUserHeaderInterceptor,
			func(srv interface{}, ss grpc.ServerStream, _ *grpc.StreamServerInfo, h grpc.StreamHandler) error {
				w.grpcSeen.set(ss.Context())
				return status.Error(codes.OK, "") // end the stream at once
			}))
	healthpb.RegisterHealthServer(w.grpcSrv, health.NewServer())
	go func() { _ = w.grpcSrv.Serve(lis) }()
	dial := grpc.WithContextDialer(func(ctx context.Context, _ string) (net.Conn, error) { return lis.DialContext(ctx) })
	var err error
	w.conn, err = grpc.NewClient("passthrough:///bufnet", dial, grpc.WithTransportCredentials(insecure.NewCredentials()),
		grpc.WithUnaryInterceptor(middleware.ClientUserHeaderInterceptor),
		grpc.WithStreamInterceptor(middleware.StreamClientUserHeaderInterceptor))
	if err != nil {
		return nil, err
	}
	w.plain, err = grpc.NewClient("passthrough:///bufnet", dial, grpc.WithTransportCredentials(insecure.NewCredentials()))
	return w, err
}

func (w *wireRig) close() {
	w.conn.Close()
	w.plain.Close()
	w.grpcSrv.Stop()
	w.httpSrv.Close()
}

// wireOutcome: "delivered" (with the id the receiver saw), a refusal class of the code under test
// ("no_id", "different_id", "too_many_ids") or "transport" (the real stack refused to carry it).
type wireOutcome struct {
	Class string `json:"class"`
	ID    string `json:"-"`
	Note  string `json:"note,omitempty"`
}

// httpHop: context --InjectOrgIDIntoHTTPRequest--> net/http --> AuthenticateUser --> context.
// pre are header values already on the outgoing request.
func (w *wireRig) httpHop(ctx context.Context, pre []string) wireOutcome {
	req, _ := http.NewRequest("GET", w.httpSrv.URL, nil)
	for _, v := range pre {
		req.Header.Add(user.OrgIDHeaderName, v)
	}
	if ctx != nil {
		if err := user.InjectOrgIDIntoHTTPRequest(ctx, req); err != nil {
			return wireOutcome{Class: apiFor("org").classify(err)}
		}
	}
	w.httpSeen.take()
	resp, err := w.httpSrv.Client().Do(req)
	if err != nil {
		return wireOutcome{Class: "transport", Note: err.Error()}
	}
	resp.Body.Close()
	called, id, ierr := w.httpSeen.take()
	switch {
	case resp.StatusCode == http.StatusUnauthorized && !called:
		return wireOutcome{Class: "no_id"}
	case resp.StatusCode == http.StatusOK && called && ierr == nil:
		return wireOutcome{Class: "delivered", ID: id}
	case resp.StatusCode == http.StatusBadRequest && !called:
		return wireOutcome{Class: "transport", Note: "server answered 400"}
	}
	return wireOutcome{Class: fmt.Sprintf("other: status=%d called=%v err=%v", resp.StatusCode, called, ierr)}
}

// grpcHop: context --Client interceptor--> HTTP/2 over bufconn --> Server interceptor --> context.
// With foreign != nil the call is made by a foreign client that attaches these metadata values itself.
func (w *wireRig) grpcHop(ctx context.Context, stream bool, foreign []string) wireOutcome {
	conn := w.conn
	if ctx == nil {
		conn = w.plain
		ctx = context.Background()
		if len(foreign) > 0 {
			md := metadata.MD{}
			md.Append(user.OrgIDHeaderName, foreign...)
			ctx = metadata.NewOutgoingContext(ctx, md)
		}
	}
	w.grpcSeen.take()
	cl := healthpb.NewHealthClient(conn)
	var err error
	if stream {
		var st healthpb.Health_WatchClient
		st, err = cl.Watch(ctx, &healthpb.HealthCheckRequest{})
		if err == nil {
			_, err = st.Recv()
			if err != nil && status.Code(err) == codes.OK || err != nil && err.Error() == "EOF" {
				err = nil
			}
		}
	} else {
		_, err = cl.Check(ctx, &healthpb.HealthCheckRequest{})
	}
	called, id, ierr := w.grpcSeen.take()
	if err != nil {
		if c := apiFor("org").classify(err); !strings.HasPrefix(c, "other") {
			return wireOutcome{Class: c} // refused by the client interceptor, before the wire
		}
		st, _ := status.FromError(err)
		switch {
		case called:
			return wireOutcome{Class: "other: handler called but the call failed: " + err.Error()}
		case st.Message() == user.ErrNoOrgID.Error():
			return wireOutcome{Class: "no_id"} // refused by the server interceptor
		default:
			return wireOutcome{Class: "transport", Note: err.Error()}
		}
	}
	if !called || ierr != nil {
		return wireOutcome{Class: fmt.Sprintf("other: called=%v err=%v", called, ierr)}
	}
	return wireOutcome{Class: "delivered", ID: id}
}

// TestWireProbe prints how the real stacks treat a few concrete ids (development aid).
func TestWireProbe(t *testing.T) {
	if envFor("VERIF_WIRE_PROBE", "") == "" {
		t.Skip("VERIF_WIRE_PROBE not set")
	}
	w, err := newWireRig()
	if err != nil {
		t.Fatal(err)
	}
	defer w.close()
	ids := []string{"tenant-a", "a|b:k=v", "a b", "a ", " a", "a\t", "\ta", "a\x00b", "a\nb", "a\rb", "a\xc3b", "a\x7fb", "\xc3", strings.Repeat("x", 300), strings.Repeat("x", 70000), "", "Ünï"}
	for _, id := range ids {
		ctx := user.InjectOrgID(context.Background(), id)
		h := w.httpHop(ctx, nil)
		g := w.grpcHop(ctx, false, nil)
		gs := w.grpcHop(ctx, true, nil)
		show := id
		if len(show) > 20 {
			show = fmt.Sprintf("%s...(%d)", show[:10], len(show))
		}
		t.Logf("%-24q http=%s same=%v %s | grpc=%s same=%v %s | stream=%s same=%v", show, h.Class, h.ID == id, h.Note, g.Class, g.ID == id, g.Note, gs.Class, gs.ID == id)
	}
	t.Logf("foreign http 2 values: %+v", w.httpHop(nil, []string{"a", "b"}))
	t.Logf("foreign http none: %+v", w.httpHop(nil, nil))
	t.Logf("foreign grpc 2 values: %+v", w.grpcHop(nil, false, []string{"a", "b"}))
	t.Logf("foreign grpc 1 value: %+v", w.grpcHop(nil, false, []string{"a"}))
	t.Logf("foreign grpc none: %+v", w.grpcHop(nil, true, nil))
}

func wireEmbeddings() []embedding {
	return []embedding{
		{"plain / NUL / high byte / trailing blank", map[int]string{1: "tenant-a", 2: "tenant-b", 3: "a\x00b", 4: "a\xc3b", 5: "tenant-a "}},
		{"multi-tenant+metadata / CRLF / UTF-8 / leading blank", map[int]string{1: "a|b:k=v", 2: "a|b:k=w", 3: "x\r\ny", 4: "\xc3\x9cn\xc3\xaf", 5: " a|b:k=v"}},
	}
}

func (e embedding) inverse(s string) int {
	if s == "" {
		return 0
	}
	for id, v := range e.ids {
		if v == s {
			return id
		}
	}
	return -2
}

func wirePost(e embedding, o wireOutcome) propPost {
	p := propPost{At: "rejected", Ctx: -1, Hdr: []int{}, Md: []int{}, Err: o.Class}
	if o.Class == "delivered" {
		p.At, p.Ctx, p.Err = "ctx", e.inverse(o.ID), ""
	}
	return p
}

// TestReplayWire: the behaviours of Propagation.tla's wire configuration on the real stacks.
func TestReplayWire(t *testing.T) {
	in := envFor("VERIF_IN", "WIRE")
	if in == "" {
		t.Skip("VERIF_IN_WIRE not set")
	}
	res := &abs.Result{}
	w, err := newWireRig()
	if err != nil {
		res.Fatal = err.Error()
		writeResult(t, res, "wire_replay")
		return
	}
	defer w.close()
	embs := wireEmbeddings()
	hops := map[string]int{}
	outcomes := map[string]int{}
	owsTrimmed := 0
	// the Sig of open finding F11; VERIF_C20_OWS_SIG overrides it in scratch runs that exercise the unmatched path
	owsSig := "wire:http-ows-trim"
	if v := envFor("VERIF_C20_OWS_SIG", ""); v != "" {
		owsSig = v
	}
	err = abs.ReadNDJSON(in, func(line []byte) error {
		var b propBehaviour
		if err := json.Unmarshal(line, &b); err != nil {
			return err
		}
		if len(b.Hist) == 0 || b.Hist[0].A != "Start" {
			return fmt.Errorf("behaviour without Start")
		}
		res.Cases++
		nontrivial := false
		for _, e := range embs {
			p := guard(func() {
				start := b.Hist[0].Post
				var ctx context.Context // nil while the chain is still at a foreign request
				if start.At == "ctx" {
					ctx = context.Background()
					if start.Ctx >= 0 {
						ctx = user.InjectOrgID(ctx, e.str(start.Ctx))
					}
				}
				for i, st := range b.Hist[1:] {
					var outs []struct {
						via string
						o   wireOutcome
					}
					add := func(via string, o wireOutcome) {
						outs = append(outs, struct {
							via string
							o   wireOutcome
						}{via, o})
					}
					switch st.A {
					case "HTTPWire":
						add("net/http+AuthenticateUser", w.httpHop(ctx, e.strs(st.Pre)))
					case "HTTPWireIn":
						add("net/http+AuthenticateUser", w.httpHop(nil, e.strs(start.Hdr)))
					case "GRPCWire":
						c := ctx
						if st.Present {
							c = metadata.NewOutgoingContext(c, metadata.MD{strings.ToLower(user.OrgIDHeaderName): e.strs(st.Pre)})
						}
						add("grpc unary interceptors", w.grpcHop(c, false, nil))
						add("grpc stream interceptors", w.grpcHop(c, true, nil))
					case "GRPCWireIn":
						add("grpc unary server interceptor", w.grpcHop(nil, false, e.strs(start.Md)))
						add("grpc stream server interceptor", w.grpcHop(nil, true, e.strs(start.Md)))
					default:
						res.Fatal = "unknown wire action " + st.A
						return
					}
					hops[st.A]++
					for _, x := range outs {
						got := wirePost(e, x.o)
						outcomes[x.o.Class]++
						if !samePost(got, st.Post) {
							sig := fmt.Sprintf("wire:%s via %s want=%s/%s got=%s/%s", st.A, x.via, st.Post.At, st.Post.Err, got.At, got.Err)
							// open finding F11: the real HTTP stack delivers the id without its outer SP / HTAB.
							// Only that exact alteration on an HTTP wire hop gets this Sig; any other difference keeps its own.
							if (st.A == "HTTPWire" || st.A == "HTTPWireIn") && st.Post.At == "ctx" && x.o.Class == "delivered" {
								want := e.str(st.Post.Ctx)
								if x.o.ID != want && x.o.ID == strings.Trim(want, " \t") {
									sig = owsSig + " " + st.A
									owsTrimmed++
								}
							}
							res.Mismatch(abs.Mismatch{
								Sig:  sig,
								Case: map[string]any{"behaviour": b, "hop": i + 1, "embedding": e.name, "ids": map[string][]int{"1": s2b(e.ids[1]), "5": s2b(e.ids[5])}},
								Got:  map[string]any{"post": got, "delivered_bytes": s2b(x.o.ID), "note": x.o.Note}, Want: st.Post,
							})
						}
					}
					if st.Post.At != "ctx" {
						nontrivial = true
						return
					}
					// continue with what the specification says was delivered
					if st.Present || len(st.Pre) > 0 {
						nontrivial = true
					}
					ctx = user.InjectOrgID(context.Background(), e.str(st.Post.Ctx))
				}
			})
			if p != "" {
				res.Mismatch(abs.Mismatch{Sig: "wire:panic", Case: map[string]any{"behaviour": b, "embedding": e.name}, Got: p, Want: "no panic"})
			}
		}
		if nontrivial {
			res.Nontrivial++
		}
		if res.Cases%577 == 1 {
			res.Sample(b)
		}
		return nil
	})
	if err != nil && res.Fatal == "" {
		res.Fatal = err.Error()
	}
	res.AddExtra("wire_hops_by_action", hops)
	res.AddExtra("wire_outcomes", outcomes)
	res.AddExtra("wire_http_hops_delivering_a_trimmed_id", owsTrimmed)
	writeResult(t, res, "wire_replay")
}
