"""C08 - a lifecycler edits only its own ring entry and follows the state machine.

spec/lifecycler/Lifecycler.tla + BasicLifecycler.tla: TLC decides OwnEntryOnly, StateEdges, RefusedUntouched,
HeartbeatMonotone, HeartbeatFresh, RegisteredOnce, ActivationTokens, ReadyImpliesActive on exhaustive bounded
configurations; harness/c08 TestRecordC08 records free-running seeded schedules of 1..5 real lifecyclers of both
kinds and LifecyclerTrace.tla validates every recorded store operation and every ring version against the
specification.
"""
import os

import lifecycler_common as lc

# CAS-retry extension (Stall / Unstall, MC_c08s, harness/c08 TestRecordConflicts): built and green by hand on the unchanged
# tree (76 traces accepted, seed 1) and it flags seeded change C08-b1, but a complete `bin/check C08` run on the unchanged tree
# was not finished before the round closed - enable with VERIF_C08_CONFLICTS=1 (or flip the default after one green run).
CONFLICTS = os.environ.get("VERIF_C08_CONFLICTS", "") == "1"

PROPERTY = "C08"
META = {
    "level_text": "TLC model-checks the lifecycler specification (classic Lifecycler: initRing's five branches, autoJoin, "
                  "verifyTokens, updateConsul, changeState table, read-only, ClaimTokensFor, shutdown; BasicLifecycler with "
                  "InstanceRegister/TokensPersistency/AutoForget/LeaveOnStopping delegates) exhaustively for 2 lifecyclers, "
                  "2 tokens of 5 positions, join-after/observe/heartbeat periods 0..1 and a bounded clock, deciding every clause "
                  "of the property as an invariant or action property. The real code is bound by record/validate: 1..5 real "
                  "lifecyclers of both kinds share one in-memory store under the synctest clock; every CAS is attributed to its "
                  "writer and logged at the commit, and TLC accepts a trace only if each event is an enabled action of its "
                  "writer applied to the logged input and every property holds on every ring version ever written. "
                  "With VERIF_C08_CONFLICTS=1 (not in the default tiers yet) CAS retries are part of the universe: the specification has Stall / Unstall (a lifecycler inside a store call "
                  "whose first attempt lost a race does nothing while the others and the environment go on; only the last "
                  "evaluation of the callback is the action; MC_c08s, thorough), and for every CAS call of 6 (thorough: 12) scenarios the "
                  "first attempt is lost once per interloper (a third lifecycler joins / a basic one registers / the bystander "
                  "rewrites its entry or starts leaving / nobody writes) with token generators that propose the lowest free "
                  "tokens, so whatever a lost attempt computed must not survive into the retry.",
    "level_note": "Exhaustive only within the stated bounds; larger populations and longer runs are sampled by seeded schedules "
                  "(record/validate), not enumerated. Trusted: TLC, testing/synctest, the recording kv.Client wrapper (one atomic "
                  "step per CAS), the rank compression of tokens, the scripted TokenGenerator. Time is whole seconds; steps never "
                  "fall exactly on a second boundary. ClaimTokensFor is exercised only under its documented precondition "
                  "(source LEAVING, claimer registered). A lost CAS attempt is modelled as leaving no trace; a lifecycler is "
                  "not sampled and not driven while it is stalled, no time passes during a stall, and at most one call per "
                  "trace is retried (once). The gossip KV (token conflicts repaired by verifyTokens) is out of scope here.",
    "technique": "TLA+ specification model-checked by TLC; traces recorded from the real code validated against it by TLC",
    "design_ref": "DESIGN.md 2 C08",
}


def run(ctx):
    ctx.rule = ("one case = one recorded trace (a seeded schedule of start / external ChangeState incl. disallowed edges / "
                "read-only / claim / CheckReady / stop / sleep / wipe / reject over 1..5 lifecyclers of both kinds) accepted by "
                "LifecyclerTrace.tla, or a scenario with the first attempt of one CAS call of the target lost (scenario x incarnation x "
                "call index x interloper); non-trivial = at least 5 committed ring writes; distinct = distinct seeds x index")
    ctx.assumptions = ["store = consul in-memory client behind a recording wrapper that makes each CAS one atomic step",
                       "virtual clock of testing/synctest; whole seconds, no step exactly on a second boundary",
                       "tokens rank-compressed through a 16-position boundary embedding; scripted TokenGenerator"]
    if ctx.tier == "quick":
        lc.model_check(ctx, ["MC_c08a", "MC_c08b_quick", "MC_c08r"], timeout=600)
        lc.negative_control(ctx, "MC_c08r_neg", "ReadyImpliesActive")
        lc.record_and_validate(ctx, "TestRecordC08", {"VERIF_TRACES": 100, "VERIF_NT_FIXED": 1}, timeout_tlc=600, label="record/validate")
        if CONFLICTS:
            lc.record_and_validate(ctx, "TestRecordConflicts", {"VERIF_CONFLICTS": "quick"}, timeout_tlc=600, label="CAS-retry record/validate")
    else:
        lc.model_check(ctx, ["MC_c08a", "MC_c08a_t", "MC_c08b", "MC_c08r"] + (["MC_c08s"] if CONFLICTS else []), timeout=2400)
        lc.negative_control(ctx, "MC_c08r_neg", "ReadyImpliesActive")
        lc.record_and_validate(ctx, "TestRecordC08", {"VERIF_TRACES": 1200, "VERIF_SYSLEN": 4}, timeout_go=1500, timeout_tlc=2400,
                               label="record/validate")
        if CONFLICTS:
            lc.record_and_validate(ctx, "TestRecordConflicts", {"VERIF_CONFLICTS": "full"}, timeout_go=1500, timeout_tlc=2400,
                                   label="CAS-retry record/validate")
    return "model_checking"
