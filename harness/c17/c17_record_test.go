package c17

// code -> spec: TestRecord lets free-running goroutines race the whole API of real BasicServices
// (no gates) and logs only what is visible from outside: call/return of API calls, begin/end of
// the three service functions and of listener callbacks. Every event takes a stamp from one
// atomic counter (before a call is made, after it returned), which is a sound real-time order.
// spec/services/ServiceTrace.tla lets TLC infer the unlogged critical sections.

import (
	"context"
	"errors"
	"fmt"
	"math/rand"
	"os"
	"runtime"
	"sort"
	"strings"
	"sync"
	"sync/atomic"
	"testing"
	"time"

	"verifharness/internal/abs"

	"github.com/grafana/dskit/services"
)

type tev struct {
	T   int      `json:"t"`
	Seq int64    `json:"seq"`
	E   string   `json:"e"` // call | ret | fn.begin | fn.end | cb.begin | cb.end
	P   int      `json:"p"` // harness process (0 for goroutines of the code)
	N   int      `json:"n"` // caller / listener / waiter index
	S   string   `json:"s"` // API call or function name
	V   []string `json:"v"` // result / event
}

type recorder struct {
	t   int
	n   atomic.Int64
	buf []tev
}

func (r *recorder) log(e string, p, n int, s string, v []string) {
	if v == nil {
		v = []string{}
	}
	k := r.n.Add(1)
	if int(k) <= len(r.buf) {
		r.buf[k-1] = tev{T: r.t, Seq: k, E: e, P: p, N: n, S: s, V: v}
	}
}

type recListener struct {
	r   *recorder
	i   int
	rng *rand.Rand
}

func (l *recListener) ev(to, from, e string) {
	l.r.log("cb.begin", 0, l.i, "", []string{to, from, e})
	if l.rng.Intn(2) == 0 {
		runtime.Gosched()
	}
	l.r.log("cb.end", 0, l.i, "", nil)
}
func (l *recListener) Starting()                           { l.ev("Starting", "New", "none") }
func (l *recListener) Running()                            { l.ev("Running", "Starting", "none") }
func (l *recListener) Stopping(from services.State)        { l.ev("Stopping", from.String(), "none") }
func (l *recListener) Terminated(from services.State)      { l.ev("Terminated", from.String(), "none") }
func (l *recListener) Failed(from services.State, e error) { l.ev("Failed", from.String(), nameOf(e)) }

const (
	recProcs   = 4 // general processes 1..4; 5, 6 = waiters; 7 = finisher
	recCallers = 4 // StopAsync callers 1..3 raced, 4 = finisher
)

// recordOne runs one scenario and returns its events sorted by stamp, plus panics of StopAsync.
func recordOne(tid int, rng *rand.Rand) ([]tev, []string, error) {
	r := &recorder{t: tid, buf: make([]tev, 4096)}
	pick := func(p int, a, b string) string {
		if rng.Intn(100) < p {
			return a
		}
		return b
	}
	startRes, runRes, stopRes := pick(20, "estart", "none"), pick(25, "erun", "none"), pick(25, "estop", "none")
	startBlocks := rng.Intn(2) == 0
	releaseStart, releaseRun := make(chan struct{}), make(chan struct{})
	var once1, once2 sync.Once
	relStart := func() { once1.Do(func() { close(releaseStart) }) }
	relRun := func() { once2.Do(func() { close(releaseRun) }) }
	var svc *services.BasicService
	svc = services.NewBasicService(
		func(ctx context.Context) error {
			r.log("fn.begin", 0, 0, "start", nil)
			if startBlocks {
				select {
				case <-ctx.Done():
				case <-releaseStart:
				}
			}
			r.log("fn.end", 0, 0, "start", []string{startRes})
			return errOf(startRes)
		},
		func(ctx context.Context) error {
			r.log("fn.begin", 0, 0, "run", nil)
			select {
			case <-ctx.Done():
			case <-releaseRun:
			}
			r.log("fn.end", 0, 0, "run", []string{runRes})
			return errOf(runRes)
		},
		func(failure error) error {
			c := "live"
			if x := svc.ServiceContext(); x != nil && x.Err() != nil {
				c = "done"
			}
			r.log("fn.begin", 0, 0, "stop", []string{c, nameOf(failure)})
			r.log("fn.end", 0, 0, "stop", []string{stopRes})
			return errOf(stopRes)
		})
	parent, pcancel := context.WithCancel(context.Background())
	defer pcancel()
	wctx := make([]context.Context, 3)
	wcancel := make([]context.CancelFunc, 3)
	wcalled := []chan struct{}{nil, make(chan struct{}), make(chan struct{})}
	for w := 1; w <= 2; w++ {
		wctx[w], wcancel[w] = context.WithCancel(context.Background())
		defer wcancel[w]()
	}
	var panics []string
	var pmu sync.Mutex

	type opT struct {
		name string
		n    int
	}
	// the pool of raced calls
	pool := []opT{{"StartAsync", 0}, {"StopAsync", 1}, {"StopAsync", 2}, {"AddListener", 1}, {"AddListener", 2},
		{"State", 0}, {"State", 0}, {"State", 0}, {"FailureCase", 0}, {"relStart", 0}}
	if rng.Intn(100) < 35 {
		pool = append(pool, opT{"StartAsync", 0})
	}
	if rng.Intn(100) < 50 {
		pool = append(pool, opT{"StopAsync", 3})
	}
	if rng.Intn(100) < 30 {
		pool = append(pool, opT{"ParentCancel", 0})
	}
	if rng.Intn(100) < 50 {
		pool = append(pool, opT{"relRun", 0})
	}
	if rng.Intn(100) < 25 {
		pool = append(pool, opT{"AwaitCancel", 1 + rng.Intn(2)})
	}
	if rng.Intn(100) < 30 { // drop some calls so that not every scenario has everything
		k := rng.Intn(len(pool))
		pool = append(pool[:k], pool[k+1:]...)
	}
	rng.Shuffle(len(pool), func(i, j int) { pool[i], pool[j] = pool[j], pool[i] })
	procs := make([][]opT, recProcs+1)
	for _, o := range pool {
		p := 1 + rng.Intn(recProcs)
		procs[p] = append(procs[p], o)
		if o.name == "AddListener" && rng.Intn(2) == 0 {
			procs[p] = append(procs[p], opT{"Remove", o.n}) // the same process owns the remove function
		}
	}
	// seeded pauses between the calls of a process, so that the processes really interleave
	yields := make([][]int, recProcs+1)
	for p := range procs {
		for range procs[p] {
			y := 0
			if rng.Intn(3) != 0 {
				y = 1 + rng.Intn(4)
			}
			yields[p] = append(yields[p], y)
		}
	}
	lis := []*recListener{nil, {r: r, i: 1, rng: rand.New(rand.NewSource(rng.Int63()))}, {r: r, i: 2, rng: rand.New(rand.NewSource(rng.Int63()))}}
	rm := make([]func(), 3)

	do := func(p int, o opT) {
		switch o.name {
		case "relStart":
			relStart()
		case "relRun":
			relRun()
		case "StartAsync":
			r.log("call", p, 0, o.name, nil)
			// the parent's Done method (called by StartAsync where it derives the service context) yields the
			// processor, so that the racing calls of the other processes overlap StartAsync's critical section
			err := svc.StartAsync(yieldingCtx{parent})
			res := "ok"
			if err != nil {
				res = "?" + err.Error()
				if m := invalidStateRe.FindStringSubmatch(err.Error()); m != nil && m[2] == "New" {
					res = m[1]
				}
			}
			r.log("ret", p, 0, o.name, []string{res})
		case "StopAsync":
			r.log("call", p, o.n, o.name, nil)
			res := "ok"
			func() {
				defer func() {
					if x := recover(); x != nil {
						res = "panic"
						pmu.Lock()
						panics = append(panics, fmt.Sprint(x))
						pmu.Unlock()
					}
				}()
				svc.StopAsync()
			}()
			r.log("ret", p, o.n, o.name, []string{res})
		case "ParentCancel":
			r.log("call", p, 0, o.name, nil)
			pcancel()
			r.log("ret", p, 0, o.name, nil)
		case "AddListener":
			r.log("call", p, o.n, o.name, nil)
			rm[o.n] = svc.AddListener(lis[o.n])
			r.log("ret", p, o.n, o.name, nil)
		case "Remove":
			r.log("call", p, o.n, o.name, nil)
			rm[o.n]()
			r.log("ret", p, o.n, o.name, nil)
		case "State":
			r.log("call", p, 0, o.name, nil)
			st := svc.State()
			r.log("ret", p, 0, o.name, []string{st.String()})
		case "FailureCase":
			r.log("call", p, 0, o.name, nil)
			f := svc.FailureCase()
			r.log("ret", p, 0, o.name, []string{nameOf(f)})
		case "AwaitCancel":
			<-wcalled[o.n]
			r.log("call", p, o.n, o.name, nil)
			wcancel[o.n]()
			r.log("ret", p, o.n, o.name, nil)
		}
	}
	await := func(p, w int) {
		r.log("call", p, w, "Await", nil)
		close(wcalled[w])
		var err error
		exp := "Terminated"
		if w == 1 {
			exp = "Running"
			err = svc.AwaitRunning(wctx[w])
		} else {
			err = svc.AwaitTerminated(wctx[w])
		}
		var res []string
		switch {
		case err == nil:
			res = []string{"ok"}
		case wctx[w].Err() != nil && errors.Is(err, context.Canceled):
			res = []string{"ctx"}
		default:
			res = []string{"?" + err.Error()}
			if m := invalidStateRe.FindStringSubmatch(err.Error()); m != nil && m[2] == exp {
				res = []string{m[1], nameOf(errors.Unwrap(err))}
			}
		}
		r.log("ret", p, w, "Await", res)
	}

	start := make(chan struct{})
	var general, waiters sync.WaitGroup
	for p := 1; p <= recProcs; p++ {
		general.Add(1)
		go func(p int) {
			defer general.Done()
			<-start
			for k, o := range procs[p] {
				for y := 0; y < yields[p][k]; y++ {
					runtime.Gosched()
				}
				do(p, o)
			}
		}(p)
	}
	for w := 1; w <= 2; w++ {
		waiters.Add(1)
		go func(w int) {
			defer waiters.Done()
			<-start
			await(recProcs+w, w)
		}(w)
	}
	close(start)
	done := make(chan struct{})
	go func() {
		general.Wait()
		// finisher: let everything end
		relStart()
		relRun()
		do(recProcs+3, opT{"StopAsync", recCallers})
		waiters.Wait()
		_ = svc.AwaitTerminated(context.Background())
		close(done)
	}()
	select {
	case <-done:
	case <-time.After(60 * time.Second):
		return nil, nil, fmt.Errorf("scenario %d did not finish", tid)
	}
	// Stop the listener goroutines that are still alive (an unlogged remove: the specification does not
	// have to explain events that were never logged) so that nobody writes to the log any more.
	for l := 1; l <= 2; l++ {
		if rm[l] != nil {
			rm[l]()
		}
	}
	n := int(r.n.Load())
	if n > len(r.buf) {
		return nil, nil, fmt.Errorf("scenario %d: event buffer overflow", tid)
	}
	evs := append([]tev{}, r.buf[:n]...)
	for _, e := range evs {
		if e.Seq == 0 { // a slot reserved but not yet written by a still-running listener goroutine
			return nil, nil, fmt.Errorf("scenario %d: unwritten event slot", tid)
		}
	}
	sort.Slice(evs, func(a, b int) bool { return evs[a].Seq < evs[b].Seq })
	return evs, panics, nil
}

// TestRecord writes $VERIF_TRACE (ndjson, one event per line, traces numbered 1..$VERIF_NTRACES).
func TestRecord(t *testing.T) {
	res := &abs.Result{}
	defer res.Write(t)
	out := os.Getenv("VERIF_TRACE")
	if out == "" {
		res.Fatal = "VERIF_TRACE not set"
		return
	}
	n := abs.EnvInt("VERIF_NTRACES", 100)
	w, err := abs.NewNDJSONWriter(out)
	if err != nil {
		res.Fatal = err.Error()
		return
	}
	defer w.Close()
	rng := rand.New(rand.NewSource(abs.Seed()*7919 + 17))
	events, withRace := 0, 0
	corrupt := os.Getenv("VERIF_C17_CORRUPT") == "trace"
	for tid := 1; tid <= n; tid++ {
		evs, panics, err := recordOne(tid, rand.New(rand.NewSource(rng.Int63())))
		if err != nil {
			res.Fatal = err.Error()
			return
		}
		for _, p := range panics {
			res.Mismatch(abs.Mismatch{Sig: panicSig(p), Case: map[string]any{"trace": tid}, Got: "panic: " + p, Want: "StopAsync returns",
				Note: "free-running goroutines"})
		}
		if corrupt && tid == n/2+1 {
			corruptTrace(evs)
		}
		overlap := 0
		pending := 0
		for _, e := range evs {
			switch e.E {
			case "call":
				pending++
				if pending > 1 && e.S != "Await" {
					overlap++
				}
			case "ret":
				pending--
			}
			if err := w.Write(e); err != nil {
				res.Fatal = err.Error()
				return
			}
		}
		events += len(evs)
		if overlap > 0 {
			withRace++
		}
		res.Cases++
		if tid <= 1 {
			var lines []string
			for _, e := range evs {
				lines = append(lines, fmt.Sprintf("%s p%d %s%d %v", e.E, e.P, e.S, e.N, e.V))
			}
			res.Sample(strings.Join(lines, "; "))
		}
	}
	res.Nontrivial = withRace
	failureWatcherProbe(t, res)
	res.AddExtra("trace_events", events)
	res.AddExtra("traces_with_overlapping_calls", withRace)
}

// corruptTrace changes one logged result (development aid: the validator must then reject the trace).
func corruptTrace(evs []tev) {
	for i := len(evs) - 1; i >= 0; i-- {
		if evs[i].E == "ret" && evs[i].S == "State" && len(evs[i].V) == 1 {
			if evs[i].V[0] == "Starting" {
				evs[i].V = []string{"Running"}
			} else {
				evs[i].V = []string{"Starting"}
			}
			return
		}
	}
	for i := range evs {
		if evs[i].E == "cb.begin" {
			evs[i].V = []string{"Running", "New", "none"}
			return
		}
	}
}

// yieldingCtx is a parent context whose Done method gives the processor away a few times before answering.
type yieldingCtx struct{ context.Context }

func (y yieldingCtx) Done() <-chan struct{} {
	for i := 0; i < 4; i++ {
		runtime.Gosched()
	}
	return y.Context.Done()
}
