\* partition ring, validity windows: 3 partitions in every state / state time, map cache and LRU caches of capacity 1 and 2
\* over 2 sizes, look-back queries at any time in any order
CONSTANTS
  Part = {1, 2, 3}
  Owners = {1}
  PIdent = {1}
  PSizes = {1, 2}
  PLookbacks = {1}
  PTimes = {2, 3, 4, 5}
  Capacities = {0, 1, 2}
  PMaxUpd = 0
  PStates = {"PENDING", "ACTIVE", "INACTIVE"}
  PStamps = {2, 3}
  PToks = {0, 1}
  PCompute <- MCPCompute
  PInitDescs <- MCPInitDescs
INIT PInit
NEXT PNext
INVARIANTS PTypeOK PUnobservable
