CONSTANTS
  NC = 1
  NL = 1
  WRun = {}
  WTerm = {}
  QCap = 4
  MaxIters = 2
  MaxStart = 1
  ParentCancels = TRUE
  Presents = {{"start","run","stop"}}
  RunModes = {"any","idle","timer"}
  GuardNilCancel = @@GUARD@@
SPECIFICATION Spec
INVARIANTS TypeOK ChainedHistory SwitchNeverFails FnOrder RunOnlyAfterStart StopFnIffStarted CtxCancelledBeforeStopFn StopFnGetsRunError ContextReleased ContextOnceStarted WaitersExact NoDoubleClose FirstErrorWins ListenerOrder NotifierNeverBlocks @@NONIL@@ 
PROPERTIES LegalTransitions EventuallyTerminal StopLeadsToTerminal ListenersDrain
CHECK_DEADLOCK FALSE
