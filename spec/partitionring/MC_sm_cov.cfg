CONSTANTS
  NP = 2
  NL = 2
  NO = 2
  MaxClock = 1000
  AgeCap = 2
  Multi = FALSE
  LCfg <- Cfg2q
  TokOf <- Tok2
  Homes <- Homes2q
  WaitModes = {2}
  LockParts = {1}
  ReqStates = {"P", "A", "I", "D"}
INIT Init
NEXT Next
VIEW ageview
INVARIANTS TypeOK
PROPERTIES LegalEdges LockRespected PromotionTiming DeletionGuard LockOnlyByEditor RefusedIsNoWrite
CHECK_DEADLOCK FALSE
