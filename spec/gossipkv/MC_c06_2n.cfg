\* C06 thorough (safety, 2 nodes, all fault kinds): 2 nodes, 2 ids, clock 0..1, no tombstone collection, 2 CAS, 1 fault (garbage
\* packet, junk push/pull, partition, restart), blocking watcher on node 1.
CONSTANTS
  N = 2
  NI = 2
  MaxClock = 1
  Retention = 0
  T = 1
  MaxCas = 2
  MaxFaults = 1
  LiveStates = {"ACTIVE"}
  WatchNodes = {1, 2}
  HoldNodes = {1}
  AllowRestart = TRUE
  AllowGarbage = TRUE
  AllowPartition = TRUE
  AllowJunkPP = TRUE
  ConsumeNet = FALSE
  Ideal = TRUE
  Ghost = TRUE
  Record = FALSE
  Quiesce = FALSE
  RunDepth = 0
  QRounds = 2
SPECIFICATION Spec
VIEW view
INVARIANTS TypeOK TombstonesInvisible InvalidationSafe NoInventedContent SentIsWritten WatcherNeverStale VersionCountsChanges
PROPERTIES TombstonesForwarded NoResurrection GCOnlyExpired NoExpiredTombstoneStored OnlyChangesForwarded
CHECK_DEADLOCK FALSE
