// Package c13 records differential traces for spec/ringclient (C13): a long-lived ring.Ring with
// the subring caches enabled and a PartitionRingWatcher receive every descriptor update through
// the watch path of the in-memory Consul store; after every step a fresh, cache-less client is
// built from the store's latest content and both are asked the same batch of queries. Updates and
// query answers (long-lived and fresh) are logged; RingClientTrace.tla / PartitionClientTrace.tla
// replay the updates through the specification's classification and cache rules and compare.
package c13

import (
	"context"
	"crypto/sha256"
	"encoding/hex"
	"encoding/json"
	"fmt"
	"io"
	"math"
	"math/rand"
	"os"
	"regexp"
	"runtime"
	"sort"
	"strings"
	"sync"
	"sync/atomic"
	"testing"
	"testing/synctest"
	"time"

	"verifharness/internal/abs"

	"github.com/go-kit/log"
	"github.com/gogo/protobuf/proto"
	"github.com/grafana/dskit/kv"
	"github.com/grafana/dskit/kv/consul"
	"github.com/grafana/dskit/kv/memberlist"
	"github.com/grafana/dskit/ring"
	"github.com/grafana/dskit/services"
)

const (
	ringKey     = "ring"
	partKey     = "partitions"
	timeBase    = 100000 // logged time = unix - bubble epoch + timeBase (0 stays 0 = unset)
	hbTimeout   = 10 * time.Second
	maxInst     = 8
	maxPart     = 6
	numIdent    = 4
	maxMismatch = 50
)

var (
	sizesMenu     = []int{0, 1, 2, 3, 5, 20}
	lookbackMenu  = []int{1, 2, 3, 5, 8} // seconds
	zonesMenu     = []string{"z1", "z2", "z3"}
	statesMenu    = []ring.InstanceState{ring.ACTIVE, ring.LEAVING, ring.PENDING, ring.JOINING, ring.LEFT}
	customOp      = ring.NewOp([]ring.InstanceState{ring.ACTIVE, ring.JOINING}, func(s ring.InstanceState) bool { return s == ring.LEAVING })
	opsMenu       = []ring.Operation{ring.Write, ring.WriteNoExtend, ring.Read, ring.Reporting, customOp}
	opNames       = []string{"Write", "WriteNoExtend", "Read", "Reporting", "Custom"}
	pstatesMenu   = []ring.PartitionState{ring.PartitionPending, ring.PartitionActive, ring.PartitionInactive}
	updateKinds   = []string{"equal", "heartbeat", "heartbeat_all", "state", "hbstate", "token", "zone", "addr", "reg", "ro_flag", "ro_time", "ro_both", "add", "remove", "replace",
		// changes that keep the aggregates the indexes are built from (token list, zone set, per-zone counts, read-only
		// count, oldest registration) while the content moves between instances; time stamps going backwards / into the future
		"tok_swap", "zone_swap", "zone_rename", "ro_swap", "reg_swap", "ts_back", "handover", "multi"} // multi stays last
	pUpdateKinds  = []string{"equal", "pstate", "pstate_ts", "ptoken", "padd", "premove", "owner_add", "owner_remove", "owner_touch",
		"pswap", "ptok_swap", "owner_swap", "pmulti"} // pmulti stays last
	boundaryToken = []uint32{0, 1, 2, math.MaxUint32 - 1, math.MaxUint32}
)

// ---------------------------------------------------------------------------------------------
// recording
// ---------------------------------------------------------------------------------------------

type recorder struct {
	ti, tp *abs.NDJSONWriter // instance-ring trace, partition-ring trace
	recs   *abs.NDJSONWriter // record table: line k = record k
	recID  map[string]int
	tokID  map[string]int
	epoch  int64
	res    *abs.Result
	hits   int
	short  int // queries served while a shortcut was in effect
	mu     sync.Mutex
}

func (rc *recorder) rel(t int64) int64 {
	if t == 0 {
		return 0
	}
	return t - rc.epoch + timeBase
}

func instNo(id string) int {
	var n int
	if _, err := fmt.Sscanf(id, "i-%d", &n); err != nil {
		return 99
	}
	return n
}

func zoneNo(z string) int {
	for i, n := range zonesMenu {
		if n == z {
			return i + 1
		}
	}
	if z == "" {
		return 0
	}
	return 9
}

func addrNo(a string) int {
	var n int
	if _, err := fmt.Sscanf(a, "a-%d", &n); err != nil {
		return -1
	}
	return n
}

func (rc *recorder) tokens(t []uint32) int {
	rc.mu.Lock()
	defer rc.mu.Unlock()
	return rc.tokensLocked(t)
}

func (rc *recorder) tokensLocked(t []uint32) int {
	k := fmt.Sprint(t)
	if id, ok := rc.tokID[k]; ok {
		return id
	}
	id := len(rc.tokID) + 1
	rc.tokID[k] = id
	return id
}

// rec interns the projection of an instance (the fields the property lists) and returns its id.
func (rc *recorder) rec(d ring.InstanceDesc) int {
	rc.mu.Lock()
	defer rc.mu.Unlock()
	m := map[string]any{
		"addr": addrNo(d.Addr), "zone": zoneNo(d.Zone), "tok": rc.tokensLocked(d.Tokens), "ntok": len(d.Tokens),
		"reg": rc.rel(d.RegisteredTimestamp), "ro": d.ReadOnly, "rots": rc.rel(d.ReadOnlyUpdatedTimestamp),
		"state": d.State.String(), "ts": rc.rel(d.Timestamp),
	}
	b, _ := json.Marshal(m)
	k := string(b)
	if id, ok := rc.recID[k]; ok {
		return id
	}
	id := len(rc.recID) + 1
	rc.recID[k] = id
	if err := rc.recs.Write(json.RawMessage(b)); err != nil {
		panic(err)
	}
	return id
}

type pair [2]int

// pairsOf projects a list of instances to [instance number, record id]; sorted unless ordered.
func (rc *recorder) pairsOf(ds []ring.InstanceDesc, ordered bool) []pair {
	out := make([]pair, 0, len(ds))
	for _, d := range ds {
		out = append(out, pair{instNo(d.Id), rc.rec(d)})
	}
	if !ordered {
		sort.Slice(out, func(i, j int) bool { return out[i][0] < out[j][0] })
	}
	return out
}

// digest shortens a canonical answer string; the trace specification only compares them.
func digest(s string) string {
	if len(s) <= 24 {
		return s
	}
	h := sha256.Sum256([]byte(s))
	return "#" + hex.EncodeToString(h[:10])
}

// xs logs the two "everything else" strings as digests; the full text is added only when they
// differ (diagnostics for the replay file, the verdict is the trace specification's).
func xs(m map[string]any, lx, fx string) map[string]any {
	m["lx"], m["fx"] = digest(lx), digest(fx)
	if lx != fx {
		m["lxfull"], m["fxfull"] = lx, fx
	}
	return m
}

func js(v any) string {
	b, err := json.Marshal(v)
	if err != nil {
		return "marshal:" + err.Error()
	}
	return string(b)
}

// ---------------------------------------------------------------------------------------------
// projections of the read API (identical code for the long-lived and the fresh client)
// ---------------------------------------------------------------------------------------------

type answer struct {
	M []pair // instances with their records
	X string // everything else, canonical
}

func guard(f func() answer) (a answer) {
	defer func() {
		if r := recover(); r != nil {
			a = answer{M: []pair{}, X: fmt.Sprintf("PANIC: %v", r)}
		}
	}()
	a = f()
	if a.M == nil {
		a.M = []pair{}
	}
	return a
}

var partitionPrefix = regexp.MustCompile(`^partition \d+: `)

// errStr is the error text without the parts that depend on Go map iteration order.
func errStr(err error) string {
	if err == nil {
		return ""
	}
	return partitionPrefix.ReplaceAllString(err.Error(), "partition N: ")
}

func (rc *recorder) replicationSet(rs ring.ReplicationSet, err error, ordered bool) answer {
	if err != nil {
		return answer{M: []pair{}, X: "err:" + errStr(err)}
	}
	return answer{M: rc.pairsOf(rs.Instances, ordered), X: fmt.Sprintf("e=%d z=%d za=%v", rs.MaxErrors, rs.MaxUnavailableZones, rs.ZoneAwarenessEnabled)}
}

// members lists every instance of a ring through GetInstance.
func (rc *recorder) members(r ring.ReadRing) []pair {
	gi, ok := r.(interface {
		GetInstance(string) (ring.InstanceDesc, error)
	})
	out := []pair{}
	if !ok {
		return out
	}
	for n := 1; n <= maxInst+1; n++ {
		id := abs.InstID(n)
		d, err := gi.GetInstance(id)
		if r.HasInstance(id) != (err == nil) {
			out = append(out, pair{-n, 0})
		}
		if err != nil {
			continue
		}
		if d.Id != id {
			out = append(out, pair{-n, -1})
		}
		out = append(out, pair{n, rc.rec(d)})
	}
	return out
}

func (rc *recorder) counts(r ring.ReadRing) []int {
	out := []int{r.InstancesCount(), r.InstancesWithTokensCount(), r.WritableInstancesWithTokensCount(), r.ZonesCount()}
	for _, z := range zonesMenu {
		out = append(out, r.InstancesInZoneCount(z))
	}
	for _, z := range zonesMenu {
		out = append(out, r.InstancesWithTokensInZoneCount(z))
	}
	for _, z := range zonesMenu {
		out = append(out, r.WritableInstancesWithTokensInZoneCount(z))
	}
	return out
}

// rankRanges rank-compresses token-range endpoints against the sorted set of values in universe.
func rankRanges(tr ring.TokenRanges, universe []uint32) []int {
	out := make([]int, len(tr))
	for i, v := range tr {
		out[i] = sort.Search(len(universe), func(j int) bool { return universe[j] >= v })
		if out[i] == len(universe) || universe[out[i]] != v {
			out[i] = -1 - out[i] // not a value of the universe: should not happen
		}
	}
	return out
}

type queryCtx struct {
	keys     []uint32
	universe []uint32 // tokens, tokens-1, 0, MaxUint32 (for rank compression)
}

// summary is the canonical string of "everything else" one can ask a (sub)ring.
func (rc *recorder) summary(r ring.ReadRing, q *queryCtx, depth int) string {
	var sb strings.Builder
	fmt.Fprintf(&sb, "c=%v zones=%v rf=%d", rc.counts(r), r.Zones(), r.ReplicationFactor())
	for i, k := range q.keys {
		if i >= 3 {
			break
		}
		for _, oi := range []int{0, 2} {
			rs, err := r.Get(k, opsMenu[oi], nil, nil, nil)
			a := rc.replicationSet(rs, err, true)
			fmt.Fprintf(&sb, " get[%d,%s]=%v|%s", i, opNames[oi], a.M, a.X)
		}
	}
	a := rc.replicationSet(rOp(r, ring.Read))
	fmt.Fprintf(&sb, " rsop=%v|%s", a.M, a.X)
	rs, err := r.GetAllHealthy(ring.Write)
	a = rc.replicationSet(rs, err, false)
	fmt.Fprintf(&sb, " healthy=%v|%s", a.M, a.X)
	for n := 1; n <= maxInst; n++ {
		id := abs.InstID(n)
		if !r.HasInstance(id) {
			continue
		}
		st, err := r.GetInstanceState(id)
		tr, terr := r.GetTokenRangesForInstance(id)
		fmt.Fprintf(&sb, " %s:%v/%s ranges=%v/%s", id, st, errStr(err), rankRanges(tr, q.universe), errStr(terr))
	}
	for n := 1; n <= maxInst+1; n++ { // the first identifier that is not in the ring
		if id := abs.InstID(n); !r.HasInstance(id) {
			st, err := r.GetInstanceState(id)
			_, terr := r.GetTokenRangesForInstance(id)
			fmt.Fprintf(&sb, " absent %s:%v/%s/%s", id, st, errStr(err), errStr(terr))
			break
		}
	}
	if depth > 0 {
		sub := r.ShuffleShard("t-2", 1)
		fmt.Fprintf(&sb, " nested[%v]", rc.members(sub))
	}
	return sb.String()
}

func rOp(r ring.ReadRing, op ring.Operation) (ring.ReplicationSet, error, bool) {
	rs, err := r.GetReplicationSetForOperation(op)
	return rs, err, false
}

// ---------------------------------------------------------------------------------------------
// world: store + long-lived clients
// ---------------------------------------------------------------------------------------------

type countingKV struct {
	kv.Client
	delivered atomic.Int64
}

func (c *countingKV) WatchKey(ctx context.Context, key string, f func(any) bool) {
	c.Client.WatchKey(ctx, key, func(v any) bool {
		r := f(v)
		c.delivered.Add(1)
		return r
	})
}

type world struct {
	rc       *recorder
	rnd      *rand.Rand
	cfg      ring.Config
	popts    ring.PartitionRingOptions
	store    *countingKV
	pstore   *countingKV
	closers  []io.Closer
	long     *ring.Ring
	watcher  *ring.PartitionRingWatcher
	pir      *ring.PartitionInstanceRing
	latest   *ring.Desc
	platest  *ring.PartitionRingDesc
	deleg    *delegateRec
	nextAddr int
	lastKind string
	// pointer identity of cached subrings
	prevPlain map[[2]int]ring.ReadRing
	prevLb    map[[3]int]ring.ReadRing
	prevPP    map[[2]int]*ring.PartitionRing
	prevPL    map[[3]int]*ring.PartitionRing
}

// delegateRec is the PartitionRingWatcherDelegate of the long-lived watcher: it projects the two descriptors it is handed.
type delegateRec struct {
	w            *world
	calls        int
	oldP, newP   [][4]int64
	oldO, newO   [][4]int64
}

func (d *delegateRec) OnPartitionRingChanged(oldRing, newRing *ring.PartitionRingDesc) {
	d.calls++
	d.oldP, d.oldO = d.w.pdescJSON(oldRing)
	d.newP, d.newO = d.w.pdescJSON(newRing)
}

func newWorld(rc *recorder, rnd *rand.Rand, hc histCfg) *world { return newWorldPre(rc, rnd, hc, false) }

// newWorldPre: with pre, the stores are filled BEFORE the long-lived clients start (Ring.starting /
// PartitionRingWatcher.starting read the initial content with Get instead of receiving it from the watch).
func newWorldPre(rc *recorder, rnd *rand.Rand, hc histCfg, pre bool) *world {
	za, rf, lru := hc.za, hc.rf, hc.lru
	w := &world{rc: rc, rnd: rnd, nextAddr: 1,
		prevPlain: map[[2]int]ring.ReadRing{}, prevLb: map[[3]int]ring.ReadRing{},
		prevPP: map[[2]int]*ring.PartitionRing{}, prevPL: map[[3]int]*ring.PartitionRing{}}
	w.cfg = ring.Config{HeartbeatTimeout: hbTimeout, ReplicationFactor: rf, ZoneAwarenessEnabled: za, ExcludedZones: hc.excl}
	w.popts = ring.PartitionRingOptions{ShuffleShardCacheSize: lru}
	c1, cl1 := consul.NewInMemoryClient(ring.GetCodec(), log.NewNopLogger(), nil)
	c2, cl2 := consul.NewInMemoryClient(ring.GetPartitionRingCodec(), log.NewNopLogger(), nil)
	w.store = &countingKV{Client: c1}
	w.pstore = &countingKV{Client: c2}
	w.closers = []io.Closer{cl1, cl2}
	var err error
	w.long, err = ring.NewWithStoreClientAndStrategy(w.cfg, "long", ringKey, w.store, ring.NewDefaultReplicationStrategy(), nil, log.NewNopLogger())
	if err != nil {
		panic(err)
	}
	w.watcher = ring.NewPartitionRingWatcherWithOptions("long", partKey, w.pstore, w.popts, log.NewNopLogger(), nil)
	w.deleg = &delegateRec{w: w}
	w.watcher.WithDelegate(w.deleg)
	w.latest = ring.NewDesc()
	w.platest = ring.NewPartitionRingDesc()
	var pd0 *ring.Desc
	var ppd0 *ring.PartitionRingDesc
	if pre {
		pd0, ppd0 = w.bulk(2+rnd.Intn(5)), w.pbulk(1+rnd.Intn(4))
		must(w.store.CAS(context.Background(), ringKey, func(any) (any, bool, error) { return proto.Clone(pd0), false, nil }))
		must(w.pstore.CAS(context.Background(), partKey, func(any) (any, bool, error) { return proto.Clone(ppd0), false, nil }))
	}
	if err := services.StartAndAwaitRunning(context.Background(), w.long); err != nil {
		panic(err)
	}
	if err := services.StartAndAwaitRunning(context.Background(), w.watcher); err != nil {
		panic(err)
	}
	w.pir = ring.NewPartitionInstanceRing(w.watcher, w.long, hbTimeout)
	synctest.Wait()
	w.deleg.calls = 0
	if pre {
		w.latest, w.platest = pd0, ppd0
		w.logUpdate("bulk", pd0, "U")
		w.deleg.calls = -1 // the initial content may be seen twice (Get in starting, then the watch): not checked
		w.logPUpdate("bulk", ppd0)
	}
	return w
}

func (w *world) close() {
	_ = services.StopAndAwaitTerminated(context.Background(), w.long)
	_ = services.StopAndAwaitTerminated(context.Background(), w.watcher)
	for _, c := range w.closers {
		_ = c.Close()
	}
	synctest.Wait()
}

func (w *world) now() int64 { return time.Now().Unix() }

// push writes d to the store (CAS) and waits until every goroutine of the bubble is idle again,
// i.e. the long-lived client has processed the watch notification.
func (w *world) push(d *ring.Desc) {
	before := w.store.delivered.Load()
	err := w.store.CAS(context.Background(), ringKey, func(any) (any, bool, error) { return proto.Clone(d), false, nil })
	if err != nil {
		panic(fmt.Sprintf("CAS: %v", err))
	}
	synctest.Wait()
	if w.store.delivered.Load() != before+1 {
		panic(fmt.Sprintf("update not delivered exactly once: %d -> %d", before, w.store.delivered.Load()))
	}
	w.latest = d
}

func (w *world) ppush(d *ring.PartitionRingDesc) {
	before := w.pstore.delivered.Load()
	err := w.pstore.CAS(context.Background(), partKey, func(any) (any, bool, error) { return proto.Clone(d), false, nil })
	if err != nil {
		panic(fmt.Sprintf("CAS: %v", err))
	}
	synctest.Wait()
	if w.pstore.delivered.Load() != before+1 {
		panic(fmt.Sprintf("partition update not delivered exactly once: %d -> %d", before, w.pstore.delivered.Load()))
	}
	w.platest = d
}

// fresh builds a cache-less client from what the store holds now.
func (w *world) fresh() (*ring.Ring, func()) {
	v, err := w.store.Get(context.Background(), ringKey)
	if err != nil {
		panic(err)
	}
	var d *ring.Desc
	if v != nil {
		d = proto.Clone(v.(*ring.Desc)).(*ring.Desc) // a deep copy: nothing shared with the store or the long-lived client
	}
	cfg := w.cfg
	cfg.SubringCacheDisabled = true
	r, stop, err := abs.NewRing(d, cfg)
	if err != nil {
		panic(err)
	}
	return r, stop
}

func (w *world) freshPartitionRing() *ring.PartitionRing {
	v, err := w.pstore.Get(context.Background(), partKey)
	if err != nil {
		panic(err)
	}
	d := ring.NewPartitionRingDesc()
	if v != nil {
		d = v.(*ring.PartitionRingDesc)
	}
	pr, err := ring.NewPartitionRing(*d)
	if err != nil {
		panic(err)
	}
	return pr
}

// ---------------------------------------------------------------------------------------------
// update generator (instance ring)
// ---------------------------------------------------------------------------------------------

func sortedIDs(d *ring.Desc) []string {
	ids := make([]string, 0, len(d.Ingesters))
	for id := range d.Ingesters {
		ids = append(ids, id)
	}
	sort.Strings(ids)
	return ids
}

func usedTokens(d *ring.Desc) map[uint32]bool {
	u := map[uint32]bool{}
	for _, ing := range d.Ingesters {
		for _, t := range ing.Tokens {
			u[t] = true
		}
	}
	return u
}

func (w *world) newTokens(used map[uint32]bool, n int) []uint32 {
	out := make([]uint32, 0, n)
	for len(out) < n {
		out = append(out, w.newTokenDet(used))
	}
	sort.Slice(out, func(i, j int) bool { return out[i] < out[j] })
	return out
}

func (w *world) newTokenDet(used map[uint32]bool) uint32 {
	keys := make([]uint32, 0, len(used))
	for u := range used {
		keys = append(keys, u)
	}
	sort.Slice(keys, func(i, j int) bool { return keys[i] < keys[j] })
	for {
		var v uint32
		switch w.rnd.Intn(4) {
		case 0:
			v = boundaryToken[w.rnd.Intn(len(boundaryToken))]
		case 1:
			if len(keys) > 0 {
				v = keys[w.rnd.Intn(len(keys))] + uint32(w.rnd.Intn(3)) - 1
			} else {
				v = w.rnd.Uint32()
			}
		default:
			v = w.rnd.Uint32()
		}
		if !used[v] {
			used[v] = true
			return v
		}
	}
}

func (w *world) pastStamp() int64 {
	offs := []int64{0, 1, 2, 3, 5, 8, 30}
	if w.rnd.Intn(6) == 0 {
		return 0
	}
	return w.now() - offs[w.rnd.Intn(len(offs))]
}

func (w *world) heartbeatStamp() int64 {
	offs := []int64{0, 0, 3, 9, 10, 11, 20}
	return w.now() - offs[w.rnd.Intn(len(offs))]
}

func (w *world) newInstance(id string, used map[uint32]bool) ring.InstanceDesc {
	addr := fmt.Sprintf("a-%d", w.nextAddr)
	w.nextAddr++
	d := ring.InstanceDesc{
		Id: id, Addr: addr, Zone: zonesMenu[w.rnd.Intn(len(zonesMenu))],
		State: statesMenu[w.rnd.Intn(2)*w.rnd.Intn(len(statesMenu))], // mostly ACTIVE
		Timestamp: w.heartbeatStamp(), RegisteredTimestamp: w.pastStamp(),
	}
	nt := w.rnd.Intn(4) // 0..3 tokens
	if nt > 0 {
		d.Tokens = w.newTokens(used, nt)
	}
	if w.rnd.Intn(4) == 0 {
		d.ReadOnly = true
		d.ReadOnlyUpdatedTimestamp = w.pastStamp()
	} else if w.rnd.Intn(4) == 0 {
		d.ReadOnlyUpdatedTimestamp = w.pastStamp()
	}
	return d
}

func (w *world) freeID(d *ring.Desc) string {
	var free []string
	for n := 1; n <= maxInst; n++ {
		if _, ok := d.Ingesters[abs.InstID(n)]; !ok {
			free = append(free, abs.InstID(n))
		}
	}
	if len(free) == 0 {
		return ""
	}
	return free[w.rnd.Intn(len(free))]
}

// mutate applies one update of the given kind to a copy of the latest descriptor. It returns the
// kind actually applied (a kind that is impossible on the current ring falls back to another).
func (w *world) mutate(kind string) (*ring.Desc, string) { return w.mutateFrom(w.latest, kind) }

func (w *world) mutateFrom(base *ring.Desc, kind string) (*ring.Desc, string) {
	d := proto.Clone(base).(*ring.Desc)
	if d.Ingesters == nil {
		d.Ingesters = map[string]ring.InstanceDesc{}
	}
	ids := sortedIDs(d)
	if len(ids) == 0 && kind != "equal" && kind != "add" {
		kind = "add"
	}
	pick := func() string { return ids[w.rnd.Intn(len(ids))] }
	other := func(cur int64, f func() int64) int64 {
		for i := 0; i < 50; i++ {
			if v := f(); v != cur {
				return v
			}
		}
		return cur + 1
	}
	used := usedTokens(d)
	switch kind {
	case "equal":
	case "heartbeat":
		id := pick()
		ing := d.Ingesters[id]
		ing.Timestamp = other(ing.Timestamp, w.heartbeatStamp)
		d.Ingesters[id] = ing
	case "heartbeat_all":
		for _, id := range ids {
			ing := d.Ingesters[id]
			ing.Timestamp = other(ing.Timestamp, w.heartbeatStamp)
			d.Ingesters[id] = ing
		}
	case "state", "hbstate":
		id := pick()
		ing := d.Ingesters[id]
		for {
			s := statesMenu[w.rnd.Intn(len(statesMenu))]
			if s != ing.State {
				ing.State = s
				break
			}
		}
		if kind == "hbstate" {
			ing.Timestamp = other(ing.Timestamp, w.heartbeatStamp)
		}
		d.Ingesters[id] = ing
	case "token":
		id := pick()
		ing := d.Ingesters[id]
		toks := append([]uint32(nil), ing.Tokens...)
		switch {
		case len(toks) == 0 || (len(toks) < 3 && w.rnd.Intn(3) == 0): // gain a token
			toks = append(toks, w.newTokenDet(used))
		case w.rnd.Intn(3) == 0: // lose a token
			i := w.rnd.Intn(len(toks))
			toks = append(toks[:i], toks[i+1:]...)
		default: // move a token
			toks[w.rnd.Intn(len(toks))] = w.newTokenDet(used)
		}
		sort.Slice(toks, func(i, j int) bool { return toks[i] < toks[j] })
		if len(toks) == 0 {
			toks = nil
		}
		ing.Tokens = toks
		d.Ingesters[id] = ing
	case "zone":
		id := pick()
		ing := d.Ingesters[id]
		for {
			z := zonesMenu[w.rnd.Intn(len(zonesMenu))]
			if z != ing.Zone {
				ing.Zone = z
				break
			}
		}
		d.Ingesters[id] = ing
	case "addr":
		id := pick()
		ing := d.Ingesters[id]
		ing.Addr = fmt.Sprintf("a-%d", w.nextAddr)
		w.nextAddr++
		d.Ingesters[id] = ing
	case "reg":
		id := pick()
		ing := d.Ingesters[id]
		ing.RegisteredTimestamp = other(ing.RegisteredTimestamp, w.pastStamp)
		d.Ingesters[id] = ing
	case "ro_flag":
		id := pick()
		ing := d.Ingesters[id]
		ing.ReadOnly = !ing.ReadOnly
		d.Ingesters[id] = ing
	case "ro_time":
		id := pick()
		ing := d.Ingesters[id]
		ing.ReadOnlyUpdatedTimestamp = other(ing.ReadOnlyUpdatedTimestamp, w.pastStamp)
		d.Ingesters[id] = ing
	case "ro_both":
		id := pick()
		ing := d.Ingesters[id]
		ing.ReadOnly = !ing.ReadOnly
		ing.ReadOnlyUpdatedTimestamp = other(ing.ReadOnlyUpdatedTimestamp, func() int64 { return w.now() - int64(w.rnd.Intn(3)) })
		d.Ingesters[id] = ing
	case "add":
		id := w.freeID(d)
		if id == "" {
			return w.mutateFrom(base, "remove")
		}
		d.Ingesters[id] = w.newInstance(id, used)
	case "remove":
		delete(d.Ingesters, pick())
	case "replace": // same number of instances, different names
		id := w.freeID(d)
		if id == "" {
			return w.mutateFrom(base, "remove")
		}
		gone := pick()
		old := d.Ingesters[gone]
		delete(d.Ingesters, gone)
		if w.rnd.Intn(2) == 0 { // the newcomer takes over everything but the name
			old.Id = id
			d.Ingesters[id] = old
		} else {
			d.Ingesters[id] = w.newInstance(id, usedTokens(d))
		}
	case "tok_swap", "zone_swap", "ro_swap", "reg_swap": // two instances exchange a field: the aggregates stay
		differ := func(a, b ring.InstanceDesc) bool {
			switch kind {
			case "tok_swap":
				return fmt.Sprint(a.Tokens) != fmt.Sprint(b.Tokens)
			case "zone_swap":
				return a.Zone != b.Zone
			case "ro_swap":
				return a.ReadOnly != b.ReadOnly || a.ReadOnlyUpdatedTimestamp != b.ReadOnlyUpdatedTimestamp
			}
			return a.RegisteredTimestamp != b.RegisteredTimestamp
		}
		var pairs [][2]string
		for i, a := range ids {
			for _, b := range ids[i+1:] {
				if differ(d.Ingesters[a], d.Ingesters[b]) {
					pairs = append(pairs, [2]string{a, b})
				}
			}
		}
		if len(pairs) == 0 {
			return w.mutateFrom(base, map[string]string{"tok_swap": "token", "zone_swap": "zone", "ro_swap": "ro_both", "reg_swap": "reg"}[kind])
		}
		pr := pairs[w.rnd.Intn(len(pairs))]
		a, b := d.Ingesters[pr[0]], d.Ingesters[pr[1]]
		switch kind {
		case "tok_swap":
			a.Tokens, b.Tokens = b.Tokens, a.Tokens
		case "zone_swap":
			a.Zone, b.Zone = b.Zone, a.Zone
		case "ro_swap":
			a.ReadOnly, b.ReadOnly = b.ReadOnly, a.ReadOnly
			a.ReadOnlyUpdatedTimestamp, b.ReadOnlyUpdatedTimestamp = b.ReadOnlyUpdatedTimestamp, a.ReadOnlyUpdatedTimestamp
		default:
			a.RegisteredTimestamp, b.RegisteredTimestamp = b.RegisteredTimestamp, a.RegisteredTimestamp
		}
		d.Ingesters[pr[0]], d.Ingesters[pr[1]] = a, b
	case "zone_rename": // every instance of one zone moves to a zone that was not in the ring
		present := map[string]bool{}
		for _, id := range ids {
			present[d.Ingesters[id].Zone] = true
		}
		var absent []string
		for _, z := range zonesMenu {
			if !present[z] {
				absent = append(absent, z)
			}
		}
		if len(absent) == 0 {
			return w.mutateFrom(base, "zone")
		}
		from, to := d.Ingesters[pick()].Zone, absent[w.rnd.Intn(len(absent))]
		for _, id := range ids {
			if ing := d.Ingesters[id]; ing.Zone == from {
				ing.Zone = to
				d.Ingesters[id] = ing
			}
		}
	case "ts_back": // registration / read-only time stamps move backwards, to "unset" or into the future
		id := pick()
		ing := d.Ingesters[id]
		move := func(cur int64) int64 {
			return other(cur, func() int64 {
				switch w.rnd.Intn(4) {
				case 0:
					return 0
				case 1:
					return w.now() + int64(1+w.rnd.Intn(3))
				case 2:
					if cur > 0 {
						return cur - int64(1+w.rnd.Intn(4))
					}
				}
				return w.now() - int64(w.rnd.Intn(40))
			})
		}
		switch w.rnd.Intn(3) {
		case 0:
			ing.RegisteredTimestamp = move(ing.RegisteredTimestamp)
		case 1:
			ing.ReadOnlyUpdatedTimestamp = move(ing.ReadOnlyUpdatedTimestamp)
		default:
			ing.RegisteredTimestamp = move(ing.RegisteredTimestamp)
			ing.ReadOnlyUpdatedTimestamp = move(ing.ReadOnlyUpdatedTimestamp)
		}
		d.Ingesters[id] = ing
	case "handover": // an instance leaves and an existing one takes its tokens: the token list stays
		if len(ids) < 2 {
			return w.mutateFrom(base, "remove")
		}
		gone := pick()
		heir := pick()
		for heir == gone {
			heir = pick()
		}
		h := d.Ingesters[heir]
		toks := append(append([]uint32(nil), h.Tokens...), d.Ingesters[gone].Tokens...)
		sort.Slice(toks, func(i, j int) bool { return toks[i] < toks[j] })
		if len(toks) == 0 {
			toks = nil
		}
		h.Tokens = toks
		d.Ingesters[heir] = h
		delete(d.Ingesters, gone)
	case "multi":
		cur := d // apply 2-3 random kinds on top of each other
		for i, n := 0, 2+w.rnd.Intn(2); i < n; i++ {
			cur, _ = w.mutateFrom(cur, updateKinds[w.rnd.Intn(len(updateKinds)-1)]) // not multi
		}
		return cur, "multi"
	default:
		panic("unknown kind " + kind)
	}
	return d, kind
}

func (w *world) bulk(n int) *ring.Desc {
	d := ring.NewDesc()
	used := map[uint32]bool{}
	for i := 1; i <= n; i++ {
		id := abs.InstID(i)
		ing := w.newInstance(id, used)
		if i <= 3 { // make sure the ring is usable: tokens, one instance per zone first
			ing.Zone = zonesMenu[(i-1)%len(zonesMenu)]
			if len(ing.Tokens) == 0 {
				ing.Tokens = w.newTokens(used, 2)
			}
		}
		d.Ingesters[id] = ing
	}
	return d
}

func (w *world) logUpdate(kind string, d *ring.Desc, ev string) {
	ds := make([]ring.InstanceDesc, 0, len(d.Ingesters))
	for id, ing := range d.Ingesters {
		ing.Id = id
		ds = append(ds, ing)
	}
	// with excluded zones the class of an update is that of the FILTERED descriptors (derived by the specification)
	must(w.rc.ti.Write(map[string]any{"e": ev, "kind": kind, "any": len(w.cfg.ExcludedZones) > 0, "d": w.rc.pairsOf(ds, false), "t": w.rc.rel(w.now())}))
	w.lastKind = kind
}

func must(err error) {
	if err != nil {
		panic(err)
	}
}

// ---------------------------------------------------------------------------------------------
// query batches (instance ring)
// ---------------------------------------------------------------------------------------------

func (w *world) queryCtx() *queryCtx {
	q := &queryCtx{}
	set := map[uint32]bool{0: true, math.MaxUint32: true}
	var toks []uint32
	for _, ing := range w.latest.Ingesters {
		for _, t := range ing.Tokens {
			toks = append(toks, t)
			set[t] = true
			set[t-1] = true
		}
	}
	sort.Slice(toks, func(i, j int) bool { return toks[i] < toks[j] })
	for v := range set {
		q.universe = append(q.universe, v)
	}
	sort.Slice(q.universe, func(i, j int) bool { return q.universe[i] < q.universe[j] })
	q.keys = []uint32{0, math.MaxUint32, w.rnd.Uint32()}
	for i := 0; i < 2 && len(toks) > 0; i++ {
		t := toks[w.rnd.Intn(len(toks))]
		q.keys = append(q.keys, t-1, t, t+1)
	}
	w.rnd.Shuffle(len(q.keys), func(i, j int) { q.keys[i], q.keys[j] = q.keys[j], q.keys[i] })
	return q
}

func (w *world) shortcut() bool {
	switch w.lastKind {
	case "equal", "heartbeat", "heartbeat_all", "state", "hbstate":
		return true
	}
	return false
}

func (w *world) direct(q string, arg any, f func(r ring.ReadRing) answer, fr *ring.Ring) {
	l := guard(func() answer { return f(w.long) })
	r := guard(func() answer { return f(fr) })
	must(w.rc.ti.Write(xs(map[string]any{"e": "D", "q": q, "arg": fmt.Sprint(arg), "lm": l.M, "fm": r.M}, l.X, r.X)))
	w.rc.res.Cases++
	if w.shortcut() {
		w.rc.short++
	}
}

func (w *world) shard(id, size, lb int, nowUnix int64, q *queryCtx, fr *ring.Ring, gated bool) {
	ident := fmt.Sprintf("t-%d", id)
	var prev ring.ReadRing
	if lb == 0 {
		prev = w.prevPlain[[2]int{id, size}]
	} else {
		prev = w.prevLb[[3]int{id, size, lb}]
	}
	call := func(r *ring.Ring) ring.ReadRing {
		if lb == 0 {
			return r.ShuffleShard(ident, size)
		}
		return r.ShuffleShardWithLookback(ident, size, time.Duration(lb)*time.Second, time.Unix(nowUnix, 0))
	}
	var ls, fs ring.ReadRing
	l := guard(func() answer {
		ls = call(w.long)
		return answer{M: w.rc.members(ls), X: w.rc.summary(ls, q, 1)}
	})
	f := guard(func() answer {
		fs = call(fr)
		return answer{M: w.rc.members(fs), X: w.rc.summary(fs, q, 1)}
	})
	self := ls == ring.ReadRing(w.long)
	hit := ls != nil && !self && prev != nil && ls == prev
	if ls != nil {
		if lb == 0 {
			w.prevPlain[[2]int{id, size}] = ls
		} else {
			w.prevLb[[3]int{id, size, lb}] = ls
		}
	}
	ev := xs(map[string]any{"e": "S", "id": id, "size": size, "L": lb, "now": w.rc.rel(nowUnix), "hit": hit, "g": gated,
		"self": self, "fself": fs == ring.ReadRing(fr), "lm": l.M, "fm": f.M}, l.X, f.X)
	must(w.rc.ti.Write(ev))
	w.rc.res.Cases++
	if hit {
		w.rc.hits++
		if lb > 0 && w.shortcut() {
			w.rc.res.Sample(map[string]any{"after_update": w.lastKind, "query": ev})
		}
	}
	if hit || w.shortcut() {
		w.rc.short++
	}
}

// batch asks the long-lived and a fresh client the same queries. full = every query of the menu.
func (w *world) batch(full bool) {
	fr, stop := w.fresh()
	defer stop()
	q := w.queryCtx()
	sel := func(p int) bool { return full || w.rnd.Intn(100) < p }

	// counts (white box in the trace specification)
	safeCounts := func(r ring.ReadRing) (c []int) {
		defer func() {
			if p := recover(); p != nil {
				c = []int{-1}
			}
		}()
		return w.rc.counts(r)
	}
	lc, fc := safeCounts(w.long), safeCounts(fr)
	must(w.rc.ti.Write(map[string]any{"e": "C", "lc": lc, "fc": fc}))
	w.rc.res.Cases++
	if w.shortcut() {
		w.rc.short++
	}
	w.direct("members", nil, func(r ring.ReadRing) answer {
		return answer{M: w.rc.members(r), X: fmt.Sprintf("zones=%v", r.(*ring.Ring).Zones())}
	}, fr)
	for ki, k := range q.keys {
		if full && ki >= 4 { // the keys are shuffled: 4 of the boundary keys, every operation
			break
		}
		for oi, op := range opsMenu {
			if !sel(35) {
				continue
			}
			k, op := k, op
			w.direct("get", []any{ki, opNames[oi]}, func(r ring.ReadRing) answer {
				rs, err := r.Get(k, op, nil, nil, nil)
				return w.rc.replicationSet(rs, err, true)
			}, fr)
		}
	}
	if sel(30) {
		k := q.keys[0]
		w.direct("getopts", w.cfg.ReplicationFactor+1, func(r ring.ReadRing) answer {
			rs, err := r.GetWithOptions(k, ring.Write, ring.WithReplicationFactor(w.cfg.ReplicationFactor+1))
			return w.rc.replicationSet(rs, err, true)
		}, fr)
	}
	if sel(30) { // a per-call replication factor below the configured one falls back to it; caller-provided buffers
		k := q.keys[len(q.keys)-1]
		w.direct("getopts_low", 1, func(r ring.ReadRing) answer {
			rs, err := r.GetWithOptions(k, ring.Read, ring.WithReplicationFactor(1), ring.WithBuffers(make([]ring.InstanceDesc, 0, 1), make([]string, 0, 1), nil))
			return w.rc.replicationSet(rs, err, true)
		}, fr)
	}
	for oi, op := range opsMenu {
		op := op
		if sel(40) {
			w.direct("allhealthy", opNames[oi], func(r ring.ReadRing) answer {
				rs, err := r.GetAllHealthy(op)
				return w.rc.replicationSet(rs, err, false)
			}, fr)
		}
		if sel(40) {
			w.direct("rsop", opNames[oi], func(r ring.ReadRing) answer { return w.rc.replicationSet(rOp(r, op)) }, fr)
		}
		if sel(25) {
			w.direct("substates", opNames[oi], func(r ring.ReadRing) answer {
				sub := r.GetSubringForOperationStates(op)
				return answer{M: w.rc.members(sub), X: w.rc.summary(sub, q, 1)}
			}, fr)
		}
	}
	if sel(50) {
		w.direct("summary", nil, func(r ring.ReadRing) answer { return answer{M: []pair{}, X: w.rc.summary(r, q, 0)} }, fr)
	}
	// shards
	bnow := w.now()
	lbs := []int{lookbackMenu[w.rnd.Intn(len(lookbackMenu))], lookbackMenu[w.rnd.Intn(len(lookbackMenu))]}
	offs := []int64{0, -1, 1, -3, -6, 2}
	for id := 1; id <= numIdent; id++ {
		for _, size := range sizesMenu {
			if sel(30) {
				w.shard(id, size, 0, 0, q, fr, false)
			}
			for _, lb := range lbs {
				if sel(20) {
					w.shard(id, size, lb, bnow+offs[w.rnd.Intn(len(offs))], q, fr, false)
				}
			}
		}
	}
	// the same look-back key again at another time (moves inside / outside the validity window)
	for i := 0; i < 6; i++ {
		w.shard(1+w.rnd.Intn(numIdent), sizesMenu[1+w.rnd.Intn(3)], lbs[0], bnow+offs[w.rnd.Intn(len(offs))], q, fr, false)
	}
	if sel(10) {
		id := 1 + w.rnd.Intn(numIdent)
		w.long.CleanupShuffleShardCache(fmt.Sprintf("t-%d", id))
		must(w.rc.ti.Write(map[string]any{"e": "X", "id": id}))
	}
}

// ---------------------------------------------------------------------------------------------
// partition ring
// ---------------------------------------------------------------------------------------------

func sortedParts(d *ring.PartitionRingDesc) []int32 {
	ids := make([]int32, 0, len(d.Partitions))
	for id := range d.Partitions {
		ids = append(ids, id)
	}
	sort.Slice(ids, func(i, j int) bool { return ids[i] < ids[j] })
	return ids
}

func sortedOwners(d *ring.PartitionRingDesc) []string {
	ids := make([]string, 0, len(d.Owners))
	for id := range d.Owners {
		ids = append(ids, id)
	}
	sort.Strings(ids)
	return ids
}

func pUsedTokens(d *ring.PartitionRingDesc) map[uint32]bool {
	u := map[uint32]bool{}
	for _, p := range d.Partitions {
		for _, t := range p.Tokens {
			u[t] = true
		}
	}
	return u
}

func (w *world) newPartition(id int32, used map[uint32]bool) ring.PartitionDesc {
	return ring.PartitionDesc{Id: id, Tokens: w.newTokens(used, 1+w.rnd.Intn(3)),
		State: pstatesMenu[(1+w.rnd.Intn(3)*w.rnd.Intn(2))%3], StateTimestamp: w.now() - []int64{0, 1, 2, 3, 5, 8, 30}[w.rnd.Intn(7)]}
}

func (w *world) pmutate(kind string) (*ring.PartitionRingDesc, string) {
	d := proto.Clone(w.platest).(*ring.PartitionRingDesc)
	if d.Partitions == nil {
		d.Partitions = map[int32]ring.PartitionDesc{}
	}
	if d.Owners == nil {
		d.Owners = map[string]ring.OwnerDesc{}
	}
	parts := sortedParts(d)
	owners := sortedOwners(d)
	if len(parts) == 0 && kind != "equal" {
		kind = "padd"
	}
	if len(owners) == 0 && (kind == "owner_remove" || kind == "owner_touch") {
		kind = "owner_add"
	}
	used := pUsedTokens(d)
	pick := func() int32 { return parts[w.rnd.Intn(len(parts))] }
	switch kind {
	case "equal":
	case "pstate":
		id := pick()
		p := d.Partitions[id]
		for {
			s := pstatesMenu[w.rnd.Intn(len(pstatesMenu))]
			if s != p.State {
				p.State = s
				break
			}
		}
		p.StateTimestamp = w.now() - int64(w.rnd.Intn(3))
		d.Partitions[id] = p
	case "pstate_ts":
		id := pick()
		p := d.Partitions[id]
		old := p.StateTimestamp
		for p.StateTimestamp == old {
			p.StateTimestamp = w.now() - []int64{0, 1, 2, 3, 5, 8, 30}[w.rnd.Intn(7)]
		}
		d.Partitions[id] = p
	case "ptoken":
		id := pick()
		p := d.Partitions[id]
		toks := append([]uint32(nil), p.Tokens...)
		if len(toks) > 1 && w.rnd.Intn(3) == 0 {
			toks = toks[1:]
		} else if len(toks) > 0 && w.rnd.Intn(2) == 0 {
			toks[w.rnd.Intn(len(toks))] = w.newTokenDet(used)
		} else {
			toks = append(toks, w.newTokenDet(used))
		}
		sort.Slice(toks, func(i, j int) bool { return toks[i] < toks[j] })
		p.Tokens = toks
		d.Partitions[id] = p
	case "padd":
		var free []int32
		for id := int32(0); id < maxPart; id++ {
			if _, ok := d.Partitions[id]; !ok {
				free = append(free, id)
			}
		}
		if len(free) == 0 {
			return w.pmutate("premove")
		}
		id := free[w.rnd.Intn(len(free))]
		d.Partitions[id] = w.newPartition(id, used)
	case "premove":
		id := pick()
		delete(d.Partitions, id)
		for _, o := range owners {
			if d.Owners[o].OwnedPartition == id && w.rnd.Intn(2) == 0 {
				delete(d.Owners, o)
			}
		}
	case "owner_add":
		n := 1
		for ; ; n++ {
			if _, ok := d.Owners[fmt.Sprintf("i-%d", n)]; !ok {
				break
			}
		}
		d.Owners[fmt.Sprintf("i-%d", n)] = ring.OwnerDesc{OwnedPartition: pick(), State: ring.OwnerActive, UpdatedTimestamp: w.now()}
	case "owner_remove":
		delete(d.Owners, owners[w.rnd.Intn(len(owners))])
	case "owner_touch": // an owner moves to another partition / only its timestamp changes
		o := owners[w.rnd.Intn(len(owners))]
		od := d.Owners[o]
		if w.rnd.Intn(2) == 0 {
			od.OwnedPartition = pick()
		}
		od.UpdatedTimestamp++
		d.Owners[o] = od
	case "pswap", "ptok_swap": // two partitions exchange state + state time / tokens: the counts stay
		var pairs [][2]int32
		for i, a := range parts {
			for _, b := range parts[i+1:] {
				pa, pb := d.Partitions[a], d.Partitions[b]
				if (kind == "pswap" && (pa.State != pb.State || pa.StateTimestamp != pb.StateTimestamp)) || kind == "ptok_swap" {
					pairs = append(pairs, [2]int32{a, b})
				}
			}
		}
		if len(pairs) == 0 {
			return w.pmutate("pstate")
		}
		pr := pairs[w.rnd.Intn(len(pairs))]
		pa, pb := d.Partitions[pr[0]], d.Partitions[pr[1]]
		if kind == "pswap" {
			pa.State, pb.State = pb.State, pa.State
			pa.StateTimestamp, pb.StateTimestamp = pb.StateTimestamp, pa.StateTimestamp
		} else {
			pa.Tokens, pb.Tokens = pb.Tokens, pa.Tokens
		}
		d.Partitions[pr[0]], d.Partitions[pr[1]] = pa, pb
	case "owner_swap": // two owners exchange their partitions: the number of owners per state stays
		if len(owners) < 2 {
			return w.pmutate("owner_add")
		}
		i := w.rnd.Intn(len(owners))
		j := (i + 1 + w.rnd.Intn(len(owners)-1)) % len(owners)
		oa, ob := d.Owners[owners[i]], d.Owners[owners[j]]
		oa.OwnedPartition, ob.OwnedPartition = ob.OwnedPartition, oa.OwnedPartition
		d.Owners[owners[i]], d.Owners[owners[j]] = oa, ob
	case "pmulti":
		save := w.platest
		for i, n := 0, 2+w.rnd.Intn(2); i < n; i++ {
			w.platest, _ = w.pmutate(pUpdateKinds[w.rnd.Intn(len(pUpdateKinds)-1)]) // not pmulti
		}
		d, w.platest = w.platest, save
		return d, "pmulti"
	default:
		panic("unknown partition kind " + kind)
	}
	return d, kind
}

func (w *world) pbulk(n int) *ring.PartitionRingDesc {
	d := ring.NewPartitionRingDesc()
	used := map[uint32]bool{}
	for id := int32(0); id < int32(n); id++ {
		p := w.newPartition(id, used)
		if id == 0 {
			p.State = ring.PartitionActive
		}
		d.Partitions[id] = p
		d.Owners[fmt.Sprintf("i-%d", id+1)] = ring.OwnerDesc{OwnedPartition: id, State: ring.OwnerActive, UpdatedTimestamp: w.now()}
		if w.rnd.Intn(2) == 0 {
			d.Owners[fmt.Sprintf("i-%d", id+1+int32(n))] = ring.OwnerDesc{OwnedPartition: id, State: ring.OwnerActive, UpdatedTimestamp: w.now()}
		}
	}
	return d
}

// pdescJSON projects a partition ring descriptor: partitions [id, state, state timestamp, tokens id]
// and owners [owner number, partition, state, timestamp].
func (w *world) pdescJSON(d *ring.PartitionRingDesc) (parts [][4]int64, owners [][4]int64) {
	parts, owners = [][4]int64{}, [][4]int64{}
	for _, id := range sortedParts(d) {
		p := d.Partitions[id]
		parts = append(parts, [4]int64{int64(id), int64(p.State), w.rc.rel(p.StateTimestamp), int64(w.rc.tokens(p.Tokens))})
	}
	for _, o := range sortedOwners(d) {
		od := d.Owners[o]
		owners = append(owners, [4]int64{int64(instNo(o)), int64(od.OwnedPartition), int64(od.State), w.rc.rel(od.UpdatedTimestamp)})
	}
	return
}

// pringParts projects a PartitionRing through its read API (no access to the descriptor).
func (w *world) pringParts(pr *ring.PartitionRing) (parts [][4]int64, owners [][2]int64) {
	parts, owners = [][4]int64{}, [][2]int64{}
	for _, p := range pr.Partitions() {
		parts = append(parts, [4]int64{int64(p.Id), int64(p.State), w.rc.rel(p.StateTimestamp), int64(w.rc.tokens(p.Tokens))})
	}
	sort.Slice(parts, func(i, j int) bool { return parts[i][0] < parts[j][0] })
	for _, p := range parts {
		for _, o := range pr.PartitionOwnerIDs(int32(p[0])) {
			owners = append(owners, [2]int64{int64(instNo(o)), p[0]})
		}
	}
	sort.Slice(owners, func(i, j int) bool { return owners[i][0] < owners[j][0] })
	return
}

func (w *world) psummary(pr *ring.PartitionRing, pir *ring.PartitionInstanceRing, keys []uint32) string {
	var sb strings.Builder
	fmt.Fprintf(&sb, "n=%d act=%d max=%d ids=%v pend=%v act=%v inact=%v", pr.PartitionsCount(), pr.ActivePartitionsCount(), pr.MaxPartitionID(),
		pr.PartitionIDs(), pr.PendingPartitionIDs(), pr.ActivePartitionIDs(), pr.InactivePartitionIDs())
	for _, s := range []int{0, 1, 2, 5} {
		fmt.Fprintf(&sb, " sss[%d]=%d", s, pr.ShuffleShardSize(s))
	}
	universe := map[uint32]bool{0: true, math.MaxUint32: true}
	for _, p := range pr.Partitions() {
		for _, t := range p.Tokens {
			universe[t], universe[t-1] = true, true
		}
	}
	var uni []uint32
	for v := range universe {
		uni = append(uni, v)
	}
	sort.Slice(uni, func(i, j int) bool { return uni[i] < uni[j] })
	for i, k := range keys {
		p, err := pr.ActivePartitionForKey(k)
		fmt.Fprintf(&sb, " key[%d]=%d/%s", i, p, errStr(err))
	}
	for _, id := range pr.PartitionIDs() {
		tr, err := pr.GetTokenRangesForPartition(id)
		fmt.Fprintf(&sb, " p%d:owners=%v/%v multi=%v ranges=%v/%s", id, pr.PartitionOwnerIDs(id), pr.PartitionOwnerIDsCopy(id), pr.MultiPartitionOwnerIDs(id, nil), rankRanges(tr, uni), errStr(err))
	}
	br := ring.NewActivePartitionBatchRing(pr)
	fmt.Fprintf(&sb, " batch=%d/%d", br.InstancesCount(), br.ReplicationFactor())
	if len(keys) > 0 {
		pk, err := br.GetKeysByPartition(context.Background(), keys)
		fmt.Fprintf(&sb, " bykeys=%v/%s", pk, errStr(err))
	}
	if pir != nil {
		for _, oi := range []int{0, 2, 3} {
			sets, err := pir.GetReplicationSetsForOperation(opsMenu[oi])
			var ss []string
			for _, rs := range sets {
				a := w.rc.replicationSet(rs, nil, true)
				ss = append(ss, fmt.Sprintf("%v|%s", a.M, a.X))
			}
			sort.Strings(ss)
			fmt.Fprintf(&sb, " rs[%s]=%v/%s", opNames[oi], ss, errStr(err))
		}
	}
	return sb.String()
}

func (w *world) logPUpdate(kind string, d *ring.PartitionRingDesc) {
	parts, owners := w.pdescJSON(d)
	ev := map[string]any{"e": "PU", "kind": kind, "parts": parts, "owners": owners, "dn": -1,
		"dop": [][4]int64{}, "doo": [][4]int64{}, "dnp": [][4]int64{}, "dno": [][4]int64{}}
	if dg := w.deleg; dg != nil && dg.calls >= 0 { // what the watcher told its delegate since the previous update
		ev["dn"], ev["dop"], ev["doo"], ev["dnp"], ev["dno"] = dg.calls, dg.oldP, dg.oldO, dg.newP, dg.newO
	}
	if w.deleg != nil {
		w.deleg.calls = 0
	}
	must(w.rc.tp.Write(ev))
}

func (w *world) pkeys() []uint32 {
	var toks []uint32
	for _, p := range w.platest.Partitions {
		toks = append(toks, p.Tokens...)
	}
	sort.Slice(toks, func(i, j int) bool { return toks[i] < toks[j] })
	keys := []uint32{0, math.MaxUint32, w.rnd.Uint32()}
	for i := 0; i < 2 && len(toks) > 0; i++ {
		t := toks[w.rnd.Intn(len(toks))]
		keys = append(keys, t-1, t, t+1)
	}
	return keys
}

func (w *world) pshard(id, size, lb int, nowUnix int64, keys []uint32, fpr *ring.PartitionRing, fir *ring.Ring) {
	ident := fmt.Sprintf("t-%d", id)
	var prev *ring.PartitionRing
	if lb == 0 {
		prev = w.prevPP[[2]int{id, size}]
	} else {
		prev = w.prevPL[[3]int{id, size, lb}]
	}
	type pans struct {
		parts  [][4]int64
		owners [][2]int64
		x      string
	}
	call := func(pir *ring.PartitionInstanceRing) (res pans, sub *ring.PartitionRing) {
		defer func() {
			if r := recover(); r != nil {
				res = pans{parts: [][4]int64{}, owners: [][2]int64{}, x: fmt.Sprintf("PANIC: %v", r)}
			}
		}()
		var spir *ring.PartitionInstanceRing
		var err error
		if lb == 0 {
			spir, err = pir.ShuffleShard(ident, size)
		} else {
			spir, err = pir.ShuffleShardWithLookback(ident, size, time.Duration(lb)*time.Second, time.Unix(nowUnix, 0))
		}
		if err != nil {
			return pans{parts: [][4]int64{}, owners: [][2]int64{}, x: "err:" + errStr(err)}, nil
		}
		sub = spir.PartitionRing()
		res.parts, res.owners = w.pringParts(sub)
		res.x = w.psummary(sub, spir, keys)
		return res, sub
	}
	l, lsub := call(w.pir)
	// the PartitionRing cache cannot be switched off: a brand-new PartitionRing for every fresh query
	_ = fpr
	f, _ := call(ring.NewPartitionInstanceRing(staticReader{w.freshPartitionRing()}, fir, hbTimeout))
	hit := lsub != nil && prev != nil && lsub == prev
	if lsub != nil {
		if lb == 0 {
			w.prevPP[[2]int{id, size}] = lsub
		} else {
			w.prevPL[[3]int{id, size, lb}] = lsub
		}
	}
	must(w.rc.tp.Write(xs(map[string]any{"e": "PS", "id": id, "size": size, "L": lb, "now": w.rc.rel(nowUnix), "hit": hit,
		"lp": l.parts, "lo": l.owners, "fp": f.parts, "fo": f.owners}, l.x, f.x)))
	w.rc.res.Cases++
	if hit {
		w.rc.hits++
		w.rc.short++
	}
}

type staticReader struct{ pr *ring.PartitionRing }

func (s staticReader) PartitionRing() *ring.PartitionRing { return s.pr }

func (w *world) pbatch(full bool) {
	fir, stop := w.fresh()
	defer stop()
	fpr := w.freshPartitionRing()
	keys := w.pkeys()
	sel := func(p int) bool { return full || w.rnd.Intn(100) < p }
	// the watcher's ring itself
	lpr := w.watcher.PartitionRing()
	lp, lo := w.pringParts(lpr)
	fp, fo := w.pringParts(fpr)
	must(w.rc.tp.Write(xs(map[string]any{"e": "PD", "lp": lp, "lo": lo, "fp": fp, "fo": fo},
		w.psummary(lpr, w.pir, keys), w.psummary(fpr, ring.NewPartitionInstanceRing(staticReader{fpr}, fir, hbTimeout), keys))))
	w.rc.res.Cases++
	bnow := w.now()
	lbs := []int{lookbackMenu[w.rnd.Intn(len(lookbackMenu))], lookbackMenu[w.rnd.Intn(len(lookbackMenu))]}
	offs := []int64{0, -1, 1, -3, -6, 2}
	for id := 1; id <= 3; id++ {
		for _, size := range []int{0, 1, 2, 3, 20} {
			if sel(35) {
				w.pshard(id, size, 0, 0, keys, fpr, fir)
			}
			for _, lb := range lbs {
				if sel(25) {
					w.pshard(id, size, lb, bnow+offs[w.rnd.Intn(len(offs))], keys, fpr, fir)
				}
			}
		}
	}
	for i := 0; i < 6; i++ {
		w.pshard(1+w.rnd.Intn(3), 1+w.rnd.Intn(3), lbs[0], bnow+offs[w.rnd.Intn(len(offs))], keys, fpr, fir)
	}
}

// ---------------------------------------------------------------------------------------------
// histories
// ---------------------------------------------------------------------------------------------

func (w *world) tick() {
	d := []time.Duration{time.Millisecond, 500 * time.Millisecond, time.Second, time.Second, 2 * time.Second, 5 * time.Second}
	time.Sleep(d[w.rnd.Intn(len(d))])
	synctest.Wait()
}

func (w *world) step(kind string, full bool) {
	w.tick()
	d, k := w.mutate(kind)
	w.push(d)
	w.logUpdate(k, d, "U")
	w.batch(full)
}

func (w *world) pstep(kind string, full bool) {
	w.tick()
	d, k := w.pmutate(kind)
	w.ppush(d)
	w.logPUpdate(k, d)
	w.pbatch(full)
}

// runBubble runs one history inside a synctest bubble; a panic of the driver ends the history and is
// reported as infrastructure trouble (never as a verdict).
func runBubble(t *testing.T, rc *recorder, f func(t *testing.T)) {
	synctest.Test(t, func(t *testing.T) {
		defer func() {
			if r := recover(); r != nil && rc.res.Fatal == "" {
				rc.res.Fatal = fmt.Sprintf("driver panic: %v", r)
			}
		}()
		f(t)
	})
}

func (rc *recorder) reset(h int, hc histCfg, conc bool) {
	excl := []int{}
	for _, z := range hc.excl {
		excl = append(excl, zoneNo(z))
	}
	must(rc.ti.Write(map[string]any{"e": "R", "h": h, "za": hc.za, "rf": hc.rf, "conc": conc, "excl": excl}))
	must(rc.tp.Write(map[string]any{"e": "R", "h": h, "lru": hc.lru}))
}

type histCfg struct {
	za   bool
	rf   int
	lru  int
	excl []string // ring.Config.ExcludedZones of the long-lived and of the fresh client
}

// systematic: prime the caches, apply one update of the given kind, ask everything; then a
// heartbeat-only update and everything again (cached subrings must refresh), then once more.
func systematic(t *testing.T, rc *recorder, h int, seed int64, hc histCfg, kind, pkind string) {
	runBubble(t, rc, func(t *testing.T) {
		rnd := rand.New(rand.NewSource(seed))
		if rc.epoch == 0 {
			rc.epoch = time.Now().Unix()
		}
		rc.reset(h, hc, false)
		w := newWorld(rc, rnd, hc)
		defer w.close()
		d := w.bulk(4 + rnd.Intn(3))
		w.push(d)
		w.logUpdate("bulk", d, "U")
		w.batch(true)
		w.step(kind, true)
		w.step("heartbeat_all", true)
		w.step(kind, false)
		w.step("equal", false)
		if pkind != "" {
			pd := w.pbulk(3 + rnd.Intn(3))
			w.ppush(pd)
			w.logPUpdate("bulk", pd)
			w.pbatch(true)
			w.pstep(pkind, true)
			w.tick()
			w.pbatch(true) // later, same ring: cached look-back entries at other times
			w.pstep(pkind, false)
		}
	})
}

func random(t *testing.T, rc *recorder, h int, seed int64, hc histCfg, steps int) {
	runBubble(t, rc, func(t *testing.T) {
		rnd := rand.New(rand.NewSource(seed))
		if rc.epoch == 0 {
			rc.epoch = time.Now().Unix()
		}
		rc.reset(h, hc, false)
		pre := rnd.Intn(3) == 0 // the clients start on a store that already has content
		w := newWorldPre(rc, rnd, hc, pre)
		defer w.close()
		if pre {
			w.batch(false)
			w.pbatch(false)
		} else {
			if rnd.Intn(3) > 0 {
				d := w.bulk(2 + rnd.Intn(5))
				w.push(d)
				w.logUpdate("bulk", d, "U")
			} else { // start with an empty descriptor in the store
				w.push(ring.NewDesc())
				w.logUpdate("equal", w.latest, "U")
			}
			w.batch(false)
			pd := w.pbulk(rnd.Intn(5))
			w.ppush(pd)
			w.logPUpdate("bulk", pd)
		}
		for s := 0; s < steps; s++ {
			if rnd.Intn(4) == 0 {
				w.pstep(pUpdateKinds[rnd.Intn(len(pUpdateKinds))], false)
				continue
			}
			// heartbeats are the most frequent update of a real ring
			kind := updateKinds[rnd.Intn(len(updateKinds))]
			if rnd.Intn(3) == 0 {
				kind = []string{"heartbeat", "heartbeat_all", "state", "equal"}[rnd.Intn(4)]
			}
			w.step(kind, false)
			if rnd.Intn(3) == 0 { // ask again later without an update in between
				w.tick()
				w.batch(false)
			}
		}
	})
}

// ---------------------------------------------------------------------------------------------
// concurrent readers
// ---------------------------------------------------------------------------------------------

type cquery struct {
	name string
	f    func(r *ring.Ring) string
}

func (w *world) concurrentQueries(q *queryCtx) []cquery {
	rc := w.rc
	var qs []cquery
	ans := func(a answer) string { return fmt.Sprintf("%v|%s", a.M, a.X) }
	for ki, k := range q.keys {
		if ki >= 4 {
			break
		}
		for _, oi := range []int{0, 2} {
			k, op := k, opsMenu[oi]
			qs = append(qs, cquery{fmt.Sprintf("get[%d,%s]", ki, opNames[oi]), func(r *ring.Ring) string {
				rs, err := r.Get(k, op, nil, nil, nil)
				return ans(rc.replicationSet(rs, err, true))
			}})
		}
	}
	qs = append(qs, cquery{"allhealthy", func(r *ring.Ring) string {
		rs, err := r.GetAllHealthy(ring.Reporting)
		return ans(rc.replicationSet(rs, err, false))
	}})
	qs = append(qs, cquery{"rsop", func(r *ring.Ring) string { return ans(rc.replicationSet(rOp(r, ring.Read))) }})
	qs = append(qs, cquery{"count", func(r *ring.Ring) string { return fmt.Sprint(r.InstancesCount()) }})
	qs = append(qs, cquery{"zones", func(r *ring.Ring) string { return fmt.Sprint(r.Zones()) }})
	qs = append(qs, cquery{"inzone", func(r *ring.Ring) string { return fmt.Sprint(r.InstancesInZoneCount("z1")) }})
	qs = append(qs, cquery{"withtokens", func(r *ring.Ring) string { return fmt.Sprint(r.InstancesWithTokensCount()) }})
	qs = append(qs, cquery{"writable", func(r *ring.Ring) string {
		return fmt.Sprint(r.WritableInstancesWithTokensCount(), r.WritableInstancesWithTokensInZoneCount("z2"))
	}})
	qs = append(qs, cquery{"zonescount", func(r *ring.Ring) string { return fmt.Sprint(r.ZonesCount()) }})
	for n := 1; n <= 3; n++ {
		id := abs.InstID(n)
		qs = append(qs, cquery{"instance[" + id + "]", func(r *ring.Ring) string {
			d, err := r.GetInstance(id)
			if err != nil {
				return "err:" + errStr(err)
			}
			return fmt.Sprint(rc.rec(d))
		}})
		qs = append(qs, cquery{"ranges[" + id + "]", func(r *ring.Ring) string {
			tr, err := r.GetTokenRangesForInstance(id)
			return fmt.Sprintf("%v/%s", rankRanges(tr, q.universe), errStr(err))
		}})
	}
	qs = append(qs, cquery{"state[i-1]", func(r *ring.Ring) string {
		st, err := r.GetInstanceState("i-1")
		return fmt.Sprintf("%v/%s", st, errStr(err))
	}})
	qs = append(qs, cquery{"substates", func(r *ring.Ring) string { // the subring is immutable: one atomic read of the ring
		sub := r.GetSubringForOperationStates(ring.Read)
		rs, err := sub.GetAllHealthy(ring.Reporting)
		return ans(rc.replicationSet(rs, err, false)) + fmt.Sprint(sub.InstancesCount(), sub.Zones())
	}})
	qs = append(qs, cquery{"getopts", func(r *ring.Ring) string {
		rs, err := r.GetWithOptions(q.keys[0], ring.Write, ring.WithReplicationFactor(w.cfg.ReplicationFactor+1))
		return ans(rc.replicationSet(rs, err, true))
	}})
	bnow := w.now()
	for id := 1; id <= 2; id++ {
		for _, size := range []int{1, 2, 0} {
			ident, size := fmt.Sprintf("t-%d", id), size
			// one atomic projection call on the returned subring
			proj := func(s ring.ReadRing) string {
				rs, err := s.GetAllHealthy(ring.Reporting)
				return ans(rc.replicationSet(rs, err, false))
			}
			qs = append(qs, cquery{fmt.Sprintf("shard[%s,%d]", ident, size), func(r *ring.Ring) string { return proj(r.ShuffleShard(ident, size)) }})
			qs = append(qs, cquery{fmt.Sprintf("shard[%s,%d].get", ident, size), func(r *ring.Ring) string {
				rs, err := r.ShuffleShard(ident, size).Get(q.keys[0], ring.Read, nil, nil, nil)
				return ans(rc.replicationSet(rs, err, true))
			}})
			for _, lb := range []int{2, 5} {
				lb := lb
				qs = append(qs, cquery{fmt.Sprintf("lbshard[%s,%d,%d]", ident, size, lb), func(r *ring.Ring) string {
					return proj(r.ShuffleShardWithLookback(ident, size, time.Duration(lb)*time.Second, time.Unix(bnow, 0)))
				}})
			}
		}
	}
	return qs
}

func safe(f func(r *ring.Ring) string, r *ring.Ring) (s string) {
	defer func() {
		if p := recover(); p != nil {
			s = fmt.Sprintf("PANIC: %v", p)
		}
	}()
	return f(r)
}

// concurrent: readers hammer the long-lived client while one update is delivered; every answer
// must be the fresh answer for the descriptor before or after that update.
func concurrent(t *testing.T, rc *recorder, h int, seed int64, hc histCfg, rounds, readers int) {
	runBubble(t, rc, func(t *testing.T) {
		rnd := rand.New(rand.NewSource(seed))
		if rc.epoch == 0 {
			rc.epoch = time.Now().Unix()
		}
		rc.reset(h, hc, true)
		w := newWorld(rc, rnd, hc)
		defer w.close()
		d := w.bulk(4 + rnd.Intn(3))
		w.push(d)
		w.logUpdate("bulk", d, "CU")
		for round := 0; round < rounds; round++ {
			w.tick()
			q := w.queryCtx()
			qs := w.concurrentQueries(q)
			fr, stop := w.fresh()
			before := make([]string, len(qs))
			for i, cq := range qs {
				before[i] = safe(cq.f, fr)
			}
			stop()
			kind := updateKinds[rnd.Intn(len(updateKinds))]
			if rnd.Intn(3) == 0 {
				kind = []string{"heartbeat_all", "state", "token", "remove"}[rnd.Intn(4)]
			}
			nd, k := w.mutate(kind)
			var stopFlag atomic.Bool
			var wg sync.WaitGroup
			seen := make([]map[string]bool, readers)
			for g := 0; g < readers; g++ {
				g := g
				seen[g] = map[string]bool{}
				order := rnd.Perm(len(qs))
				wg.Add(1)
				go func() {
					defer wg.Done()
					for it := 0; it < 2000; it++ {
						for _, i := range order {
							seen[g][fmt.Sprintf("%d\x00%s", i, safe(qs[i].f, w.long))] = true
						}
						if stopFlag.Load() && it >= 1 {
							return
						}
					}
				}()
			}
			base := w.store.delivered.Load()
			err := w.store.CAS(context.Background(), ringKey, func(any) (any, bool, error) { return proto.Clone(nd), false, nil })
			if err != nil {
				panic(err)
			}
			for w.store.delivered.Load() == base {
				runtime.Gosched()
			}
			stopFlag.Store(true)
			wg.Wait()
			synctest.Wait()
			w.latest = nd
			w.logUpdate(k, nd, "CU")
			fr, stop = w.fresh()
			after := make([]string, len(qs))
			for i, cq := range qs {
				after[i] = safe(cq.f, fr)
			}
			stop()
			all := map[string]bool{}
			for g := range seen {
				for s := range seen[g] {
					all[s] = true
				}
			}
			keys := make([]string, 0, len(all))
			for s := range all {
				keys = append(keys, s)
			}
			sort.Strings(keys)
			for _, s := range keys {
				var i int
				parts := strings.SplitN(s, "\x00", 2)
				fmt.Sscanf(parts[0], "%d", &i)
				ev := map[string]any{"e": "CQ", "q": qs[i].name, "ans": digest(parts[1]), "before": digest(before[i]), "after": digest(after[i])}
				if parts[1] != before[i] && parts[1] != after[i] {
					ev["ansfull"], ev["beforefull"], ev["afterfull"] = parts[1], before[i], after[i]
				}
				must(rc.ti.Write(ev))
				rc.res.Cases++
				if before[i] != after[i] {
					rc.short++
				}
			}
		}
		w.pconcurrent(rounds, readers)
	})
}

// pconcurrent: readers take the watcher's PartitionRing (and shards of it through the PartitionInstanceRing) while one
// partition-ring update is delivered; every answer must be the one of the descriptor before or after that update.
func (w *world) pconcurrent(rounds, readers int) {
	rc, rnd := w.rc, w.rnd
	pd := w.pbulk(3 + rnd.Intn(3))
	w.ppush(pd)
	w.logPUpdate("bulk", pd)
	type pquery struct {
		name string
		f    func(pr *ring.PartitionRing) string
	}
	for round := 0; round < rounds; round++ {
		w.tick()
		keys := w.pkeys()
		bnow := w.now()
		proj := func(pr *ring.PartitionRing) string {
			p, o := w.pringParts(pr)
			return fmt.Sprint(p, o, w.psummary(pr, nil, keys))
		}
		qs := []pquery{{"pring", proj}}
		for id := 1; id <= 2; id++ {
			for _, size := range []int{1, 2, 0} {
				ident, size := fmt.Sprintf("t-%d", id), size
				qs = append(qs, pquery{fmt.Sprintf("pshard[%s,%d]", ident, size), func(pr *ring.PartitionRing) string {
					sub, err := pr.ShuffleShard(ident, size)
					if err != nil {
						return "err:" + errStr(err)
					}
					return proj(sub)
				}})
				qs = append(qs, pquery{fmt.Sprintf("plbshard[%s,%d]", ident, size), func(pr *ring.PartitionRing) string {
					sub, err := pr.ShuffleShardWithLookback(ident, size, 3*time.Second, time.Unix(bnow, 0))
					if err != nil {
						return "err:" + errStr(err)
					}
					return proj(sub)
				}})
			}
		}
		psafe := func(f func(pr *ring.PartitionRing) string, pr *ring.PartitionRing) (s string) {
			defer func() {
				if p := recover(); p != nil {
					s = fmt.Sprintf("PANIC: %v", p)
				}
			}()
			return f(pr)
		}
		before := make([]string, len(qs))
		fpr := w.freshPartitionRing()
		for i, q := range qs {
			before[i] = psafe(q.f, fpr)
		}
		nd, k := w.pmutate(pUpdateKinds[rnd.Intn(len(pUpdateKinds))])
		var stopFlag atomic.Bool
		var wg sync.WaitGroup
		seen := make([]map[string]bool, readers)
		for g := 0; g < readers; g++ {
			g := g
			seen[g] = map[string]bool{}
			order := rnd.Perm(len(qs))
			wg.Add(1)
			go func() {
				defer wg.Done()
				for it := 0; it < 2000; it++ {
					for _, i := range order {
						// the linearization point of a read is the moment the watcher hands out its ring
						seen[g][fmt.Sprintf("%d\x00%s", i, psafe(qs[i].f, w.watcher.PartitionRing()))] = true
					}
					if stopFlag.Load() && it >= 1 {
						return
					}
				}
			}()
		}
		base := w.pstore.delivered.Load()
		must(w.pstore.CAS(context.Background(), partKey, func(any) (any, bool, error) { return proto.Clone(nd), false, nil }))
		for w.pstore.delivered.Load() == base {
			runtime.Gosched()
		}
		stopFlag.Store(true)
		wg.Wait()
		synctest.Wait()
		w.platest = nd
		w.logPUpdate(k, nd)
		fpr = w.freshPartitionRing()
		after := make([]string, len(qs))
		for i, q := range qs {
			after[i] = psafe(q.f, fpr)
		}
		all := map[string]bool{}
		for g := range seen {
			for s := range seen[g] {
				all[s] = true
			}
		}
		keysS := make([]string, 0, len(all))
		for s := range all {
			keysS = append(keysS, s)
		}
		sort.Strings(keysS)
		for _, s := range keysS {
			var i int
			parts := strings.SplitN(s, "\x00", 2)
			fmt.Sscanf(parts[0], "%d", &i)
			ev := map[string]any{"e": "PCQ", "q": qs[i].name, "ans": digest(parts[1]), "before": digest(before[i]), "after": digest(after[i])}
			if parts[1] != before[i] && parts[1] != after[i] {
				ev["ansfull"], ev["beforefull"], ev["afterfull"] = parts[1], before[i], after[i]
			}
			must(rc.tp.Write(ev))
			rc.res.Cases++
			if before[i] != after[i] {
				rc.short++
			}
		}
	}
}

// ---------------------------------------------------------------------------------------------
// gated reader (hook H5): the two critical sections of ShuffleShard / ShuffleShardWithLookback
// with an update delivered in between - RingClient.tla QueryPlain / QueryLb, Update, Fill
// ---------------------------------------------------------------------------------------------

// gated: a reader computes a shard (cache miss) and is parked at the yield point between the
// computation and the cache fill; the driver pushes one update through the store and waits for
// quiescence; the reader is released (it fills, or must refuse to fill, the cache); then the same
// query is asked again on the long-lived client and compared with a fresh client.
func gated(t *testing.T, rc *recorder, h int, seed int64, hc histCfg, kinds []string) {
	runBubble(t, rc, func(t *testing.T) {
		rnd := rand.New(rand.NewSource(seed))
		if rc.epoch == 0 {
			rc.epoch = time.Now().Unix()
		}
		rc.reset(h, hc, false)
		w := newWorld(rc, rnd, hc)
		defer w.close()
		var armed atomic.Bool
		var parked atomic.Bool
		release := make(chan struct{})
		prevHook := ring.VerifYield
		ring.VerifYield = func(point string) {
			if point != "ring.ShuffleShard.computed" && point != "ring.ShuffleShardWithLookback.computed" {
				return
			}
			if armed.CompareAndSwap(true, false) {
				parked.Store(true)
				<-release
			}
		}
		defer func() { ring.VerifYield = prevHook }()
		d := w.bulk(4 + rnd.Intn(3))
		w.push(d)
		w.logUpdate("bulk", d, "U")
		w.batch(false)
		for ri, kind := range kinds {
			w.tick()
			id := 1 + rnd.Intn(numIdent)
			size := sizesMenu[1+rnd.Intn(3)] // 1..3: a real walk
			lb := 0
			if ri%2 == 1 {
				lb = lookbackMenu[rnd.Intn(len(lookbackMenu))]
			}
			nowUnix := w.now() - int64(rnd.Intn(3))
			ident := fmt.Sprintf("t-%d", id)
			call := func(r *ring.Ring) ring.ReadRing {
				if lb == 0 {
					return r.ShuffleShard(ident, size)
				}
				return r.ShuffleShardWithLookback(ident, size, time.Duration(lb)*time.Second, time.Unix(nowUnix, 0))
			}
			// make sure the reader misses
			w.long.CleanupShuffleShardCache(ident)
			must(rc.ti.Write(map[string]any{"e": "X", "id": id}))
			q := w.queryCtx()
			fr, stop := w.fresh()
			var fs ring.ReadRing
			f0 := guard(func() answer {
				fs = call(fr)
				return answer{M: rc.members(fs), X: rc.summary(fs, q, 1)}
			})
			fself := fs == ring.ReadRing(fr)
			stop()
			// first critical section: lookup + computation, parked before the fill
			var got ring.ReadRing
			done := make(chan struct{})
			parked.Store(false)
			armed.Store(true)
			go func() {
				defer close(done)
				defer func() { _ = recover() }()
				got = call(w.long)
			}()
			synctest.Wait()
			if !parked.Load() { // the reader did not reach the yield point (cache hit?): nothing to interleave
				armed.Store(false)
				<-done
				continue
			}
			must(rc.ti.Write(map[string]any{"e": "GQ", "id": id, "size": size, "L": lb, "now": rc.rel(nowUnix), "fself": fself, "fm": f0.M}))
			// the update is delivered while the reader is parked
			nd, k := w.mutate(kind)
			w.push(nd)
			w.logUpdate(k, nd, "U")
			// second critical section
			release <- struct{}{}
			<-done
			synctest.Wait()
			self := got == ring.ReadRing(w.long)
			l := guard(func() answer {
				if got == nil {
					return answer{X: "PANIC in reader"}
				}
				return answer{M: rc.members(got), X: rc.summary(got, q, 1)}
			})
			must(rc.ti.Write(xs(map[string]any{"e": "GF", "id": id, "size": size, "L": lb, "self": self, "lm": l.M, "fm": f0.M}, l.X, f0.X)))
			rc.res.Cases++
			rc.short++
			// the same query again: served from the cache iff the fill was accepted
			if got != nil && !self {
				if lb == 0 {
					w.prevPlain[[2]int{id, size}] = got
				} else {
					w.prevLb[[3]int{id, size, lb}] = got
				}
			}
			fr, stop = w.fresh()
			q = w.queryCtx()
			w.shard(id, size, lb, nowUnix, q, fr, true)
			w.shard(id, size, lb, nowUnix, q, fr, false)
			stop()
			if ri%3 == 2 {
				w.batch(false)
			}
		}
	})
}

// ---------------------------------------------------------------------------------------------
// ring client over the gossip KV: the long-lived ring.Ring watches a detached memberlist KV; updates
// are made on a peer node and arrive as in-place merges through NotifyMsg / MergeRemoteState. The
// values handed to the ring are shallow clones of the node's store that share token storage with
// earlier values (RingCompare has a same-storage fast path); the fresh client gets a deep copy.
// ---------------------------------------------------------------------------------------------

func newGossipNode(name string) (*memberlist.KV, kv.Client) {
	var cfg memberlist.KVConfig
	cfg.Codecs = append(cfg.Codecs, ring.GetCodec())
	cfg.NodeName = name
	cfg.RetransmitMult = 2
	cfg.LeftIngestersTimeout = time.Hour
	cfg.NotifyInterval = 0
	cfg.WatchPrefixBufferSize = 128
	mkv := memberlist.NewDetachedKVForVerif(cfg, log.NewNopLogger(), func() int { return 2 })
	if err := services.StartAndAwaitRunning(context.Background(), mkv); err != nil {
		panic(err)
	}
	cli, err := memberlist.NewClient(mkv, ring.GetCodec())
	if err != nil {
		panic(err)
	}
	return mkv, cli
}

func gossip(t *testing.T, rc *recorder, h int, seed int64, hc histCfg, steps int) {
	runBubble(t, rc, func(t *testing.T) {
		rnd := rand.New(rand.NewSource(seed))
		if rc.epoch == 0 {
			rc.epoch = time.Now().Unix()
		}
		rc.reset(h, hc, false)
		w := &world{rc: rc, rnd: rnd, nextAddr: 1,
			prevPlain: map[[2]int]ring.ReadRing{}, prevLb: map[[3]int]ring.ReadRing{},
			prevPP: map[[2]int]*ring.PartitionRing{}, prevPL: map[[3]int]*ring.PartitionRing{}}
		w.cfg = ring.Config{HeartbeatTimeout: hbTimeout, ReplicationFactor: hc.rf, ZoneAwarenessEnabled: hc.za}
		longKV, longCli := newGossipNode("long")
		peerKV, peerCli := newGossipNode("peer")
		w.store = &countingKV{Client: longCli}
		var err error
		w.long, err = ring.NewWithStoreClientAndStrategy(w.cfg, "long", ringKey, w.store, ring.NewDefaultReplicationStrategy(), nil, log.NewNopLogger())
		must(err)
		must(services.StartAndAwaitRunning(context.Background(), w.long))
		defer func() {
			_ = services.StopAndAwaitTerminated(context.Background(), w.long)
			_ = services.StopAndAwaitTerminated(context.Background(), longKV)
			_ = services.StopAndAwaitTerminated(context.Background(), peerKV)
			synctest.Wait()
		}()
		w.latest = ring.NewDesc()
		synctest.Wait()
		// what the long node's store holds now, as a deep copy
		content := func() *ring.Desc {
			v, err := w.store.Get(context.Background(), ringKey)
			must(err)
			if v == nil {
				return ring.NewDesc()
			}
			return proto.Clone(v.(*ring.Desc)).(*ring.Desc)
		}
		for s := 0; s < steps; s++ {
			w.tick()
			time.Sleep(time.Second) // merges only accept strictly newer heartbeats
			synctest.Wait()
			// the peer changes the ring the way lifecyclers do: every touched instance gets a newer heartbeat
			base := content()
			w.latest = base
			kind := updateKinds[rnd.Intn(len(updateKinds))]
			if rnd.Intn(3) == 0 {
				kind = []string{"heartbeat", "heartbeat_all", "state"}[rnd.Intn(3)]
			}
			nd, k := w.mutateFrom(base, kind)
			for id, ing := range nd.Ingesters {
				old, ok := base.Ingesters[id]
				if !ok || !proto.Equal(&old, &ing) {
					ing.Timestamp = w.now()
					nd.Ingesters[id] = ing
				}
			}
			for id, old := range base.Ingesters { // leaving the ring = a LEFT tombstone
				if _, ok := nd.Ingesters[id]; !ok && k != "equal" {
					old.State = ring.LEFT
					old.Timestamp = w.now()
					nd.Ingesters[id] = old
				}
			}
			before := w.store.delivered.Load()
			via := rnd.Intn(3)
			// a CAS whose merge changes nothing is refused by the memberlist client ("no change detected")
			noChange := func(err error) {
				if err != nil && !strings.Contains(err.Error(), "no change detected") {
					panic(err)
				}
			}
			if via == 0 { // a CAS on the long node itself (local merge)
				noChange(w.store.CAS(context.Background(), ringKey, func(any) (any, bool, error) { return proto.Clone(nd), false, nil }))
			} else {
				// make the peer know what the long node knows, then change it there
				peerKV.MergeRemoteState(longKV.LocalState(false), false)
				synctest.Wait()
				_ = peerKV.GetBroadcasts(0, 1<<24)
				noChange(peerCli.CAS(context.Background(), ringKey, func(any) (any, bool, error) { return proto.Clone(nd), false, nil }))
				synctest.Wait()
				if via == 1 { // gossip messages
					for _, msg := range peerKV.GetBroadcasts(0, 1<<24) {
						longKV.NotifyMsg(msg)
					}
				} else { // push/pull
					longKV.MergeRemoteState(peerKV.LocalState(false), false)
				}
			}
			synctest.Wait()
			if w.store.delivered.Load() == before { // nothing new for the long node: no notification
				continue
			}
			w.latest = content()
			w.logUpdate("multi", w.latest, "U") // the class is whatever the merge result amounts to
			w.lastKind = k
			w.batch(false)
			if rnd.Intn(4) == 0 {
				w.tick()
				w.batch(false)
			}
		}
	})
}

// ---------------------------------------------------------------------------------------------

// exclOf: one history in three runs with one or two excluded zones
func exclOf(rnd *rand.Rand) []string {
	switch rnd.Intn(6) {
	case 0:
		return []string{zonesMenu[rnd.Intn(len(zonesMenu))]}
	case 1:
		z := rnd.Intn(len(zonesMenu))
		return []string{zonesMenu[z], zonesMenu[(z+1)%len(zonesMenu)]}
	}
	return nil
}

func TestRecord(t *testing.T) {
	ti, tp, recs := os.Getenv("VERIF_TRACE_I"), os.Getenv("VERIF_TRACE_P"), os.Getenv("VERIF_RECS")
	if ti == "" || tp == "" || recs == "" {
		t.Skip("VERIF_TRACE_I / VERIF_TRACE_P / VERIF_RECS not set")
	}
	res := &abs.Result{}
	rc := &recorder{recID: map[string]int{}, tokID: map[string]int{}, res: res}
	var err error
	if rc.ti, err = abs.NewNDJSONWriter(ti); err != nil {
		t.Fatal(err)
	}
	if rc.tp, err = abs.NewNDJSONWriter(tp); err != nil {
		t.Fatal(err)
	}
	if rc.recs, err = abs.NewNDJSONWriter(recs); err != nil {
		t.Fatal(err)
	}
	seed := abs.Seed()
	nRandom := abs.EnvInt("VERIF_RANDOM", 6)
	nConc := abs.EnvInt("VERIF_CONC", 2)
	sysCfgs := abs.EnvInt("VERIF_SYSCFGS", 2)
	func() {
		defer func() {
			if r := recover(); r != nil {
				res.Fatal = fmt.Sprintf("driver panic: %v", r)
			}
		}()
		h := 0
		cfgs := []histCfg{{za: true, rf: 3, lru: 2}, {za: false, rf: 2, lru: 0}, {za: true, rf: 2, lru: 1}, {za: false, rf: 1, lru: 3}}
		for ci := 0; ci < sysCfgs && ci < len(cfgs); ci++ {
			for ki, kind := range updateKinds {
				h++
				pkind := ""
				if ki < len(pUpdateKinds) {
					pkind = pUpdateKinds[ki]
				}
				hc := cfgs[(ci+int(seed))%len(cfgs)]
				if h%3 == 0 { // every third history: ring.Config.ExcludedZones on the long-lived and the fresh client
					hc.excl = []string{zonesMenu[(h/3)%len(zonesMenu)]}
				}
				systematic(t, rc, h, seed*1000003+int64(h), hc, kind, pkind)
			}
		}
		rnd := rand.New(rand.NewSource(seed*7919 + 13))
		for i := 0; i < nRandom; i++ {
			h++
			hc := histCfg{za: rnd.Intn(2) == 0, rf: 1 + rnd.Intn(3), lru: rnd.Intn(4), excl: exclOf(rnd)}
			random(t, rc, h, seed*1000003+int64(h), hc, 20+rnd.Intn(41))
		}
		for i := 0; i < nConc; i++ {
			h++
			hc := histCfg{za: rnd.Intn(2) == 0, rf: 1 + rnd.Intn(3), lru: rnd.Intn(3), excl: exclOf(rnd)}
			concurrent(t, rc, h, seed*1000003+int64(h), hc, abs.EnvInt("VERIF_ROUNDS", 12), 4)
		}
		for i := 0; i < abs.EnvInt("VERIF_GATED", 2); i++ {
			h++
			hc := histCfg{za: rnd.Intn(2) == 0, rf: 1 + rnd.Intn(3), lru: 0, excl: exclOf(rnd)}
			// every topology-changing kind, with heartbeat / state / equal controls in between
			kinds := []string{"token", "heartbeat_all", "remove", "equal", "add", "state", "addr", "zone", "hbstate", "reg", "ro_both", "heartbeat", "replace", "ro_time", "ro_flag", "multi",
				"tok_swap", "zone_swap", "zone_rename", "ro_swap", "reg_swap", "ts_back", "handover"}
			rnd.Shuffle(len(kinds), func(a, b int) { kinds[a], kinds[b] = kinds[b], kinds[a] })
			gated(t, rc, h, seed*1000003+int64(h), hc, kinds)
		}
		for i := 0; i < abs.EnvInt("VERIF_GOSSIP", 2); i++ {
			h++
			hc := histCfg{za: rnd.Intn(2) == 0, rf: 1 + rnd.Intn(3), lru: 0}
			gossip(t, rc, h, seed*1000003+int64(h), hc, 15+rnd.Intn(16))
		}
		res.AddExtra("histories", h)
	}()
	for _, wr := range []*abs.NDJSONWriter{rc.ti, rc.tp, rc.recs} {
		if err := wr.Close(); err != nil && res.Fatal == "" {
			res.Fatal = err.Error()
		}
	}
	res.Nontrivial = rc.short
	res.AddExtra("cache_hits_observed", rc.hits)
	res.AddExtra("trace_lines_instance", rc.ti.N)
	res.AddExtra("trace_lines_partition", rc.tp.N)
	res.AddExtra("records", rc.recs.N)
	res.Write(t)
}
