\* C06 thorough (two keys): 2 nodes x 2 keys x 1 entry id each (the same content name under both keys),
\* clock 0..1, 3 CAS; both keys share each node's two broadcast queues; a broadcast supersedes only
\* queued broadcasts of its own key.
CONSTANTS
  N = 2
  NI = 1
  NK = 2
  MaxClock = 1
  Retention = 0
  T = 1
  MaxCas = 3
  MaxFaults = 0
  LiveStates = {"ACTIVE"}
  WatchNodes = {1, 2}
  HoldNodes = {}
  AllowRestart = FALSE
  AllowGarbage = FALSE
  AllowPartition = FALSE
  AllowJunkPP = FALSE
  GateNodes = {}
  InboxCap = 1
  VersionTest = TRUE
  KeyTest = TRUE
  MaxDel = 0
  ObsoleteTimeout = 1
  LockKeys = {}
  ConsumeNet = FALSE
  Ideal = TRUE
  Ghost = TRUE
  Record = FALSE
  Quiesce = FALSE
  RunDepth = 0
  QRounds = 2
SPECIFICATION Spec
VIEW view
INVARIANTS TypeOK TombstonesInvisible InvalidationSafe NoInventedContent SentIsWritten WatcherNeverStale PrefixWatcherNeverStale VersionCountsChanges
PROPERTIES TombstonesForwarded NoResurrection GCOnlyExpired NoExpiredTombstoneStored OnlyChangesForwarded DeletedStaysDeleted RemovedOnlyWhenObsolete DeletedNotRevived
CHECK_DEADLOCK FALSE
