CONSTANTS
  NP = 4
  NL = 4
  NO = 6
  MaxClock = 1000000
  AgeCap = 3
  Multi = FALSE
  LCfg = 0
  TokOf = 0
  Homes = 0
  WaitModes = {}
  LockParts = {}
  ReqStates = {"P", "A", "I", "D"}
INIT TInit
NEXT TNext
INVARIANTS TypeOK @@INV@@
PROPERTIES LegalEdges LockRespected PromotionTiming DeletionGuard LockOnlyByEditor RefusedIsNoWrite
CHECK_DEADLOCK FALSE
