\* C03 instance ring, quick: all pairs of two-id descriptors drawing from a shared pool (the provisos filter the colliding ones), pair laws
CONSTANTS
  N = 2
  M = 2
  Shared = TRUE
  TsSet = {1, 2}
  LiveSt = {"ACTIVE"}
  Arity = 2
  EmitConv = FALSE
INIT Init
NEXT Next
INVARIANTS PairLaws TripleLaws RawLaws EmitConvergence
CHECK_DEADLOCK FALSE
