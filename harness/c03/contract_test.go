package c03

// spec -> code for the rest of the memberlist.Mergeable contract (spec/ringmerge/RingContract.tla,
// PartitionEdit.tla):
//
//	gc / pgc   one descriptor and one RemoveTombstones limit (in half seconds; 0 = zero time): MergeContent,
//	           Clone (equal, and independent of the original), RemoveTombstones(limit) (result, total, removed,
//	           twice = no-op) and the codec round trip are compared with Content / GC of the specification.
//	pedit      one local CAS on the partition ring as memberlist runs it: in = Clone + RemoveTombstones(zero)
//	           of the stored value, out = one of the descriptor's own mutators applied to it at the case's
//	           clock, stored.Merge(out, localCAS = true), then the returned change (through the codec) merged
//	           into a replica that held the pre-state and into a fresh one.  Every intermediate value and the
//	           mutator's return values are compared with PartitionEdit!Edit.

import (
	"errors"
	"fmt"
	"sort"
	"strconv"
	"time"

	"verifharness/internal/abs"

	"github.com/grafana/dskit/kv/memberlist"
	"github.com/grafana/dskit/ring"
)

func limitOf(lim2 int) time.Time {
	if lim2 == 0 {
		return time.Time{}
	}
	return time.Unix(abs.Epoch2000, 0).Add(time.Duration(lim2) * 500 * time.Millisecond)
}

func sameIntSet(a, b []int) bool {
	a = append([]int(nil), a...)
	b = append([]int(nil), b...)
	sort.Ints(a)
	sort.Ints(b)
	if len(a) != len(b) {
		return false
	}
	for i := range a {
		if a[i] != b[i] {
			return false
		}
	}
	return true
}

// ringContent maps Desc.MergeContent() back to instance numbers (-1: a name the universe does not have).
func ringContent(d *ring.Desc, n int) []int {
	ids := map[string]int{}
	for k := 1; k <= n; k++ {
		ids[abs.MergeID(k, n)] = k
	}
	out := []int{}
	for _, s := range d.MergeContent() {
		if k, ok := ids[s]; ok {
			out = append(out, k)
		} else {
			out = append(out, -1)
		}
	}
	return out
}

func presentIDs(d abs.MDesc) []int {
	out := []int{}
	for k, e := range d {
		if e.Present() {
			out = append(out, k+1)
		}
	}
	return out
}

// partContent maps PartitionRingDesc.MergeContent() back to partition numbers and owner numbers.
// Observation (not part of the property): the real slice starts with len(Partitions)+len(Owners) empty
// strings (make([]string, n) followed by append); they are the same on both sides of every inclusion test
// the KV makes and vanish when the descriptor is empty, so they are skipped here and counted.
func partContent(d *ring.PartitionRingDesc, np, no int) (parts, owners []int, blanks int) {
	oids := map[string]int{}
	for k := 1; k <= no; k++ {
		oids[abs.OwnerID(k, no)] = k
	}
	parts, owners = []int{}, []int{}
	for _, s := range d.MergeContent() {
		if s == "" {
			blanks++
			continue
		}
		if k, ok := oids[s]; ok {
			owners = append(owners, k)
		} else if p, err := strconv.Atoi(s); err == nil && p >= 1 && p <= np {
			parts = append(parts, p)
		} else {
			parts = append(parts, -1)
		}
	}
	return
}

func presentP(d abs.PDesc) (parts, owners []int) {
	parts, owners = []int{}, []int{}
	for k, e := range d.Parts {
		if e.State != "ABSENT" {
			parts = append(parts, k+1)
		}
	}
	for k, e := range d.Owners {
		if e.State != "ABSENT" {
			owners = append(owners, k+1)
		}
	}
	return
}

// ------------------------------------------------------------------------------------------- gc (instance ring)

type gcCase struct {
	Kind    string    `json:"kind"`
	D       abs.MDesc `json:"d"`
	Lim2    int       `json:"lim2"`
	Result  abs.MDesc `json:"result"`
	Total   int       `json:"total"`
	Removed int       `json:"removed"`
	Content []int     `json:"content"`
}

func (dr *driver) ringGC(c *gcCase) {
	dr.counts["gc"]++
	if corrupt > 0 && dr.counts["gc"] == corrupt {
		c.Removed++
	}
	n := len(c.D)
	emb := abs.BoundaryEmbedding(numPos(c.D))
	sig := func(what string) string {
		cls := "between"
		switch {
		case c.Lim2 == 0:
			cls = "zero"
		case c.Lim2%2 == 0:
			cls = "whole-second"
		}
		return fmt.Sprintf("ring:contract %s limit=%s", what, cls)
	}
	bad := func(what string, got, want any) {
		dr.res.Mismatch(abs.Mismatch{Sig: sig(what), Case: c, Got: got, Want: want})
	}
	defer func() {
		if r := recover(); r != nil {
			bad("panic", fmt.Sprint(r), "no panic")
		}
	}()
	d := abs.BuildDesc(c.D, abs.RingBuild{Emb: emb, Tag: "d"})
	if got := ringContent(d, n); !sameIntSet(got, c.Content) {
		bad("MergeContent", got, c.Content)
		return
	}
	// degenerate arguments (Merge(mine, Nil) is the identity; a foreign Mergeable is refused): receiver untouched
	for _, arg := range []memberlist.Mergeable{nil, (*ring.Desc)(nil)} {
		if ch, err := d.Merge(arg, c.Lim2%2 == 0); err != nil || !abs.IsNilMergeable(ch) {
			bad("Merge-nil-argument", fmt.Sprint(ch, err), "no change, no error")
			return
		}
	}
	if ch, err := d.Merge(ring.NewPartitionRingDesc(), c.Lim2%2 == 0); err == nil || !abs.IsNilMergeable(ch) {
		bad("Merge-foreign-argument", fmt.Sprint(ch, err), "an error and no change")
		return
	}
	clone, ok := d.Clone().(*ring.Desc)
	if !ok || clone == d {
		bad("Clone-type", fmt.Sprintf("%T same=%t", d.Clone(), clone == d), "a new *ring.Desc")
		return
	}
	if got, problems := abs.ProjectDesc(clone, n, emb); len(problems) > 0 || !got.Equal(c.D) {
		bad("Clone-content", got, c.D)
		return
	}
	total, removed := clone.RemoveTombstones(limitOf(c.Lim2))
	got, problems := abs.ProjectDesc(clone, n, emb)
	if len(problems) > 0 || !got.Equal(c.Result) {
		bad("RemoveTombstones-result", map[string]any{"state": got, "problems": problems}, c.Result)
		return
	}
	if total != c.Total || removed != c.Removed {
		bad("RemoveTombstones-counts", []int{total, removed}, []int{c.Total, c.Removed})
		return
	}
	if t2, r2 := clone.RemoveTombstones(limitOf(c.Lim2)); t2 != c.Total || r2 != 0 {
		bad("RemoveTombstones-twice", []int{t2, r2}, []int{c.Total, 0})
		return
	}
	if got, _ := abs.ProjectDesc(clone, n, emb); !got.Equal(c.Result) {
		bad("RemoveTombstones-twice", got, c.Result)
		return
	}
	// the copy is independent: collecting it, replacing and deleting its entries leaves the original alone
	for id := range clone.Ingesters {
		clone.Ingesters[id] = ring.InstanceDesc{Id: id, State: ring.LEFT, Timestamp: 1}
	}
	clone.Ingesters["x"] = ring.InstanceDesc{}
	if got, problems := abs.ProjectDesc(d, n, emb); len(problems) > 0 || !got.Equal(c.D) {
		bad("Clone-independent", map[string]any{"state": got, "problems": problems}, c.D)
		return
	}
	if got, problems := abs.ProjectDesc(viaCodec(d), n, emb); len(problems) > 0 || !got.Equal(c.D) {
		bad("codec-roundtrip", map[string]any{"state": got, "problems": problems}, c.D)
		return
	}
	dr.res.Cases++
	if c.Removed > 0 {
		dr.res.Nontrivial++
		dr.sample("gc", c)
	}
}

// ------------------------------------------------------------------------------------------- pgc (partition ring)

type pgcCase struct {
	Kind    string    `json:"kind"`
	D       abs.PDesc `json:"d"`
	Lim2    int       `json:"lim2"`
	Result  abs.PDesc `json:"result"`
	Total   int       `json:"total"`
	Removed int       `json:"removed"`
	CParts  []int     `json:"cparts"`
	COwners []int     `json:"cowners"`
}

func (dr *driver) partGC(c *pgcCase) {
	dr.counts["pgc"]++
	if corrupt > 0 && dr.counts["pgc"] == corrupt {
		c.Removed++
	}
	np, no := len(c.D.Parts), len(c.D.Owners)
	sig := func(what string) string {
		cls := "between"
		switch {
		case c.Lim2 == 0:
			cls = "zero"
		case c.Lim2%2 == 0:
			cls = "whole-second"
		}
		return fmt.Sprintf("part:contract %s limit=%s", what, cls)
	}
	bad := func(what string, got, want any) {
		dr.res.Mismatch(abs.Mismatch{Sig: sig(what), Case: c, Got: got, Want: want})
	}
	defer func() {
		if r := recover(); r != nil {
			bad("panic", fmt.Sprint(r), "no panic")
		}
	}()
	d := abs.BuildPDesc(c.D, tagMine)
	gp, gow, blanks := partContent(d, np, no)
	if !sameIntSet(gp, c.CParts) || !sameIntSet(gow, c.COwners) {
		bad("MergeContent", map[string]any{"parts": gp, "owners": gow}, map[string]any{"parts": c.CParts, "owners": c.COwners})
		return
	}
	if (len(c.CParts)+len(c.COwners) == 0) != (len(d.MergeContent()) == 0) {
		bad("MergeContent-emptiness", len(d.MergeContent()), "empty exactly for the empty descriptor")
		return
	}
	dr.blanks += blanks
	for _, arg := range []memberlist.Mergeable{nil, (*ring.PartitionRingDesc)(nil)} {
		if ch, err := d.Merge(arg, c.Lim2%2 == 0); err != nil || !abs.IsNilMergeable(ch) {
			bad("Merge-nil-argument", fmt.Sprint(ch, err), "no change, no error")
			return
		}
	}
	if ch, err := d.Merge(ring.NewDesc(), c.Lim2%2 == 0); err == nil || !abs.IsNilMergeable(ch) {
		bad("Merge-foreign-argument", fmt.Sprint(ch, err), "an error and no change")
		return
	}
	clone, ok := d.Clone().(*ring.PartitionRingDesc)
	if !ok || clone == d {
		bad("Clone-type", fmt.Sprintf("%T", d.Clone()), "a new *ring.PartitionRingDesc")
		return
	}
	if got, _, problems := abs.ProjectPDesc(clone, np, no); len(problems) > 0 || !got.Equal(c.D) {
		bad("Clone-content", got, c.D)
		return
	}
	total, removed := clone.RemoveTombstones(limitOf(c.Lim2))
	got, _, problems := abs.ProjectPDesc(clone, np, no)
	if len(problems) > 0 || !got.Equal(c.Result) {
		bad("RemoveTombstones-result "+pdiff(c.Result, got), map[string]any{"state": got, "problems": problems}, c.Result)
		return
	}
	if total != c.Total || removed != c.Removed {
		bad("RemoveTombstones-counts", []int{total, removed}, []int{c.Total, c.Removed})
		return
	}
	if t2, r2 := clone.RemoveTombstones(limitOf(c.Lim2)); t2 != c.Total || r2 != 0 {
		bad("RemoveTombstones-twice", []int{t2, r2}, []int{c.Total, 0})
		return
	}
	// the copy is independent: replacing its entries leaves the original alone.  Observation (counted, not
	// demanded): the token slices of a clone alias the original's (gogo proto.Clone copies non-nullable map
	// values shallowly) although Mergeable.Clone is documented as a deep copy; nothing in dskit writes
	// partition tokens in place, so the check replaces whole entries only.
	for id, p := range clone.Partitions {
		if o := d.Partitions[id]; len(p.Tokens) > 0 && len(o.Tokens) > 0 && &p.Tokens[0] == &o.Tokens[0] {
			dr.aliased++
		}
		clone.Partitions[id] = ring.PartitionDesc{Id: id, State: ring.PartitionDeleted, StateTimestamp: 1}
	}
	clone.Partitions[int32(np+1)] = ring.PartitionDesc{Id: int32(np + 1)}
	for id := range clone.Owners {
		clone.Owners[id] = ring.OwnerDesc{State: ring.OwnerDeleted, UpdatedTimestamp: 1}
	}
	if got, _, problems := abs.ProjectPDesc(d, np, no); len(problems) > 0 || !got.Equal(c.D) {
		bad("Clone-independent", map[string]any{"state": got, "problems": problems}, c.D)
		return
	}
	if got, _, problems := abs.ProjectPDesc(pViaCodec(d), np, no); len(problems) > 0 || !got.Equal(c.D) {
		bad("codec-roundtrip", map[string]any{"state": got, "problems": problems}, c.D)
		return
	}
	dr.res.Cases++
	if c.Removed > 0 {
		dr.res.Nontrivial++
		dr.sample("pgc", c)
	}
}

// ------------------------------------------------------------------------------------------- pedit

const tagAdded = 3 // tokens of a partition created by AddPartition inside the case (after the generated tokens were checked)

type editOp struct {
	K string `json:"k"`
	P int    `json:"p"`
	O int    `json:"o"`
	S string `json:"s"`
	L bool   `json:"l"`
	Q int    `json:"q"`
}

type peditCase struct {
	Kind   string    `json:"kind"`
	Stored abs.PDesc `json:"stored"`
	Op     editOp    `json:"op"`
	Now    int       `json:"now"`
	In     abs.PDesc `json:"in"`
	Out    abs.PDesc `json:"out"`
	Ok     bool      `json:"ok"`
	Err    bool      `json:"err"`
	Result abs.PDesc `json:"result"`
	Nil    bool      `json:"nil"`
	Change abs.PDesc `json:"change"`
	Peer   abs.PDesc `json:"peer"`
	Fresh  abs.PDesc `json:"fresh"`
}

func tsClass(c *peditCase) string {
	newest := 0
	for _, e := range c.Stored.Parts {
		if e.State != "ABSENT" && e.Sts > newest {
			newest = e.Sts
		}
		if e.State != "ABSENT" && e.Lts > newest {
			newest = e.Lts
		}
	}
	for _, e := range c.Stored.Owners {
		if e.State != "ABSENT" && e.Ts > newest {
			newest = e.Ts
		}
	}
	switch {
	case newest < c.Now:
		return "fresh"
	case newest == c.Now:
		return "same-second"
	}
	return "behind"
}

func (dr *driver) partEdit(c *peditCase) {
	dr.counts["pedit"]++
	if corrupt > 0 && dr.counts["pedit"] == corrupt {
		if len(c.Peer.Parts) > 0 {
			c.Peer.Parts[0].Sts++
		} else {
			c.Peer.Owners[0].Ts++
		}
	}
	np, no := len(c.Stored.Parts), len(c.Stored.Owners)
	bad := func(what string, got, want any) {
		dr.res.Mismatch(abs.Mismatch{Sig: fmt.Sprintf("part:edit %s op=%s clock=%s", what, c.Op.K, tsClass(c)), Case: c, Got: got, Want: want})
	}
	defer func() {
		if r := recover(); r != nil {
			bad("panic", fmt.Sprint(r), "no panic")
		}
	}()
	if got := abs.UnixToTs(time.Now().Unix()); got != c.Now {
		dr.res.Fatal = fmt.Sprintf("bubble clock is %d, case wants %d", got, c.Now)
		return
	}
	project := func(d *ring.PartitionRingDesc, what string, want abs.PDesc) ([]uint32, bool) {
		got, tags, problems := abs.ProjectPDesc(d, np, no)
		if len(problems) > 0 || !got.Equal(want) {
			bad(what+" "+pdiff(want, got), map[string]any{"state": got, "problems": problems}, want)
			return nil, false
		}
		return tags, true
	}
	stored := abs.BuildPDesc(c.Stored, tagMine)
	peer := abs.BuildPDesc(c.Stored, tagMine)
	fresh := ring.NewPartitionRingDesc()

	// what KV.get hands to the CAS function
	in := stored.Clone().(*ring.PartitionRingDesc)
	in.RemoveTombstones(time.Time{})
	if _, ok := project(in, "cas-input", c.In); !ok {
		return
	}
	// the mutator
	now := time.Now()
	p, oid := int32(c.Op.P), abs.OwnerID(c.Op.O, no)
	okGot, errGot, hasRet := false, error(nil), true
	switch c.Op.K {
	case "add":
		in.AddPartition(p, abs.PStateOf(c.Op.S), now)
		ref := ring.NewPartitionRingDesc()
		ref.AddPartition(p, ring.PartitionPending, time.Unix(1, 0))
		pd := in.Partitions[p]
		if len(pd.Tokens) == 0 || !sort.SliceIsSorted(pd.Tokens, func(i, j int) bool { return pd.Tokens[i] < pd.Tokens[j] }) ||
			fmt.Sprint(pd.Tokens) != fmt.Sprint(ref.Partitions[p].Tokens) {
			bad("AddPartition-tokens", len(pd.Tokens), "non-empty sorted tokens that depend on the partition id only")
			return
		}
		pd.Tokens = abs.PartTokens(c.Op.P, tagAdded)
		in.Partitions[p] = pd
		hasRet = false
	case "upd":
		okGot, errGot = in.UpdatePartitionState(p, abs.PStateOf(c.Op.S), now)
	case "lock":
		okGot = in.UpdatePartitionStateChangeLock(p, c.Op.L, now)
	case "rmp":
		in.RemovePartition(p)
		hasRet = false
	case "own":
		okGot = in.AddOrUpdateOwner(oid, abs.OStateOf(c.Op.S), int32(c.Op.Q), now)
	case "rmo":
		okGot = in.RemoveOwner(oid)
	default:
		dr.res.Fatal = "unknown edit op " + c.Op.K
		return
	}
	out := in
	if hasRet && (okGot != c.Ok || (errGot != nil) != c.Err || (errGot != nil && !errors.Is(errGot, ring.ErrPartitionStateChangeLocked))) {
		bad("mutator-return", fmt.Sprintf("changed=%t err=%v", okGot, errGot), fmt.Sprintf("changed=%t err=%t", c.Ok, c.Err))
		return
	}
	if _, ok := project(out, "mutator-output", c.Out); !ok {
		return
	}
	if _, ok := project(stored, "stored-touched-by-mutator", c.Stored); !ok { // the CAS function worked on a copy
		return
	}
	// the local CAS merge
	ch, err, pan := safeMerge(stored, out, true)
	if pan != "" || err != nil {
		bad("merge-panic-or-error", fmt.Sprint(pan, err), "no panic, no error")
		return
	}
	tags, ok := project(stored, "cas-result", c.Result)
	if !ok {
		return
	}
	for k := 1; k <= np; k++ { // tokens are immutable: an entry the store already had (tombstones included) keeps its tokens
		if c.Result.Parts[k-1].State == "ABSENT" {
			continue
		}
		want := uint32(tagMine)
		if c.Stored.Parts[k-1].State == "ABSENT" {
			want = tagAdded
		}
		if tags[k-1] != want {
			bad("tokens-origin", tags[k-1], want)
			return
		}
	}
	if abs.IsNilMergeable(ch) != c.Nil {
		bad("change-nil", fmt.Sprintf("nil=%t", abs.IsNilMergeable(ch)), fmt.Sprintf("nil=%t", c.Nil))
		return
	}
	if !c.Nil {
		chd := ch.(*ring.PartitionRingDesc)
		if _, ok := project(chd, "change", c.Change); !ok {
			return
		}
		wp, wo := presentP(c.Change)
		if gp, gow, _ := partContent(chd, np, no); !sameIntSet(gp, wp) || !sameIntSet(gow, wo) {
			bad("change-MergeContent", map[string]any{"parts": gp, "owners": gow}, map[string]any{"parts": wp, "owners": wo})
			return
		}
		// gossip: the change travels through the codec to a replica that held the pre-state and to a fresh one
		for _, r := range []struct {
			name string
			d    *ring.PartitionRingDesc
		}{{"peer", peer}, {"fresh", fresh}} {
			if _, err, pan := safeMerge(r.d, pViaCodec(chd), false); pan != "" || err != nil {
				bad(r.name+"-merge-panic-or-error", fmt.Sprint(pan, err), "no panic, no error")
				return
			}
		}
	}
	if _, ok := project(peer, "peer-after-change", c.Peer); !ok {
		return
	}
	if _, ok := project(fresh, "fresh-after-change", c.Fresh); !ok {
		return
	}
	dr.res.Cases++
	if !c.Nil {
		dr.res.Nontrivial++
		dr.sample("pedit", c)
	}
}
