---------------------------- MODULE PartitionEdit ----------------------------
(***************************************************************************)
(* C03 - partition ring: the rest of the memberlist.Mergeable contract     *)
(* (MergeContent, RemoveTombstones(limit), Clone, codec) and the helper    *)
(* operations that produce the operands of Merge in production:            *)
(*                                                                         *)
(*   a writer runs  KV.CAS(key, f):  in  = Strip(stored)   (Clone +        *)
(*                  RemoveTombstones(zero time), what KV.get hands out)    *)
(*                                   out = f(in)           (one of the     *)
(*                  descriptor's own mutators, stamped time.Now())         *)
(*                                   stored.Merge(out, localCAS = TRUE)    *)
(*   and gossips the returned change; a second replica merges it with      *)
(*   localCAS = FALSE.                                                     *)
(*                                                                         *)
(* The law the gossiping KV needs from this composition: THE DELTA OF A    *)
(* LOCALLY EDITED DESCRIPTOR CARRIES THE EDIT - after the second replica   *)
(* merged the change, readers there see the edited entry exactly as the    *)
(* writer's function produced it (EditCarried), the change mentions only   *)
(* the edited key (EditLocal) and is nil exactly when the mutator reported *)
(* "unchanged" (EditReported).  Needed proviso: the writer's clock is      *)
(* ahead of every timestamp it overwrites (Fresh).  Two behaviours of the  *)
(* pinned code fall outside and are modelled and named:                    *)
(*   SameSecondEditLost     - a live -> live edit in the very second of    *)
(*                            the previous write is dropped by the merge   *)
(*                            (the proviso "one content per (entry,        *)
(*                            timestamp)" of C03); removals ARE carried.   *)
(*   LockSurvivesRecreation - AddPartition over an entry (in production: a  *)
(*                            tombstone, invisible to the writer) whose    *)
(*                            lock register was ever written keeps that    *)
(*                            lock register: the new entry's lock          *)
(*                            timestamp 0 never supersedes it, so a        *)
(*                            partition deleted while locked comes back    *)
(*                            locked.                                      *)
(***************************************************************************)
EXTENDS PartitionMerge, Json

CONSTANTS TsSet, PStates, LockTs,
          Lim2Set,    \* RemoveTombstones limits in HALF seconds (0 = zero time: remove all)
          NowSet,     \* clock readings of the writer
          NSlices, Slice

VARIABLES st, op, now, phase
vars == <<st, op, now, phase>>

U == DescsOf(TsSet, PStates, LockTs, FALSE)

(* a cheap number of a descriptor, only used to slice the universe *)
PIx(s) == CASE s = "ABSENT" -> 0 [] s = "Pending" -> 1 [] s = "Active" -> 2 [] s = "Inactive" -> 3 [] s = "Deleted" -> 4
PRank(d) == LET WP(p) == p * (5 * d.parts[p].sts + 3 * PIx(d.parts[p].state) + d.parts[p].lts + (IF d.parts[p].locked THEN 7 ELSE 0))
                WO(o) == (o + 3) * (5 * d.owners[o].ts + 3 * PIx(d.owners[o].state) + d.owners[o].part)
                f[k \in 0..NP] == IF k = 0 THEN 0 ELSE f[k - 1] + WP(k)
                g[k \in 0..NO] == IF k = 0 THEN 0 ELSE g[k - 1] + WO(k)
            IN  f[NP] + g[NO]

---------------------------------------------------------------------------
(* MergeContent: partition ids and owner ids (two name spaces).             *)
Content(d) == [parts |-> {p \in Part : PresentE(d.parts[p])}, owners |-> {o \in Own : PresentE(d.owners[o])}]
EmptyContent(d) == Content(d).parts = {} /\ Content(d).owners = {}

(* RemoveTombstones(limit).                                                 *)
ExpiredAt(ts, lim2) == lim2 = 0 \/ 2 * ts < lim2
GC(d, lim2) ==
    LET xp == {p \in Part : IsDel(d.parts[p]) /\ ExpiredAt(d.parts[p].sts, lim2)}
        xo == {o \in Own : IsDel(d.owners[o]) /\ ExpiredAt(d.owners[o].ts, lim2)}
    IN  [result  |-> [parts  |-> [p \in Part |-> IF p \in xp THEN AbsentP ELSE d.parts[p]],
                      owners |-> [o \in Own |-> IF o \in xo THEN AbsentO ELSE d.owners[o]]],
         removed |-> Cardinality(xp) + Cardinality(xo),
         total   |-> Cardinality({p \in Part : IsDel(d.parts[p])} \ xp) + Cardinality({o \in Own : IsDel(d.owners[o])} \ xo)]

Strip(d) == GC(d, 0).result

GCLaws(d) ==
    /\ Strip(d) = Logical(d)
    /\ GC(d, 0).total = 0
    /\ \A l \in Lim2Set :
          LET g == GC(d, l) IN
          /\ g.total + g.removed = Cardinality({p \in Part : IsDel(d.parts[p])}) + Cardinality({o \in Own : IsDel(d.owners[o])})
          /\ \A p \in Part : ~IsDel(d.parts[p]) => g.result.parts[p] = d.parts[p]
          /\ \A o \in Own : ~IsDel(d.owners[o]) => g.result.owners[o] = d.owners[o]
          /\ GC(g.result, l) = [result |-> g.result, removed |-> 0, total |-> g.total]
          /\ Logical(g.result) = Logical(d)
          /\ \A k \in Lim2Set : k # 0 /\ l # 0 /\ k <= l => GC(GC(d, k).result, l).result = g.result
    /\ \A p \in Part : IsDel(d.parts[p]) /\ d.parts[p].sts > 0 =>
          /\ PresentE(GC(d, 2 * d.parts[p].sts).result.parts[p])
          /\ ~PresentE(GC(d, 2 * d.parts[p].sts + 1).result.parts[p])
    /\ \A o \in Own : IsDel(d.owners[o]) /\ d.owners[o].ts > 0 =>
          /\ PresentE(GC(d, 2 * d.owners[o].ts).result.owners[o])
          /\ ~PresentE(GC(d, 2 * d.owners[o].ts + 1).result.owners[o])

ContractLaws(mine, other, c, n) ==
    LET m == Merge(mine, other, c, n) IN
    /\ m.change.nil <=> EmptyContent(m.change.d)
    /\ Content(m.change.d) = [parts |-> m.pupd, owners |-> m.oupd]
    /\ Content(m.result).parts = Content(mine).parts \cup Content(other).parts
    /\ WellStamped(other) => Content(m.result).owners = Content(mine).owners \cup Content(other).owners
    /\ \A l \in Lim2Set :
          LET gr == GC(m.result, l).result  gc == GC(m.change.d, l).result IN
          /\ \A p \in Content(gc).parts : gc.parts[p] = gr.parts[p]
          /\ \A o \in Content(gc).owners : gc.owners[o] = gr.owners[o]
          /\ \A p \in m.pupd \ Content(gc).parts : ~PresentE(gr.parts[p])
          /\ \A o \in m.oupd \ Content(gc).owners : ~PresentE(gr.owners[o])

---------------------------------------------------------------------------
(* The descriptor's own mutators (ring/partition_ring_model.go), on the     *)
(* value `d` a CAS function receives.  ok = the mutator's "changed" return  *)
(* value (TRUE for those that return nothing), err = ErrPartitionState-     *)
(* ChangeLocked.                                                            *)
Ops == [k : {"add"}, p : Part, s : PLive]
       \cup [k : {"upd"}, p : Part, s : PLive]
       \cup [k : {"lock"}, p : Part, l : BOOLEAN]
       \cup [k : {"rmp"}, p : Part]
       \cup [k : {"own"}, o : Own, s : {"Active", "Deleted"}, q : 1..NOwned]
       \cup [k : {"rmo"}, o : Own]

Ret(d, ok, err) == [d |-> d, ok |-> ok, err |-> err]
ApplyOp(d, x, n) ==
    CASE x.k = "add"  -> Ret([d EXCEPT !.parts[x.p] = [state |-> x.s, sts |-> n, locked |-> FALSE, lts |-> 0]], TRUE, FALSE)
      [] x.k = "upd"  -> LET e == d.parts[x.p] IN
                         IF ~PresentE(e) \/ e.state = x.s THEN Ret(d, FALSE, FALSE)
                         ELSE IF e.locked THEN Ret(d, FALSE, TRUE)
                         ELSE Ret([d EXCEPT !.parts[x.p].state = x.s, !.parts[x.p].sts = n], TRUE, FALSE)
      [] x.k = "lock" -> LET e == d.parts[x.p] IN
                         IF ~PresentE(e) \/ e.locked = x.l THEN Ret(d, FALSE, FALSE)
                         ELSE Ret([d EXCEPT !.parts[x.p].locked = x.l, !.parts[x.p].lts = n], TRUE, FALSE)
      [] x.k = "rmp"  -> Ret([d EXCEPT !.parts[x.p] = AbsentP], PresentE(d.parts[x.p]), FALSE)
      [] x.k = "own"  -> LET e == d.owners[x.o] IN
                         IF PresentE(e) /\ e.state = x.s /\ e.part = x.q THEN Ret(d, FALSE, FALSE)
                         ELSE Ret([d EXCEPT !.owners[x.o] = [state |-> x.s, ts |-> n, part |-> x.q]], TRUE, FALSE)
      [] x.k = "rmo"  -> Ret([d EXCEPT !.owners[x.o] = AbsentO], PresentE(d.owners[x.o]), FALSE)

IsPartOp(x) == x.k \in {"add", "upd", "lock", "rmp"}

(* One local CAS with function x at clock n, and what two other replicas    *)
(* hold after merging the gossiped change: one that held the writer's       *)
(* pre-state, and a fresh one.                                              *)
Edit(stored, x, n) ==
    LET in  == Strip(stored)
        r   == ApplyOp(in, x, n)
        m   == Merge(stored, r.d, TRUE, n)
    IN  [in |-> in, out |-> r.d, ok |-> r.ok, err |-> r.err,
         result |-> m.result, change |-> m.change, pupd |-> m.pupd, oupd |-> m.oupd,
         peer  |-> Apply(stored, m.change),
         fresh |-> Apply(Empty, m.change)]

(* the writer's clock is ahead of everything it overwrites *)
Fresh(d, n) == /\ \A p \in Part : PresentE(d.parts[p]) => d.parts[p].sts < n /\ d.parts[p].lts < n
               /\ \A o \in Own : PresentE(d.owners[o]) => d.owners[o].ts < n
NotAhead(d, n) == /\ \A p \in Part : PresentE(d.parts[p]) => d.parts[p].sts <= n /\ d.parts[p].lts <= n
                  /\ \A o \in Own : PresentE(d.owners[o]) => d.owners[o].ts <= n

LockSurvivesRecreation(stored, x) ==
    x.k = "add" /\ PresentE(stored.parts[x.p]) /\ stored.parts[x.p].lts > 0

SameKey(d, e, x) == IF IsPartOp(x) THEN d.parts[x.p] = e.parts[x.p] ELSE d.owners[x.o] = e.owners[x.o]

(* what readers of replica r see of the edited key = what the writer's function produced *)
Carried(r, ed, x) == SameKey(Logical(r), Logical(ed.out), x)

EditReported(stored, x, n) ==
    LET ed == Edit(stored, x, n) IN ed.change.nil <=> ~ed.ok
EditLocal(stored, x, n) ==
    LET ed == Edit(stored, x, n) IN
    /\ ed.pupd \subseteq (IF IsPartOp(x) THEN {x.p} ELSE {})
    /\ ed.oupd \subseteq (IF IsPartOp(x) THEN {} ELSE {x.o})
    /\ \A p \in Part \ ed.pupd : ed.result.parts[p] = stored.parts[p]
    /\ \A o \in Own \ ed.oupd : ed.result.owners[o] = stored.owners[o]
EditCarriedB(stored, x, n) ==
    LET ed == Edit(stored, x, n) IN
    /\ Carried(ed.result, ed, x)                      \* the writer's own store
    /\ Carried(ed.peer, ed, x)                        \* a replica that held the pre-state
    /\ Eq(ed.peer, ed.result)                         \* ... ends up equal to the writer
    /\ ed.ok => Carried(ed.fresh, ed, x) \/ (x.k \in {"upd", "lock"})   \* a fresh replica learns whole entries
    /\ x.k \in {"upd", "lock"} /\ ed.ok =>            \* the change of a register edit ships the whole partition entry
           ed.fresh.parts[x.p] = ed.result.parts[x.p]

EditLaws(stored, x, n) ==
    /\ EditLocal(stored, x, n)
    /\ Fresh(stored, n) => EditReported(stored, x, n)
    /\ Fresh(stored, n) /\ ~LockSurvivesRecreation(stored, x) => EditCarriedB(stored, x, n)
    \* the named deviation, exactly: the state register is the new one, the lock register the tombstone's
    /\ Fresh(stored, n) /\ LockSurvivesRecreation(stored, x) =>
           LET ed == Edit(stored, x, n) e == ed.result.parts[x.p] IN
           /\ e.state = x.s /\ e.sts = n
           /\ e.locked = stored.parts[x.p].locked /\ e.lts = stored.parts[x.p].lts
           /\ Eq(ed.peer, ed.result)
    \* removals are carried even in the very second of the previous write (removal wins ties)
    /\ NotAhead(stored, n) /\ x.k \in {"rmp", "rmo"} => EditReported(stored, x, n) /\ EditCarriedB(stored, x, n)

(* Negative control / witness (MC_pedit_samesecond.cfg must be VIOLATED):   *)
(* without Fresh the laws fail - SameSecondEditLost.                        *)
EditCarriedSameSecond(stored, x, n) ==
    NotAhead(stored, n) /\ ~LockSurvivesRecreation(stored, x) => EditReported(stored, x, n) /\ EditCarriedB(stored, x, n)
(* Witness (MC_pedit_lockwitness.cfg must be VIOLATED): the deviation is reachable. *)
NoLockSurvives(stored, x, n) ==
    Fresh(stored, n) => EditCarriedB(stored, x, n)

---------------------------------------------------------------------------
Init == /\ st \in {d \in U : PRank(d) % NSlices = Slice}
        /\ op = [k |-> "none"] /\ now = 0
        /\ phase = "seed"
Next == /\ phase = "seed"
        /\ phase' = "case"
        /\ st' = st
        /\ op' \in Ops
        /\ now' \in NowSet
Spec == Init /\ [][Next]_vars

Case == phase = "case"

SeedLaws == phase = "seed" => GCLaws(st) /\ \A o \in U : \A c \in BOOLEAN : ContractLaws(st, o, c, 3)
SeedLawsLight == phase = "seed" => GCLaws(st)
CaseLaws == Case => EditLaws(st, op, now)
\* the contract laws on exactly the operands production creates (stored value, output of a CAS function)
CaseContract == Case => ContractLaws(st, Edit(st, op, now).out, TRUE, now)
NegSameSecond == Case => EditCarriedSameSecond(st, op, now)
NegLockWitness == Case => NoLockSurvives(st, op, now)

JDesc(d) == [parts |-> d.parts, owners |-> d.owners]
JOp(x) == [k |-> x.k,
           p |-> IF IsPartOp(x) THEN x.p ELSE 0,
           o |-> IF IsPartOp(x) THEN 0 ELSE x.o,
           s |-> IF x.k \in {"add", "upd", "own"} THEN x.s ELSE "",
           l |-> IF x.k = "lock" THEN x.l ELSE FALSE,
           q |-> IF x.k = "own" THEN x.q ELSE 0]
EmitGC ==
    phase = "seed" =>
       \A l \in Lim2Set :
          LET g == GC(st, l) IN
          PrintT(ToJson([kind |-> "pgc", d |-> JDesc(st), lim2 |-> l, result |-> JDesc(g.result),
                         total |-> g.total, removed |-> g.removed,
                         cparts |-> Content(st).parts, cowners |-> Content(st).owners]))
EmitEdit ==
    Case => LET ed == Edit(st, op, now) IN
            PrintT(ToJson([kind |-> "pedit", stored |-> JDesc(st), op |-> JOp(op), now |-> now,
                           in |-> JDesc(ed.in), out |-> JDesc(ed.out), ok |-> ed.ok, err |-> ed.err,
                           result |-> JDesc(ed.result), nil |-> ed.change.nil, change |-> JDesc(ed.change.d),
                           peer |-> JDesc(ed.peer), fresh |-> JDesc(ed.fresh)]))
=============================================================================
