-------------------------- MODULE PartitionRingCheck --------------------------
(***************************************************************************)
(* C15, code -> spec: lookups recorded from the real PartitionRing on      *)
(* seeded random rings (1..20 partitions, generated tokens), rank-         *)
(* compressed by the harness (token of rank r -> coordinate 2r, a key      *)
(* strictly between ranks r and r+1 -> 2r+1).  The specification decides    *)
(* every recorded answer; one verdict line per ring is emitted.             *)
(***************************************************************************)
EXTENDS PartitionRingOps, TLC, Json

Cases == ndJsonDeserialize("cases.ndjson")

VARIABLE i
Init == i \in 1..Len(Cases)
Next == UNCHANGED i

SeqSet(s) == {s[j] : j \in 1..Len(s)}

Verdict(c) ==
    LET tp   == [t \in {2 * r : r \in 1..Len(c.pid)} |-> c.pid[t \div 2]]
        act  == SeqSet(c.act)
        W    == {<<j, ActivePartition(tp, act, c.keys[j])>> : j \in 1..Len(c.keys)}
        kbp  == KeysByPartition(tp, act, c.keys)
        G    == IF kbp.err THEN {<<j, -1>> : j \in 1..Len(c.keys)}
                ELSE UNION {{<<j, p>> : j \in kbp.groups[p]} : p \in DOMAIN kbp.groups}
        bad  == {[j |-> w[1], key |-> c.keys[w[1]], want |-> w[2], got |-> c.got[w[1]], what |-> "lookup"] :
                    w \in {x \in W : c.got[x[1]] # x[2]}}
                \cup
                {[j |-> g[1], key |-> c.keys[g[1]], want |-> g[2], got |-> c.grp[g[1]], what |-> "keysByPartition"] :
                    g \in {x \in G : c.grp[x[1]] # x[2]}}
    IN  [id |-> c.id, ok |-> bad = {} /\ Cardinality(G) = Len(c.keys), bad |-> bad,
         tokens |-> Len(c.pid), active |-> Cardinality(act)]

Emit == PrintT(ToJson(Verdict(Cases[i])))
=============================================================================
