-------------------------- MODULE BasicLifecycler --------------------------
(***************************************************************************)
(* ring.BasicLifecycler with the standard delegate chain                   *)
(*   LeaveOnStopping(TokensPersistency(AutoForget(InstanceRegister)))      *)
(* over the state of Lifecycler.tla, the complete next-state relation of   *)
(* the family and the properties of C08 / C09.                             *)
(***************************************************************************)
EXTENDS Lifecycler

Basic(i) == cfg[i].kind = "basic"

(***************************************************************************)
(* registerInstance + OnRingInstanceRegister.  The entry is ALWAYS         *)
(* overwritten with the delegate's state; tokens come from the ring, else  *)
(* from the tokens file, the missing ones are generated; the registration  *)
(* time of an existing entry is kept.                                      *)
(***************************************************************************)
BRegToks0(i) ==
    LET e == ring[i]
        f == IF cfg[i].file /\ ~(Present(i) /\ e.toks # {}) THEN file[i] ELSE {}
    IN IF f # {} THEN f ELSE IF Present(i) THEN e.toks ELSE {}

BRegEntry(i, T) ==
    Entry(cfg[i].regst, BRegToks0(i) \cup T, clock, IF Present(i) THEN ring[i].reg ELSE clock, ring[i].ro)

BRegisterT(i, T) ==
    /\ L[i].phase = "init" /\ Basic(i) /\ kvok[i]
    /\ LET c == cfg[i]
           toks0 == BRegToks0(i)
           ne == BRegEntry(i, T)
           obs == ne.toks # {} /\ c.obs > 0
       IN
       /\ ValidChoice(T, NumTokens - Card(toks0), AllToks \cup toks0)
       /\ Put(i, ne)
       /\ SetL(i, [L[i] EXCEPT !.phase = IF obs THEN "observing" ELSE "run",
                               !.st = ne.st, !.toks = ne.toks, !.reg = ne.reg, !.ro = ne.ro,
                               !.nextHb = Arm(c.hb), !.obsAt = IF obs THEN clock + c.obs ELSE -1,
                               !.fresh = (toks0 = {})])
       \* OnRingInstanceTokens (tokens file) only once the tokens are stable
       /\ file' = IF ~obs /\ c.file /\ ne.toks # {} THEN [file EXCEPT ![i] = ne.toks] ELSE file
    /\ okSince' = [okSince EXCEPT ![i] = clock]
    /\ actor' = i /\ UNCHANGED <<clock, kvok, cfg, bud>>

BRegChoices(i) == Choices(NumTokens - Card(BRegToks0(i)), AllToks \cup BRegToks0(i))

\* death between the commit of the registration and the tokens-file write
BRegisterCrashT(i, T) ==
    /\ L[i].phase = "init" /\ Basic(i) /\ kvok[i] /\ bud.crash > 0 /\ EnvOK
    /\ ValidChoice(T, NumTokens - Card(BRegToks0(i)), AllToks \cup BRegToks0(i))
    /\ Put(i, BRegEntry(i, T))
    /\ SetL(i, [L0 EXCEPT !.phase = "dead"])
    /\ bud' = [bud EXCEPT !.crash = @ - 1]
    /\ actor' = i /\ UNCHANGED <<clock, file, kvok, cfg, okSince>>

(***************************************************************************)
(* updateInstance: re-inserts a missing entry (remembered state, tokens,   *)
(* read-only flag; FRESH registration time), applies the update, writes    *)
(* when the entry was missing or changed, and adopts the result locally.   *)
(***************************************************************************)
BBase(i) == IF Present(i) THEN ring[i] ELSE Entry(L[i].st, L[i].toks, clock, clock, L[i].ro)
Adopt(r, e) == [r EXCEPT !.st = e.st, !.toks = e.toks, !.reg = e.reg, !.ro = e.ro]

\* waitStableTokens -> verifyTokens
BVerifyT(i, T) ==
    /\ L[i].phase = "observing" /\ Basic(i) /\ Due(L[i].obsAt)
    /\ LET c == cfg[i]  b == BBase(i)  actual == b.toks IN
       IF ~kvok[i] THEN
          /\ T = {} /\ SetL(i, [L[i] EXCEPT !.obsAt = clock + c.obs]) /\ UNCHANGED <<ring, rnil, file, okSince>>
       ELSE IF actual = L[i].toks THEN
          \* stable: the delegate is told (tokens file), the service goes Running with a new ticker
          /\ T = {}
          /\ IF Present(i) THEN UNCHANGED <<ring, rnil>> ELSE Put(i, b)
          /\ SetL(i, [Adopt(L[i], b) EXCEPT !.phase = "run", !.obsAt = -1, !.nextHb = Arm(c.hb)])
          /\ FileSet(i, IF b.toks # {} THEN b.toks ELSE file[i])
          \* running() starts a NEW heartbeat ticker: a tick of the old one due now is dropped
          /\ okSince' = [okSince EXCEPT ![i] = clock]
       ELSE
          /\ ValidChoice(T, NumTokens - Card(actual), AllToks)
          /\ Put(i, [b EXCEPT !.toks = actual \cup T, !.ts = clock])
          /\ SetL(i, [Adopt(L[i], [b EXCEPT !.toks = actual \cup T]) EXCEPT !.obsAt = clock + c.obs])
          /\ UNCHANGED <<file, okSince>>
    /\ actor' = i /\ UNCHANGED <<clock, kvok, cfg, bud>>

BVerifyChoices(i) ==
    LET actual == BBase(i).toks IN
    IF ~kvok[i] \/ actual = L[i].toks THEN {{}} ELSE Choices(NumTokens - Card(actual), AllToks)

\* heartbeat, with the AutoForget delegate removing entries not refreshed for longer than the period
Forgot(i) == IF cfg[i].forget > 0
             THEN {j \in Inst : Present(j) /\ clock - ring[j].ts >= cfg[i].forget}
             ELSE {}

BHeartbeat(i) ==
    /\ L[i].phase \in {"run", "observing", "stopping"} /\ Basic(i) /\ Due(L[i].nextHb) /\ L[i].pc = "idle"
    /\ IF kvok[i]
       THEN LET ne == [BBase(i) EXCEPT !.ts = clock] IN
            /\ ring' = [j \in Inst |-> IF j = i THEN ne ELSE IF j \in Forgot(i) THEN Absent ELSE ring[j]]
            /\ rnil' = FALSE
            /\ SetL(i, [Adopt(L[i], ne) EXCEPT !.nextHb = @ + cfg[i].hb])
            /\ okSince' = [j \in Inst |-> IF j # i /\ j \in Forgot(i) THEN clock ELSE okSince[j]]
       ELSE /\ SetL(i, [L[i] EXCEPT !.nextHb = @ + cfg[i].hb])
            /\ UNCHANGED <<ring, rnil, okSince>>
    /\ actor' = i /\ UNCHANGED <<clock, file, kvok, cfg, bud>>

\* ChangeState / ChangeReadOnlyState: whatever the caller asks for, compared with the PUBLISHED entry
BDoChangeState(i) ==
    /\ L[i].phase = "run" /\ Basic(i) /\ L[i].pc = "cs"
    /\ LET s == L[i].arg  b == BBase(i)  done == [L[i] EXCEPT !.pc = "idle", !.arg = ""] IN
       IF ~kvok[i] THEN SetL(i, [done EXCEPT !.res = "err"]) /\ UNCHANGED <<ring, rnil>>
       ELSE IF Present(i) /\ b.st = s THEN SetL(i, [Adopt(done, b) EXCEPT !.res = "ok"]) /\ UNCHANGED <<ring, rnil>>
       ELSE LET ne == [b EXCEPT !.st = s, !.ts = clock] IN
            Put(i, ne) /\ SetL(i, [Adopt(done, ne) EXCEPT !.res = "ok"])
    /\ actor' = i /\ UNCHANGED <<clock, file, kvok, cfg, okSince, bud>>

BDoReadOnly(i) ==
    /\ L[i].phase = "run" /\ Basic(i) /\ L[i].pc = "ro"
    /\ LET v == (L[i].arg = "true")  b == BBase(i)  done == [L[i] EXCEPT !.pc = "idle", !.arg = ""] IN
       IF ~kvok[i] THEN SetL(i, [done EXCEPT !.res = "err"]) /\ UNCHANGED <<ring, rnil>>
       ELSE IF Present(i) /\ b.ro = v THEN SetL(i, [Adopt(done, b) EXCEPT !.res = "ok"]) /\ UNCHANGED <<ring, rnil>>
       ELSE LET ne == [b EXCEPT !.ro = v, !.ts = clock] IN
            Put(i, ne) /\ SetL(i, [Adopt(done, ne) EXCEPT !.res = "ok"])
    /\ actor' = i /\ UNCHANGED <<clock, file, kvok, cfg, okSince, bud>>

\* StopAsync: while Starting (observing) the service fails without cleanup; otherwise
\* LeaveOnStopping publishes LEAVING, then the instance is removed unless it is to be kept
BStopReq(i) ==
    /\ L[i].phase \in {"run", "observing"} /\ Basic(i) /\ ~L[i].stall /\ bud.stop > 0 /\ EnvOK /\ Calm
    /\ SetL(i, [L[i] EXCEPT !.phase = IF L[i].phase = "observing" THEN "off" ELSE "stopreq",
                            !.obsAt = -1, !.nextHb = -1])
    /\ bud' = [bud EXCEPT !.stop = @ - 1] /\ actor' = 0
    /\ UNCHANGED <<ring, rnil, clock, file, kvok, cfg, okSince>>

BLeave(i) ==
    /\ L[i].phase = "stopreq" /\ Basic(i)
    /\ LET b == BBase(i)  done == [L[i] EXCEPT !.phase = "stopping", !.stopAt = clock] IN
       IF ~kvok[i] THEN SetL(i, done) /\ UNCHANGED <<ring, rnil>>
       ELSE IF Present(i) /\ b.st = "LEAVING" THEN SetL(i, Adopt(done, b)) /\ UNCHANGED <<ring, rnil>>
       ELSE LET ne == [b EXCEPT !.st = "LEAVING", !.ts = clock] IN
            Put(i, ne) /\ SetL(i, Adopt(done, ne))
    /\ actor' = i /\ UNCHANGED <<clock, file, kvok, cfg, okSince, bud>>

BasicStep(i) ==
    \/ (L[i].phase = "init" /\ Basic(i) /\ kvok[i] /\ \E T \in BRegChoices(i) : BRegisterT(i, T))
    \/ (L[i].phase = "observing" /\ Due(L[i].obsAt) /\ \E T \in BVerifyChoices(i) : BVerifyT(i, T))
    \/ BHeartbeat(i) \/ BDoChangeState(i) \/ BDoReadOnly(i) \/ BLeave(i)

LStep(i) == \/ ClassicStep(i) \/ BasicStep(i)
            \/ InitFail(i) \/ Unregister(i) \/ FinishStop(i)

States == {"PENDING", "JOINING", "ACTIVE", "LEAVING"}

Env == \/ \E i \in Inst : Start(i, cfg[i])
       \/ (bud.ext > 0 /\ \E i \in Inst, s \in States : Request(i, "cs", s))
       \/ (bud.ext > 0 /\ \E i \in Inst, b \in {"true", "false"} : Request(i, "ro", b))
       \* documented precondition of ClaimTokensFor: the source is LEAVING (and the claimer is registered)
       \/ \E i, j \in Inst : i # j /\ Classic(i) /\ Present(i) /\ ring[j].st = "LEAVING" /\ Request(i, "claim", ToString(j))
       \/ \E i \in Inst : Return(i) \/ CheckReady(i) \/ StopReq(i) \/ BStopReq(i)
       \/ Tick \/ Wipe
       \/ \E i \in Inst, b \in BOOLEAN : SetKV(i, b)
       \/ \E i \in Inst : Crash(i)
       \/ (bud.stall > 0 /\ \E i \in Inst : Stall(i))
       \/ \E i \in Inst : Unstall(i)
       \/ (bud.crash > 0 /\ \E i \in Inst : \E F \in MidFiles(i) : CrashMid(i, F))
       \/ (bud.crash > 0 /\ \E i \in Inst : L[i].phase = "init" /\ Basic(i) /\ \E T \in BRegChoices(i) : BRegisterCrashT(i, T))

Next == (\E i \in Inst : ~L[i].stall /\ LStep(i)) \/ Env

Spec == Init /\ [][Next]_vars
\* fairness: the lifecyclers' own actions, the clock and the return of calls; never the environment's choices
FairSpec == Spec /\ WF_vars(\E i \in Inst : ~L[i].stall /\ LStep(i)) /\ WF_vars(Tick) /\ WF_vars(\E i \in Inst : Return(i))

(***************************************************************************)
(*                         C08 - what TLC decides                          *)
(***************************************************************************)
TypeOK ==
    /\ \A j \in Inst : /\ ring[j].st \in States \cup {"ABSENT"}
                       /\ ring[j].toks \subseteq Pos /\ ring[j].ts \in 0..MaxClock /\ ring[j].reg \in 0..MaxClock
    /\ clock \in 0..MaxClock
    /\ \A i \in Inst : L[i].st \in States /\ L[i].toks \subseteq Pos

\* a lifecycler step changes a foreign entry only by the explicit hand-over or the configured auto-forget
Handover(i, j)  == /\ Classic(i) /\ L[i].pc = "claim" /\ L[i].arg = ToString(j)
                   /\ Present(j) /\ ring'[j] = [ring[j] EXCEPT !.toks = {}]
                   /\ ring'[i].toks = ring[j].toks
Forgotten(i, j) == /\ Basic(i) /\ cfg[i].forget > 0 /\ Present(j)
                   /\ clock - ring[j].ts >= cfg[i].forget /\ ring'[j] = Absent
OwnEntryOnly ==
    [][\A i \in Inst : actor' = i =>
          \A j \in Inst \ {i} : ring'[j] = ring[j] \/ Handover(i, j) \/ Forgotten(i, j)]_vars

Rank(s) == CASE s = "PENDING" -> 0 [] s = "JOINING" -> 1 [] s = "ACTIVE" -> 2 [] s = "LEAVING" -> 3 [] OTHER -> -1
\* published states move forward along pending, joining, active, leaving; removal from any; first
\* publication in any; restart edges joining->pending and leaving->active
EdgeOK(a, b) == \/ a = "ABSENT" \/ b = "ABSENT" \/ Rank(a) <= Rank(b)
                \/ (a = "JOINING" /\ b = "PENDING") \/ (a = "LEAVING" /\ b = "ACTIVE")
\* the basic lifecycler publishes what the delegate / the caller asks for: only registration
\* (delegate's state), LEAVING on stopping and removal are its own initiative
StateEdges ==
    [][\A i \in Inst : actor' = i =>
          IF Classic(i) THEN EdgeOK(ring[i].st, ring'[i].st)
          ELSE \/ ring'[i].st = ring[i].st \/ ring[i].st = "ABSENT" \/ ring'[i].st = "ABSENT"
               \/ L[i].phase = "init" /\ ring'[i].st = cfg[i].regst
               \/ L[i].phase = "stopreq" /\ ring'[i].st = "LEAVING"
               \/ L[i].pc = "cs" /\ ring'[i].st = L[i].arg]_vars
\* a refused ChangeState leaves the ring untouched
RefusedUntouched ==
    [][\A i \in Inst : (actor' = i /\ Classic(i) /\ L[i].pc = "cs" /\ ~Allowed(L[i].st, L[i].arg))
          => (ring' = ring /\ L'[i].st = L[i].st /\ L'[i].res = "err")]_vars

HeartbeatMonotone ==
    [][\A j \in Inst : (Present(j) /\ ring'[j].st # "ABSENT") => ring'[j].ts >= ring[j].ts]_vars

\* while the store has accepted i's writes for more than a heartbeat period, the entry is there and fresh
HeartbeatFresh ==
    \A i \in Inst : (L[i].phase \in {"run", "observing"} /\ cfg[i].hb > 0 /\ kvok[i]
                     /\ clock - okSince[i] > cfg[i].hb)
                    => (Present(i) /\ clock - ring[i].ts <= cfg[i].hb)

\* registration time: set when the entry appears, kept as long as the entry exists
RegisteredOnce ==
    [][\A j \in Inst : (Present(j) /\ ring'[j].st # "ABSENT") => ring'[j].reg = ring[j].reg]_vars

\* tokens a step adds that were neither published, remembered, on file nor handed over were generated:
\* none of them is visible as another instance's token in the ring the step read
IsHandover(i) == \E j \in Inst \ {i} : ring[j].toks # {} /\ ring'[j].toks = {} /\ ring'[i].toks = ring[j].toks
Generated(i)  == ring'[i].toks \ (ring[i].toks \cup L[i].toks \cup file[i])
ActivationTokens ==
    [][\A i \in Inst : actor' = i =>
          /\ ~IsHandover(i) => Generated(i) \cap OtherToks(i) = {}
          \* first publication as ACTIVE after a fresh join: exactly the configured number
          /\ (ring'[i].st = "ACTIVE" /\ ring[i].st # "ACTIVE" /\ L'[i].fresh /\ L'[i].phase # "dead")
                => Card(ring'[i].toks) = NumTokens]_vars

ReadyImpliesActive ==
    [][\A i \in Inst :
          /\ (L'[i].ready /\ ~L[i].ready) =>
                /\ ring[i].st = "ACTIVE" /\ L[i].toks # {}
                /\ cfg[i].health => \A j \in Inst : Present(j) => ring[j].st = "ACTIVE" /\ clock - ring[j].ts < HbTimeout
          \* the latch: ready is only lost with the object (a new Start)
          /\ (L[i].ready /\ ~L'[i].ready) => (L'[i].phase \in {"init", "dead"} \/ L'[i] = L0)]_vars

(***************************************************************************)
(*                         C09 - what TLC decides                          *)
(***************************************************************************)
\* the first step of a (re)started lifecycler resumes from what ring / tokens file recorded
KeepsIdentity ==
    [][\A i \in Inst : (actor' = i /\ L[i].phase = "init" /\ L'[i].phase \in {"run", "observing"}) =>
          LET e == ring[i] IN
          /\ Present(i) =>
                /\ L'[i].reg = e.reg /\ ring'[i].reg = e.reg
                /\ Card(e.toks) <= NumTokens => e.toks \subseteq ring'[i].toks
                /\ Classic(i) =>
                      /\ e.st = "JOINING" => L'[i].st = "PENDING" /\ ring'[i] = e
                      /\ e.st = "LEAVING" => L'[i].st = "ACTIVE" /\ ring'[i].st = "ACTIVE"
                                             /\ Card(ring'[i].toks) = NumTokens
                      /\ e.st \in {"PENDING", "ACTIVE"} => L'[i].st = e.st /\ L'[i].toks = e.toks
          /\ (~Present(i) /\ cfg[i].file /\ file[i] # {}) => file[i] \subseteq ring'[i].toks]_vars

\* a heartbeat (or any updateConsul / updateInstance write) that finds the entry missing re-inserts the
\* remembered state and tokens with a fresh registration time
IsUpdate(i) == \/ Classic(i) /\ (Due(L[i].nextHb) \/ L[i].pc \in {"activate", "cs", "ro"} \/ L[i].phase = "stopreq")
               \/ Basic(i) /\ L[i].phase # "init"
ReRegistersFresh ==
    [][\A i \in Inst : (actor' = i /\ ~Present(i) /\ ring'[i].st # "ABSENT" /\ L[i].phase # "init"
                        /\ IsUpdate(i) /\ ~(Classic(i) /\ (Due(L[i].joinAt) \/ Due(L[i].obsAt)) /\ ~Due(L[i].nextHb)))
          => \/ /\ ring'[i].reg = clock /\ L[i].toks \subseteq ring'[i].toks
                /\ (L[i].pc = "idle" /\ L[i].phase # "stopreq") => ring'[i].st = L[i].st
             \/ Classic(i) /\ L[i].pc = "idle" /\ (Due(L[i].joinAt) \/ Due(L[i].obsAt))]_vars

TokenUnique == \A i, j \in Inst : i # j => ring[i].toks \cap ring[j].toks = {}

\* liveness (FairSpec, environment budgets exhausted eventually):
\* a running auto-joining lifecycler ends ACTIVE with its full token count
Goal(i) == IF Classic(i) THEN "ACTIVE" ELSE cfg[i].regst
Settled(i) == L[i].st = Goal(i) /\ Present(i) /\ ring[i].st = Goal(i) /\ Card(ring[i].toks) = NumTokens
Recovers == \A i \in Inst : (L[i].phase \in {"init", "run", "observing"} /\ kvok[i]) ~>
                            (Settled(i) \/ L[i].phase \notin {"init", "run", "observing"} \/ ~kvok[i])
RecoversNoCollision == [](bud.wipe = Bud0.wipe => TokenUnique)
\* a running lifecycler whose entry is missing gets it back
ReRegisters == \A i \in Inst : (L[i].phase = "run" /\ ~Present(i) /\ kvok[i] /\ cfg[i].hb > 0) ~>
                               (Present(i) \/ L[i].phase # "run" \/ ~kvok[i])
=============================================================================
