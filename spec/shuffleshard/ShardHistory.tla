----------------------------- MODULE ShardHistory -----------------------------
(***************************************************************************)
(* C12, specification (b), black box: a history of ring versions and of    *)
(* the answers a shuffle-sharding client gave.  Nothing is said about how  *)
(* a shard is chosen (no seeds, no walk); the property's clauses are       *)
(* relations between *observed* answers and the ring contents they were    *)
(* given for (predicates of ShardProps.tla - the same ones TLC proves      *)
(* about the white-box walk in ShuffleShardMC / PartitionShardMC).         *)
(*                                                                         *)
(* kind = "inst": instance ring, a view is [mem, zone, ro];                *)
(* kind = "part": partition ring, a view is [mem, st].                     *)
(*                                                                         *)
(* Actions                                                                 *)
(*   Reset(k, z)            a new, unrelated history begins                *)
(*   RingChange(t, view)    the ring content becomes `view`; the change is *)
(*                          stamped t (seconds, truncated)                 *)
(*   Query(now, late, shards, lookbacks)  a client (any client: the first  *)
(*                          one, a second one built independently, before  *)
(*                          or after unrelated queries) answered on the    *)
(*                          current content: shards = {[id, size, S]},     *)
(*                          lookbacks = {[id, size, L, S]}.  Enabled iff   *)
(*                          the answers violate no clause (Failures = {}). *)
(*                                                                         *)
(*   SubQuery(now, late, subshards)  shards of SUBRINGS of the current      *)
(*                          content (a shard of a shard, a shard of a      *)
(*                          look-back subring, of a subring selected by    *)
(*                          instance state, of an independently built ring *)
(*                          holding only those members): subshards =       *)
(*                          {[mem, id, size, S]}, mem = the members of the *)
(*                          subring.  A subring is a ring content of its   *)
(*                          own (the current view restricted to mem), so   *)
(*                          every clause applies to it; answers are keyed  *)
(*                          by (mem, id, size) - not by how the subring    *)
(*                          was obtained - and two subrings of one version *)
(*                          that are one instance apart are two rings one  *)
(*                          instance apart (Consistency).                  *)
(*                                                                         *)
(* "Depends on nothing but the ring content": the answers recorded for a   *)
(* version are keyed by (id, size) only - not by the client, not by the    *)
(* time of the query - so Deterministic demands the same plain shard from  *)
(* every client at every moment the content is current, including the very *)
(* second of the change that created it (late = 1) and any later second.   *)
(*                                                                         *)
(* Time: a change stamped u happens at u + 1/2.  A query with now = T is   *)
(* issued either at T + 1/4, before the change of that second (late = 0:   *)
(* it sees the changes stamped < T), or right after the change stamped T   *)
(* (late = 1).  The version ended by the change stamped u was current at   *)
(* some moment of the window [now - L, now] iff u >= T - L + late.         *)
(***************************************************************************)
EXTENDS ShardProps, Sequences, TLC

VARIABLES kind,      \* "inst" | "part"
          za,        \* zone-awareness of the clients (instance ring)
          cur,       \* current view
          stamp,     \* stamp of the change that created it
          ans,       \* answers given on the current version: set of [id, size, S]
          lbs,       \* look-back answers given on the current version: set of [id, size, L, now, late, S]
          prev,      \* previous view and the answers given on it: [view, ans] (view.mem = {} initially)
          ended,     \* ended versions: sequence of [to, view, ans]
          clock,     \* time of the latest query
          subs       \* answers given on subrings of the current version: set of [mem, id, size, S]

hvars == <<kind, za, cur, stamp, ans, lbs, prev, ended, clock, subs>>

EmptyView == [mem |-> {}, zone |-> <<>>, ro |-> <<>>, st |-> <<>>]

HInit == /\ kind = "inst" /\ za = FALSE /\ cur = EmptyView /\ stamp = -1
         /\ ans = {} /\ lbs = {} /\ prev = [view |-> EmptyView, ans |-> {}]
         /\ ended = <<>> /\ clock = 0 /\ subs = {}

Reset(k, z) ==
    /\ kind' = k /\ za' = z /\ cur' = EmptyView /\ stamp' = -1 /\ ans' = {} /\ lbs' = {}
    /\ prev' = [view |-> EmptyView, ans |-> {}] /\ ended' = <<>> /\ clock' = 0 /\ subs' = {}

(* one change per second, never before a query that already happened *)
ChangeWellTimed(t) == t > stamp /\ t >= clock

RingChange(t, view) ==
    /\ ChangeWellTimed(t)
    /\ ended' = IF cur.mem = {} /\ stamp = -1 THEN ended
                ELSE Append(ended, [to |-> t, view |-> cur, ans |-> ans])
    /\ prev' = [view |-> cur, ans |-> ans]
    /\ cur' = view /\ stamp' = t /\ ans' = {} /\ lbs' = {} /\ subs' = {}
    /\ UNCHANGED <<kind, za, clock>>

QueryWellTimed(now, late) == /\ now >= clock
                             /\ IF late = 1 THEN now = stamp ELSE late = 0 /\ now > stamp

Same(a, b) == a.id = b.id /\ a.size = b.size

(* do the zones of an ended version allow comparing it with the current one *)
Comparable(view) == kind = "inst" => ComparableZones(view, cur, za)

(* shards of (id, size) that were current at some moment of [now - L, now] *)
Past(now, late, L, q, shards) ==
    {a.S : a \in {b \in ans \cup shards : Same(b, q)}}
    \cup UNION {{a.S : a \in {b \in ended[v].ans : Same(b, q)}} :
                   v \in {w \in 1..Len(ended) : ended[w].to >= now - L + late /\ Comparable(ended[w].view)}}

Apart(V, W) == IF kind = "inst" THEN ConsistencyApplies(V, W, za) ELSE POneApart(V, W)

MonoBad(a, b) == /\ a.id = b.id
                 /\ (SizeLE(a.size, b.size) /\ ~MonotoneOK(a.S, b.S)) \/ (SizeLE(b.size, a.size) /\ ~MonotoneOK(b.S, a.S))

F(clause, q, other) == [clause |-> clause, q |-> q, other |-> other]

Failures(now, late, shards, lookbacks) ==
    LET all == ans \cup shards IN
       {F("SizeFormula", a, {}) : a \in {b \in shards :
            ~ IF kind = "inst" THEN SizeOK(b.S, cur, za, b.size) ELSE PSizeOK(b.S, cur, b.size)}}
    \cup {F("NoReadOnly", a, {}) : a \in {b \in shards : kind = "inst" /\ ~NoReadOnly(b.S, cur)}}
    \cup {F("Deterministic", a, {b \in all : Same(a, b) /\ a.S # b.S}) :
            a \in {c \in shards : \E b \in all : Same(c, b) /\ c.S # b.S}}
    \cup {F("Monotone", a, {b \in all : MonoBad(a, b)}) : a \in {c \in shards : \E b \in all : MonoBad(c, b)}}
    \cup (IF prev.view.mem # {} /\ Apart(prev.view, cur)
          THEN {F("Consistency", a, {b \in prev.ans : Same(a, b) /\ ~ConsistencyOK(a.S, b.S)}) :
                  a \in {c \in shards : \E b \in prev.ans : Same(c, b) /\ ~ConsistencyOK(c.S, b.S)}}
          ELSE {})
    \cup {F("LookbackSuperset", q, Past(now, late, q.L, q, shards)) :
            q \in {r \in lookbacks : ~LookbackOK(r.S, Past(now, late, r.L, r, shards), cur.mem)}}
    \cup {F("LookbackMembers", q, {}) : q \in {r \in lookbacks : ~(r.S \subseteq cur.mem)}}
    \cup {F("LookbackDeterministic", q, {}) :
            q \in {r \in lookbacks : \E o \in lookbacks \cup {x \in lbs : x.now = now /\ x.late = late} :
                                        Same(r, o) /\ r.L = o.L /\ r.S # o.S}}

Record(now, late, shards, lookbacks) ==
    /\ ans' = ans \cup shards
    /\ lbs' = lbs \cup {[id |-> q.id, size |-> q.size, L |-> q.L, now |-> now, late |-> late, S |-> q.S] : q \in lookbacks}
    /\ clock' = now
    /\ UNCHANGED <<kind, za, cur, stamp, prev, ended, subs>>

Query(now, late, shards, lookbacks) ==
    /\ QueryWellTimed(now, late)
    /\ Failures(now, late, shards, lookbacks) = {}
    /\ Record(now, late, shards, lookbacks)

(***************************************************************************)
(* Subrings of the current version.                                        *)
(***************************************************************************)
Restrict(V, m) == [mem |-> V.mem \cap m, zone |-> V.zone, ro |-> V.ro, st |-> V.st]

SubSame(a, b) == a.mem = b.mem /\ a.id = b.id /\ a.size = b.size
SubSizeOK(b)  == IF kind = "inst" THEN SizeOK(b.S, Restrict(cur, b.mem), za, b.size)
                 ELSE PSizeOK(b.S, Restrict(cur, b.mem), b.size)
SubApart(a, b) == a.id = b.id /\ a.size = b.size /\ a.mem # b.mem
                  /\ Apart(Restrict(cur, a.mem), Restrict(cur, b.mem))

SubFailures(subshards) ==
    LET ok   == {b \in subshards : b.mem \subseteq cur.mem}
        \* the whole ring is a subring of itself: its plain shards are answers for mem = cur.mem
        full == {[mem |-> cur.mem, id |-> a.id, size |-> a.size, S |-> a.S] : a \in ans}
        all  == subs \cup ok \cup full
    IN {F("SubMembers", a, {}) : a \in subshards \ ok}
    \cup {F("SubSizeFormula", a, {}) : a \in {b \in ok : ~SubSizeOK(b)}}
    \cup {F("SubNoReadOnly", a, {}) : a \in {b \in ok : kind = "inst" /\ ~NoReadOnly(b.S, Restrict(cur, b.mem))}}
    \cup {F("SubDeterministic", a, {b \in all : SubSame(a, b) /\ a.S # b.S}) :
            a \in {c \in ok : \E b \in all : SubSame(c, b) /\ c.S # b.S}}
    \cup {F("SubMonotone", a, {b \in all : a.mem = b.mem /\ MonoBad(a, b)}) :
            a \in {c \in ok : \E b \in all : c.mem = b.mem /\ MonoBad(c, b)}}
    \cup {F("SubConsistency", a, {b \in all : SubApart(a, b) /\ ~ConsistencyOK(a.S, b.S)}) :
            a \in {c \in ok : \E b \in all : SubApart(c, b) /\ ~ConsistencyOK(c.S, b.S)}}

SubRecord(now, subshards) ==
    /\ subs' = subs \cup subshards
    /\ clock' = now
    /\ UNCHANGED <<kind, za, cur, stamp, ans, lbs, prev, ended>>

SubQuery(now, late, subshards) ==
    /\ QueryWellTimed(now, late)
    /\ SubFailures(subshards) = {}
    /\ SubRecord(now, subshards)
=============================================================================
