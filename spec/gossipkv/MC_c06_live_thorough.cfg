\* C06 thorough (liveness): 3 nodes.
CONSTANTS
  N = 3
  NI = 1
  MaxClock = 1
  Retention = 1
  T = 1
  MaxCas = 2
  MaxFaults = 2
  LiveStates = {"ACTIVE"}
  WatchNodes = {1, 2, 3}
  HoldNodes = {1}
  AllowRestart = TRUE
  AllowGarbage = FALSE
  AllowPartition = TRUE
  AllowJunkPP = FALSE
  ConsumeNet = TRUE
  Ideal = TRUE
  Ghost = FALSE
  Record = FALSE
  Quiesce = FALSE
  RunDepth = 0
  QRounds = 2
SPECIFICATION FairSpec
INVARIANTS TypeOK
PROPERTIES Convergence
CHECK_DEADLOCK FALSE
