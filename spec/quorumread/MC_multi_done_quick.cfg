CONSTANTS
  WithDone = TRUE
  TrackerBug = "none"
  Shapes <- ShapesDoneQuick
INIT Init
NEXT NextD
INVARIANTS TypeOK OnlySuccessful QuorumBacked ErrWhenExceeded AtMostOneCall CleanupSafe CleanupExactlyOnce UnusedCancelled ReturnedNotCancelled CompletedJustified CompletedWhenAllDone
CHECK_DEADLOCK TRUE
