"""C07 - compare-and-swap is atomic on every KV backend.

spec/kvcas/KVCas.tla: one key, NC callers, the three stores' conditional writes (Consul mock ModifyIndex,
etcd Version, memberlist ValueDesc.Version incl. its blind first write and its retry-only-if-f-said-so),
wrappers (prefix, metrics, MultiClient with mirroring). TLC decides Serial / SeenChain / NoLostNoPhantom /
AtMostOncePerCall / FailureIsNoop exhaustively; every transition of the 2-caller state graph (3 callers in
the thorough tier) is replayed on the real clients with f as the gate (harness/c07 TestReplay, synctest);
runs of 2..16 callers recorded from the real stores are validated by spec/kvcas/KVCasTrace.tla.
"""
import json
import os
import re

PROPERTY = "C07"
META = {
    "level_text": "TLC checks exhaustively, for 3 callers x 2 CAS calls on one key and each of the three stores (in-memory Consul, etcd mock, "
                  "one-node memberlist KV), that the stored value is the fold of the successful calls in the order they hit the store, that every "
                  "successful call computed from the value its predecessor left (memberlist: or read 'absent' and was merged), that nothing is lost or "
                  "invented, that a call is applied at most once and iff it reported success, and (action property) that a failing or declining call "
                  "leaves the cell unchanged. Binding: every transition of the 2-caller x 2-call state graph (all stores, all outcomes of f: put with and "
                  "without retry flag, decline, error with and without retry, input returned unchanged incl. memberlist's 'no change detected' 1 s sleep "
                  "on the synctest clock, retry-limit exhaustion; thorough: also the 3-caller graph) is executed on the real clients - bare, behind "
                  "kv.PrefixClient, behind the metrics wrapper, behind a mirroring MultiClient - with f as the gate between the store's read and its "
                  "conditional write, and after every step the value handed to f, the call's result, Get and the mirror store are compared with the "
                  "specification's. Runs of 2..16 callers x up to 50 calls (seeded gate scheduler with 1..3 WatchKey/WatchPrefix watchers, and "
                  "free-running goroutines) are recorded from the real stores and accepted by TLC only if they are behaviours of the same specification "
                  "in which every watcher, after quiescence, has been called with the latest value and only ever with values the store held, in order. "
                  "Also replayed at every point of the 2-caller graph: a CAS on ANOTHER key of the same store through the same client (action Other - "
                  "this key's callers, Get on the client / the wrapped store / the mirror must not notice; the sibling key sees exactly its own history; "
                  "List names exactly the keys that hold a value), and f returning a value the store cannot take (action Bad: the codec refuses it / "
                  "it is not a Mergeable - nothing is written, Consul and etcd consume the attempt and re-read whatever f's retry flag says, memberlist "
                  "only if it says so). Half of the callers (which half depends on the seed; the graphs are symmetric in the callers) run f IN PLACE: "
                  "they edit the value they were handed and return it, scribble on it before declining / failing, and go on writing to every value "
                  "they returned after the call is over - the store must never share memory with a value it handed out or was handed. "
                  "Thorough also: watcher liveness (EventuallyLatest) on the specification; and, outside C07's quantifier, conformance of the "
                  "specification's Delete model to the Consul/etcd mocks and of KVMulti.tla (MultiClient primary switch with CAS calls in flight) to the "
                  "real MultiClient.",
    "level_note": "Bounds: exhaustive only for <=3 callers x 2 calls on one key (plus <=2 writes to one sibling key, modelled only through the frame "
                  "condition and the store-wide write counter; concurrent callers on several keys are not a state of the specification); recorded runs keep callers x calls <= 100 so that values stay small. "
                  "Trusted: TLC, testing/synctest quiescence, the harness value type (grow-only set of (caller, call, position); a memberlist Mergeable). "
                  "The granularity of the specification is the f callback (a failed comparison and the following re-read are one step). The metrics "
                  "wrapper and the MultiClient can only be built over the process-wide in-memory Consul store and a memberlist KV (unexported "
                  "constructors); watchers are not attached where the primary is that process-wide store (it lives outside the synctest bubble). "
                  "Outside the property and marked as such in the evidence: Delete (etcd mock Version restarts = ABA; Consul mock accepts any index on an "
                  "absent key) and the primary switch of a MultiClient (a call in flight on the old primary mirrors its output over the new primary: "
                  "reproduced on the real code, reported, does not fail C07). The real Consul/etcd servers are not exercised, only dskit's clients "
                  "against dskit's own in-process mocks.",
    "technique": "TLA+ specifications (KVCas.tla, KVMulti.tla) model-checked by TLC; TLC-generated behaviours replayed into the real clients inside "
                 "testing/synctest; traces recorded from the real clients validated by TLC against KVCasTrace.tla",
    "design_ref": "DESIGN.md 2 C07, 4",
}

ALL = '{"consul", "etcd", "memberlist"}'
INV = "Serial SeenChain NoLostNoPhantom SawCurrent"


def subst(nc, ops, maxerr, emit, backends=ALL, secondaries='{"none"}', limits="{10}", delete=False, inv=INV, same=False, nw=0, bad=False, nother=0):
    return {"@@NC@@": nc, "@@OPS@@": ops, "@@BACKENDS@@": backends, "@@LIMITS@@": limits, "@@MAXERR@@": maxerr,
            "@@SECONDARIES@@": secondaries, "@@DELETE@@": "TRUE" if delete else "FALSE", "@@SAME@@": "TRUE" if same else "FALSE", "@@NW@@": nw,
            "@@BAD@@": "TRUE" if bad else "FALSE", "@@NOTHER@@": nother,
            "@@EMIT@@": "TRUE" if emit else "FALSE", "@@INV@@": inv}


def incon(why):
    import verif
    raise verif.Inconclusive(why)


def dedup_prefixes(src, dst):
    """Behaviours are JSON arrays of steps; drop those that are a proper prefix of another one."""
    keys = set()
    n = 0
    with open(src) as f:
        for line in f:
            line = line.strip()
            if not line:
                continue
            n += 1
            keys.add(json.dumps(json.loads(line), sort_keys=True, separators=(",", ":"))[:-1])
    keys = sorted(keys)
    kept = 0
    with open(dst, "w") as out:
        for i, k in enumerate(keys):
            if i + 1 < len(keys) and keys[i + 1].startswith(k + ","):
                continue
            out.write(k + "]\n")
            kept += 1
    return n, kept


def replay(ctx, gens, label, variants=None, timeout=900, record_rounds=0, count=True, test=None):
    """gens: [(name, TLCResult)] of emitting runs. The prefix-free behaviours of all of them go through one harness run
    (which also records the code -> spec traces when record_rounds > 0; they are validated afterwards).
    Self-test knobs read by the harness: VERIF_CORRUPT_REPLAY=val|e (one expected output), VERIF_CORRUPT_TRACE=final|in|ok (one logged field)."""
    path = ctx.path("beh_%s.ndjson" % label)
    ntrans = kept = 0
    with open(path, "w") as out:
        for name, r in gens:
            if r.emitted == 0:
                incon("%s: TLC emitted no behaviours" % name)
            if r.emitted != r.generated - r.init_states:
                incon("%s: %d behaviours emitted for %d transitions" % (name, r.emitted, r.generated - r.init_states))
            part = ctx.path("beh_%s_%s.ndjson" % (label, name))
            n, k = dedup_prefixes(r.out_path, part)
            ntrans += n
            kept += k
            with open(part) as f:
                for line in f:
                    out.write(line)
            os.unlink(part)
    env = {"VERIF_IN": path}
    if variants:
        env["VERIF_VARIANTS"] = variants
    trace = None
    if record_rounds:
        trace = ctx.path("c07_trace.ndjson")
        env.update({"VERIF_TRACE": trace, "VERIF_ROUNDS": record_rounds})
    res = ctx.run_harness("c07", test or ("^TestAll$" if record_rounds else "^TestReplay$"), env=env, timeout=timeout)
    ex = res.get("extra") or {}
    if test:                        # drivers other than TestReplay report plain case counts
        ex.setdefault("behaviours_read", res.get("cases"))
        ex.setdefault("replayed", res.get("cases"))
    ctx.log("%s: %d transitions -> %d maximal behaviours -> %s replays on real clients, %s mismatches" % (
        label, ntrans, kept, ex.get("replayed"), ex.get("mismatches_total")))
    if not res.get("fatal") and (ex.get("behaviours_read") != kept or ex.get("replayed", 0) < kept):
        incon("%s: harness read %s and replayed %s behaviours, %d were generated" % (label, ex.get("behaviours_read"), ex.get("replayed"), kept))
    per = ex.pop("replayed_per_variant", {})
    for k in ("replay_classes", "mismatches_by_sig", "behaviours_read", "replayed"):
        ex.pop(k, None)
    tot = ctx.extra.setdefault("replayed_per_variant", {})
    for k, v in per.items():
        tot[k] = tot.get(k, 0) + v
    ctx.extra["transitions_covered_by_replay"] = ctx.extra.get("transitions_covered_by_replay", 0) + ntrans
    recorded = ex.pop("recorded", None)
    before = (ctx.traces, ctx.evaluations, ctx.nontrivial)
    ctx.absorb(res, label)          # replay mismatches are violations whatever the validator says
    if not count:                   # growth of the specification beyond C07's quantifier: counted, but marked
        ctx.extra.setdefault("replays_outside_C07_quantifier", {})[label] = ctx.traces - before[0]
    if trace:
        validate_recorded(ctx, trace, recorded)


def tlc(ctx, label, sub, timeout, coverage=False, count=True):
    r = ctx.tlc("kvcas", "KVCas", cfg="MC.cfg", subst=sub, timeout=timeout, coverage=coverage, deadlock=False, count=count,
                workers=int(os.environ.get("VERIF_TLC_WORKERS", "8")))
    ctx.require_tlc_ok(r, label)
    m = re.search(r"Finished computing initial states: (\d+) distinct state", r.log)
    r.init_states = int(m.group(1)) if m else 0
    if coverage:
        # Delete is off in property configs; the watcher disjuncts of Next range over 1..NW = {} here (MC_watch.cfg covers them)
        zero = [a for a in r.coverage_zero if a not in ("Delete", "Next")]
        if zero:
            incon("%s: actions never taken (vacuity): %s" % (label, zero))
    return r


def validate(ctx, trace, ntraces):
    """TLC accepts the recorded runs iff its single path consumes every event of every line.
    Returns None (accepted) or (index of the first rejected line, why)."""
    r = ctx.tlc("kvcas", "KVCasTrace", extra_files={trace: "trace.ndjson"}, workers=1, deadlock=False, timeout=1200,
                emit_prefixes=("\x00",))
    acc = [int(x) for x in re.findall(r'<<"line-accepted", (\d+)>>', r.log)]
    done = max(acc) if acc else 0
    if r.ok and done == ntraces:
        return None
    if r.violated in ("Serial", "NoLostNoPhantom", "TypeOK") and done < ntraces:
        return done + 1, "invariant %s of KVCas.tla is violated while following the recorded run" % r.violated
    postcond = "Postcondition AllAccepted" in r.log or r.violated == "Postcondition"
    if postcond and not r.timed_out and done < ntraces and "states generated" in r.log:
        return done + 1, "no enabled KVCas step matches the caller's next logged event (or the final value differs)"
    incon("trace validation: TLC rc=%s violated=%s error=%s timed_out=%s accepted=%d/%d" % (
        r.rc, r.violated, (r.error or "")[:300], r.timed_out, done, ntraces))


def validate_recorded(ctx, trace, recorded):
    """Validate the traces the harness recorded; a rejected one is a disagreement (recorded from the real code)."""
    lines = [l for l in open(trace) if l.strip()]
    if len(lines) != recorded:
        incon("recorder wrote %d traces, reported %s" % (len(lines), recorded))
    if not lines:
        return
    bad = validate(ctx, trace, len(lines))
    if bad is None:
        return
    idx, why = bad
    t = json.loads(lines[idx - 1])
    # is it this line alone (and not its position in the file)? validate it on its own
    single = ctx.path("c07_trace_single.ndjson")
    open(single, "w").write(lines[idx - 1])
    if validate(ctx, single, 1) is None:
        incon("trace %d rejected in the batch but accepted alone: harness/validator trouble" % idx)
    ctx.traces -= 1          # that run was recorded but not accepted
    ctx.disagreement({
        "sig": "record %s %s: trace rejected by KVCasTrace" % (t.get("variant"), t.get("mode")),
        "case": {"variant": t.get("variant"), "mode": t.get("mode"), "n": t.get("n"), "m": t.get("m"), "trace": t},
        "got": "events and final value recorded from the real store", "want": why}, "record/validate")


def run(ctx):
    ctx.rule = ("replay: one case = one maximal path of the TLC state graph (prefix-free set of 'BFS path to s + transition out of s' over all "
                "transitions) executed on one client variant; non-trivial = some attempt lost a race, was retried or failed (not begin/put-ok/decline "
                "only). record: one case = one recorded run accepted by TLC; non-trivial = some put lost a race (counted for scheduler-driven runs)")
    ctx.assumptions = ["f is the only interleaving point between a store's read and its conditional write (granularity of KVCas.tla)",
                       "testing/synctest: a caller is observed only when every goroutine of the bubble is durably blocked",
                       "in-process mocks of Consul and etcd shipped with dskit stand for the servers",
                       "values are grow-only sets of (caller, call, position); memberlist merges them by union"]
    ctx.exhaustive = True
    thorough = ctx.tier == "thorough"

    # 1. the property, exhaustively: 3 callers x 2 calls, all three stores
    #    (thorough: f may also fail-with-retry once per call and return its input unchanged - Same / Tick)
    r = tlc(ctx, "property 3x2", subst(3, 2, 1 if thorough else 0, False, same=thorough, bad=thorough, nother=1 if thorough else 0),
            timeout=1500, coverage=thorough)
    ctx.extra["property_states_3x2"] = r.distinct

    # 2. every transition of the 2x2 graph (all stores, MultiClient setups) on the real clients, and retry-limit
    #    exhaustion: 2 callers x 1 call where f may fail-with-retry as often as the limit allows
    #    (f's outcomes: put with/without retry flag, decline, error with/without retry, input returned unchanged -
    #    memberlist's 1 s sleep after "no change detected" runs on the bubble clock; the quick tier has the latter
    #    in the 2x1 exhaustion graph only, to stay within its time budget)
    gens = [("gen2x2", tlc(ctx, "gen 2x2", subst(2, 2, 1, True, secondaries='{"none", "consul", "memberlist"}', same=thorough), timeout=600)),
            ("exhaust", tlc(ctx, "gen exhaust", subst(2, 1, 10, True, same=True), timeout=600)),
            # retry limit 2 on every store (consul Config.MaxCasRetries; etcd Client.cfg.MaxRetries and memberlist
            # KV.maxCasRetries set by the harness): a call that loses the race on every attempt - conflicts alone, no
            # error from f - must report failure and leave the value alone, bare and behind the wrappers
            ("limit2", tlc(ctx, "gen limit 2", subst(2, 2, 2 if thorough else 0, True, limits="{2, 3}" if thorough else "{2}",
                                                     secondaries='{"none", "consul"}', same=thorough), timeout=600))]
    # frame condition and unstorable outputs: writes to ANOTHER key of the same store (through the same client) at every
    # point of the graph - this key's callers must not notice, Get / List must show both cells - and f returning a value
    # the codec cannot serialise / that is not a Mergeable (nothing written; consul and etcd retry whatever the flag says)
    gens.append(("frame", tlc(ctx, "gen other key + unstorable", subst(2, 2 if thorough else 1, 1, True, bad=True, nother=2,
                                                                     secondaries='{"none", "consul", "memberlist"}'), timeout=900)))
    if thorough:
        # 3 callers x 1 call behind every wrapper, with the default limit and with limit 2
        gens.append(("limit2x3", tlc(ctx, "gen limit 2, 3 callers", subst(3, 1, 2, True, limits="{2}", secondaries='{"none", "consul"}', same=True), timeout=600)))
        gens.append(("gen3x1", tlc(ctx, "gen 3x1", subst(3, 1, 1, True, secondaries='{"none", "consul", "memberlist"}', same=True), timeout=600)))
        # memberlist: "no change detected" as often as the limit allows (9 sleeps, then the call fails), 2 callers x 2 calls
        gens.append(("nochange", tlc(ctx, "gen memberlist no-change", subst(2, 2, 10, True, backends='{"memberlist"}', same=True), timeout=600)))
    # ... and, in the same harness process, code -> spec: recorded runs, validated by KVCasTrace.tla
    replay(ctx, gens, "all-variants", record_rounds=3 if thorough else 1)

    if thorough:
        # 3. every transition of the 3-caller x 2-call graph on the bare stores
        r = tlc(ctx, "gen 3x2", subst(3, 2, 0, True), timeout=1500)
        replay(ctx, [("gen3x2", r)], "bare-3x2", variants="consul/bare,etcd/bare,memberlist/bare", timeout=1800)
        # 4. outside the property (documentation): a Delete by somebody else. The specification's model of what the
        #    Consul and etcd mocks do with it is replayed on the real clients like everything else; on that model TLC
        #    finds that a successful write need no longer be computed from the value it replaces (etcd mock: Version
        #    restarts at 1 = ABA; Consul mock: an absent key accepts any index).
        r = tlc(ctx, "gen delete", subst(2, 2, 0, True, backends='{"consul", "etcd"}', delete=True, inv=""), timeout=600)
        replay(ctx, [("delete", r)], "delete", variants="consul/bare,etcd/bare", count=False)
        for be in ("etcd", "consul"):
            ra = ctx.tlc("kvcas", "KVCas", cfg="MC.cfg", timeout=300, deadlock=False, count=False, workers=4,
                         subst=subst(2, 2, 0, False, backends='{"%s"}' % be, delete=True, inv="SawCurrent"))
            ctx.extra["outside_quantifier_delete_%s" % be] = (
                "SawCurrent violated (a successful write was computed from a value other than the one it replaced)"
                if ra.violated == "SawCurrent" else "no violation found (rc=%s violated=%s)" % (ra.rc, ra.violated))

        # 5. watchers: safety and liveness (EventuallyLatest under weak fairness of deliveries) on the specification;
        #    the binding is in the recorded runs (every scheduler-driven run carries 1..3 WatchKey / WatchPrefix watchers)
        rw = ctx.tlc("kvcas", "KVCas", cfg="MC_watch.cfg", timeout=900, workers=int(os.environ.get("VERIF_TLC_WORKERS", "8")))
        ctx.require_tlc_ok(rw, "watchers (liveness)")
        ctx.extra["watch_liveness_states"] = rw.distinct
        # 6. growth beyond C07 (DESIGN 4): the primary of a mirroring MultiClient is switched while CAS calls are in flight
        multi_switch(ctx)
    return "model_checking"


def msubst(nc, ops, sw, emit, inv):
    return {"@@NC@@": nc, "@@OPS@@": ops, "@@SW@@": sw, "@@EMIT@@": "TRUE" if emit else "FALSE", "@@INV@@": inv}


def multi_switch(ctx):
    w = int(os.environ.get("VERIF_TLC_WORKERS", "8"))
    # without a switch no call applied to the primary is ever lost from it, whatever the mirror writes do
    r0 = ctx.tlc("kvcas", "KVMulti", cfg="MCM.cfg", subst=msubst(2, 2, 0, False, "NoLostOnPrimary"), timeout=600, deadlock=False, workers=w)
    ctx.require_tlc_ok(r0, "KVMulti without switch")
    # with one switch: the model conforms to the real MultiClient on every transition ...
    r1 = ctx.tlc("kvcas", "KVMulti", cfg="MCM.cfg", subst=msubst(2, 2, 1, True, ""), timeout=600, deadlock=False, workers=w)
    ctx.require_tlc_ok(r1, "KVMulti with switch (gen)")
    m = re.search(r"Finished computing initial states: (\d+) distinct state", r1.log)
    r1.init_states = int(m.group(1)) if m else 0
    replay(ctx, [("multiswitch", r1)], "multi-switch", test="^TestMultiSwitch$", count=False)
    lost = ctx.extra.get("multi_switch_behaviours_where_primary_lost_an_applied_call", 0)
    # ... and on that model TLC finds that a call in flight on the old primary mirrors its output over the new one
    r2 = ctx.tlc("kvcas", "KVMulti", cfg="MCM.cfg", subst=msubst(2, 1, 1, False, "NoLostOnPrimary"), timeout=300, deadlock=False,
                 workers=4, count=False)
    ctx.extra["outside_quantifier_multi_primary_switch"] = (
        "NoLostOnPrimary %s on KVMulti.tla with one switch; the real MultiClient lost a call applied to the current primary in %d "
        "of the replayed behaviours (Begin(c1) on memberlist, its write lands, switch to inmemory, CAS(c2) on inmemory returns, "
        "c1's mirror write overwrites inmemory)" % ("violated" if r2.violated == "NoLostOnPrimary" else "NOT violated (rc=%s)" % r2.rc, lost))
    ctx.log("multi-switch: " + ctx.extra["outside_quantifier_multi_primary_switch"])
