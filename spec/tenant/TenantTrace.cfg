\* C20 trace validation: see TenantTrace.tla. The universe constants of Tenant.tla are unused.
CONSTANTS
  NChunks = 32
  Alphabet = {}
  MaxShort = 0
  Alphabet2 = {}
  MaxShort2 = 0
  RunBytes = {}
  RunCounts = {}
  SepBytes = {}
  MaxSegs = 0
  Pool <- PoolQuick
  MaxParts = 0
  Pool2 <- PoolNone
  MaxParts2 = 0
  MetaAlphabet = {}
  MaxMeta = 0
  MetaRuns = {}
INIT TInit
NEXT TNext
INVARIANTS TypeOK NoSeparatorInAccepted ResolversAgree MetadataIgnoredConsistently NoOrgIsRefused Agrees
CHECK_DEADLOCK FALSE
