CONSTANTS
  NSet = {1, 2, 3, 4, 5, 6}
  MaxZ = 4
  Modes = {"default", "zone"}
  Delays = {TRUE, FALSE}
INIT TInit
NEXT TNext
INVARIANTS EmitProgress
CHECK_DEADLOCK FALSE
