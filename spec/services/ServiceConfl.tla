---------------------------- MODULE ServiceConfl ----------------------------
(***************************************************************************)
(* Confluence of ServiceGated!Settle: between two environment steps the    *)
(* internal steps of Service.tla may be taken in ANY order (here TLC tries *)
(* all of them) and the quiescent state reached is always the one Settle   *)
(* computes with its fixed order.  `base` is the state right after the     *)
(* last environment step.                                                  *)
(***************************************************************************)
EXTENDS ServiceGated

VARIABLE base
cvars == <<sv, hist, base>>

CInit == \E p \in Presents, m \in RunModes : sv = InitRec(p, m) /\ base = sv /\ hist = <<>>

AnyInternal ==
  \/ MainInternal
  \/ (sv.mode # "any" /\ aRunFnReturn("none"))
  \/ \E l \in Lis : aLRecv(l) \/ aLExit(l) \/ aRemoveDelete(l) \/ aRemoveWait(l)
  \/ \E w \in Waiters : aAwaitWake(w) \/ aAwaitFail(w)

EnvStep(a) == EnvEn(sv, a) /\ sv' = EnvOp(sv, a) /\ base' = sv'

CNext == /\ UNCHANGED hist
         /\ IF IntEn(sv) THEN AnyInternal /\ UNCHANGED base
            ELSE \/ EnvStep(<<"StartAsync", 0>>) \/ EnvStep(<<"ParentCancel", 0>>) \/ EnvStep(<<"Tick", 0>>)
                 \/ \E e \in {"none", "estart"} : EnvStep(<<"StartRet", e>>)
                 \/ \E e \in {"none", "erun"} : EnvStep(<<"RunRet", e>>) \/ EnvStep(<<"IterRet", e>>)
                 \/ \E e \in {"none", "estop"} : EnvStep(<<"StopRet", e>>)
                 \/ \E c \in Callers : EnvStep(<<"StopCall", c>>) \/ EnvStep(<<"StopRelease", c>>)
                 \/ \E l \in Lis : EnvStep(<<"AddListener", l>>) \/ EnvStep(<<"Remove", l>>) \/ EnvStep(<<"CbReturn", l>>)
                 \/ \E w \in Waiters : EnvStep(<<"Await", w>>) \/ EnvStep(<<"AwaitCancel", w>>)

\* whenever nothing internal is enabled, the state is what Settle computes from the last environment step
Confluent == IntEn(sv) \/ sv = Settle(base)
\* and AnyInternal is exactly what IntEn says is enabled
IntEnExact == IntEn(sv) <=> ENABLED AnyInternal
=============================================================================
