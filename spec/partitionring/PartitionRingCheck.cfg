INIT Init
NEXT Next
INVARIANTS Emit
CHECK_DEADLOCK FALSE
