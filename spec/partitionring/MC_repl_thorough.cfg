CONSTANTS
  Mode = "repl"
  NK = 3
  Gaps = {1}
  N = 2
  MaxTok = 1
  NOwn = 3
  IStates = {"ACTIVE", "PENDING", "LEAVING", "JOINING"}
  T = 2
INIT Init
NEXT Next
INVARIANTS RoutingTotal ReplExact MultiSound Emit
CHECK_DEADLOCK FALSE
