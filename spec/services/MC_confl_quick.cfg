CONSTANTS
  NC = 1
  NL = 1
  WRun = {1}
  WTerm = {}
  QCap = 4
  MaxIters = 2
  MaxStart = 1
  ParentCancels = TRUE
  Presents = {{"start","run","stop"}}
  RunModes = {"any"}
  GuardNilCancel = FALSE
INIT CInit
NEXT CNext
INVARIANTS Confluent IntEnExact
CHECK_DEADLOCK FALSE
