// Package c03 binds spec/ringmerge (RingMerge.tla, PartitionMerge.tla) to the real merge functions
// ring.Desc.Merge and ring.PartitionRingDesc.Merge (C03).
//
//	spec -> code  every case TLC enumerated (kind merge / pmerge: one Merge call with the receiver and the
//	              change the specification demands; kind conv / pconv: three updates and the descriptor every
//	              delivery schedule must fold to) is executed on real objects, inside a testing/synctest
//	              bubble whose clock is the case's `now`.
//	code -> spec  random larger descriptors and merge sequences (replicas, relayed changes, local CAS) are
//	              executed and every call is logged for RingMergeTrace.tla / PartitionMergeTrace.tla.
package c03

import (
	"bytes"
	"encoding/json"
	"fmt"
	"math/rand"
	"os"
	"path/filepath"
	"sort"
	"strconv"
	"testing"
	"testing/synctest"
	"time"

	"verifharness/internal/abs"

	"github.com/grafana/dskit/kv/memberlist"
	"github.com/grafana/dskit/ring"
)

// ------------------------------------------------------------------------------------------- cases

type mergeCase struct {
	Kind     string    `json:"kind"`
	Mine     abs.MDesc `json:"mine"`
	Other    abs.MDesc `json:"other"`
	Cas      bool      `json:"cas"`
	Now      int       `json:"now"`
	Result   abs.MDesc `json:"result"`
	Nil      bool      `json:"nil"`
	Change   abs.MDesc `json:"change"`
	Taken    []int     `json:"taken"`
	Resolved bool      `json:"resolved"`
}

type convCase struct {
	Kind   string      `json:"kind"`
	U      []abs.MDesc `json:"u"`
	Target abs.MDesc   `json:"target"`
}

type pmergeCase struct {
	Kind    string    `json:"kind"`
	Mine    abs.PDesc `json:"mine"`
	Other   abs.PDesc `json:"other"`
	Cas     bool      `json:"cas"`
	Now     int       `json:"now"`
	Result  abs.PDesc `json:"result"`
	Nil     bool      `json:"nil"`
	Change  abs.PDesc `json:"change"`
	Created []int     `json:"created"`
}

type pconvCase struct {
	Kind   string      `json:"kind"`
	U      []abs.PDesc `json:"u"`
	Target abs.PDesc   `json:"target"`
}

func kindOf(line []byte) string {
	i := bytes.Index(line, []byte(`"kind":"`))
	if i < 0 {
		return ""
	}
	rest := line[i+8:]
	j := bytes.IndexByte(rest, '"')
	if j < 0 {
		return ""
	}
	return string(rest[:j])
}

func nowOf(line []byte) int {
	i := bytes.Index(line, []byte(`"now":`))
	if i < 0 {
		return 0
	}
	rest := line[i+6:]
	j := 0
	for j < len(rest) && rest[j] >= '0' && rest[j] <= '9' {
		j++
	}
	n, _ := strconv.Atoi(string(rest[:j]))
	return n
}

// corrupt is the self-test switch ("corrupting one expected output must make the run fail"):
// VERIF_CORRUPT=n flips one expected field of the n-th case of each kind.
var corrupt = abs.EnvInt("VERIF_CORRUPT", 0)

// VERIF_CORRUPT_TRACE=n corrupts one logged field of the n-th recorded event (the trace validator must reject).
var corruptTrace = abs.EnvInt("VERIF_CORRUPT_TRACE", 0)

type driver struct {
	res     *abs.Result
	rnd     *rand.Rand
	reps    int
	counts  map[string]int
	samples map[string]bool
	aliased int // partition clones whose token slice aliases the original's (observation, see partGC)
	blanks  int // empty strings met in PartitionRingDesc.MergeContent() (observation, see partContent)
}

func (dr *driver) sample(kind string, c any) {
	if !dr.samples[kind] {
		dr.samples[kind] = true
		dr.res.Samples = append(dr.res.Samples, c)
	}
}

var safeMerge = abs.SafeMerge
var viaCodec = abs.ViaRingCodec

// ------------------------------------------------------------------------------------------- instance ring

func tsRel(m, o abs.MEntry) string {
	switch {
	case !m.Present() && !o.Present():
		return "none"
	case !m.Present():
		return "new"
	case !o.Present():
		return "missing"
	case o.Ts > m.Ts:
		return "newer"
	case o.Ts < m.Ts:
		return "older"
	}
	return "same-ts"
}

// ringSig names the class of a failing merge case by the first entry that differs.
func ringSig(what string, c *mergeCase, k int) string {
	s := fmt.Sprintf("ring:merge %s cas=%t resolved=%t", what, c.Cas, c.Resolved)
	if k >= 0 && k < len(c.Mine) {
		s += fmt.Sprintf(" entry=%s mine=%s other=%s", tsRel(c.Mine[k], c.Other[k]), c.Mine[k].State, c.Other[k].State)
	}
	return s
}

func firstDiff(a, b abs.MDesc) int {
	for k := range a {
		if k >= len(b) || !a[k].Equal(b[k]) {
			return k
		}
	}
	return -1
}

func (dr *driver) embedding(m int, rep int) abs.Embedding {
	if rep%2 == 0 {
		return abs.BoundaryEmbedding(m)
	}
	return abs.RandomEmbedding(m, dr.rnd)
}

func numPos(ds ...abs.MDesc) int {
	m := 0
	for _, d := range ds {
		for _, e := range d {
			for _, p := range e.Toks {
				if p+1 > m {
					m = p + 1
				}
			}
		}
	}
	if m < 2 {
		m = 2
	}
	return m
}

func (dr *driver) ringMerge(c *mergeCase) {
	dr.counts["merge"]++
	if corrupt > 0 && dr.counts["merge"] == corrupt {
		c.Result[0].Ts++
	}
	n := len(c.Mine)
	m := numPos(c.Mine, c.Other, c.Result)
	taken := map[int]bool{}
	for _, i := range c.Taken {
		taken[i] = true
	}
	reps := dr.reps
	if n == 1 {
		reps = 1 // no map-order dimension with a single entry
	}
	for rep := 0; rep < reps; rep++ {
		emb := dr.embedding(m, rep+dr.counts["merge"])
		mine := abs.BuildDesc(c.Mine, abs.RingBuild{Emb: emb, Tag: "mine"})
		other := abs.BuildDesc(c.Other, abs.RingBuild{Emb: emb, Rnd: dr.rnd, Tag: "other"})
		if (rep+dr.counts["merge"])%2 == 1 {
			other = viaCodec(other) // every second execution the argument arrives as a gossiped message does: encode -> decode -> Merge
		}
		if got := abs.UnixToTs(time.Now().Unix()); got != c.Now {
			dr.res.Fatal = fmt.Sprintf("bubble clock is %d, case wants %d", got, c.Now)
			return
		}
		snap := mine.Clone().(*ring.Desc) // what a reader / watcher was handed before this merge
		ch, err, pan := safeMerge(mine, other, c.Cas)
		if pan != "" || err != nil {
			dr.res.Mismatch(abs.Mismatch{Sig: ringSig("panic-or-error", c, -1), Case: c, Got: fmt.Sprint(pan, err), Want: "no panic, no error"})
			return
		}
		if gots, problems := abs.ProjectDesc(snap, n, emb); len(problems) > 0 || !gots.Equal(c.Mine) {
			dr.res.Mismatch(abs.Mismatch{Sig: ringSig("clone-mutated-by-merge", c, -1), Case: c, Got: gots, Want: c.Mine})
			return
		}
		if gotc := ringContent(mine, n); !sameIntSet(gotc, presentIDs(c.Result)) {
			dr.res.Mismatch(abs.Mismatch{Sig: ringSig("result-MergeContent", c, -1), Case: c, Got: gotc, Want: presentIDs(c.Result)})
			return
		}
		got, problems := abs.ProjectDesc(mine, n, emb)
		if len(problems) > 0 {
			dr.res.Mismatch(abs.Mismatch{Sig: ringSig("receiver-not-normalised", c, -1), Case: c, Got: problems, Want: "sorted duplicate-free token lists"})
			return
		}
		if !got.Equal(c.Result) {
			dr.res.Mismatch(abs.Mismatch{Sig: ringSig("result", c, firstDiff(c.Result, got)), Case: c, Got: got, Want: c.Result, Note: fmt.Sprintf("repetition %d", rep)})
			return
		}
		// whole entries travel: an entry is the argument's iff the specification says it was taken
		for k := 1; k <= n; k++ {
			if ing, ok := mine.Ingesters[abs.MergeID(k, n)]; ok {
				want := "mine"
				if taken[k] {
					want = "other"
				}
				if ing.Addr != want {
					dr.res.Mismatch(abs.Mismatch{Sig: ringSig("entry-origin", c, k-1), Case: c, Got: ing.Addr, Want: want})
					return
				}
			}
		}
		if abs.IsNilMergeable(ch) != c.Nil {
			dr.res.Mismatch(abs.Mismatch{Sig: ringSig("change-nil", c, -1), Case: c, Got: fmt.Sprintf("nil=%t", abs.IsNilMergeable(ch)), Want: fmt.Sprintf("nil=%t", c.Nil)})
			return
		}
		if !c.Nil {
			chd, ok := ch.(*ring.Desc)
			if !ok {
				dr.res.Mismatch(abs.Mismatch{Sig: ringSig("change-type", c, -1), Case: c, Got: fmt.Sprintf("%T", ch), Want: "*ring.Desc"})
				return
			}
			gotc, problems := abs.ProjectDesc(chd, n, emb)
			if len(problems) > 0 {
				dr.res.Mismatch(abs.Mismatch{Sig: ringSig("change-not-normalised", c, -1), Case: c, Got: problems, Want: "sorted duplicate-free token lists"})
				return
			}
			if !gotc.Equal(c.Change) {
				dr.res.Mismatch(abs.Mismatch{Sig: ringSig("change", c, firstDiff(c.Change, gotc)), Case: c, Got: gotc, Want: c.Change, Note: fmt.Sprintf("repetition %d", rep)})
				return
			}
			if gotm := ringContent(chd, n); !sameIntSet(gotm, presentIDs(c.Change)) || len(gotm) == 0 {
				dr.res.Mismatch(abs.Mismatch{Sig: ringSig("change-MergeContent", c, -1), Case: c, Got: gotm, Want: presentIDs(c.Change)})
				return
			}
		}
	}
	dr.res.Cases++
	if !c.Nil {
		dr.res.Nontrivial++
		dr.sample("merge", c)
	}
}

// perms3 lists the permutations of (0,1,2).
var perms3 = [][3]int{{0, 1, 2}, {0, 2, 1}, {1, 0, 2}, {1, 2, 0}, {2, 0, 1}, {2, 1, 0}}

// ringConv executes RingMerge!Schedules / Relayed (the shapes are mirrored here; the expected common
// descriptor comes from the specification) for every permutation of the three updates.
func (dr *driver) ringConv(c *convCase) {
	dr.counts["conv"]++
	if corrupt > 0 && dr.counts["conv"] == corrupt {
		c.Target[0].Ts++
	}
	n := len(c.Target)
	m := numPos(append(c.U, c.Target)...)
	emb := dr.embedding(m, dr.counts["conv"])
	mk := func(i int) *ring.Desc { // a fresh copy of update i as it would arrive
		return abs.BuildDesc(c.U[i], abs.RingBuild{Emb: emb, Rnd: dr.rnd, Tag: "u"})
	}
	fail := false
	merge := func(recv, other *ring.Desc) memberlist.Mergeable {
		ch, err, pan := safeMerge(recv, other, false)
		if pan != "" || err != nil {
			dr.res.Mismatch(abs.Mismatch{Sig: "ring:conv panic-or-error", Case: c, Got: fmt.Sprint(pan, err), Want: "no panic, no error"})
			fail = true
		}
		return ch
	}
	r := func(x, y *ring.Desc) *ring.Desc { // R(x, y) as a new object, ready to be sent
		merge(x, y)
		return viaCodec(x)
	}
	fold := func(msgs ...*ring.Desc) *ring.Desc {
		s := ring.NewDesc()
		for _, msg := range msgs {
			merge(s, msg)
		}
		return s
	}
	for _, p := range perms3 {
		x, y, z := p[0], p[1], p[2]
		shapes := []func() *ring.Desc{
			func() *ring.Desc { return fold(mk(x), mk(y), mk(z)) },
			func() *ring.Desc { return fold(mk(x), mk(y), mk(x), mk(z), mk(y), mk(z), mk(x)) },
			func() *ring.Desc { return fold(r(fold(mk(x)), mk(y)), mk(z)) },
			func() *ring.Desc { return fold(mk(x), r(fold(mk(y)), mk(z))) },
			func() *ring.Desc { return fold(r(fold(mk(x)), r(fold(mk(y)), mk(z)))) },
			func() *ring.Desc { return fold(r(r(fold(mk(x)), mk(y)), mk(z)), mk(y)) },
			func() *ring.Desc { // a replica that has x is fed the successive changes of a relay that had x
				replica, relay := fold(mk(x)), fold(mk(x))
				for _, u := range []int{y, z} {
					if ch := merge(relay, mk(u)); !abs.IsNilMergeable(ch) {
						merge(replica, viaCodec(ch.(*ring.Desc)))
					}
				}
				return replica
			},
		}
		for si, shape := range shapes {
			got, problems := abs.ProjectDesc(shape(), n, emb)
			if fail {
				return
			}
			if len(problems) > 0 || !got.Equal(c.Target) {
				dr.res.Mismatch(abs.Mismatch{Sig: fmt.Sprintf("ring:conv schedule=%d", si+1), Case: c, Got: map[string]any{"state": got, "problems": problems, "perm": p}, Want: c.Target})
				return
			}
		}
	}
	dr.res.Cases++
	nonEmpty := 0
	for _, u := range c.U {
		for _, e := range u {
			if e.Present() {
				nonEmpty++
				break
			}
		}
	}
	if nonEmpty >= 2 {
		dr.res.Nontrivial++
		dr.sample("conv", c)
	}
}

// ------------------------------------------------------------------------------------------- partition ring

const tagMine, tagOther = 1, 2

func partSig(what string, c *pmergeCase) string {
	return fmt.Sprintf("part:merge %s cas=%t", what, c.Cas)
}

func pdiff(want, got abs.PDesc) string {
	for k := range want.Parts {
		if k >= len(got.Parts) || want.Parts[k] != got.Parts[k] {
			w := want.Parts[k]
			s := "partition"
			if k < len(got.Parts) {
				g := got.Parts[k]
				if w.State != g.State || w.Sts != g.Sts {
					s += " state-register"
				}
				if w.Locked != g.Locked || w.Lts != g.Lts {
					s += " lock-register"
				}
			}
			return s + " want=" + w.State
		}
	}
	for k := range want.Owners {
		if k >= len(got.Owners) || want.Owners[k] != got.Owners[k] {
			return "owner want=" + want.Owners[k].State
		}
	}
	return "?"
}

func (dr *driver) partMerge(c *pmergeCase) {
	dr.counts["pmerge"]++
	if corrupt > 0 && dr.counts["pmerge"] == corrupt {
		if len(c.Result.Parts) > 0 {
			c.Result.Parts[0].Sts++
		} else {
			c.Result.Owners[0].Ts++
		}
	}
	np, no := len(c.Mine.Parts), len(c.Mine.Owners)
	created := map[int]bool{}
	for _, p := range c.Created {
		created[p] = true
	}
	mine := abs.BuildPDesc(c.Mine, tagMine)
	other := abs.BuildPDesc(c.Other, tagOther)
	if dr.counts["pmerge"]%2 == 1 {
		other = pViaCodec(other) // every second case the argument arrives as a gossiped message does: encode -> decode -> Merge
	}
	if got := abs.UnixToTs(time.Now().Unix()); got != c.Now {
		dr.res.Fatal = fmt.Sprintf("bubble clock is %d, case wants %d", got, c.Now)
		return
	}
	snap := mine.Clone().(*ring.PartitionRingDesc) // what a reader / watcher was handed before this merge
	ch, err, pan := safeMerge(mine, other, c.Cas)
	if pan != "" || err != nil {
		dr.res.Mismatch(abs.Mismatch{Sig: partSig("panic-or-error", c), Case: c, Got: fmt.Sprint(pan, err), Want: "no panic, no error"})
		return
	}
	if gots, _, problems := abs.ProjectPDesc(snap, np, no); len(problems) > 0 || !gots.Equal(c.Mine) {
		dr.res.Mismatch(abs.Mismatch{Sig: partSig("clone-mutated-by-merge", c), Case: c, Got: gots, Want: c.Mine})
		return
	}
	{
		wp, wo := presentP(c.Result)
		if gp, gow, _ := partContent(mine, np, no); !sameIntSet(gp, wp) || !sameIntSet(gow, wo) {
			dr.res.Mismatch(abs.Mismatch{Sig: partSig("result-MergeContent", c), Case: c, Got: map[string]any{"parts": gp, "owners": gow}, Want: map[string]any{"parts": wp, "owners": wo}})
			return
		}
	}
	got, tags, problems := abs.ProjectPDesc(mine, np, no)
	if len(problems) > 0 {
		dr.res.Mismatch(abs.Mismatch{Sig: partSig("malformed", c), Case: c, Got: problems, Want: "well-formed descriptor"})
		return
	}
	if !got.Equal(c.Result) {
		dr.res.Mismatch(abs.Mismatch{Sig: partSig("result "+pdiff(c.Result, got), c), Case: c, Got: got, Want: c.Result})
		return
	}
	for p := 1; p <= np; p++ { // tokens are immutable: only a partition the receiver did not know carries the argument's tokens
		if c.Result.Parts[p-1].State == "ABSENT" {
			continue
		}
		want := uint32(tagMine)
		if created[p] {
			want = tagOther
		}
		if tags[p-1] != want {
			dr.res.Mismatch(abs.Mismatch{Sig: partSig("tokens-origin", c), Case: c, Got: tags[p-1], Want: want})
			return
		}
	}
	if abs.IsNilMergeable(ch) != c.Nil {
		dr.res.Mismatch(abs.Mismatch{Sig: partSig("change-nil", c), Case: c, Got: fmt.Sprintf("nil=%t", abs.IsNilMergeable(ch)), Want: fmt.Sprintf("nil=%t", c.Nil)})
		return
	}
	if !c.Nil {
		chd, ok := ch.(*ring.PartitionRingDesc)
		if !ok {
			dr.res.Mismatch(abs.Mismatch{Sig: partSig("change-type", c), Case: c, Got: fmt.Sprintf("%T", ch), Want: "*ring.PartitionRingDesc"})
			return
		}
		gotc, _, problems := abs.ProjectPDesc(chd, np, no)
		if len(problems) > 0 || !gotc.Equal(c.Change) {
			dr.res.Mismatch(abs.Mismatch{Sig: partSig("change "+pdiff(c.Change, gotc), c), Case: c, Got: map[string]any{"change": gotc, "problems": problems}, Want: c.Change})
			return
		}
		wp, wo := presentP(c.Change)
		if gp, gow, _ := partContent(chd, np, no); !sameIntSet(gp, wp) || !sameIntSet(gow, wo) || len(chd.MergeContent()) == 0 {
			dr.res.Mismatch(abs.Mismatch{Sig: partSig("change-MergeContent", c), Case: c, Got: map[string]any{"parts": gp, "owners": gow}, Want: map[string]any{"parts": wp, "owners": wo}})
			return
		}
	}
	dr.res.Cases++
	if !c.Nil {
		dr.res.Nontrivial++
		dr.sample("pmerge", c)
	}
}

func pViaCodec(d *ring.PartitionRingDesc) *ring.PartitionRingDesc {
	b, err := ring.GetPartitionRingCodec().Encode(d)
	if err != nil {
		panic(err)
	}
	v, err := ring.GetPartitionRingCodec().Decode(b)
	if err != nil {
		panic(err)
	}
	return v.(*ring.PartitionRingDesc)
}

func (dr *driver) partConv(c *pconvCase) {
	dr.counts["pconv"]++
	if corrupt > 0 && dr.counts["pconv"] == corrupt {
		if len(c.Target.Parts) > 0 {
			c.Target.Parts[0].Sts++
		} else {
			c.Target.Owners[0].Ts++
		}
	}
	np, no := len(c.Target.Parts), len(c.Target.Owners)
	mk := func(i int) *ring.PartitionRingDesc { return abs.BuildPDesc(c.U[i], tagMine) }
	fail := false
	merge := func(recv, other *ring.PartitionRingDesc) memberlist.Mergeable {
		ch, err, pan := safeMerge(recv, other, false)
		if pan != "" || err != nil {
			dr.res.Mismatch(abs.Mismatch{Sig: "part:conv panic-or-error", Case: c, Got: fmt.Sprint(pan, err), Want: "no panic, no error"})
			fail = true
		}
		return ch
	}
	r := func(x, y *ring.PartitionRingDesc) *ring.PartitionRingDesc {
		merge(x, y)
		return pViaCodec(x)
	}
	fold := func(msgs ...*ring.PartitionRingDesc) *ring.PartitionRingDesc {
		s := ring.NewPartitionRingDesc()
		for _, msg := range msgs {
			merge(s, msg)
		}
		return s
	}
	for _, p := range perms3 {
		x, y, z := p[0], p[1], p[2]
		shapes := []func() *ring.PartitionRingDesc{
			func() *ring.PartitionRingDesc { return fold(mk(x), mk(y), mk(z)) },
			func() *ring.PartitionRingDesc { return fold(mk(x), mk(y), mk(x), mk(z), mk(y), mk(z), mk(x)) },
			func() *ring.PartitionRingDesc { return fold(r(fold(mk(x)), mk(y)), mk(z)) },
			func() *ring.PartitionRingDesc { return fold(mk(x), r(fold(mk(y)), mk(z))) },
			func() *ring.PartitionRingDesc { return fold(r(fold(mk(x)), r(fold(mk(y)), mk(z)))) },
			func() *ring.PartitionRingDesc { return fold(r(r(fold(mk(x)), mk(y)), mk(z)), mk(y)) },
			func() *ring.PartitionRingDesc {
				replica, relay := fold(mk(x)), fold(mk(x))
				for _, u := range []int{y, z} {
					if ch := merge(relay, mk(u)); !abs.IsNilMergeable(ch) {
						merge(replica, pViaCodec(ch.(*ring.PartitionRingDesc)))
					}
				}
				return replica
			},
		}
		for si, shape := range shapes {
			got, _, problems := abs.ProjectPDesc(shape(), np, no)
			if fail {
				return
			}
			got = abs.CanonP(got)
			if len(problems) > 0 || !got.Equal(c.Target) {
				dr.res.Mismatch(abs.Mismatch{Sig: fmt.Sprintf("part:conv schedule=%d", si+1), Case: c, Got: map[string]any{"state": got, "problems": problems, "perm": p}, Want: c.Target})
				return
			}
		}
	}
	dr.res.Cases++
	nonEmpty := 0
	for _, u := range c.U {
		present := false
		for _, e := range u.Parts {
			present = present || e.State != "ABSENT"
		}
		for _, e := range u.Owners {
			present = present || e.State != "ABSENT"
		}
		if present {
			nonEmpty++
		}
	}
	if nonEmpty >= 2 {
		dr.res.Nontrivial++
		dr.sample("pconv", c)
	}
}

// ------------------------------------------------------------------------------------------- entry point

func TestC03(t *testing.T) {
	in := os.Getenv("VERIF_IN")
	traceDir := os.Getenv("VERIF_TRACE_DIR")
	if in == "" && traceDir == "" {
		t.Skip("VERIF_IN / VERIF_TRACE_DIR not set")
	}
	res := &abs.Result{}
	dr := &driver{res: res, rnd: rand.New(rand.NewSource(abs.Seed())), reps: abs.EnvInt("VERIF_REPS", 3),
		counts: map[string]int{}, samples: map[string]bool{}}

	// VERIF_CONV_EVERY=k: only every k-th convergence triple (offset by the seed) is executed
	convEvery, convSeen, convSkipped := abs.EnvInt("VERIF_CONV_EVERY", 1), 0, 0
	skipConv := func() bool {
		convSeen++
		if convEvery > 1 && (int64(convSeen)+abs.Seed())%int64(convEvery) != 0 {
			convSkipped++
			return true
		}
		return false
	}

	// pass 1: which clock readings do the cases need
	nowSet := map[int]bool{}
	if in != "" {
		if err := abs.ReadNDJSON(in, func(line []byte) error {
			if k := kindOf(line); k == "merge" || k == "pmerge" || k == "pedit" {
				nowSet[nowOf(line)] = true
			}
			return nil
		}); err != nil {
			res.Fatal = "reading cases: " + err.Error()
		}
	}
	var nows []int
	for n := range nowSet {
		nows = append(nows, n)
	}
	sort.Ints(nows)
	if len(nows) == 0 {
		nows = []int{1}
	}

	synctest.Test(t, func(t *testing.T) {
		if in != "" && res.Fatal == "" {
			for ni, now := range nows {
				if now < 1 {
					res.Fatal = "case with now < 1"
					return
				}
				abs.SleepUntil(now)
				err := abs.ReadNDJSON(in, func(line []byte) error {
					if res.Fatal != "" {
						return nil
					}
					switch kindOf(line) {
					case "merge":
						if nowOf(line) != now {
							return nil
						}
						var c mergeCase
						if err := json.Unmarshal(line, &c); err != nil {
							return err
						}
						dr.ringMerge(&c)
					case "pmerge":
						if nowOf(line) != now {
							return nil
						}
						var c pmergeCase
						if err := json.Unmarshal(line, &c); err != nil {
							return err
						}
						dr.partMerge(&c)
					case "conv":
						if ni != 0 || skipConv() {
							return nil
						}
						var c convCase
						if err := json.Unmarshal(line, &c); err != nil {
							return err
						}
						dr.ringConv(&c)
					case "pconv":
						if ni != 0 || skipConv() {
							return nil
						}
						var c pconvCase
						if err := json.Unmarshal(line, &c); err != nil {
							return err
						}
						dr.partConv(&c)
					case "pedit":
						if nowOf(line) != now {
							return nil
						}
						var c peditCase
						if err := json.Unmarshal(line, &c); err != nil {
							return err
						}
						dr.partEdit(&c)
					case "gc":
						if ni != 0 {
							return nil
						}
						var c gcCase
						if err := json.Unmarshal(line, &c); err != nil {
							return err
						}
						dr.ringGC(&c)
					case "pgc":
						if ni != 0 {
							return nil
						}
						var c pgcCase
						if err := json.Unmarshal(line, &c); err != nil {
							return err
						}
						dr.partGC(&c)
					default:
						return fmt.Errorf("unknown case kind in %.80s", line)
					}
					return nil
				})
				if err != nil {
					res.Fatal = "replay: " + err.Error()
					return
				}
			}
		}
	})
	if traceDir != "" && res.Fatal == "" {
		synctest.Test(t, func(t *testing.T) {
			_, n := abs.RecordRingMerges(abs.RingRecorder{N: abs.EnvInt("VERIF_TN", 12), M: abs.EnvInt("VERIF_TM", 24), Replicas: 3,
				Steps: abs.EnvInt("VERIF_TSTEPS", 400), MaxNow: abs.EnvInt("VERIF_TMAXNOW", 60), SharedPct: 15, Seed: abs.Seed()*7919 + 11,
				Path: filepath.Join(traceDir, "ring_trace.ndjson"), SigPrefix: "ring:trace", Corrupt: corruptTrace}, res)
			res.AddExtra("ring_trace_events", n)
		})
		synctest.Test(t, func(t *testing.T) { recordPart(dr, traceDir) })
	}
	for k, v := range dr.counts {
		res.AddExtra("cases_"+k, v)
	}
	res.AddExtra("conv_skipped", convSkipped)
	res.AddExtra("observed_blank_names_in_partition_MergeContent", dr.blanks)
	res.AddExtra("observed_partition_clones_sharing_token_storage", dr.aliased)
	res.Write(t)
}
