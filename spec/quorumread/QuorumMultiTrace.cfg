CONSTANTS
  WithDone = TRUE
  TrackerBug = "none"
  Shapes <- AnyShapes
INIT TInit
NEXT TNext
INVARIANTS TypeOK OnlySuccessful QuorumBacked ErrWhenExceeded AtMostOneCall CleanupSafe CleanupExactlyOnce UnusedCancelled ReturnedNotCancelled CompletedJustified CompletedWhenAllDone EmitAccepted
CHECK_DEADLOCK FALSE
