CONSTANTS
  NSet = {1, 2, 3}
  MaxZ = 3
  Modes = {"default", "zone"}
  Delays = {TRUE, FALSE}
INIT Init
NEXT NextD
INVARIANTS TypeOK OnlySuccessful QuorumBacked ErrWhenExceeded AtMostOneCall Minimised AllCancelledAtReturn
CHECK_DEADLOCK TRUE
