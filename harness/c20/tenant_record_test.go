package c20

import (
	"encoding/json"
	"math/rand"
	"os"
	"sort"
	"strings"
	"testing"

	"verifharness/internal/abs"

	"github.com/grafana/dskit/tenant"
	"github.com/grafana/dskit/user"
)

const safeChars = "abcdefghijklmnopqrstuvwxyzABCDEFGHIJKLMNOPQRSTUVWXYZ0123456789!-_.*'()"
const metaKeyChars = "abcdefghijklmnopqrstuvwxyzABCDEFGHIJKLMNOPQRSTUVWXYZ0123456789-_"

var specialBytes = []byte{'|', ':', '=', '/', '.', 0, 0xC3, 0xFF, ' ', '\\', '\n', 0x7F, '@', '|', ':'}

func randFrom(r *rand.Rand, alphabet string, n int) string {
	b := make([]byte, n)
	for i := range b {
		b[i] = alphabet[r.Intn(len(alphabet))]
	}
	return string(b)
}

func genTenantID(r *rand.Rand) string {
	switch x := r.Intn(100); {
	case x < 3:
		return "."
	case x < 6:
		return ".."
	case x < 8:
		return ""
	case x < 18: // around the length limit
		return randFrom(r, safeChars, 147+r.Intn(6))
	case x < 30:
		return randFrom(r, safeChars, 1)
	default:
		return randFrom(r, safeChars, 2+r.Intn(12))
	}
}

func genMetadata(r *rand.Rand) string {
	n := 1 + r.Intn(3)
	keys := map[string]bool{}
	for len(keys) < n {
		keys[randFrom(r, "abk0_-Z", r.Intn(3))] = true
	}
	ks := make([]string, 0, n)
	for k := range keys {
		ks = append(ks, k)
	}
	sort.Strings(ks)
	if r.Intn(6) == 0 && len(ks) > 1 { // unsorted keys
		ks[0], ks[len(ks)-1] = ks[len(ks)-1], ks[0]
	}
	if r.Intn(12) == 0 { // duplicate key
		ks = append(ks, ks[len(ks)-1])
	}
	var sb strings.Builder
	for _, k := range ks {
		vlen := r.Intn(7)
		if r.Intn(8) == 0 { // around the 64-byte limit
			vlen = 50 + r.Intn(16)
		}
		v := randFrom(r, metaKeyChars+"=", vlen)
		sb.WriteByte(':')
		sb.WriteString(k)
		sb.WriteByte('=')
		sb.WriteString(v)
	}
	return sb.String()
}

// genHeader builds a (mostly) valid multi-tenant header and then mutates it at byte level.
func genHeader(r *rand.Rand) (bool, string) {
	if r.Intn(50) == 0 {
		return false, ""
	}
	npool := 1 + r.Intn(3)
	pool := make([]string, npool)
	for i := range pool {
		pool[i] = genTenantID(r)
	}
	nparts := 1 + r.Intn(5)
	sharedMeta := ""
	if r.Intn(2) == 0 {
		sharedMeta = genMetadata(r)
	}
	parts := make([]string, nparts)
	for i := range parts {
		p := pool[r.Intn(npool)]
		switch r.Intn(5) {
		case 0, 1:
			p += sharedMeta
		case 2:
			p += genMetadata(r)
		}
		parts[i] = p
	}
	b := []byte(strings.Join(parts, "|"))
	for m := r.Intn(4); m > 0; m-- {
		switch op := r.Intn(6); {
		case op == 0 && len(b) > 0: // replace by a special byte
			b[r.Intn(len(b))] = specialBytes[r.Intn(len(specialBytes))]
		case op == 1 && len(b) > 0: // replace by a random byte
			b[r.Intn(len(b))] = byte(r.Intn(256))
		case op == 2: // insert
			i := r.Intn(len(b) + 1)
			c := specialBytes[r.Intn(len(specialBytes))]
			if r.Intn(2) == 0 {
				c = safeChars[r.Intn(len(safeChars))]
			}
			b = append(b[:i], append([]byte{c}, b[i:]...)...)
		case op == 3 && len(b) > 0: // delete
			i := r.Intn(len(b))
			b = append(b[:i], b[i+1:]...)
		case op == 4 && len(b) > 0: // duplicate a slice
			i := r.Intn(len(b))
			j := i + r.Intn(len(b)-i+1)
			dup := append([]byte{}, b[i:j]...)
			b = append(b[:j], append(dup, b[j:]...)...)
		case op == 5 && len(b) > 0: // truncate
			b = b[:r.Intn(len(b)+1)]
		}
	}
	return true, string(b)
}

// traceRec is one logged observation; TenantTrace.tla recomputes every field from `has`/`in`.
type traceRec struct {
	Has       bool     `json:"has"`
	In        []int    `json:"in"`
	Valid     string   `json:"valid"`
	ValidBad  int      `json:"validbad"`
	Trim      []int    `json:"trim"`
	Join      []int    `json:"join"`
	Normalize [][]int  `json:"normalize"`
	Single    observed `json:"single"`
	Multi     observed `json:"multi"`
	WithMeta  observed `json:"withmeta"`
	HTTP      observed `json:"http"`
	ValidMeta string   `json:"validmeta"`
	ParseMeta string   `json:"parsemeta"`
	MetaBad   int      `json:"metabad"`
	Pairs     [][][]int `json:"pairs"`
}

func observeTenant(has bool, s string) traceRec {
	rec := traceRec{Has: has, In: s2b(s)}
	rec.Valid, rec.ValidBad = classify(tenant.ValidTenantID(s))
	rec.Trim = s2b(tenant.TrimMetadata(s))
	parts := strings.Split(s, "|")
	rec.Join = s2b(tenant.JoinTenantIDs(parts))
	rec.Normalize = ss2b(tenant.NormalizeTenantIDs(append([]string{}, parts...)))
	ctx := ctxFor(has, s)
	rec.Single = obsStr(tenant.TenantID(ctx))
	rec.Multi = obsList(tenant.TenantIDs(ctx))
	t, m, err := tenant.ExtractWithMetadata(ctx)
	rec.WithMeta = obsWM(t, m, err)
	rec.Pairs = [][][]int{}
	if err == nil {
		for _, p := range pairsOf(m) {
			rec.Pairs = append(rec.Pairs, [][]int{s2b(p[0]), s2b(p[1])})
		}
	}
	id, hctx, herr := tenant.ExtractTenantIDFromHTTPRequest(httpReqFor(has, s))
	rec.HTTP = obsStr(id, herr)
	if herr == nil {
		if got, e := user.ExtractOrgID(hctx); e != nil || got != s {
			rec.HTTP.Err = "ctx-carries-other-org-id"
		}
	}
	rec.ValidMeta, _ = classify(tenant.ValidMetadata(s))
	_, perr := tenant.ParseMetadata(s)
	rec.ParseMeta, rec.MetaBad = classify(perr)
	return rec
}

type fixedInput struct {
	Has bool  `json:"has"`
	In  []int `json:"in"`
}

// TestRecordTenant: code -> spec. Writes $VERIF_TRACE (ndjson, one observation per line).
// VERIF_CORRUPT=n perturbs one logged field of the n-th record (binding self-test).
// VERIF_INPUTS=file replaces the generator by the inputs listed in the file (replay of a finding).
func TestRecordTenant(t *testing.T) {
	tracePath := os.Getenv("VERIF_TRACE")
	if tracePath == "" {
		t.Skip("VERIF_TRACE not set")
	}
	n := abs.EnvInt("VERIF_N", 2000)
	corrupt := envIntFor("VERIF_CORRUPT", "TRACE")
	res := &abs.Result{}
	w, err := abs.NewNDJSONWriter(tracePath)
	if err != nil {
		res.Fatal = err.Error()
		writeResult(t, res, "tenant_record")
		return
	}
	r := rand.New(rand.NewSource(abs.Seed()*7919 + 20))
	var fixed []fixedInput
	if p := os.Getenv("VERIF_INPUTS"); p != "" {
		if err := abs.ReadNDJSON(p, func(line []byte) error {
			var f fixedInput
			if err := json.Unmarshal(line, &f); err != nil {
				return err
			}
			fixed = append(fixed, f)
			return nil
		}); err != nil {
			res.Fatal = err.Error()
		}
		n = len(fixed)
	}
	mutatedAccepted := 0
	for i := 1; i <= n; i++ {
		has, s := false, ""
		if fixed != nil {
			has, s = fixed[i-1].Has, b2s(fixed[i-1].In)
		} else {
			has, s = genHeader(r)
		}
		var rec traceRec
		if p := guard(func() { rec = observeTenant(has, s) }); p != "" {
			res.Mismatch(abs.Mismatch{Sig: "tenant:panic", Case: map[string]any{"has": has, "in": s2b(s)}, Got: p, Want: "no panic"})
			continue
		}
		if i == corrupt {
			if rec.Multi.Ok {
				rec.Multi.Val = [][]int{{120}}
			} else {
				rec.Multi.Err = "corrupted"
			}
		}
		if err := w.Write(rec); err != nil {
			res.Fatal = err.Error()
			break
		}
		if rec.Multi.Ok {
			mutatedAccepted++
		}
		if i%997 == 1 {
			res.Sample(map[string]any{"in": s2b(s), "single": rec.Single.Err, "multi": rec.Multi.Err, "withmeta": rec.WithMeta.Err})
		}
	}
	if err := w.Close(); err != nil {
		res.Fatal = err.Error()
	}
	res.AddExtra("trace_records", w.N)
	res.AddExtra("trace_records_multi_ok", mutatedAccepted)
	writeResult(t, res, "tenant_record")
}
