\* C03 partition ring, quick: Mergeable contract laws + every mutator as a local CAS followed by a merge on a second replica (1 partition Active/Deleted x lock register, 1 owner of partition 1 or 2); pgc / pedit cases emitted
CONSTANTS
  NP = 1
  NO = 1
  NOwned = 2
  TsSet = {1, 2}
  PStates = {"Active"}
  LockTs = {0, 1}
  Lim2Set = {0, 1, 2, 3, 4, 5}
  NowSet = {2, 3}
  NSlices = 1
  Slice = 0
INIT Init
NEXT Next
INVARIANTS SeedLawsLight CaseLaws CaseContract EmitGC EmitEdit
CHECK_DEADLOCK FALSE
