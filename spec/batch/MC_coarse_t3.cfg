CONSTANTS
  MinKeys = 4
  MaxKeys = 4
  NI = 3
  MaxRF = 2
  Shape = "any"
  Grain = "call"
  Gate = FALSE
  EmptyFix = TRUE
  AllowCancel = TRUE
  EarlyExits = FALSE
  MaxConc = 3
  Spawn = "go"
  Record = FALSE
SPECIFICATION Spec
INVARIANTS TypeOK SingleSend ReturnsOnce SuccessMeansQuorum ErrorMeansNoQuorum ErrorIsReal ChannelErrorIsReal
           EarlyError LastAnswerError DecidedIsDelivered SuccessDelivered NoHang CalledExactly CleanupOnceAfterAll
PROPERTIES CleanupStable
CHECK_DEADLOCK TRUE
