"""C10 - batched quorum writes (ring.DoBatchWithOptions): success only with quorum on every key, an error
whenever a key ends without quorum (early / at the latest with the last answer / a real replica error),
exactly one return and always a return, exact callback arguments, cleanup once after all calls.

spec/batch/Batch.tla models the function at three granularities that share every definition:
  atomic  one action per access to a shared atomic counter / channel of batchTracker.record
  hook    one action per stretch between two ring.VerifYield points inside record
  call    one action per returning replica call
1. TLC decides the property's clauses (invariants, an action property, a liveness property under fairness) on
   the atomic-grain specification over every key->replica assignment (up to renaming), tolerance, outcome
   vector, cancellation point and interleaving of the tier's bounds; the same invariants on the coarse grain.
2. The model of the pinned code for an empty key list (EmptyFix = FALSE) must deadlock in TLC (finding F1);
   the property-compliant specification (EmptyFix = TRUE) is what the code is compared with.
3. spec -> code: TLC enumerates every behaviour of the gated specification (grain call, then grain hook) and
   harness/c10 TestReplay drives the real function through each of them, comparing after every step.
   Each behaviour also runs through the deprecated DoBatch wrapper (status codes from the specification's table of the
   isHTTPStatus4xx classification), on a real ring.Ring and on ring.ActivePartitionBatchRing over a real PartitionRing
   where these can produce the case.  Thorough: the caller's context ending at any hook point (MC_gen_hook_c), seeded
   -simulate samples of 2..4 keys x 6 replicas (BatchSim.tla), and tolerances outside the contract (minSuccess 0:
   MC_degenerate must be refuted by TLC, MC_gen_degenerate: the code must wait for the context exactly as that model does).
4. code -> spec: TestRace releases groups of callbacks simultaneously (real goroutines race inside record; the caller's
   context may end in the middle of such a group), logs only Release/Cancel/observations; BatchTrace.tla lets TLC infer the
   interleaving of the atomic steps.  Thorough: also on 3 keys x 4 calls and on sampled 2..4 keys x 6 calls (BatchTrace6.cfg).
5. The Go option (caller-supplied spawner) is part of the specification: constant Spawn = "deferred" adds the actions Begin(c) /
   BeginCleanup (the spawner starts the replica calls and the cleanup waiter when and in the order it likes; MC_coarse_d, MC_fine_d,
   MC_live_d), MC_neg_addlate (wait group armed inside the spawned function) must be refuted; bound code -> spec: TestRace in mode
   "deferred" hands DoBatchWithOptions a spawner that only queues, starts the queued functions in a seeded order, BatchTraceD.cfg.
Replay variants (what the specification does not depend on): spawner default / counting (exactly |calls|+1 invocations) / worker pool,
IsClientError custom / default, Cleanup nil, InstanceDesc.Id empty (replicas are told apart by address), operation Write / Read /
WriteNoExtend (the ring must be asked for the caller's), InstancesCount 0 / -1 / -2, rotation of the replication sets; indexes are
compared in the order the code passes them (ascending, CalledExactly).
"""
import os
import threading

import verif

PROPERTY = "C10"
META = {
    "level_text": "TLC decides the clauses (SingleSend, ReturnsOnce, SuccessMeansQuorum, ErrorMeansNoQuorum, ErrorIsReal, EarlyError, "
                  "LastAnswerError, NoHang, CalledExactly, CleanupOnceAfterAll, Termination under fairness) on a specification of "
                  "DoBatchWithOptions in which every access of batchTracker.record to a shared counter or channel is its own action, over "
                  "every key->replica assignment (up to replica renaming), every tolerance, every outcome vector in {ok, client error, "
                  "server error}, every cancellation point and every interleaving, within the tier's bounds (quick: 1 key x 3 replicas and "
                  "2 keys x 2 replicas at atomic grain; thorough: up to 3 keys x 3 replicas / 2 keys x 4 replicas at atomic grain, and at "
                  "the coarse grain 3 keys x 4 replicas, 4 keys x 3, 1 key x 5 replicas RF 5, 2 keys x 6 replicas). A model of the "
                  "pre-fix code (no completion signal for an empty key list) is kept as a negative control that TLC must refute. The real "
                  "function is bound in both directions: every behaviour of the driver-visible specification (one step per returning "
                  "call; one step per stretch between the VerifYield hooks inside record; thorough: also with the caller's context ending "
                  "at any hook point, and seeded -simulate samples of 2..4 keys x 6 replicas x up to 5 replicas per key) is replayed "
                  "through the real code in a synctest bubble with a comparison after every step (return value by error identity, cleanup "
                  "count, callback arguments, goroutine positions) - with a stub DoBatchRing, with a real ring.Ring and with "
                  "ring.ActivePartitionBatchRing over a real PartitionRing (keys routed past an inactive partition) where these can "
                  "produce the case, through DoBatchWithOptions and through the deprecated DoBatch wrapper with concrete status codes "
                  "taken from the specification's table of the isHTTPStatus4xx classification; runs with simultaneously released "
                  "callbacks (and the caller's context ending among them; thorough: up to 4 keys x 6 replica calls) are validated by TLC "
                  "against the atomic-grain specification. The Go option is modelled (Spawn = deferred: the spawner starts replica calls "
                  "and the cleanup waiter in any order at any time; Begin/BeginCleanup actions, the clauses and Termination hold; a model "
                  "arming the wait group inside the spawned function is refuted) and bound by runs in which a queueing spawner hands "
                  "control of every start to the driver, validated by TLC. Replay variants: default / counting (exact count) / pool "
                  "spawner, custom / default classifier, nil Cleanup, empty instance ids, three operations, InstancesCount <= 0 as "
                  "0, -1, -2; callback indexes compared in the code's order.",
    "level_note": "Trusted: TLC; testing/synctest quiescence (synctest.Wait) as 'nothing of the code can move'; the stub DoBatchRing "
                  "(returns exactly the case's replication sets and MaxErrors); error identity by pointer equality; the two yield hooks "
                  "sit where the specification's yield points are. Exhaustive bounds are small (<= 3 keys x 4 replica calls; 4 keys x 3; "
                  "5 calls for one key); 4 keys x 6 replicas x RF 5 is sampled, not enumerated. minSuccess >= 1 and non-empty "
                  "replication sets are assumed: ring.Ring's replication strategies and ActivePartitionBatchRing cannot produce anything "
                  "else (a hand-written DoBatchRing that does would make the call wait for the context). The context re-check every "
                  "10^4 keys is modelled for the first key only (batches < 10^4 keys). With the deferring spawner the driver cannot "
                  "choose WHICH queued replica call starts next (the closures are opaque and the code ranges over a map), only its "
                  "position in the queue: that direction is record/validate only, and which schedules are seen varies from run to run "
                  "(every one of them must be accepted). Two InstanceDescs with one address inside ONE replication set are not modelled.",
    "technique": "TLA+ specification (Batch.tla, three granularities; BatchSim.tla random cases) model-checked / simulated by TLC; "
                 "TLC-generated behaviours replayed into the real code (gen/replay, incl. scheduler-gated fine interleavings); recorded "
                 "racing runs validated by TLC (BatchTrace.tla)",
    "design_ref": "DESIGN.md 2 C10",
}



def _workers():
    """Workers per TLC process: two processes run side by side, so half of what lib/verif.py would give one."""
    if os.environ.get("VERIF_TLC_WORKERS"):
        return int(os.environ["VERIF_TLC_WORKERS"])
    total = getattr(verif, "default_workers", lambda: verif.NCPU)()
    return max(2, total // 2)


W = _workers()
HEAP = os.environ.get("VERIF_TLC_HEAP", "4g")

# actions that cannot fire in a given run by construction (not vacuity)
COVERAGE_EXEMPT = {"Resume", "Seg", "Observe", "MainEmpty", "Finished"}


def incon(why):
    raise verif.Inconclusive(why)


def sorted_copy(ctx, src, name):
    """TLC's output order depends on worker scheduling: sort it so that a seed fixes everything downstream."""
    lines = sorted(set(l for l in open(src) if l.strip()))
    p = ctx.path(name)
    with open(p, "w") as f:
        f.writelines(lines)
    return p, len(lines)


def model_check(ctx, cfg, timeout, coverage=False, exempt=("Begin", "BeginCleanup")):
    """exempt: actions that cannot fire in this config by construction (Spawn = "go": nothing is deferred)."""
    r = ctx.tlc("batch", "Batch", cfg=cfg + ".cfg", workers=W, timeout=timeout, coverage=coverage, heap=HEAP)
    ctx.require_tlc_ok(r, cfg)
    if coverage:
        zero = sorted(set(r.coverage_zero) - COVERAGE_EXEMPT - set(exempt))
        if zero:
            incon("%s: actions never taken (vacuous check): %s" % (cfg, zero))
    return r


def as_code_must_hang(ctx, cfg, expect):
    """The model of the pinned code (no step that returns for an empty key list) must violate the property in TLC."""
    r = ctx.tlc("batch", "Batch", cfg=cfg + ".cfg", workers=2, timeout=900, count=False, heap="1g")
    if r.timed_out or r.error:
        incon("%s: TLC failed: %s" % (cfg, r.error or "timeout"))
    if r.violated != expect:
        incon("%s: negative control - this model (pre-fix code / out-of-contract replication set) was expected to violate %s, "
              "TLC says %r" % (cfg, expect, r.violated))
    return "".join(r.trace)[-1200:]


class SpecStream(threading.Thread):
    """Model-checking runs (module Batch) proceed next to the generator / replay runs (modules BatchGen, BatchTrace:
    their scratch directories carry the module name, so the two streams never share one)."""

    def __init__(self, ctx, quick):
        super().__init__(daemon=True)
        self.ctx, self.quick, self.exc, self.f1_trace = ctx, quick, None, ""

    def run(self):
        ctx, quick = self.ctx, self.quick
        try:
            if os.environ.get("VERIF_C10_SKIP_MC"):     # development only (seed sweeps, mutation runs): binding without step 1
                ctx.inconclusive_note("model checking skipped (VERIF_C10_SKIP_MC): only the binding was exercised")
                return
            # the model of the pinned code deadlocks on an empty key list (F1); kept as the explanation of that disagreement class
            self.f1_trace = as_code_must_hang(ctx, "MC_ascode_empty", "Deadlock")
            fine = ["MC_fine_q1", "MC_fine_q2"] if quick else \
                   ["MC_fine_q1", "MC_fine_q2", "MC_fine_t1", "MC_fine_t2", "MC_fine_t3", "MC_fine_t4"]
            for cfg in fine:
                model_check(ctx, cfg, 1500 if quick else 7200, coverage=(not quick and cfg == "MC_fine_t1"))
            # a caller-supplied spawner (option Go) that starts the replica calls and the cleanup waiter when and in the order it likes;
            # and the model that arms the wait group inside the spawned function must be refuted (negative control)
            model_check(ctx, "MC_coarse_d", 1500 if quick else 7200)
            as_code_must_hang(ctx, "MC_neg_addlate", "CleanupAfterAll")
            if not quick:
                model_check(ctx, "MC_fine_d", 7200, coverage=True, exempt=())
                model_check(ctx, "MC_live_d", 7200)
            model_check(ctx, "MC_live_q" if quick else "MC_live_t", 1500 if quick else 7200)
            for cfg in (["MC_coarse_q"] if quick else ["MC_coarse_t", "MC_coarse_t5", "MC_coarse_t2", "MC_coarse_t3", "MC_coarse_t4"]):
                model_check(ctx, cfg, 1500 if quick else 7200)
            if not quick:
                as_code_must_hang(ctx, "MC_ascode_nohang", "NoHang")
                # second negative control: a replication set with minSuccess = 0 (no ring of dskit produces one) must be refuted too
                as_code_must_hang(ctx, "MC_degenerate", "NoHang")
        except BaseException as ex:   # re-raised in the main thread
            self.exc = ex


def generate(ctx, cfg, timeout):
    r = ctx.tlc("batch", "BatchGen", cfg=cfg + ".cfg", workers=W, timeout=timeout, heap=HEAP)
    ctx.require_tlc_ok(r, cfg)
    if r.emitted == 0:
        incon("%s emitted no behaviours" % cfg)
    return sorted_copy(ctx, r.out_path, cfg + ".sorted.ndjson")


def simulate(ctx, cfg, num, timeout):
    """Random behaviours of the gated specification on a universe too large to enumerate (BatchSim draws the case first)."""
    r = ctx.tlc("batch", "BatchSim", cfg=cfg + ".cfg", workers=W, timeout=timeout, heap=HEAP, deadlock=False,
                simulate="num=%d" % max(1, num // W), depth=120)
    ctx.require_tlc_ok(r, cfg)
    if r.emitted == 0:
        incon("%s emitted no behaviours" % cfg)
    return sorted_copy(ctx, r.out_path, cfg + ".sorted.ndjson")


def replay(ctx, paths, n, timeout, variants=1, corrupt=0, real_every=4, wrap_every=5):
    env = {"VERIF_IN": ",".join(paths), "VERIF_VARIANTS": variants, "VERIF_REAL_EVERY": real_every, "VERIF_WRAP_EVERY": wrap_every}
    if corrupt:
        env["VERIF_CORRUPT"] = corrupt
    res = ctx.run_harness("c10", "^TestReplay$", env=env, timeout=timeout)
    if res.get("cases") != n:
        incon("harness replayed %s of %d behaviours" % (res.get("cases"), n))
    return res


def race_and_validate(ctx, behaviours, ntraces, timeout, corrupt=0, cfg="BatchTrace.cfg", mode="", tag="race", maxgroup=0):
    """cfg: BatchTrace.cfg (<= 4 replica calls), BatchTrace6.cfg (<= 6), BatchTraceD.cfg (deferring o.Go, mode "deferred")."""
    trace = ctx.path(tag + ".trace.ndjson")
    env = {"VERIF_IN": behaviours, "VERIF_TRACE": trace, "VERIF_NTRACES": ntraces}
    if mode:
        env["VERIF_RACE_MODE"] = mode
    if maxgroup:
        env["VERIF_RACE_MAXGROUP"] = maxgroup
    if corrupt:
        env["VERIF_CORRUPT"] = corrupt
    res = ctx.run_harness("c10", "^TestRace$", env=env, timeout=timeout)
    traces = verif.read_ndjson(trace)
    if not traces or len(traces) != res.get("cases"):
        incon("TestRace recorded %d traces, reported %s" % (len(traces), res.get("cases")))
    r = ctx.tlc("batch", "BatchTrace", cfg=cfg, workers=W, timeout=timeout, deadlock=False, heap=HEAP,
                extra_files={trace: "trace.ndjson"})
    ctx.require_tlc_ok(r, "trace validation")
    accepted, reached = set(), {}
    for v in verif.read_ndjson(r.out_path):
        if "accepted" in v:
            accepted.add(v["id"])
        else:
            reached[v["id"]] = max(reached.get(v["id"], 0), v["reached"])
    rejected = []
    for t in traces:
        if t["id"] in accepted:
            continue
        at = reached.get(t["id"], 0)          # number of events explained; event at+1.. cannot be
        ev = t["ev"]
        bad = next((e for e in ev[at:] if e["e"] == "obs"), ev[-1])
        group = next((e for e in reversed(ev[:ev.index(bad)]) if e["e"] != "obs"), {"e": "start"})
        what = "return(%s)" % ",".join(sorted(group.get("os") or [])) if group["e"] == "rel" else group["e"]
        rejected.append({
            "sig": "%s:observation has no explanation after %s: returned=%s kind=%s cleaned=%s"
                   % (tag, what, bad.get("returned"), bad.get("kind"), bad.get("cleaned")),
            "case": t, "got": bad, "want": "an interleaving of the atomic steps of Batch.tla that shows this observation",
            "note": "events 1..%d of the trace are explained by the specification" % at})
    res["mismatches"] = (res.get("mismatches") or []) + rejected
    def racing(t):
        ev = t["ev"]
        if any(e["e"] == "rel" and len(e["cs"]) > 1 for e in ev):
            return True
        if any(a["e"] == "rel" and b["e"] == "cancel" for a, b in zip(ev, ev[1:])):     # the context ends among the answers
            return True
        kinds = [e["e"] for e in ev]            # the cleanup waiter was started before one of the replica calls
        return "beginc" in kinds and "begin" in kinds[kinds.index("beginc"):]
    res["nontrivial"] = sum(1 for t in traces if racing(t))
    return res, len(traces), len(rejected)


def run(ctx):
    quick = ctx.tier == "quick"
    ctx.rule = ("a case is one complete behaviour of the gated specification: (key->replica sets up to replica renaming, tolerance per key, "
                "Get error / no instances, outcome of every call in {ok, cerr, serr}, completion order - or, at grain hook, the interleaving "
                "of the stretches between yield points - and cancellation point); distinct = distinct TLC end states (the history is part of "
                "the state); non-trivial = at least 2 replica calls and at least one failing call or a cancellation. Race traces: distinct "
                "seeded samples of those behaviours with consecutive returns merged into simultaneous groups; non-trivial = has a group of >= 2, "
                "the context ending inside a group, or (deferring spawner) the cleanup waiter started before a replica call.")
    ctx.assumptions = ["synctest.Wait() quiescence = no goroutine of the call can move",
                       "stub DoBatchRing returns exactly the case's replication sets / MaxErrors; minSuccess >= 1, replication sets non-empty",
                       "error identity compared by pointer equality; VerifYield hooks sit at the specification's yield points",
                       "bounds (atomic grain): <= 3 keys x 3 replica calls (2 concurrent), 2 keys x 4 replica calls RF 3 (thorough); 1 key x 3, 2 keys x 2 (quick); "
                       "coarse grain / replay: up to 3 keys x 4 calls RF <= 3, 4 keys x 3 calls, 1 key x 5 calls RF 5, 2 keys x 6 calls RF 3"]
    ctx.exhaustive = True
    corrupt = int(os.environ.get("VERIF_C10_CORRUPT", "0"))   # development self-test: falsify an expected output / a logged field

    # 1.+2. the property on the specification, and the deadlock of the model of the pinned code - next to 3. and 4.
    specs = SpecStream(ctx, quick)
    specs.start()
    try:
        # 3. spec -> code
        call_path, n_call = generate(ctx, "MC_gen_call_q", 1500)
        hook_path, n_hook = generate(ctx, "MC_gen_hook_q", 1500)
        # grain hook with the caller's context ending at any hook point (1 key x 2 replicas; thorough: MC_gen_hook_c, 2 keys)
        hookc_path, n_hookc = generate(ctx, "MC_gen_hook_cq", 1500)
        n_hook += n_hookc
        res = replay(ctx, [call_path, hook_path, hookc_path], n_call + n_hook, 1200, variants=1 if quick else 3, corrupt=corrupt,
                     real_every=4 if quick else 1, wrap_every=5 if quick else 1)
        f1 = [m for m in res.get("mismatches") or [] if m.get("sig") == "empty-keys:never-returns"]
        if f1:
            specs.join()            # the explanation comes from the model of the pinned code
            for m in f1:
                m["repro"] = ("ring.DoBatchWithOptions(context.Background(), ring.Write, r, nil, cb, ring.DoBatchOptions{}) never returns "
                              "(any DoBatchRing r with InstancesCount() > 0): rpcsPending starts at 0, nobody sends on tracker.done")
                m["spec_counterexample"] = ("TLC on the model of the pinned code (MC_ascode_empty.cfg, EmptyFix = FALSE): "
                                            "Deadlock reached: " + specs.f1_trace)
        ctx.absorb(res, "replay (grain call: one step per returning replica call; grain hook: one step per stretch between yield points)")
        if not quick:
            p1, n1 = generate(ctx, "MC_gen_call_t", 7200)
            p2, n2 = generate(ctx, "MC_gen_hook_t", 7200)
            p3, n3 = generate(ctx, "MC_gen_call_t2", 7200)
            p4, n4 = generate(ctx, "MC_gen_hook_c", 7200)      # grain hook with the caller's context ending at any hook point
            res = replay(ctx, [p1, p2, p3, p4], n1 + n2 + n3 + n4, 3000, real_every=1, wrap_every=3)
            ctx.absorb(res, "replay (thorough universe)")
            n_call, n_hook = n_call + n1 + n3, n_hook + n2 + n4
            # sampled behaviours of 2..4 keys x 6 replicas x up to 5 replicas per key (seeded)
            p5, n5 = simulate(ctx, "MC_sim_nocancel", 6000, 3000)
            p6, n6 = simulate(ctx, "MC_sim_cancel", 3000, 3000)
            # outside the contract (tolerance = number of replicas, i.e. minSuccess 0): the model says the call then waits for
            # the context; the code must do exactly what the model says there as well
            p7, n7 = generate(ctx, "MC_gen_degenerate", 3000)
            res = replay(ctx, [p5, p6, p7], n5 + n6 + n7, 3000, real_every=1, wrap_every=3)
            ctx.absorb(res, "replay (sampled, 2..4 keys x 6 replicas; degenerate tolerances)")
            ctx.extra["behaviours_sampled_large_universe"] = n5 + n6
            ctx.extra["behaviours_degenerate_tolerance"] = n7
        ctx.extra["behaviours_grain_call"] = n_call
        ctx.extra["behaviours_grain_hook"] = n_hook

        # 4. code -> spec
        res, ntr, nrej = race_and_validate(ctx, call_path, 100 if quick else 600, 1500 if quick else 7200,
                                           corrupt=(3 if corrupt else 0))
        ctx.absorb(res, "race traces validated by BatchTrace.tla")
        # ... the same with an o.Go that only queues: the driver starts the spawned functions in a seeded order (the cleanup
        # waiter before, between or after the replica calls; calls begun after the return), BatchTrace.tla with Spawn = "deferred"
        res, ntr_d, nrej_d = race_and_validate(ctx, call_path, 60 if quick else 400, 1500 if quick else 7200,
                                               cfg="BatchTraceD.cfg", mode="deferred", tag="race-deferred-spawner")
        ctx.absorb(res, "race traces with a deferring spawner validated by BatchTrace.tla")
        ntr, nrej = ntr + ntr_d, nrej + nrej_d
        ctx.extra["race_traces_deferred_spawner"] = ntr_d
        if not quick:
            # free-running races on the larger universes: 3 keys x 4 replica calls (enumerated behaviours), 2..4 keys x 6 calls (sampled)
            res, n_a, r_a = race_and_validate(ctx, p1, 300, 7200, tag="race-3keys", maxgroup=3)
            ctx.absorb(res, "race traces (3 keys x 4 replica calls) validated by BatchTrace.tla")
            res, n_b, r_b = race_and_validate(ctx, p5, 150, 7200, cfg="BatchTrace6.cfg", tag="race-6calls", maxgroup=3)
            ctx.absorb(res, "race traces (2..4 keys x 6 replica calls) validated by BatchTrace.tla")
            res, n_c, r_c = race_and_validate(ctx, p6, 100, 7200, cfg="BatchTrace6.cfg", tag="race-6calls-cancel", maxgroup=3)
            ctx.absorb(res, "race traces (2..4 keys x 6 replica calls, context ending) validated by BatchTrace.tla")
            ntr, nrej = ntr + n_a + n_b + n_c, nrej + r_a + r_b + r_c
            ctx.extra["race_traces_large_universe"] = n_a + n_b + n_c
        ctx.extra["race_traces"] = ntr
        ctx.extra["race_traces_rejected"] = nrej
    finally:
        specs.join()
    if specs.exc is not None:
        raise specs.exc
    return "model_checking"
