--------------------------- MODULE RingMergeLaws ---------------------------
(***************************************************************************)
(* C03, instance ring - TLC decides the algebraic laws of RingMerge!Merge  *)
(* on an exhaustively enumerated universe.  One state per operand tuple:   *)
(* Init enumerates `a`, the single Next step adds (b, c) so that TLC's     *)
(* workers share the tuples.  Arity = 3: all triples (Assoc, Convergence,  *)
(* DeltaOther + every pair law on (a,b)); Arity = 2: all pairs.            *)
(* When EmitConv is TRUE every triple that satisfies the provisos is also  *)
(* printed with the common descriptor all schedules must fold to, for      *)
(* execution on real *ring.Desc objects (harness/c03 TestConvergence).     *)
(***************************************************************************)
EXTENDS RingMerge, Json

CONSTANTS TsSet,     \* timestamps of the universe
          LiveSt,    \* live states of the universe
          Arity,     \* 2 or 3
          EmitConv   \* print convergence cases

VARIABLES a, b, c, phase
vars == <<a, b, c, phase>>

U    == DescsOf(TsSet, LiveSt, FALSE)   \* normalised descriptors (receivers, stored values)
URaw == DescsOf(TsSet, LiveSt, TRUE)    \* what may arrive

Init == /\ a \in U
        /\ b = Empty /\ c = Empty
        /\ phase = "seed"
Next == /\ phase = "seed"
        /\ phase' = "case"
        /\ a' = a
        /\ b' \in U
        /\ c' \in IF Arity = 3 THEN U ELSE {Empty}
Spec == Init /\ [][Next]_vars

Case == phase = "case"

PairLaws ==   \* (with Arity = 3 each pair occurs once with c = Empty)
    Case /\ c = Empty =>
            /\ Idem(a, b)
            /\ NilIsNoop(a, b)
            /\ NewestWins(a, b)
            /\ RemovalWinsTies(a, b)
            /\ ChangeShape(a, b, FALSE, 0)
            /\ Provisos({a, b}) => /\ CommB(a, b)
                                   /\ NilConverseB(a, b)
                                   /\ DeltaSelfB(a, b)
TripleLaws ==
    Case /\ Arity = 3 /\ Provisos({a, b, c}) =>
            /\ AssocB(a, b, c)
            /\ DeltaOtherB(a, b, c)
            /\ ConvergenceB(a, b, c)

(* Raw arguments (LEFT entries that still list tokens) behave like their    *)
(* normal form; checked for all pairs of the universe in the seed states.   *)
RawLaws ==
    phase = "seed" => \A o \in URaw : /\ NormalizeInvisible(a, o)
                                      /\ Idem(a, o)
                                      /\ RemovalWinsTies(a, o)
                                      /\ ChangeShape(a, o, TRUE, 3)

(* The provisos are needed: without them commutativity fails (equal         *)
(* timestamp, different content: each side keeps its own).  MC_laws_noproviso.cfg *)
(* expects TLC to VIOLATE this.                                             *)
CommWithoutProvisos == Case => CommB(a, b)

(* Non-vacuity: the provisos do not filter everything away (checked by the  *)
(* driver through the number of emitted cases) and the universe really      *)
(* contains the interesting shapes.                                         *)
JEntry(e) == [ts |-> e.ts, state |-> e.state, toks |-> e.toks]
JDesc(d)  == [i \in Inst |-> JEntry(d[i])]
EmitConvergence ==
    Case /\ EmitConv /\ Arity = 3 /\ Provisos({a, b, c})
         => PrintT(ToJson([kind |-> "conv", u |-> <<JDesc(a), JDesc(b), JDesc(c)>>,
                           target |-> JDesc(Target(a, b, c))]))
=============================================================================
